// Drive a script one step per loop pass from INSIDE a kForever loop.
// (runLoop(kOnce) is not "one pass": on return it drains deferred tasks for up to 100
// generations. A self-reposting runNext task keeps getWaitTime()==0, so every pass is
// epoll_wait(0) -> expired timers -> ready fd events -> next-funcs (our step).)
#pragma once
#include <functional>
#include <tbox/event/loop.h>

namespace vh {
struct LoopDriver {
    tbox::event::Loop *loop;
    std::function<bool()> step;     // performs one scripted step; false = script finished
    explicit LoopDriver(tbox::event::Loop *l) : loop(l) {}
    void post() {
        loop->runNext([this] {
            if (step()) post();
            else loop->exitLoop();
        }, "verif-driver");
    }
    void run() { post(); loop->runLoop(tbox::event::Loop::Mode::kForever); }
};
}  // namespace vh
