// Common helpers for the verification harnesses: line protocol, hex, word splitting.
#pragma once
#include <cstdint>
#include <cstdio>
#include <cstdlib>
#include <iostream>
#include <sstream>
#include <string>
#include <vector>

namespace vh {

inline std::vector<std::string> words(const std::string &line) {
    std::vector<std::string> w; std::istringstream is(line); std::string t;
    while (is >> t) w.push_back(t);
    return w;
}

inline std::string hex(const uint8_t *p, size_t n) {
    if (n == 0) return "-";
    static const char *d = "0123456789abcdef";
    std::string s; s.reserve(n * 2);
    for (size_t i = 0; i < n; ++i) { s.push_back(d[p[i] >> 4]); s.push_back(d[p[i] & 15]); }
    return s;
}
inline std::string hex(const std::vector<uint8_t> &v) { return hex(v.data(), v.size()); }
inline std::string hex(const std::string &v) { return hex((const uint8_t*)v.data(), v.size()); }

inline int hexval(char c) {
    if (c >= '0' && c <= '9') return c - '0';
    if (c >= 'a' && c <= 'f') return c - 'a' + 10;
    if (c >= 'A' && c <= 'F') return c - 'A' + 10;
    return -1;
}
// returns false on malformed hex
inline bool unhex(const std::string &s, std::vector<uint8_t> &out) {
    out.clear();
    if (s == "-") return true;
    if (s.size() % 2) return false;
    for (size_t i = 0; i < s.size(); i += 2) {
        int a = hexval(s[i]), b = hexval(s[i + 1]);
        if (a < 0 || b < 0) return false;
        out.push_back((uint8_t)(a * 16 + b));
    }
    return true;
}
inline bool to_u64(const std::string &s, uint64_t &v) {
    if (s.empty()) return false;
    v = 0;
    for (char c : s) { if (c < '0' || c > '9') return false; v = v * 10 + (c - '0'); }
    return true;
}
inline bool to_i64(const std::string &s, int64_t &v) {
    if (s.empty()) return false;
    bool neg = s[0] == '-'; uint64_t u;
    if (!to_u64(neg ? s.substr(1) : s, u)) return false;
    v = neg ? -(int64_t)u : (int64_t)u; return true;
}

}  // namespace vh
