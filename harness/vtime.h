// Virtual clocks for the harnesses, by libc interposition (no change to the repo needed):
// while vt::enabled, CLOCK_MONOTONIC*/CLOCK_BOOTTIME read vt::mono_ns and CLOCK_REALTIME*,
// gettimeofday() and time() read vt::wall_ns. Include in exactly one translation unit.
#pragma once
#include <dlfcn.h>
#include <sys/time.h>
#include <time.h>
#include <cstdint>

namespace vt {
static volatile bool enabled = false;
static volatile int64_t mono_ns = 0;
static volatile int64_t wall_ns = 0;
inline void enable(int64_t mono_ms, int64_t wall_ms) { mono_ns = mono_ms * 1000000LL; wall_ns = wall_ms * 1000000LL; enabled = true; }
inline void disable() { enabled = false; }
inline void advance_ms(int64_t ms) { mono_ns += ms * 1000000LL; wall_ns += ms * 1000000LL; }
inline void advance_mono_ms(int64_t ms) { mono_ns += ms * 1000000LL; }
inline void set_wall_ms(int64_t ms) { wall_ns = ms * 1000000LL; }
inline int64_t mono_ms() { return mono_ns / 1000000LL; }
inline int64_t wall_ms() { return wall_ns / 1000000LL; }
typedef int (*cg_t)(clockid_t, struct timespec *);
typedef int (*gtod_t)(struct timeval *, void *);
typedef time_t (*time_fn_t)(time_t *);
}  // namespace vt

extern "C" int clock_gettime(clockid_t id, struct timespec *ts) {
    static vt::cg_t real = (vt::cg_t)dlsym(RTLD_NEXT, "clock_gettime");
    if (vt::enabled && ts) {
        int64_t v;
        switch (id) {
            case CLOCK_MONOTONIC: case CLOCK_MONOTONIC_RAW: case CLOCK_MONOTONIC_COARSE: case CLOCK_BOOTTIME: v = vt::mono_ns; break;
            case CLOCK_REALTIME: case CLOCK_REALTIME_COARSE: v = vt::wall_ns; break;
            default: return real(id, ts);
        }
        ts->tv_sec = v / 1000000000LL; ts->tv_nsec = v % 1000000000LL;
        return 0;
    }
    return real(id, ts);
}
extern "C" int gettimeofday(struct timeval *tv, void *tz) {
    static vt::gtod_t real = (vt::gtod_t)dlsym(RTLD_NEXT, "gettimeofday");
    if (vt::enabled && tv) {
        int64_t v = vt::wall_ns;
        tv->tv_sec = v / 1000000000LL; tv->tv_usec = (v % 1000000000LL) / 1000;
        if (tz) { struct timezone *z = (struct timezone *)tz; z->tz_minuteswest = 0; z->tz_dsttime = 0; }
        return 0;
    }
    return real(tv, tz);
}
extern "C" time_t time(time_t *t) {
    static vt::time_fn_t real = (vt::time_fn_t)dlsym(RTLD_NEXT, "time");
    if (vt::enabled) { time_t v = (time_t)(vt::wall_ns / 1000000000LL); if (t) *t = v; return v; }
    return real(t);
}
