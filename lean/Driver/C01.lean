/- C01 driver: trace acceptor.  Input per case: op lines, then the implementation's output lines
prefixed "T ", then "end".
(i) sequentialised ops: every op is mapped to model steps (each checked with `valid`); the lines the
    model predicts (run ids handed out, cancel results, executions with the executing thread, loop
    state after a pass) must equal the implementation's lines one by one.
(ii) `stress …` ops: the recorded history (`H …` lines) is checked against the specification:
    exactly once (or never, when cancelled), per-submitter FIFO, loop thread, no lost wake-up.
Prints `ok …` or `reject <reason>`. -/
import TboxModel.Util
import TboxModel.C01.Spec
open Tbox.Util Tbox.C01

/-- script items of a callable: model acts plus "thread t submits template k right now" -/
inductive XAct where
  | act (a : Act)
  | cross (t k : Nat)
deriving Repr

def nThreads : Nat := 4

def parseXAct (w : String) : Option XAct :=
  match w.toList with
  | ['x'] => some (.act .exit)
  | 'i' :: r => (String.ofList r).toNat?.bind fun k => if k < 64 then some (.act (.inLoop k)) else none
  | 'n' :: r => (String.ofList r).toNat?.bind fun k => if k < 64 then some (.act (.next k)) else none
  | 'c' :: r => (String.ofList r).toNat?.map fun id => .act (.cancel id)
  | 'w' :: r =>
      match (String.ofList r).splitOn "." with
      | [t, k] => do
          let t ← t.toNat?; let k ← k.toNat?
          if t < nThreads ∧ k < 64 then some (.cross t k) else none
      | _ => none
  | _ => none

def parseBody (w : String) : Option (List XAct) :=
  if w == "-" then some [] else do
    let l ← (w.splitOn ",").mapM parseXAct
    if l.isEmpty ∨ l.length > 16 then none else some l

def stripBody (b : List XAct) : List Act :=
  b.filterMap fun x => match x with | .act a => some a | .cross _ _ => none

structure TAcc where
  s : State := init
  progs : List (Nat × List XAct) := []        -- template table
  bodies : List (Nat × List XAct) := []       -- run id → script captured at submission (current loop object)
  tl : List String := []
  tags : List String := []
  err : Option String := none
  nops : Nat := 0
  late : Option (Nat × Nat) := none           -- a submitter blocked on lock_ (thread, template)
  fuel : Nat := 400000
  runs : Nat := 0                             -- loop starts on this loop object
  execs : Nat := 0

def TAcc.ext (a : TAcc) (k : Nat) : List XAct := (a.progs.lookup k).getD []
def TAcc.cfg (a : TAcc) : Cfg := fixedCfg fun k => stripBody (a.ext k)
def TAcc.fail (a : TAcc) (m : String) : TAcc := if a.err.isSome then a else { a with err := some s!"op#{a.nops} {m}" }
def TAcc.tag (a : TAcc) (t : String) : TAcc := if a.tags.contains t then a else { a with tags := a.tags ++ [t] }

def expectLine (a : TAcc) (want : String) : TAcc :=
  if a.err.isSome then a else
  match a.tl with
  | l :: rest => if l == want then { a with tl := rest } else a.fail s!"impl=[{l}] model=[{want}]"
  | [] => a.fail s!"impl=<missing> model=[{want}]"

/-- apply one model step; it must be enabled -/
def doStep (a : TAcc) (st : Step) : TAcc :=
  if a.err.isSome then a else
  if valid a.s st then { a with s := step a.cfg a.s st } else a.fail s!"driver: model step {repr st} not enabled"

def phaseName : Phase → String
  | .idle => "idle" | .poll => "poll" | .pre => "pre" | .wake => "wake" | .next => "next" | .drain => "drain" | .dead => "dead"

/-- cross-thread runInLoop as a model step + expected `S id` line -/
def crossSubmit (a : TAcc) (t k : Nat) (suffix : String) : TAcc :=
  let id := a.s.inAlloc + 2
  let a := if a.s.keepRunning == false && (a.s.phase == .wake || a.s.phase == .next) then a.tag "submit-while-exiting" else a
  let a := if a.s.phase == .idle && a.runs > 0 then a.tag "submit-between-runs" else a
  let a := doStep a (.submit t k)
  expectLine { a with bodies := (id, a.ext k) :: a.bodies } ("S " ++ toString id ++ suffix)

/-- the script of the callable that was just popped -/
def runScript (a : TAcc) (b : List XAct) : TAcc :=
  b.foldl (fun a x =>
    if a.err.isSome then a else
    match x with
    | .act (.inLoop k) =>
        let id := a.s.inAlloc + 2
        expectLine { (doStep a .act) with bodies := (id, a.ext k) :: a.bodies } ("S " ++ toString id)
    | .act (.next k) =>
        let id := a.s.nextAlloc + 2
        expectLine { (doStep a .act) with bodies := (id, a.ext k) :: a.bodies } ("S " ++ toString id)
    | .act (.cancel id) =>
        let r := cancelRet a.s id
        let a := a.tag (if r then (if hasId a.s.tmpQ id then "cancel-batch-hit" else "cancel-queue-hit")
                        else if id ∈ a.s.executed then "cancel-after-exec" else if id ∈ idsOf a.s.dQ then "cancel-in-drain-miss" else "cancel-miss")
        expectLine (doStep a .act) ("C " ++ toString id ++ (if r then " 1" else " 0"))
    | .act .exit => (doStep a .act).tag "exit-in-task"
    | .cross t k =>
        if t ≥ nThreads || t == a.s.loopTid || a.late.isSome || (a.s.phase == .drain && a.s.destroying) then
          expectLine a "W skip"
        else if a.s.phase == .drain then
          expectLine ({ a with late := some (t, k) }.tag "submit-blocked-by-drain") "W blocked"
        else crossSubmit (a.tag "cross-mid-batch") t k "") a

/-- a callable was popped by execFront/drainExec: expect its `E` line, run its script -/
def afterPop (a : TAcc) : TAcc :=
  if a.err.isSome then a else
  match a.s.log with
  | .exec id tid :: _ =>
      if a.fuel = 0 then a.fail "driver fuel exhausted (runaway program)" else
      let a := expectLine { a with fuel := a.fuel - 1, execs := a.execs + 1 } s!"E {id} {tid}"
      runScript a ((a.bodies.lookup id).getD [])
  | _ => a.fail "driver: no exec event after pop"

def batch (a : TAcc) : Nat → TAcc
  | 0 => a.fail "driver: batch fuel"
  | n + 1 =>
    if a.err.isSome then a else
    if valid a.s .execFront then batch (afterPop (doStep a .execFront)) n else a

def drain (a : TAcc) (gens : Nat) : Nat → TAcc
  | 0 => a.fail "driver: drain fuel"
  | n + 1 =>
    if a.err.isSome then a else
    if valid a.s .drainGen then drain (doStep a .drainGen) (gens + 1) n
    else if valid a.s .drainExec then
      drain (afterPop ((doStep a .drainExec).tag (if a.s.destroying then "exec-in-destructor" else "exec-in-exit-drain"))) gens n
    else
      let a := if gens ≥ 2 then a.tag "drain-generations>=2" else a
      let a := if gens ≥ 100 then a.tag "drain-bound-hit" else a
      doStep a .drainEnd

def finishExit (a : TAcc) : TAcc :=
  let a := expectLine a "P exited"
  match a.late with
  | some (t, k) => crossSubmit { a with late := none } t k " late"
  | none => a

def onePass (a : TAcc) (stop : Bool) : TAcc :=
  let a := doStep a .passBegin
  let a := if stop then doStep a (.cbAct .exit) else a
  let a := if a.s.wakeSeen then
             doStep (if a.runs ≥ 2 then a.tag "wake-after-rerun" else a.tag "wake") .passWake
           else doStep (if !a.s.inLoopQ.isEmpty then a.tag "UNWOKEN" else a) .passSkip
  let a := batch a 100000
  let a := doStep a .passNext
  let a := if !a.s.tmpQ.isEmpty then a.tag "next-batch" else a
  let a := batch a 100000
  let a := doStep a .passEnd
  if a.err.isSome then a else
  if a.s.phase == .poll then expectLine a "P parked"
  else finishExit (drain a 0 1000000)

def opDestroy (a : TAcc) (t : Nat) : TAcc :=
  let a := doStep a (.destroy t)
  let a := drain a 0 1000000
  let a := expectLine a "P destroyed"
  let a := if !(pend a.s).isEmpty then a.tag "dropped-after-100-generations" else a
  { a with s := init, bodies := [], runs := 0 }

def thr (w : String) : Option Nat := w.toNat?.bind fun t => if t < nThreads then some t else none
def tmpl (w : String) : Option Nat := w.toNat?.bind fun k => if k < 64 then some k else none

def stepOp (a : TAcc) (line : String) : TAcc :=
  if a.err.isSome then a else
  let first := a.nops == 0
  let a := { a with nops := a.nops + 1 }
  let idle := a.s.phase == .idle
  let bad := expectLine a "bad-op"
  match words line with
  | ["engine", e] => if first && (e == "epoll" || e == "select") then expectLine (a.tag e) "P engine" else bad
  | ["prog", k, b] =>
      match tmpl k, parseBody b with
      | some k, some b => expectLine { a with progs := (k, b) :: a.progs } "P prog"
      | _, _ => bad
  | ["sub", t, k] =>
      match thr t, tmpl k with
      | some t, some k => if !idle && t == a.s.loopTid then bad else crossSubmit a t k ""
      | _, _ => bad
  | ["next", t, k] =>
      match thr t, tmpl k with
      | some t, some k =>
          if !idle then bad else
          let id := a.s.nextAlloc + 2
          expectLine { (doStep a (.idleAct t (.next k))) with bodies := (id, a.ext k) :: a.bodies } ("S " ++ toString id)
      | _, _ => bad
  | ["cancel", t, id] =>
      match thr t, id.toNat? with
      | some t, some id =>
          if !idle then bad else
          let r := cancelRet a.s id
          expectLine ((doStep a (.idleAct t (.cancel id))).tag (if r then "cancel-idle-hit" else "cancel-miss")) ("C " ++ toString id ++ (if r then " 1" else " 0"))
      | _, _ => bad
  | ["exit", t] =>
      match thr t with
      | some t => if !idle then bad else expectLine (doStep a (.idleAct t .exit)) "P exit"
      | none => bad
  | ["run", m, t] =>
      match thr t with
      | some t =>
          if !idle || !(m == "once" || m == "forever") then bad else
          let a := if a.runs ≥ 1 then a.tag "rerun" else a
          let a := if !a.s.inLoopQ.isEmpty then a.tag "start-with-queued-work" else a
          let a := if m == "once" then a.tag "once" else a
          expectLine { (doStep a (.loopStart t (m == "forever"))) with runs := a.runs + 1 } "P running"
      | none => bad
  | ["pass"] => if idle then bad else onePass a false
  | ["stop"] => if idle then bad else onePass a true
  | ["destroy", t] =>
      match thr t with
      | some t => if !idle then bad else opDestroy a t
      | none => bad
  | _ => bad

def finalize (a : TAcc) : TAcc :=
  if a.err.isSome then a else
  let a := { a with nops := a.nops + 1 }
  let a := if a.s.phase != .idle then onePass a true else a
  opDestroy a 0

/-! ### stress histories -/

structure Key where
  owner : Nat
  entry : String
deriving BEq

structure KS where
  key : Key
  submitted : Nat := 0
  lastSeq : Nat := 0
  executed : Nat := 0
  cancelled : List Nat := []

structure SAcc where
  ks : List KS := []
  err : Option String := none
  lost : Nat := 0
  total : Nat := 0
  doneSeen : Bool := false

def SAcc.upd (a : SAcc) (k : Key) (f : KS → KS) : SAcc :=
  if a.ks.any (·.key == k) then { a with ks := a.ks.map fun x => if x.key == k then f x else x }
  else { a with ks := f { key := k } :: a.ks }

def SAcc.get (a : SAcc) (k : Key) : KS := (a.ks.find? (·.key == k)).getD { key := k }

def stressLine (a : SAcc) (l : String) : SAcc :=
  if a.err.isSome || a.doneSeen then a else
  match words l with
  | ["H", "sub", o, e, n] =>
      match o.toNat?, n.toNat? with
      | some o, some n => a.upd ⟨o, e⟩ fun x => { x with submitted := n }
      | _, _ => { a with err := some s!"unparsable [{l}]" }
  | ["H", "c", o, e, q] =>
      match o.toNat?, q.toNat? with
      | some o, some q => a.upd ⟨o, e⟩ fun x => { x with cancelled := q :: x.cancelled }
      | _, _ => { a with err := some s!"unparsable [{l}]" }
  | ["H", "x", o, e, q, tid] =>
      match o.toNat?, q.toNat? with
      | some o, some q =>
          let x := a.get ⟨o, e⟩
          if tid != "0" then { a with err := some s!"task {o}/{e}/{q} executed on thread {tid}, not on the loop thread" }
          else if x.cancelled.contains q then { a with err := some s!"task {o}/{e}/{q} executed although cancel() returned true" }
          else if q == 0 || q > x.submitted then { a with err := some s!"task {o}/{e}/{q} executed but never submitted" }
          else if q ≤ x.lastSeq then
            { a with err := some s!"task {o}/{e}/{q} executed after {o}/{e}/{x.lastSeq}: executed twice or out of submission order" }
          else { a.upd ⟨o, e⟩ (fun x => { x with lastSeq := q, executed := x.executed + 1 }) with total := a.total + 1 }
      | _, _ => { a with err := some s!"unparsable [{l}]" }
  | ["H", "lost", n] => { a with lost := n.toNat?.getD 1 }
  | ["H", "done", _] => { a with doneSeen := true }
  | _ => { a with err := some s!"unexpected history line [{l}]" }

def stressVerdict (a : SAcc) : Option String :=
  match a.err with
  | some e => some e
  | none =>
    if !a.doneSeen then some "history incomplete (no `H done`)" else
    match a.ks.find? (fun x => x.executed + x.cancelled.length != x.submitted) with
    | some x => some s!"submitter {x.key.owner}/{x.key.entry}: {x.submitted} submitted, {x.executed} executed, {x.cancelled.length} cancelled: task(s) dropped"
    | none =>
      if a.lost > 0 then some s!"LOST WAKE-UP: {a.lost} time(s) no task was executed for 300 ms although tasks were pending and the loop was running"
      else none

/-- consume the history of one stress op from the implementation lines -/
def stressOp (a : TAcc) : TAcc :=
  if a.err.isSome then a else
  let a := { a with nops := a.nops + 1 }
  let (h, rest) := a.tl.span (fun l => !(l.startsWith "H done"))
  let (h, rest) := match rest with | d :: r => (h ++ [d], r) | [] => (h, [])
  let sa := h.foldl stressLine ({} : SAcc)
  match stressVerdict sa with
  | some e => a.fail e
  | none => { (a.tag "stress").tag (if sa.ks.any (fun x => !x.cancelled.isEmpty) then "stress-cancel" else "stress") with tl := rest, execs := a.execs + sa.total }

structure DS where
  ops : Array String := #[]
  tl : Array String := #[]

def isStress (l : String) : Bool := (words l).head? == some "stress"

def validStress (l : String) (idle : Bool) : Bool :=
  match words l with
  | ["stress", e, ns, nt, seed, r, d] =>
      match ns.toNat?, nt.toNat?, seed.toNat?, r.toNat?, d.toNat? with
      | some ns, some nt, some _, some r, some _ =>
          (e == "epoll" || e == "select") && ns ≥ 1 && ns ≤ 16 && nt ≥ 1 && nt ≤ 20000 && r ≥ 1 && r ≤ 8 && idle
      | _, _, _, _, _ => false
  | _ => false

def finish (d : DS) : List String :=
  let a0 : TAcc := { tl := d.tl.toList }
  let a := d.ops.foldl (fun a l =>
    if isStress l then
      (if validStress l (a.s.phase == .idle) then stressOp a else expectLine { a with nops := a.nops + 1 } "bad-op")
    else stepOp a l) a0
  let a := finalize a
  let tagsLine := if a.tags.isEmpty then [] else ["B " ++ " ".intercalate a.tags]
  match a.err with
  | some e => tagsLine ++ ["reject " ++ e]
  | none =>
    match a.tl with
    | [] => tagsLine ++ [s!"ok ops={a.nops} executions={a.execs}"]
    | l :: _ => tagsLine ++ ["reject unexpected extra implementation output: [" ++ l ++ "]"]

def stepLine (d : DS) (line : String) : DS × List String :=
  let t := line.trimAscii.toString
  if t.isEmpty then (d, [])
  else if t.startsWith "case " then ({}, [t])
  else if t == "end" then ({}, finish d)
  else if t.startsWith "T " then ({ d with tl := d.tl.push (t.drop 2).toString }, [])
  else ({ d with ops := d.ops.push t }, [])

def main : IO Unit := runDriver ({} : DS) stepLine
