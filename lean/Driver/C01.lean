/- C01 driver: trace acceptor.  Input per case: op lines, then the implementation's output lines
prefixed "T ", then "end".
(i) sequentialised ops: every op is mapped to model steps (each checked with `valid`); the lines the
    model predicts (run ids handed out, cancel results, executions with the executing thread, loop
    state after a pass) must equal the implementation's lines one by one.
(ii) `stress …` ops: the recorded history (`H …` lines) is checked against the specification:
    exactly once (or never, when cancelled), per-submitter FIFO, loop thread, no lost wake-up.
Prints `ok …` or `reject <reason>`. -/
import TboxModel.Util
import TboxModel.C01.Spec
import Std.Data.HashMap
open Tbox.Util Tbox.C01

/-- script items of a callable: model acts plus "thread t submits template k right now" -/
inductive XAct where
  | act (a : Act)
  | cross (t k : Nat)
  | query               -- isRunning() + isInLoopThread() from inside the callable
deriving Repr

def nThreads : Nat := 4

def parseXAct (w : String) : Option XAct :=
  match w.toList with
  | ['x'] => some (.act .exit)
  | ['t'] => some (.act (.exitLater 5))
  | ['R'] => some (.act .nestedRun)
  | ['q'] => some .query
  | 't' :: r => (String.ofList r).toNat?.bind fun w => if 0 < w ∧ w < 4611686018427387904 then some (.act (.exitLater w)) else none
  | 'r' :: r => (String.ofList r).toNat?.bind fun k => if k < 64 then some (.act (.run k)) else none
  | ['!'] => some (.act .throw)
  | 'i' :: r => (String.ofList r).toNat?.bind fun k => if k < 64 then some (.act (.inLoop k)) else none
  | 'n' :: r => (String.ofList r).toNat?.bind fun k => if k < 64 then some (.act (.next k)) else none
  | 'c' :: r => (String.ofList r).toNat?.map fun id => .act (.cancel id)
  | 'w' :: r =>
      match (String.ofList r).splitOn "." with
      | [t, k] => do
          let t ← t.toNat?; let k ← k.toNat?
          if t < nThreads ∧ k < 64 then some (.cross t k) else none
      | _ => none
  | _ => none

def parseBody (w : String) : Option (List XAct) :=
  if w == "-" then some [] else do
    let l ← (w.splitOn ",").mapM parseXAct
    if l.isEmpty ∨ l.length > 16 then none else some l

def stripBody (b : List XAct) : List Act :=
  b.filterMap fun x => match x with | .act a => some a | _ => none

structure TAcc where
  s : State := init
  progs : List (Nat × List XAct) := []        -- template table
  bodies : List (Nat × List XAct) := []       -- run id → script captured at submission (current loop object)
  tl : List String := []
  tags : List String := []
  err : Option String := none
  nops : Nat := 0
  late : Option (Nat × Nat) := none           -- a submitter blocked on lock_ (thread, template)
  fuel : Nat := 400000
  runs : Nat := 0                             -- loop starts on this loop object
  internal : List Nat := []                   -- run ids of the loop's own deferred tasks (deleteTimer -> run())
  due : Bool := false                         -- the virtual clock passed the exit timer's deadline
  thrown : Bool := false                      -- the running callable threw: the rest of its script is skipped
  execs : Nat := 0
  sel : Bool := false                         -- select engine
  timerIds : List Nat := []                   -- run ids of the loop's own "release the timer record" tasks
  leakOk : Bool := false                      -- the script cancelled one of those (by guessing its id): the record is never released
  nulls : List Nat := []                      -- templates whose callable is an empty std::function

def TAcc.ext (a : TAcc) (k : Nat) : List XAct := (a.progs.lookup k).getD []
def TAcc.cfg (a : TAcc) : Cfg := { fixedCfg (fun k => stripBody (a.ext k)) with selectEngine := a.sel }
def TAcc.fail (a : TAcc) (m : String) : TAcc := if a.err.isSome then a else { a with err := some s!"op#{a.nops} {m}" }
def TAcc.failM (a : TAcc) (m : String) : TAcc := if a.err.isSome then a else { a with err := some s!"M: op#{a.nops} {m}" }
def TAcc.tag (a : TAcc) (t : String) : TAcc := if a.tags.contains t then a else { a with tags := a.tags ++ [t] }
/-- remember the script of a submitted callable; an empty std::function is never called (no `E` line) -/
def TAcc.noteSub (a : TAcc) (id k : Nat) : TAcc :=
  { a with bodies := (id, a.ext k) :: a.bodies, internal := if a.nulls.contains k then id :: a.internal else a.internal }

def b2s (b : Bool) : String := if b then "1" else "0"
/-- the answers of `isRunning()` and `isInLoopThread()` to thread `t` in the current model state -/
def queryLine (s : State) (t : Nat) : String := s!"Q {b2s (isRunning s)} {b2s (inLoopThread s t)}"

def expectLine (a : TAcc) (want : String) : TAcc :=
  if a.err.isSome then a else
  match a.tl with
  | l :: rest => if l == want then { a with tl := rest } else a.fail s!"impl=[{l}] model=[{want}]"
  | [] => a.fail s!"impl=<missing> model=[{want}]"

/-- model-internal observable: the timeout handed to the poll (a harmless rewrite may wake earlier and wait again) -/
def expectWait (a : TAcc) : TAcc :=
  if a.err.isSome then a else
  let want := s!"M wait {pollTimeout a.cfg a.s}"
  let a := if pollTimeout a.cfg a.s ≥ 2147483647 then a.tag "wait>=2^31" else if pollTimeout a.cfg a.s > 0 then a.tag "wait>0" else a
  match a.tl with
  | l :: rest => if l == want then { a with tl := rest } else a.failM s!"impl=[{l}] model=[{want}]"
  | [] => a.failM s!"impl=<missing> model=[{want}]"

/-- apply one model step; it must be enabled -/
def doStep (a : TAcc) (st : Step) : TAcc :=
  if a.err.isSome then a else
  if valid a.s st then { a with s := step a.cfg a.s st } else a.fail s!"driver: model step {repr st} not enabled"

def phaseName : Phase → String
  | .idle => "idle" | .poll => "poll" | .pre => "pre" | .wake => "wake" | .next => "next" | .drain => "drain" | .dead => "dead"

/-- exitLoop()/exitLoop(ms) through model step `st`: disabling an armed exit timer makes the loop submit a
deferred task to itself (no `E`/`S` line for it) -/
def exitStep (a : TAcc) (st : Step) (later : Bool) : TAcc :=
  let nid := a.s.nextAlloc + 2
  let a := if a.s.exitTimer then { a.tag "exit-timer-dropped" with internal := nid :: a.internal, timerIds := nid :: a.timerIds } else a
  let a := if later then a.tag "exit-timer-armed" else a
  doStep a st

/-- cross-thread runInLoop as a model step + expected `S id` line -/
def crossSubmit (a : TAcc) (t k : Nat) (suffix : String) : TAcc :=
  let id := a.s.inAlloc + 2
  let a := if a.s.keepRunning == false && (a.s.phase == .wake || a.s.phase == .next) then a.tag "submit-while-exiting" else a
  let a := if a.s.phase == .idle && a.runs > 0 then a.tag "submit-between-runs" else a
  let a := doStep a (.submit t k)
  expectLine (a.noteSub id k) ("S " ++ toString id ++ suffix)

/-- the script of the callable that was just popped -/
def runScript (a : TAcc) (b : List XAct) : TAcc :=
  b.foldl (fun a x =>
    if a.err.isSome || a.thrown then a else
    match x with
    | .act (.inLoop k) =>
        let id := a.s.inAlloc + 2
        expectLine ((doStep a .act).noteSub id k) ("S " ++ toString id)
    | .act (.next k) =>
        let id := a.s.nextAlloc + 2
        expectLine ((doStep a .act).noteSub id k) ("S " ++ toString id)
    | .act (.run k) =>
        let id := a.s.nextAlloc + 2      -- on the loop thread run() is runNext (checked by the model step itself)
        expectLine (((doStep a .act).tag "run-in-task").noteSub id k) ("S " ++ toString id)
    | .act .nestedRun =>
        if a.s.efd.isSome then expectLine ((doStep a .act).tag "nested-runLoop") "P nested-returned"
        else
          -- not running (destructor / cleanup() drain): the harness does not make the call, the act is dropped from the script
          expectLine { a with s := { a.s with cur := a.s.cur.tail } } "P nested-skipped"
    | .act (.cancel id) =>
        let r := cancelRet a.s id
        let a := if r && a.timerIds.contains id then { a.tag "cancel-of-internal-task" with leakOk := true } else a
        let a := if a.s.executed.head? == some id then a.tag (if a.s.phase == .drain then "cancel-self-in-drain" else if a.s.phase == .next then "cancel-self-next-batch" else "cancel-self-wake-batch") else a
        let a := if a.s.executed.head? == some id && a.s.tmpQ.isEmpty && a.s.phase != .drain then a.tag "cancel-self-last-of-batch" else a
        let a := if id == a.s.inAlloc + 2 || id == a.s.nextAlloc + 2 then a.tag "cancel-next-id" else a
        let a := a.tag (if r then (if hasId a.s.tmpQ id then "cancel-batch-hit" else "cancel-queue-hit")
                        else if id ∈ a.s.executed then "cancel-after-exec" else if id ∈ idsOf a.s.dQ then "cancel-in-drain-miss" else "cancel-miss")
        expectLine (doStep a .act) ("C " ++ toString id ++ (if r then " 1" else " 0"))
    | .act .exit => (exitStep a .act false).tag "exit-in-task"
    | .act (.exitLater _) => exitStep a .act true
    | .act .throw => { (doStep a .act).tag "throw" with thrown := true }
    | .query =>
        let a := a.tag (if a.s.phase == .drain then (if a.s.destroying then "query-in-destructor-or-cleanup" else "query-in-exit-drain") else "query-in-task")
        expectLine a (queryLine a.s a.s.loopTid)
    | .cross t k =>
        if t ≥ nThreads || t == a.s.loopTid || a.late.isSome || (a.s.phase == .drain && a.s.destroying && !a.s.userCleanup) then
          expectLine a "W skip"
        else if a.s.phase == .drain then
          expectLine ({ a with late := some (t, k) }.tag "submit-blocked-by-drain") "W blocked"
        else crossSubmit (a.tag "cross-mid-batch") t k "") a

/-- a callable was popped by execFront/drainExec: expect its `E` line, run its script -/
def afterPop (a : TAcc) : TAcc :=
  if a.err.isSome then a else
  match a.s.log with
  | .exec id tid :: _ =>
      if a.fuel = 0 then a.fail "driver fuel exhausted (runaway program)" else
      if a.internal.contains id then { a with fuel := a.fuel - 1 } else
      let a := expectLine { a with fuel := a.fuel - 1, execs := a.execs + 1, thrown := false } s!"E {id} {tid}"
      { (runScript a ((a.bodies.lookup id).getD [])) with thrown := false }
  | _ => a.fail "driver: no exec event after pop"

def batch (a : TAcc) : Nat → TAcc
  | 0 => a.fail "driver: batch fuel"
  | n + 1 =>
    if a.err.isSome then a else
    if valid a.s .execFront then batch (afterPop (doStep a .execFront)) n else a

def drain (a : TAcc) (gens : Nat) : Nat → TAcc
  | 0 => a.fail "driver: drain fuel"
  | n + 1 =>
    if a.err.isSome then a else
    if valid a.s .drainGen then drain (doStep a .drainGen) (gens + 1) n
    else if valid a.s .drainExec then
      drain (afterPop ((doStep a .drainExec).tag (if a.s.userCleanup then "exec-in-cleanup" else if a.s.destroying then "exec-in-destructor" else "exec-in-exit-drain"))) gens n
    else
      let a := if gens ≥ 2 then a.tag "drain-generations>=2" else a
      let a := if gens ≥ 100 then a.tag "drain-bound-hit" else a
      -- destructor: ~CommonLoop deletes the exit timer (an armed one posts an internal task) and drains again
      let second := a.s.destroying && !a.s.userCleanup && !a.s.finalDrain
      let nid := a.s.nextAlloc + 2
      let a := if second && a.s.exitTimer then { a.tag "exit-timer-armed-at-destruction" with internal := nid :: a.internal, timerIds := nid :: a.timerIds } else a
      let a := doStep a .drainEnd
      if second then drain a 0 n else a

def finishExit (a : TAcc) (line : String := "P exited") : TAcc :=
  let a := expectLine a line
  match a.late with
  | some (t, k) => crossSubmit { a with late := none } t k " late"
  | none => a

def onePass (a : TAcc) (stop : Bool) : TAcc :=
  let a := match a.s.poll with
    | .intr => a.tag "poll-eintr" | .err => a.tag "poll-error" | .spurious => a.tag "poll-spurious" | .ok => a
  let a := if a.s.poll != .ok && !a.s.inLoopQ.isEmpty then a.tag "poll-fault-with-work-queued" else a
  let a := doStep a .passBegin
  let a := if stop then exitStep a (.cbAct .exit) false else a
  let a := if a.s.timerDue then (doStep a .timerExit).tag "exit-timer-fired" else a
  if a.s.broke then
    finishExit (drain ((doStep a .passBreak).tag "select-break") 0 1000000)
  else
  let a := if a.s.wakeSeen then
             doStep ((if a.runs ≥ 2 then a.tag "wake-after-rerun" else a.tag "wake") |> fun a => if a.s.rdFail then a.tag "read-fault" else a) .passWake
           else doStep (if !a.s.inLoopQ.isEmpty then a.tag "UNWOKEN" else a) .passSkip
  let a := batch a 100000
  let a := doStep a .passNext
  let a := if !a.s.tmpQ.isEmpty then a.tag "next-batch" else a
  let a := batch a 100000
  let a := doStep a .passEnd
  if a.err.isSome then a else
  if a.s.phase == .poll then expectWait (expectLine a "P parked")
  else finishExit (drain a 0 1000000)

def opDestroy (a : TAcc) (t : Nat) : TAcc :=
  let a := doStep a (.destroy t)
  let a := drain a 0 1000000
  let a := expectLine a "P destroyed"
  let a := if !(pend a.s).isEmpty then a.tag "dropped-after-100-generations" else a
  { a with s := init, bodies := [], runs := 0, internal := [], timerIds := [], due := false }

/-- the public cleanup() while idle: the drain of loop exit without a loop -/
def opCleanup (a : TAcc) (t : Nat) : TAcc :=
  let a := doStep (a.tag "cleanup") (.cleanup t)
  let a := drain a 0 1000000
  let a := if !(pend a.s).isEmpty then a.tag "dropped-after-100-generations" else a
  finishExit a "P cleaned"

def parseFault : String → Option Fault
  | "pintr" => some (.poll .intr) | "perr" => some (.poll .err) | "pspur" => some (.poll .spurious) | "pok" => some (.poll .ok)
  | "wr" => some .wrFail | "rd" => some .rdFail | "efd" => some .efdFail
  | _ => none

def thr (w : String) : Option Nat := w.toNat?.bind fun t => if t < nThreads then some t else none
def tmpl (w : String) : Option Nat := w.toNat?.bind fun k => if k < 64 then some k else none

def stepOp (a : TAcc) (line : String) : TAcc :=
  if a.err.isSome then a else
  let first := a.nops == 0
  let a := { a with nops := a.nops + 1 }
  let idle := a.s.phase == .idle
  let bad := expectLine a "bad-op"
  match words line with
  | ["engine", e] => if first && (e == "epoll" || e == "select") then expectLine { a.tag e with sel := e == "select" } "P engine" else bad
  | ["prog", k, b] =>
      match tmpl k with
      | some k =>
          if b == "~" then expectLine { a.tag "null-callable" with progs := (k, []) :: a.progs, nulls := k :: a.nulls } "P prog" else
          match parseBody b with
          | some b => expectLine { a with progs := (k, b) :: a.progs, nulls := a.nulls.filter (· != k) } "P prog"
          | none => bad
      | none => bad
  | ["srun", t, k] =>
      match thr t, tmpl k with
      | some t, some k =>
          if idle then
            let id := a.s.nextAlloc + 2
            expectLine (((doStep a (.idleAct t (.run k))).tag "run-idle").noteSub id k) ("S " ++ toString id)
          else if t == a.s.loopTid then bad
          else
            let id := a.s.inAlloc + 2
            expectLine (((doStep a (.submitRun t k)).tag "run-cross").noteSub id k) ("S " ++ toString id)
      | _, _ => bad
  | ["fault", f] =>
      match parseFault f with
      | some f => expectLine ((doStep a (.fault f)).tag ("fault-" ++ (match f with | .poll _ => "poll" | .wrFail => "write" | .rdFail => "read" | .efdFail => "eventfd"))) "P fault"
      | none => bad
  | ["wl", x, y] =>
      match x.toNat?, y.toNat? with
      | some x, some y => if x < 18446744073709551616 ∧ y < 18446744073709551616 then expectLine ((doStep a (.setWL x y)).tag "waterline") "P wl" else bad
      | _, _ => bad
  | ["query", t] =>
      match thr t with
      | some t =>
          if !idle && t == a.s.loopTid then bad else
          expectLine (a.tag (if idle then (if a.runs > 0 then "query-after-run" else "query-before-run") else "query-foreign-while-running")) (queryLine a.s t)
      | none => bad
  | ["newloop", e] =>
      -- Loop::New(engine): an unknown engine name gives nullptr (observed; no model state involved)
      if e == "epoll" || e == "select" then expectLine a "P new ok" else expectLine (a.tag "new-unknown-engine") "P new null"
  | ["cleanup", t] =>
      match thr t with
      | some t => if !idle then bad else opCleanup a t
      | none => bad
  | ["sub", t, k] =>
      match thr t, tmpl k with
      | some t, some k => if !idle && t == a.s.loopTid then bad else crossSubmit a t k ""
      | _, _ => bad
  | ["next", t, k] =>
      match thr t, tmpl k with
      | some t, some k =>
          if !idle then bad else
          let id := a.s.nextAlloc + 2
          expectLine ((doStep a (.idleAct t (.next k))).noteSub id k) ("S " ++ toString id)
      | _, _ => bad
  | ["cancel", t, id] =>
      match thr t, id.toNat? with
      | some t, some id =>
          if !idle then bad else
          let r := cancelRet a.s id
          let a := if r && a.timerIds.contains id then { a.tag "cancel-of-internal-task" with leakOk := true } else a
          let a := if id == a.s.inAlloc + 2 || id == a.s.nextAlloc + 2 then a.tag "cancel-next-id" else a
          expectLine ((doStep a (.idleAct t (.cancel id))).tag (if r then "cancel-idle-hit" else "cancel-miss")) ("C " ++ toString id ++ (if r then " 1" else " 0"))
      | _, _ => bad
  | ["exit", t] =>
      match thr t with
      | some t => if !idle then bad else expectLine (exitStep a (.idleAct t .exit) false) "P exit"
      | none => bad
  | ["exitt", t] =>
      match thr t with
      | some t => if !idle then bad else expectLine (exitStep a (.idleAct t (.exitLater 5)) true) "P exit"
      | none => bad
  | ["exitt", t, w] =>
      match thr t, w.toNat? with
      | some t, some w => if !idle || w == 0 || w ≥ 4611686018427387904 then bad else expectLine (exitStep a (.idleAct t (.exitLater w)) true) "P exit"
      | _, _ => bad
  | ["tick"] => expectLine (doStep a (.tick 10)) "P tick"
  | ["tick", d] =>
      match d.toNat? with
      | some d => if d ≤ 4398046511104 then expectLine (doStep a (.tick d)) "P tick" else bad
      | none => bad
  | ["run", m, t] =>
      match thr t with
      | some t =>
          if !idle || !(m == "once" || m == "forever") then bad else
          let a := if a.runs ≥ 1 then a.tag "rerun" else a
          let a := if !a.s.inLoopQ.isEmpty then a.tag "start-with-queued-work" else a
          let a := if m == "once" then a.tag "once" else a
          let a := if a.s.efdFail then a.tag "eventfd-create-failed" else a
          expectWait (expectLine { (doStep a (.loopStart t (m == "forever"))) with runs := a.runs + 1 } "P running")
      | none => bad
  | ["pass"] => if idle then bad else onePass a false
  | ["stop"] => if idle then bad else onePass a true
  | ["destroy", t] =>
      match thr t with
      | some t => if !idle then bad else opDestroy a t
      | none => bad
  | _ => bad

def finalize (a : TAcc) : TAcc :=
  if a.err.isSome then a else
  let a := { a with nops := a.nops + 1 }
  let a := if a.s.phase != .idle then onePass a true else a
  opDestroy a 0

/-! ### free-running histories: reconstruction of a model step list

The harness stamps every event with a global sequence number taken where the order is unambiguous
(`LA`/`LR`: inside the critical section of lock_, `EW`/`ER`: after the eventfd syscall returned, `PW`/`PR`:
around the poll, `S*`/`A*`/`X*`: around API calls and callables) and prints them in stamp order.
Reconstruction: every critical section of lock_ is one model step applied at its `LR` (sections of one
mutex are totally ordered, so this is the real order); the shutdown drain is entered at its first callable
and left at its `LR`; lock-free loop-thread steps are applied when their event appears (they commute with
cross-thread submissions).  The one ambiguous point is when the poll sampled the eventfd: a pass that ran
the eventfd callback is linearised just before that callback's critical section (every write the kernel
could have seen belongs to a section that precedes it in lock order; the submitter may still sit between
its write and its unlock when the poll returns), a pass that did not at the poll's entry (`PW`) — the
counter only grows in between, so both choices are forced.  Every step is checked with `valid`;
run ids, cancel results, the eventfd writes (a write exactly when the model commits a wake-up) and the
identity of every executed callable must agree with the model. -/

instance : Inhabited Task := ⟨{ id := 0, owner := 0, body := [] }⟩

structure SEv where
  tid : Nat
  kind : String
  a : Nat := 0
  b : Nat := 0
  c : Nat := 0

def keyOf (o e q : Nat) : Nat := o * 1099511627776 + e * 4294967296 + q
def showKey (k : Nat) : String :=
  s!"{k / 1099511627776}/{Char.ofNat ((k / 4294967296) % 256)}/{k % 4294967296}"

def parseSEv (l : String) : Option SEv :=
  match words l with
  | ["H", "e", t, k] => t.toNat?.map fun t => { tid := t, kind := k }
  | ["H", "e", t, k, a] => do pure { tid := ← t.toNat?, kind := k, a := ← a.toNat? }
  | ["H", "e", t, k, o, e, q] => do
      let c := (e.toList.head?.map Char.toNat).getD 0
      pure { tid := ← t.toNat?, kind := k, a := ← o.toNat?, b := c, c := ← q.toNat? }
  | _ => none

/-- what the loop thread's stream says about one pass -/
structure PassInfo where
  wake : Bool := false      -- the eventfd callback ran
  exits : Bool := false     -- runLoop returned after this pass
  hasExit : Bool := false   -- a callable of the pass (not of the shutdown drain) called exitLoop()
  intr : Bool := false      -- the poll was interrupted (injected EINTR)
deriving Inhabited

structure Pre where
  prog : Std.HashMap Nat (List Act) := {}
  passes : Array PassInfo := #[]
  inCall : Bool := false
  key : Nat := 0
  acts : List Act := []
  secOpen : Bool := false   -- loop thread holds lock_ outside a callable
  havePass : Bool := false

def Pre.updLast (p : Pre) (f : PassInfo → PassInfo) : Pre :=
  if p.passes.isEmpty then p else { p with passes := p.passes.modify (p.passes.size - 1) f }

def preStep (p : Pre) (e : SEv) : Pre :=
  if e.tid != 0 then p else
  match e.kind with
  | "PW" => { p with passes := p.passes.push {}, havePass := true }
  | "PI" => p.updLast fun i => { i with intr := true }
  | "RB" => { p with havePass := false }
  | "RE" => if p.havePass then { (p.updLast fun i => { i with exits := true }) with havePass := false } else p
  | "LA" => if p.inCall then p else { p with secOpen := true }
  | "LR" => if p.inCall then p else { p with secOpen := false }
  | "ER" => if p.inCall then p else p.updLast fun i => { i with wake := true }
  | "XB" => { p with inCall := true, key := keyOf e.a e.b e.c, acts := [] }
  | "XE" => { p with inCall := false, prog := p.prog.insert p.key p.acts.reverse }
  | "AI" => { p with acts := .inLoop (keyOf e.a e.b e.c) :: p.acts }
  | "AN" => { p with acts := .next (keyOf e.a e.b e.c) :: p.acts }
  | "AC" => { p with acts := .cancel e.a :: p.acts }
  | "AX" => let p := { p with acts := .exit :: p.acts }
            if p.secOpen || !p.havePass then p else p.updLast fun i => { i with hasExit := true }
  | "TH" => { p with acts := .throw :: p.acts }
  | _ => p

structure R where
  s : State := init
  prog : Std.HashMap Nat (List Act) := {}
  passes : Array PassInfo := #[]
  err : Option String := none
  n : Nat := 0                                   -- events consumed
  keyOfId : Std.HashMap Nat Nat := {}            -- run id → callable key
  internal : List Nat := []
  pendKey : List (Nat × Nat) := []               -- submitter thread → key of the runInLoop in flight
  pred : List (Nat × Nat) := []                  -- submitter thread → run id the model handed out
  secW : List Nat := []                          -- threads whose open section has written the eventfd
  rb : Bool := false
  efSeen : Bool := false                         -- eventfd() returned: the next critical section of the loop thread is loop start
  inCall : Bool := false
  pendAct : Bool := false                        -- AI seen, its critical section not yet closed
  pendActKey : Nat := 0
  pendCancel : Option Nat := none                -- cancel(even id) whose search of the cross-thread queue (under lock_) is still to come
  lastId : Option Nat := none
  lastCancel : Option Bool := none
  secOpen : Bool := false
  secER : Bool := false
  secEW : Bool := false
  drainOpen : Bool := false
  passNo : Nat := 0
  tags : List String := []
  execs : Nat := 0
  cancels : Nat := 0
  sel : Bool := false

def R.cfg (r : R) : Cfg := { fixedCfg (fun k => r.prog.getD k []) with selectEngine := r.sel }
def R.fail (r : R) (m : String) : R := if r.err.isSome then r else { r with err := some s!"history event #{r.n}: {m}" }
def R.tag (r : R) (t : String) : R := if r.tags.contains t then r else { r with tags := r.tags ++ [t] }
def R.step (r : R) (st : Step) : R :=
  if r.err.isSome then r else
  if valid r.s st then { r with s := Tbox.C01.step r.cfg r.s st }
  else r.fail s!"model step {repr st} is not enabled (phase {phaseName r.s.phase}): the implementation did something the model does not allow here"
def R.pass (r : R) : PassInfo := r.passes[r.passNo - 1]!

def isInternalTask (r : R) (t : Task) : Bool := r.internal.contains t.id

/-- let the loop's own deferred tasks (no events) run if they are next -/
partial def flushInternal (r : R) : R :=
  if r.err.isSome then r else
  match r.s.phase with
  | .wake | .next =>
      match r.s.tmpQ with
      | t :: _ => if r.s.cur.isEmpty && isInternalTask r t then flushInternal (r.step .execFront) else r
      | [] => r
  | .drain =>
      match r.s.dQ with
      | t :: _ => if r.s.cur.isEmpty && isInternalTask r t then flushInternal (r.step .drainExec) else r
      | [] =>
          if r.s.cur.isEmpty && drainMore r.s && (r.s.nextQ ++ r.s.inLoopQ).all (isInternalTask r) then flushInternal (r.step .drainGen) else r
  | _ => r

/-- the batches of the pass are over: bring the model to `passEnd` -/
partial def finishPass (r : R) : R :=
  if r.err.isSome then r else
  let r := flushInternal r
  match r.s.phase with
  | .pre =>
      if r.s.wakeSeen then r.fail "the eventfd was readable when the poll returned but its callback did not run in this pass"
      else finishPass (r.step .passSkip)
  | .wake =>
      if !r.s.tmpQ.isEmpty then r.fail s!"run-in-loop batch not completed: {showKey ((r.keyOfId.getD (r.s.tmpQ.head!).id 0))} was not executed"
      else finishPass (r.step .passNext)
  | .next =>
      if !r.s.tmpQ.isEmpty then r.fail s!"run-next batch not completed: {showKey ((r.keyOfId.getD (r.s.tmpQ.head!).id 0))} was not executed"
      else r.step .passEnd
  | _ => r

/-- the loop thread starts callable `key`: advance the model to the pop of exactly that task -/
partial def popFor (r : R) (key : Nat) (tid : Nat) : R :=
  if r.err.isSome then r else
  let r := flushInternal r
  let check (r : R) : R :=
    match r.s.log with
    | .exec id t :: _ =>
        let k := r.keyOfId.getD id 0
        if k != key then r.fail s!"callable {showKey key} was executed but the model's queues say {showKey k} (run id {id}) is next: order violated, executed twice, or executed after a successful cancel"
        else if t != tid then r.fail s!"callable {showKey key} executed on thread {tid}, the loop is driven by thread {t}"
        else { r with execs := r.execs + 1 }
    | _ => r.fail "no execution event"
  match r.s.phase with
  | .pre =>
      if r.s.wakeSeen then r.fail s!"callable {showKey key} ran before the eventfd callback of the pass"
      else popFor (r.step .passSkip) key tid
  | .wake =>
      if r.secOpen then popFor (finishPass r) key tid      -- lock_ held outside a callable: this is the shutdown drain
      else if !r.s.tmpQ.isEmpty then check (r.step .execFront)
      else popFor (r.step .passNext) key tid
  | .next =>
      if !r.s.tmpQ.isEmpty then check (r.step .execFront)
      else if r.secOpen then popFor (finishPass r) key tid
      else r.fail s!"callable {showKey key} executed but the model's batch is empty"
  | .drain =>
      if !r.s.dQ.isEmpty then check ((r.step .drainExec).tag (if r.s.destroying then "exec-in-destructor" else "exec-in-exit-drain"))
      else if drainMore r.s then popFor (r.step .drainGen) key tid
      else r.fail s!"callable {showKey key} executed in the shutdown drain but the model has nothing left to run"
  | _ => r.fail s!"callable {showKey key} executed while the loop is {phaseName r.s.phase}"

def assocSet (l : List (Nat × Nat)) (k v : Nat) : List (Nat × Nat) := (k, v) :: l.filter (·.1 != k)

def exitAct (r : R) (st : Step) : R :=
  let r := if r.s.exitTimer then { r with internal := (r.s.nextAlloc + 2) :: r.internal } else r
  r.step st

/-- `drainEnd`; in a destructor the first one is ~CommonLoop deleting the exit timer (an armed one posts an internal task) -/
def endDrain (r : R) : R :=
  let r := if r.s.destroying && !r.s.userCleanup && !r.s.finalDrain && r.s.exitTimer then
             { r with internal := (r.s.nextAlloc + 2) :: r.internal } else r
  r.step .drainEnd

def passBeginAt (r : R) : R :=
  let p := r.pass
  let r := if p.intr then (r.step (.fault (.poll .intr))).tag "poll-eintr" else r
  let r := if p.intr && !r.s.inLoopQ.isEmpty then r.tag "poll-eintr-with-work-queued" else r
  -- no virtual clock in this mode: the exit timer fires in the pass in which the loop was seen to leave without exitLoop()
  let r := if p.exits && !p.hasExit && r.s.exitTimer then r.step (.tick (r.s.exitAt - r.s.clock)) else r
  let r := r.step .passBegin
  let r := if p.exits && !p.hasExit then
             (if r.s.timerDue then (r.step .timerExit).tag "exit-timer-fired"
              else r.fail "runLoop returned although exitLoop() was not called and no exit timer was armed")
           else r
  if r.err.isSome then r else
  if p.wake && !r.s.wakeSeen then r.fail "the poll reported the eventfd readable but the model's counter is 0"
  else if !p.wake && r.s.wakeSeen then r.fail "the eventfd counter was positive when the poll was entered, yet the pass did not run the eventfd callback (lost wake-up)"
  else r.tag (if p.wake then "wake" else "pass-without-wake")

def replayEv (r : R) (e : SEv) : R :=
  if r.err.isSome then r else
  let r := { r with n := r.n + 1 }
  if e.tid != 0 then
    -- a submitter thread
    match e.kind with
    | "SB" => { r with pendKey := assocSet r.pendKey e.tid (keyOf e.a e.b e.c) }
    | "LA" => { r with secW := r.secW.filter (· != e.tid) }
    | "EW" => if e.a == 1 then { r with secW := e.tid :: r.secW } else r
    | "LR" =>
        match r.pendKey.lookup e.tid with
        | none => r
        | some key =>
            let commit := r.s.efd.isSome && !r.s.hasCommit
            let id := r.s.inAlloc + 2
            let r := if r.s.phase == .idle then r.tag "submit-while-idle" else
                     if !r.s.keepRunning then r.tag "submit-while-exiting" else r
            let r := r.step (.submit e.tid key)
            let wrote := r.secW.contains e.tid
            -- an extra write is harmless (the read zeroes the counter whatever it is): model-internal, tagged only
            let r := if wrote && !commit then r.tag "M:extra-eventfd-write"
                     else if !wrote && commit then r.fail s!"runInLoop of {showKey key} did NOT write the eventfd although the loop is running and no wake-up is pending (lost wake-up)"
                     else r
            { r with pendKey := r.pendKey.filter (·.1 != e.tid), pred := assocSet r.pred e.tid id, keyOfId := r.keyOfId.insert id key }
    | "SA" =>
        match r.pred.lookup e.tid with
        | some id => if id == e.a then r else r.fail s!"runInLoop returned id {e.a}, model {id}"
        | none => r.fail "runInLoop returned without a critical section of lock_"
    | _ => r
  else
    -- the loop thread
    match e.kind with
    | "AT" => if r.inCall then r.fail "unexpected AT" else (exitAct r (.idleAct 0 (.exitLater 20000))).tag "exit-timer-armed"
    | "RB" => { r with rb := true }
    | "EF" => { r with efSeen := true }
    | "LA" => if r.inCall then { r with secEW := false } else { r with secOpen := true, secER := false, secEW := false }
    | "ER" => { r with secER := true }
    | "EW" => if e.a == 1 then { r with secEW := true } else r
    | "LR" =>
        if r.inCall then
          if r.pendAct then
            let commit := r.s.efd.isSome && !r.s.hasCommit
            let id := r.s.inAlloc + 2
            let r := r.step .act
            let r := if !r.secEW && commit then r.fail s!"runInLoop from the loop thread did not write the eventfd although no wake-up is pending (lost wake-up)"
                     else if r.secEW && !commit then r.tag "M:extra-eventfd-write" else r
            { r with pendAct := false, lastId := some id, keyOfId := r.keyOfId.insert id r.pendActKey }
          else match r.pendCancel with
          | some cid =>
              let ret := cancelRet r.s cid
              let r := r.tag (if ret then "cancel-queue-hit" else "cancel-miss")
              { (r.step .act) with pendCancel := none, lastCancel := some ret, cancels := r.cancels + (if ret then 1 else 0) }
          | none => r
        else
          let r := { r with secOpen := false }
          if r.rb && !r.efSeen && r.s.phase == .idle && !r.secEW then r      -- runLoop() asking isRunning() before it starts
          else if r.rb && r.s.phase == .idle then
            let commit := !r.s.inLoopQ.isEmpty && !r.s.hasCommit
            let r := if !r.s.inLoopQ.isEmpty then r.tag "start-with-queued-work" else r
            let r := if r.s.log.any (fun x => x matches .start _) then r.tag "rerun" else r
            let r := r.step (.loopStart 0 true)
            let r := if !r.secEW && commit then r.fail "loop start: work is queued but the eventfd was not written (lost wake-up)"
                     else if r.secEW && !commit then r.tag "M:extra-eventfd-write" else r
            { r with rb := false, efSeen := false }
          else if r.secER then
            -- a pass that ran the eventfd callback: the poll's sample is linearised here (see above)
            let r := passBeginAt r
            (if (r.s.log.filter (fun x => x matches .start _)).length ≥ 2 then r.tag "wake-after-rerun" else r).step .passWake
          else if r.s.phase == .idle then r            -- run() inside exitLoop(ms) while idle
          else if r.s.phase == .poll && r.passNo > 0 && r.pass.wake then
            r.fail "the eventfd callback released lock_ without having read the eventfd: queue swap and eventfd read / flag clear are not one critical section"
          else
            -- end of the shutdown drain (possibly an empty one)
            let r := if r.drainOpen then r else finishPass r
            let r := flushInternal r
            if r.err.isSome then r else
            if r.s.phase != .drain then r.fail s!"runThisAfterLoop ran but the model's loop is {phaseName r.s.phase} (exitLoop not called?)"
            else if !r.s.dQ.isEmpty || (drainMore r.s) then
              r.fail s!"shutdown drain returned although {showKey (r.keyOfId.getD ((r.s.dQ ++ r.s.nextQ ++ r.s.inLoopQ).head!).id 0)} is still pending and fewer than 100 generations ran (task dropped)"
            else { (endDrain r) with drainOpen := r.s.destroying && !r.s.finalDrain }
    | "PW" =>
        let r := if r.s.phase == .poll then r else finishPass r
        if r.err.isSome then r else
        if r.s.phase != .poll then r.fail "the loop polls again although exitLoop() was called in the previous pass"
        else
          let r := { r with passNo := r.passNo + 1 }
          if r.pass.wake then r else passBeginAt r
    | "PR" => r
    | "XB" =>
        let key := keyOf e.a e.b e.c
        let enteringDrain := r.secOpen && r.s.phase != .drain
        let r := popFor r key 0
        { r with inCall := true, drainOpen := r.drainOpen || enteringDrain }
    | "XE" =>
        if !r.s.cur.isEmpty then r.fail "callable returned but the model's script has acts left"
        else { r with inCall := false, pendAct := false }
    | "AI" =>
        if r.secOpen then      -- lock_ already held (exit drain): no separate critical section
          let id := r.s.inAlloc + 2
          { (r.step .act) with lastId := some id, keyOfId := r.keyOfId.insert id (keyOf e.a e.b e.c) }
        else { r with pendAct := true, pendActKey := keyOf e.a e.b e.c }
    | "AN" =>
        let id := r.s.nextAlloc + 2
        { (r.step .act) with lastId := some id, keyOfId := r.keyOfId.insert id (keyOf e.a e.b e.c) }
    | "AS" =>
        if r.lastId == some e.a then { r with lastId := none }
        else r.fail s!"loop-thread submission returned id {e.a}, model {r.lastId}"
    | "AC" =>
        if e.a != 0 && e.a % 2 == 0 && !hasId r.s.tmpQ e.a && !r.secOpen then { r with pendCancel := some e.a } else
        let ret := cancelRet r.s e.a
        let r := r.tag (if ret then (if hasId r.s.tmpQ e.a then "cancel-batch-hit" else "cancel-queue-hit") else "cancel-miss")
        { (r.step .act) with lastCancel := some ret, cancels := r.cancels + (if ret then 1 else 0) }
    | "AR" =>
        if r.lastCancel == some (e.a == 1) then r
        else r.fail s!"cancel returned {e.a}, model {r.lastCancel}"
    | "AX" => (exitAct r .act).tag "exit-in-task"
    | "TH" => (r.step .act).tag "throw"
    | "RE" =>
        if r.s.phase == .idle then r.tag "exit" else r.fail s!"runLoop returned but the model's loop is {phaseName r.s.phase}"
    | "DB" => { (r.step (.destroy 0)) with drainOpen := true }
    | "DE" =>
        let r := flushInternal r
        if r.err.isSome then r else
        if !valid r.s .drainEnd then r.fail "destructor returned with tasks pending before 100 generations (task dropped)" else
        -- ~CommonLoop: the exit timer is deleted (an armed one posts an internal task), second drain
        -- (the epoll engine's destructor drains through cleanup(): its first drain ended at the release of lock_)
        let r := if !r.s.finalDrain then flushInternal (endDrain r) else r
        if r.err.isSome then r else
        if valid r.s .drainEnd then { (r.step .drainEnd) with drainOpen := false }
        else r.fail "destructor returned with tasks pending before 100 generations (task dropped)"
    | _ => r

/-- consume the history of one stress op from the implementation lines -/
def stressOp (a : TAcc) (sel : Bool := false) : TAcc :=
  if a.err.isSome then a else
  let a := { a with nops := a.nops + 1 }
  let (h, rest) := a.tl.span (fun l => !(l.startsWith "H done"))
  let (h, rest) := match rest with | d :: r => (h ++ [d], r) | [] => (h, [])
  if !(h.getLast?.map (·.startsWith "H done")).getD false then a.fail "history incomplete (no `H done`)" else
  match h.find? (fun l => !(l.startsWith "H ")) with
  | some l => a.fail s!"unexpected history line [{l}]"
  | none =>
  let evs := (h.filterMap parseSEv).toArray
  let nEv := (h.filter (·.startsWith "H e ")).length
  if evs.size != nEv then a.fail "unparsable history event" else
  let submittedTotal := (h.filterMap fun l => match words l with | ["H", "sub", _, _, n] => n.toNat? | _ => none).foldl (· + ·) 0
  let pre := evs.foldl preStep ({} : Pre)
  let r := evs.foldl replayEv ({ prog := pre.prog, passes := pre.passes, sel := sel } : R)
  let r := if r.err.isSome then r else
    if r.s.phase != .dead then r.fail s!"history ends with the loop {phaseName r.s.phase}"
    else if !(pend r.s).isEmpty && !((pend r.s).all (isInternalTask r)) then
      r.fail s!"{(pend r.s).length} task(s) never executed, e.g. {showKey (r.keyOfId.getD ((pend r.s).head!).id 0)}: dropped"
    else if r.execs + r.cancels != submittedTotal then
      r.fail s!"{submittedTotal} callables submitted, {r.execs} executed + {r.cancels} cancelled"
    else r
  let lost := (h.filterMap fun l => match words l with | ["H", "lost", n] => n.toNat? | _ => none).foldl (· + ·) 0
  let a := r.tags.foldl (fun a t => a.tag ("fr:" ++ t)) (a.tag "stress")
  match r.err with
  | some e => a.fail e
  | none =>
    if lost > 0 then a.fail s!"LOST WAKE-UP: {lost} time(s) no task was executed for 5 s although tasks were pending and the loop was running"
    else { a with tl := rest, execs := a.execs + r.execs }

structure DS where
  ops : Array String := #[]
  tl : Array String := #[]

def isStress (l : String) : Bool := (words l).head? == some "stress"

def validStress (l : String) (idle : Bool) : Bool :=
  match words l with
  | ["stress", e, ns, nt, seed, r, d] =>
      match ns.toNat?, nt.toNat?, seed.toNat?, r.toNat?, d.toNat? with
      | some ns, some nt, some _, some r, some _ =>
          (e == "epoll" || e == "select") && ns ≥ 1 && ns ≤ 16 && nt ≥ 1 && nt ≤ 20000 && r ≥ 1 && r ≤ 8 && idle
      | _, _, _, _, _ => false
  | _ => false

def finish (d : DS) : List String :=
  let a0 : TAcc := { tl := d.tl.toList }
  let a := d.ops.foldl (fun a l =>
    if isStress l then
      (if validStress l (a.s.phase == .idle) then stressOp (a.tag ("stress-" ++ ((words l).getD 1 ""))) ((words l).getD 1 "" == "select") else expectLine { a with nops := a.nops + 1 } "bad-op")
    else stepOp a l) a0
  let a := finalize a
  let a := if a.leakOk && a.tl == ["P leaked-memory"] then { a with tl := [] } else a
  let tagsLine := if a.tags.isEmpty then [] else ["B " ++ " ".intercalate a.tags]
  match a.err with
  | some e => tagsLine ++ ["reject " ++ e]
  | none =>
    match a.tl with
    | [] => tagsLine ++ [s!"ok ops={a.nops} executions={a.execs}"]
    | l :: _ => tagsLine ++ ["reject unexpected extra implementation output: [" ++ l ++ "]"]

def stepLine (d : DS) (line : String) : DS × List String :=
  let t := line.trimAscii.toString
  if t.isEmpty then (d, [])
  else if t.startsWith "case " then ({}, [t])
  else if t == "end" then ({}, finish d)
  else if t.startsWith "T " then ({ d with tl := d.tl.push (t.drop 2).toString }, [])
  else ({ d with ops := d.ops.push t }, [])

def main : IO Unit := runDriver ({} : DS) stepLine
