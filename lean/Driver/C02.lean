/- C02 driver: trace acceptor. Input per case: op lines, then the implementation's output lines
prefixed "T ", then "end". Replays the implementation's callback order on the model (every
`F j` must be a `fire` step that is enabled in the model: due, minimal deadline, object armed),
checks that the pass ends with nothing due, and compares every API result and isEnabled()
vector. Prints `ok …` or `reject …`. -/
import TboxModel.Util
import TboxModel.C02.Model
import TboxModel.C02.Wide
open Tbox.Util Tbox.C02

def maxMs : Nat := 4611686018427387904        -- 2^62
def clockMax : Nat := 7000000000000           -- ms; both virtual clocks of the harness are int64 counts of nanoseconds
/-- the harness's virtual monotonic clock starts at 1000 ms, the abstract model's at 1 -/
def realNow (s : State) : Nat := s.now + 999

/-- isEnabled() vector; in a TimerPool case (`poolMode`) every object is owned by the pool and shows `p`
while armed, `x` once gone -/
def bitsOf (s : State) (poolMode : Bool := false) : String :=
  if s.nObjs = 0 then "-" else
  String.ofList ((List.range s.nObjs).map fun j =>
    let o := s.obj j
    if poolMode then (if o.alive && o.inited && o.enabled then 'p' else 'x')
    else if !o.alive then 'x' else if o.inited && o.enabled then '1' else '0')

def takeNat (cs : List Char) : Option (Nat × List Char) :=
  let ds := cs.takeWhile Char.isDigit
  if ds.isEmpty || ds.length > 19 then none else (String.ofList ds).toNat?.map fun n => (n, cs.drop ds.length)

/- callback scripts: items separated by `,`; a nested script (of a timer created inside the callback)
is written in brackets.
  plain TimerEvent case: e<j> d<j> x<j> i<j>:<ms>:<o|p>  n[<script>] (newTimerEvent + setCallback)
  TimerPool case:        c<k> (cancel)  a<ms>[<script>] (doAfter)  v<ms>[<script>] (doEvery)  z (cleanup)
`x<self>` (destroying the timer whose callback is running) is outside the property: rejected at top
level; nested scripts, whose own id is only known at run time, may not contain `x` at all. -/
mutual
partial def pItems (cs : List Char) (self : Option Nat) (pool : Bool) : Option (List Act × List Char) :=
  match cs with
  | [] => some ([], [])
  | ']' :: _ => some ([], cs)
  | _ => do
    let (a, rest) ← pItem cs self pool
    match rest with
    | ',' :: rest' =>
      match rest' with
      | [] => none
      | ']' :: _ => none
      | _ => do
        let (as, rest'') ← pItems rest' self pool
        pure (a :: as, rest'')
    | _ => pure ([a], rest)

partial def pNested (cs : List Char) (pool : Bool) : Option (List Act × List Char) :=
  match cs with
  | '[' :: rest => do
    let (as, rest') ← pItems rest none pool
    match rest' with
    | ']' :: rest'' => pure (as, rest'')
    | _ => none
  | _ => none

partial def pItem (cs : List Char) (self : Option Nat) (pool : Bool) : Option (Act × List Char) :=
  match cs with
  | 'c' :: rest => if !pool then none else do let (k, r) ← takeNat rest; pure (.cancel k, r)
  | 'z' :: rest => if !pool then none else pure (.cleanup, rest)
  | 'a' :: rest => if !pool then none else do
      let (ms, r) ← takeNat rest
      if ms < 1 ∨ ms > maxMs then none else
      let (sc, r') ← pNested r pool
      pure (.doAfter ms sc, r')
  | 'v' :: rest => if !pool then none else do
      let (ms, r) ← takeNat rest
      if ms < 1 ∨ ms > maxMs then none else
      let (sc, r') ← pNested r pool
      pure (.doEvery ms sc, r')
  | 'n' :: rest => if pool then none else do
      let (sc, r') ← pNested rest pool
      pure (.newObj sc, r')
  | 'e' :: rest => if pool then none else do let (k, r) ← takeNat rest; pure (.enable k, r)
  | 'd' :: rest => if pool then none else do let (k, r) ← takeNat rest; pure (.disable k, r)
  | 'x' :: rest => if pool then none else do
      let (k, r) ← takeNat rest
      match self with
      | none => none
      | some me => if k = me then none else pure (.destroy k, r)
  | 'i' :: rest => if pool then none else do
      let (k, r) ← takeNat rest
      match r with
      | ':' :: r1 => do
        let (ms, r2) ← takeNat r1
        if ms < 1 ∨ ms > maxMs then none else
        match r2 with
        | ':' :: 'o' :: r3 => pure (.init k ms true, r3)
        | ':' :: 'p' :: r3 => pure (.init k ms false, r3)
        | _ => none
      | _ => none
  | _ => none
end

def parseScript (w : String) (self : Nat) (poolScript : Bool := false) : Option (List Act) :=
  if w == "-" then some [] else
  if w.isEmpty then none else
  match pItems w.toList (some self) poolScript with
  | some (as, []) => some as
  | _ => none

def parseAct (w : String) : Option Act :=
  match pItem w.toList none false with
  | some (a, []) => some a
  | _ => none

inductive POp where
  | new (sc : List Act) | api (a : Act) | adv (d : Nat) | engine (e : String) | bad
  | pnew (after : Bool) (ms : Nat) (sc : List Act) | pcancel (k : Nat) | pcleanup
  | pat (tp : Int) (sc : List Act) | wall (d : Int)
  | idle (d : Nat)
  | wnew | winit (j : Nat) (ms : Int) (oneshot : Bool) | wen (j : Nat) | wdis (j : Nat) | wdel (j : Nat)

def parseOp (s : State) (ws : List String) : POp :=
  match ws with
  | ["engine", e] => if (e == "epoll" || e == "select") && s.nObjs == 0 then .engine e else .bad
  | ["new", sc] => match parseScript sc s.nObjs with | some l => .new l | none => .bad
  | ["pafter", ms, sc] => match ms.toNat?, parseScript sc 0 true with
      | some n, some l => if 1 ≤ n ∧ n ≤ maxMs ∧ ms.length ≤ 19 then .pnew true n l else .bad | _, _ => .bad
  | ["pevery", ms, sc] => match ms.toNat?, parseScript sc 0 true with
      | some n, some l => if 1 ≤ n ∧ n ≤ maxMs ∧ ms.length ≤ 19 then .pnew false n l else .bad | _, _ => .bad
  | ["pat", tp, sc] => match tp.toNat?, parseScript sc 0 true with
      | some n, some l => if n ≤ 100000000 then .pat (Int.ofNat n) l else .bad | _, _ => .bad
  | ["wall", d] => match intOfString? d with
      | some n => if -100000 ≤ n ∧ n ≤ 100000 then .wall n else .bad | none => .bad
  | ["pcancel", k] => match k.toNat? with | some k => .pcancel k | none => .bad
  | ["pcleanup"] => .pcleanup
  | ["adv", d] => match d.toNat? with | some n => if n ≤ clockMax ∧ d.length ≤ 19 then .adv n else .bad | none => .bad
  | ["idle", d] => match d.toNat? with | some n => if n ≤ clockMax ∧ d.length ≤ 19 then .idle n else .bad | none => .bad
  | ["idlex", d] => match d.toNat? with | some n => if n ≤ clockMax ∧ d.length ≤ 19 then .idle n else .bad | none => .bad   -- wait interrupted (EINTR): same to the timers
  | ["wnew"] => .wnew
  | ["winit", j, ms, m] => match j.toNat?, intOfString? ms with
      | some j, some v => if ms.length ≤ 20 ∧ -(maxMs : Int) ≤ v ∧ v ≤ maxMs ∧ (m == "o" || m == "p") ∧ !(v == 0 && m == "p") then .winit j v (m == "o") else .bad
      | _, _ => .bad
  | ["wen", j] => match j.toNat? with | some j => .wen j | none => .bad
  | ["wdis", j] => match j.toNat? with | some j => .wdis j | none => .bad
  | ["wdel", j] => match j.toNat? with | some j => .wdel j | none => .bad
  | ["init", j, ms, m] => match parseAct ("i" ++ j ++ ":" ++ ms ++ ":" ++ m) with
      | some (.init j ms o) => if j < s.nObjs then .api (.init j ms o) else .bad | _ => .bad
  | ["en", j] => match j.toNat? with | some j => if j < s.nObjs then .api (.enable j) else .bad | none => .bad
  | ["dis", j] => match j.toNat? with | some j => if j < s.nObjs then .api (.disable j) else .bad | none => .bad
  | ["del", j] => match j.toNat? with | some j => if j < s.nObjs then .api (.destroy j) else .bad | none => .bad
  | _ => .bad

structure TAcc where
  s : State := init
  tl : List String := []
  tags : List String := []
  err : Option String := none
  nops : Nat := 0
  mode : Nat := 0            -- 0 undecided, 1 plain TimerEvent case, 2 TimerPool case, 3 wide case (Wide.lean)
  ws : Wide.WState := {}     -- wide cases: the width-faithful machine on the explicit heap
  wall : Int := 0            -- system clock (ms since the harness's wall epoch); `adv` moves both clocks, `wall` only this one

def TAcc.bits (a : TAcc) (s : State) : String := bitsOf s (a.mode == 2)

def expectLine (a : TAcc) (want : String) (what : String) : TAcc :=
  if a.err.isSome then a else
  match a.tl with
  | l :: rest => if l == want then { a with tl := rest }
                 else { a with err := some s!"op#{a.nops} {what}: impl=[{l}] model=[{want}]" }
  | [] => { a with err := some s!"op#{a.nops} {what}: impl=<missing> model=[{want}]" }

/-- return values of the calls a callback made, as the harness prints them (`R 101`, `R -` if none);
the tail of the doAfter wrapper (`pfree`) is not a user call -/
def retsLine (script : List Act) (rets : List Bool) : String :=
  let vis := (script.zip rets).filter fun p => match p.1 with | .pfree _ => false | _ => true
  if vis.isEmpty then "R -" else "R " ++ String.ofList (vis.map fun p => if p.2 then '1' else '0')

def actTags : List Act → List String
  | [] => []
  | a :: as => (match a with
      | .doAfter _ _ => ["cb-doAfter"] | .doEvery _ _ => ["cb-doEvery"] | .cancel _ => ["cb-cancel"]
      | .cleanup => ["cb-cleanup"] | .newObj _ => ["cb-new"] | _ => []) ++ actTags as

/-- consume the `F j en=…` / `R …` lines of one pass -/
partial def firePass (a : TAcc) (seen : List Nat) : TAcc :=
  match a.tl with
  | l :: rest =>
    match words l with
    | ["F", j, en] =>
      match j.toNat? with
      | none => { a with err := some s!"op#{a.nops} unparsable callback line [{l}]" }
      | some j =>
        match a.s.timers.find? (fun r => r.owner == j) with
        | none => { a with err := some s!"op#{a.nops} callback on timer {j} which is not armed (disabled, destroyed, cancelled, one-shot already fired, or never enabled)" }
        | some r =>
          if !canFire a.s r then
            let t := a.s.passNow.getD 0
            if r.expired > t then { a with err := some s!"op#{a.nops} timer {j} fired EARLY: deadline {r.expired} > now {t}" }
            else { a with err := some s!"op#{a.nops} timer {j} (deadline {r.expired}) fired before an earlier deadline" }
          else
            -- isEnabled() vector at callback entry: a one-shot already reports disabled
            let sEntry := if r.oneshot then a.s.setObj j { a.s.obj j with enabled := false } else a.s
            let want := "en=" ++ a.bits sEntry
            if en != want then { a with err := some s!"op#{a.nops} at entry of callback {j}: impl=[{en}] model=[{want}]" }
            else
              let ties := (a.s.timers.filter fun q => q.expired == r.expired).length
              let nBefore := a.s.timers.length
              let script := (a.s.obj j).script
              let (s', rets) := fireR a.s r          -- = (fire a.s r, return values): theorem fireR_fst
              let tags := (if ties > 1 then ["tie"] else []) ++ (if seen.contains j then ["catchup"] else [])
                ++ (if a.s.passNow.getD 0 > r.expired then ["late"] else [])
                ++ (if s'.timers.length + (if r.oneshot then 1 else 0) < nBefore then ["cb-removed-other"] else [])
                ++ (if s'.timers.length + (if r.oneshot then 1 else 0) > nBefore then ["cb-armed-other"] else [])
                ++ actTags script
                ++ (if script.any (fun x => match x with | .cancel k => k == j | _ => false) then ["cb-cancel-self"] else [])
              let a1 := expectLine { a with s := s', tl := rest, tags := a.tags ++ tags } (retsLine script rets)
                          s!"results of the calls made by callback {j}"
              if a1.err.isSome then a1 else firePass a1 (j :: seen)
    | _ => a
  | [] => a

def boolStr (b : Bool) : String := if b then "1" else "0"

/-- the `W` line of an idle pass against `Wide.waitCore / epollTimeout / selectTimeval`.
Property level (plain `reject`): with a timer pending the loop must not be told to sleep for ever, past the
nearest deadline, or with an invalid timeval.  Model level (`reject M`): the exact value. -/
def checkWait (nops : Nat) (line : String) (front : Option UInt64) (now : UInt64) : Option String :=
  let w := Wide.waitCore false front now
  let rem : Option Nat := front.map fun e => e.toNat - now.toNat
  match words line with
  | ["W", "epoll", t] =>
    match intOfString? t with
    | none => some s!"op#{nops} unparsable wait line [{line}]"
    | some t =>
      match rem with
      | some r =>
        if t < 0 then some s!"op#{nops} epoll_wait is told to wait FOR EVER (timeout {t}) although a timer is due in {r} ms"
        else if t > r then some s!"op#{nops} epoll_wait is told to sleep {t} ms, PAST the nearest deadline ({r} ms ahead)"
        else if t != (Wide.epollTimeout w).toInt then some s!"M: op#{nops} epoll timeout impl={t} model={(Wide.epollTimeout w).toInt}"
        else none
      | none => if t != (Wide.epollTimeout w).toInt then some s!"M: op#{nops} epoll timeout impl={t} model={(Wide.epollTimeout w).toInt} (no timer pending)" else none
  | ["W", "select", "null"] =>
    match rem with
    | some r => some s!"op#{nops} select is told to wait FOR EVER (null timeval) although a timer is due in {r} ms"
    | none => none
  | ["W", "select", sec, usec] =>
    match intOfString? sec, intOfString? usec with
    | some sec, some usec =>
      let want := Wide.selectTimeval w
      match rem with
      | some r =>
        if sec < 0 ∨ usec < 0 ∨ usec ≥ 1000000 then some s!"op#{nops} select is given an invalid timeval ({sec}, {usec})"
        else if sec * 1000000 + usec > (r : Int) * 1000 then some s!"op#{nops} select is told to sleep ({sec} s, {usec} us), PAST the nearest deadline ({r} ms ahead)"
        else if want.map (fun p => (p.1.toInt, p.2.toInt)) != some (sec, usec) then some s!"M: op#{nops} select timeval impl=({sec}, {usec}) model={want.map (fun p => (p.1.toInt, p.2.toInt))}"
        else none
      | none => some s!"M: op#{nops} select timeval impl=({sec}, {usec}) model=null (no timer pending)"
    | _, _ => some s!"op#{nops} unparsable wait line [{line}]"
  | _ => some s!"op#{nops} idle pass: expected the wait line of the engine, impl=[{line}]"

/-- front deadline of the abstract model on the harness's clock, as the 64-bit field -/
def frontOf (s : State) : Option UInt64 :=
  match s.timers with
  | [] => none
  | r :: rs => some (UInt64.ofNat ((rs.foldl (fun m q => min m q.expired) r.expired) + 999))

/-! ### wide cases: acceptor on `Wide.WState` (sorted-vector instance of the heap contract) -/

def wA : Wide.Algs := Tbox.C02.Heap.sortedAlgs Wide.key

def wbits (s : Wide.WState) : String :=
  if s.objs.size = 0 then "-" else
  String.ofList (s.objs.toList.map fun o => if !o.alive then 'x' else if o.inited && o.enabled then '1' else '0')

/-- consume the `F j en=…` / `R -` lines of one pass of a wide case -/
partial def wFirePass (a : TAcc) : TAcc :=
  match a.tl with
  | l :: rest =>
    match words l with
    | ["F", j, en] =>
      match j.toNat? with
      | none => { a with err := some s!"op#{a.nops} unparsable callback line [{l}]" }
      | some j =>
        match a.ws.loop.heap.find? (fun t => t.owner == j), a.ws.loop.heap with
        | some t, f :: _ =>
          if !Wide.due a.ws.now t.expired then
            { a with err := some s!"op#{a.nops} timer {j} fired EARLY: 64-bit deadline {t.expired} > now {a.ws.now}" }
          else if t.expired != f.expired then
            { a with err := some s!"op#{a.nops} timer {j} (deadline {t.expired}) fired before an earlier deadline ({f.expired})" }
          else
            let loop0 := { a.ws.loop with heap := Wide.bringFront a.ws.loop.heap t }
            let (loop1, sv) := Wide.handleOne wA 10000000 loop0 a.ws.now
            if (sv.map fun x => x.timer.tok) != some t.tok then { a with err := some s!"M: op#{a.nops} wide model served another record than {j}" } else
            let ws1 := Wide.wOnEvent { a.ws with loop := loop1 } j
            let want := "en=" ++ wbits ws1
            if en != want then { a with err := some s!"op#{a.nops} at entry of callback {j}: impl=[{en}] model=[{want}]" } else
            let tags := (if t.interval.toNat ≥ 9223372036854775808 then ["w-negative"] else []) ++
                        (if t.interval.toNat ≥ 2147483648 ∧ t.interval.toNat < 9223372036854775808 then ["w-fired-2^31+"] else [])
            let a1 := expectLine { a with ws := ws1, tl := rest, tags := a.tags ++ ["w-fire"] ++ tags } "R -" s!"results of the calls made by callback {j}"
            if a1.err.isSome then a1 else wFirePass a1
        | _, _ => { a with err := some s!"op#{a.nops} callback on timer {j} which is not armed (disabled, destroyed, one-shot already fired, or never enabled)" }
    | _ => a
  | [] => a

/-- the callbacks of one pass of a wide case at the current clock; then nothing may be due -/
def wDrain (a : TAcc) : TAcc :=
  if a.err.isSome then a else
  let a1 := wFirePass a
  if a1.err.isSome then a1 else
  match (Wide.handleOne wA 10000000 a1.ws.loop a1.ws.now).2 with
  | some sv => { a1 with err := some s!"op#{a1.nops} pass ended although timer {sv.timer.owner} is due (64-bit deadline {sv.timer.expired} <= now {a1.ws.now}): SKIPPED" }
  | none => a1

/-- `adv` / `idle` of a wide case: the pass, then the report line -/
def wPass (a : TAcc) : TAcc :=
  let a1 := wDrain a
  if a1.err.isSome then a1 else expectLine a1 ("P ret=1 en=" ++ wbits a1.ws) "after pass"

def boundaryTags (ms : Nat) : List String :=
  (if ms ≥ 2147483646 ∧ ms ≤ 2147483650 then ["iv~2^31"] else []) ++ (if ms ≥ 4294967294 ∧ ms ≤ 4294967298 then ["iv~2^32"] else []) ++
  (if ms > 2147483650 ∧ ms < 4294967294 then ["iv-25..49d"] else []) ++ (if ms > 4294967298 then ["iv>2^32"] else [])

def stepOp (a : TAcc) (line : String) : TAcc :=
  if a.err.isSome then a else
  let a := { a with nops := a.nops + 1 }
  let op := parseOp a.s (words line)
  let isPool := match op with
    | .pnew _ _ _ => true | .pcancel _ => true | .pcleanup => true | .pat _ _ => true | .wall _ => true | _ => false
  let isPlain := match op with | .new _ => true | .api _ => true | _ => false
  let isWide := match op with | .wnew => true | .winit _ _ _ => true | .wen _ => true | .wdis _ => true | .wdel _ => true | _ => false
  let op := if (isPool && a.mode != 0 && a.mode != 2) || (isPlain && a.mode != 0 && a.mode != 1) || (isWide && a.mode != 0 && a.mode != 3) then POp.bad else op
  -- wide ops address existing objects only
  let op := match op with
    | .winit j _ _ => if j < a.ws.objs.size then op else POp.bad
    | .wen j => if j < a.ws.objs.size then op else POp.bad
    | .wdis j => if j < a.ws.objs.size then op else POp.bad
    | .wdel j => if j < a.ws.objs.size then op else POp.bad
    | _ => op
  -- the clock stays below 7·10^12 ms (int64 nanoseconds)
  let clk := if a.mode == 3 then a.ws.now.toNat else realNow a.s
  let op := match op with
    | .adv d => if clk + d ≤ clockMax then op else POp.bad
    | .idle d => if clk + d ≤ clockMax then op else POp.bad
    | _ => op
  -- doAt: only time points 1 … 100000 ms ahead of the system clock are in the model
  let op := match op with
    | .pat tp _ => if 1 ≤ tp - a.wall ∧ tp - a.wall ≤ 100000 then op else POp.bad
    | _ => op
  let a := match op with
    | .bad => a
    | _ => if isPool then { a with mode := 2 } else if isPlain then { a with mode := 1 } else if isWide then { a with mode := 3 } else a
  match op with
  | .bad => expectLine a "bad-op" "malformed op"
  | .engine e => expectLine { a with tags := a.tags ++ [e] } ("P engine=" ++ e) "engine"
  | .new sc =>
      let s' := step a.s (.newObj sc)
      expectLine { a with s := s' } ("P ret=1 en=" ++ a.bits s') "new"
  | .pnew after ms sc =>
      -- TimerPool::doAfter / doEvery: the model's `Pool.doAfter` / `Pool.doEvery` (= step (.api (.doAfter ms sc)))
      let (s', _tok) := if after then Pool.doAfter a.s ms sc else Pool.doEvery a.s ms sc
      expectLine { a with s := s', tags := a.tags ++ ["pool"] ++ boundaryTags ms } ("P ret=1 en=" ++ a.bits s') "pool new"
  | .pat tp sc =>
      match Pool.doAt a.s a.wall tp sc with
      | some (s', _tok) => expectLine { a with s := s', tags := a.tags ++ ["pool", "doAt"] } ("P ret=1 en=" ++ a.bits s') "pool doAt"
      | none => expectLine a "bad-op" "doAt in the past"
  | .wall d => expectLine { a with wall := a.wall + d, tags := a.tags ++ ["walljump"] } "P wall" "wall clock jump"
  | .pcancel k =>
      let (s', r) := Pool.cancel a.s k
      expectLine { a with s := s' } ("P ret=" ++ boolStr r ++ " en=" ++ a.bits s') "pool cancel"
  | .pcleanup =>
      let s' := Pool.cleanup a.s
      expectLine { a with s := s' } ("P ret=1 en=" ++ a.bits s') "pool cleanup"
  | .api act_ =>
      let (s', r) := act a.s act_
      let tg := match act_ with | .init _ ms _ => boundaryTags ms | _ => []
      expectLine { a with s := s', tags := a.tags ++ tg } ("P ret=" ++ boolStr r ++ " en=" ++ a.bits s') "api result"
  | .wnew =>
      let ws := Wide.wNew a.ws
      expectLine (wDrain { a with ws := ws, tags := a.tags ++ ["wide"] }) ("P ret=1 en=" ++ wbits ws) "wnew"
  | .winit j ms o =>
      let (ws, r) := Wide.wInit wA a.ws j (Int64.ofInt ms) o
      let tg := if ms < 0 then ["w-init-negative"] else if ms == 0 then ["w-init-zero"] else boundaryTags ms.toNat
      expectLine (wDrain { a with ws := ws, tags := a.tags ++ tg }) ("P ret=" ++ boolStr r ++ " en=" ++ wbits ws) "winit"
  | .wen j =>
      let (ws, r) := Wide.wEnable wA a.ws j
      let ok := Tbox.C02.Heap.isHeapB Wide.key ws.loop.heap
      if !ok then { a with err := some s!"M: op#{a.nops} wide model: vector not heap-ordered" } else
      expectLine (wDrain { a with ws := ws }) ("P ret=" ++ boolStr r ++ " en=" ++ wbits ws) "wen"
  | .wdis j =>
      let (ws, r) := Wide.wDisable wA a.ws j
      expectLine (wDrain { a with ws := ws }) ("P ret=" ++ boolStr r ++ " en=" ++ wbits ws) "wdis"
  | .wdel j =>
      let (ws, r) := Wide.wDestroy wA a.ws j
      expectLine (wDrain { a with ws := ws }) ("P ret=" ++ boolStr r ++ " en=" ++ wbits ws) "wdel"
  | .idle d =>
      -- the loop goes to sleep (no next-function pending): the wait it asks for, then as `adv d`
      let (front, now) := if a.mode == 3 then (a.ws.loop.heap.head?.map (·.expired), a.ws.now)
                          else (frontOf a.s, UInt64.ofNat (realNow a.s))
      match a.tl with
      | [] => { a with err := some s!"op#{a.nops} idle pass: impl=<missing>" }
      | l :: rest =>
        match checkWait a.nops l front now with
        | some e => { a with err := some e }
        | none =>
          let wtag := match front with
            | none => "idle-none"
            | some e => if e.toNat - now.toNat > 2147483647 then "idle-clamped" else if e.toNat ≤ now.toNat then "idle-due" else "idle-wait"
          let a := { a with tl := rest, tags := a.tags ++ ["idle", wtag] }
          if a.mode == 3 then wPass { a with ws := { a.ws with now := a.ws.now + UInt64.ofNat d } }
          else
            let s1 := step (step a.s (.advance d)) .beginPass
            let a1 := firePass { a with s := s1, wall := a.wall + d } []
            if a1.err.isSome then a1 else
            if !valid a1.s .endPass then
              let due := a1.s.timers.filter fun r => r.expired ≤ a1.s.passNow.getD 0
              { a1 with err := some s!"op#{a1.nops} pass ended although timer(s) {due.map (·.owner)} are due: SKIPPED" }
            else
              let s2 := step a1.s .endPass
              expectLine { a1 with s := s2 } ("P ret=1 en=" ++ a1.bits s2) "after idle pass"
  | .adv d =>
      if a.mode == 3 then wPass { a with ws := { a.ws with now := a.ws.now + UInt64.ofNat d } } else
      let s1 := step (step a.s (.advance d)) .beginPass
      let a1 := firePass { a with s := s1, wall := a.wall + d } []
      if a1.err.isSome then a1 else
      if !valid a1.s .endPass then
        let due := a1.s.timers.filter fun r => r.expired ≤ a1.s.passNow.getD 0
        { a1 with err := some s!"op#{a1.nops} pass ended although timer(s) {due.map (·.owner)} are due (deadline(s) {due.map (·.expired)} <= now {a1.s.passNow.getD 0}): SKIPPED" }
      else
        let s2 := step a1.s .endPass
        let fired := a1.s.log.length - a.s.log.length
        let tg := if fired = 0 then "pass0" else if fired = 1 then "pass1" else "passN"
        expectLine { a1 with s := s2, tags := a1.tags ++ [tg] } ("P ret=1 en=" ++ a1.bits s2) "after pass"

structure DS where
  ops : Array String := #[]
  tl : Array String := #[]

def finish (d : DS) : List String :=
  let a : TAcc := d.ops.foldl stepOp ({ tl := d.tl.toList } : TAcc)
  let tagsLine := if a.tags.isEmpty then [] else ["B " ++ " ".intercalate a.tags.eraseDups]
  match a.err with
  | some e => tagsLine ++ ["reject " ++ e]
  | none =>
    match a.tl with
    | [] => tagsLine ++ [s!"ok ops={a.nops} callbacks={a.s.log.length}"]
    | l :: _ => tagsLine ++ ["reject unexpected extra implementation output: [" ++ l ++ "]"]

def stepLine (d : DS) (line : String) : DS × List String :=
  let t := line.trimAscii.toString
  if t.isEmpty then (d, [])
  else if t.startsWith "case " then ({}, [t])
  else if t == "end" then ({}, finish d)
  else if t.startsWith "T " then ({ d with tl := d.tl.push (t.drop 2).toString }, [])
  else ({ d with ops := d.ops.push t }, [])

def main : IO Unit := runDriver ({} : DS) stepLine
