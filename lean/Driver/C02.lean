/- C02 driver: trace acceptor. Input per case: op lines, then the implementation's output lines
prefixed "T ", then "end". Replays the implementation's callback order on the model (every
`F j` must be a `fire` step that is enabled in the model: due, minimal deadline, object armed),
checks that the pass ends with nothing due, and compares every API result and isEnabled()
vector. Prints `ok …` or `reject …`. -/
import TboxModel.Util
import TboxModel.C02.Model
open Tbox.Util Tbox.C02

/-- isEnabled() vector; objects owned by the TimerPool (ids in `pool`) show `p` while armed, `x` once gone -/
def bitsOf (s : State) (pool : List Nat := []) : String :=
  if s.nObjs = 0 then "-" else
  String.ofList ((List.range s.nObjs).map fun j =>
    let o := s.obj j
    if pool.contains j then (if o.alive && o.inited && o.enabled then 'p' else 'x')
    else if !o.alive then 'x' else if o.inited && o.enabled then '1' else '0')

def parseAct (w : String) : Option Act :=
  match w.toList with
  | 'i' :: rest =>
      match (String.ofList rest).splitOn ":" with
      | [j, ms, m] => do
          let j ← j.toNat?; let ms ← ms.toNat?
          if ms < 1 then none else
          if m == "o" then some (.init j ms true) else if m == "p" then some (.init j ms false) else none
      | _ => none
  | 'e' :: rest => (String.ofList rest).toNat?.map .enable
  | 'd' :: rest => (String.ofList rest).toNat?.map .disable
  | 'x' :: rest => (String.ofList rest).toNat?.map .destroy
  | _ => none

/-- `c<k>` = TimerPool::cancel of pool timer k: disable it and (deferred in the code) delete it -/
def parseItem (item : String) (self : Nat) (poolScript : Bool) : Option (List Act) :=
  match item.toList with
  | 'c' :: rest => if poolScript then (String.ofList rest).toNat?.map fun k => [.disable k, .destroy k] else none
  | _ => if poolScript then none else do
    let a ← parseAct item
    match a with
    | .destroy j => if j = self then none else some [a]
    | _ => some [a]

def parseScript (w : String) (self : Nat) (poolScript : Bool := false) : Option (List Act) :=
  if w == "-" then some [] else
  ((w.splitOn ",").mapM fun item => parseItem item self poolScript).map List.flatten

inductive POp where
  | new (sc : List Act) | api (a : Act) | adv (d : Nat) | engine (e : String) | bad
  | pnew (after : Bool) (ms : Nat) (sc : List Act) | pcancel (k : Nat) | pcleanup

def parseOp (s : State) (ws : List String) : POp :=
  match ws with
  | ["engine", e] => if (e == "epoll" || e == "select") && s.nObjs == 0 then .engine e else .bad
  | ["new", sc] => match parseScript sc s.nObjs with | some l => .new l | none => .bad
  | ["pafter", ms, sc] => match ms.toNat?, parseScript sc (s.nObjs + 1000000) true with
      | some n, some l => if 1 ≤ n ∧ n ≤ 100000 then .pnew true n l else .bad | _, _ => .bad
  | ["pevery", ms, sc] => match ms.toNat?, parseScript sc (s.nObjs + 1000000) true with
      | some n, some l => if 1 ≤ n ∧ n ≤ 100000 then .pnew false n l else .bad | _, _ => .bad
  | ["pcancel", k] => match k.toNat? with | some k => .pcancel k | none => .bad
  | ["pcleanup"] => .pcleanup
  | ["adv", d] => match d.toNat? with | some n => if n ≤ 100000 then .adv n else .bad | none => .bad
  | ["init", j, ms, m] => match parseAct ("i" ++ j ++ ":" ++ ms ++ ":" ++ m) with
      | some (.init j ms o) => if j < s.nObjs then .api (.init j ms o) else .bad | _ => .bad
  | ["en", j] => match j.toNat? with | some j => if j < s.nObjs then .api (.enable j) else .bad | none => .bad
  | ["dis", j] => match j.toNat? with | some j => if j < s.nObjs then .api (.disable j) else .bad | none => .bad
  | ["del", j] => match j.toNat? with | some j => if j < s.nObjs then .api (.destroy j) else .bad | none => .bad
  | _ => .bad

structure TAcc where
  s : State := init
  tl : List String := []
  tags : List String := []
  err : Option String := none
  nops : Nat := 0
  pool : List Nat := []      -- object ids owned by the TimerPool
  mode : Nat := 0            -- 0 undecided, 1 plain TimerEvent case, 2 TimerPool case

def expectLine (a : TAcc) (want : String) (what : String) : TAcc :=
  match a.tl with
  | l :: rest => if l == want then { a with tl := rest }
                 else { a with err := some s!"op#{a.nops} {what}: impl=[{l}] model=[{want}]" }
  | [] => { a with err := some s!"op#{a.nops} {what}: impl=<missing> model=[{want}]" }

/-- consume the `F j en=…` lines of one pass -/
partial def firePass (a : TAcc) (seen : List Nat) : TAcc :=
  match a.tl with
  | l :: rest =>
    match words l with
    | ["F", j, en] =>
      match j.toNat? with
      | none => { a with err := some s!"op#{a.nops} unparsable callback line [{l}]" }
      | some j =>
        match a.s.timers.find? (fun r => r.owner == j) with
        | none => { a with err := some s!"op#{a.nops} callback on timer {j} which is not armed (disabled, destroyed, one-shot already fired, or never enabled)" }
        | some r =>
          if !canFire a.s r then
            let t := a.s.passNow.getD 0
            if r.expired > t then { a with err := some s!"op#{a.nops} timer {j} fired EARLY: deadline {r.expired} > now {t}" }
            else { a with err := some s!"op#{a.nops} timer {j} (deadline {r.expired}) fired before an earlier deadline" }
          else
            -- isEnabled() vector at callback entry: a one-shot already reports disabled
            let sEntry := if r.oneshot then a.s.setObj j { a.s.obj j with enabled := false } else a.s
            let want := "en=" ++ bitsOf sEntry a.pool
            if en != want then { a with err := some s!"op#{a.nops} at entry of callback {j}: impl=[{en}] model=[{want}]" }
            else
              let ties := (a.s.timers.filter fun q => q.expired == r.expired).length
              let nBefore := a.s.timers.length
              let s' := fire a.s r
              let tags := (if ties > 1 then ["tie"] else []) ++ (if seen.contains j then ["catchup"] else [])
                ++ (if a.s.passNow.getD 0 > r.expired then ["late"] else [])
                ++ (if s'.timers.length + (if r.oneshot then 1 else 0) < nBefore then ["cb-removed-other"] else [])
                ++ (if s'.timers.length + (if r.oneshot then 1 else 0) > nBefore then ["cb-armed-other"] else [])
              firePass { a with s := s', tl := rest, tags := a.tags ++ tags } (j :: seen)
    | _ => a
  | [] => a

def stepOp (a : TAcc) (line : String) : TAcc :=
  if a.err.isSome then a else
  let a := { a with nops := a.nops + 1 }
  let op := parseOp a.s (words line)
  let isPool := match op with | .pnew _ _ _ => true | .pcancel _ => true | .pcleanup => true | _ => false
  let isPlain := match op with | .new _ => true | .api _ => true | _ => false
  let op := if (isPool && a.mode == 1) || (isPlain && a.mode == 2) then POp.bad else op
  let op := match words line with   -- a malformed plain/pool op in the wrong kind of case is still just bad-op
    | _ => op
  let a := match op with
    | .bad => a
    | _ => if isPool then { a with mode := 2 } else if isPlain then { a with mode := 1 } else a
  match op with
  | .bad => expectLine a "bad-op" "malformed op"
  | .engine e => expectLine { a with tags := a.tags ++ [e] } ("P engine=" ++ e) "engine"
  | .new sc =>
      let s' := step a.s (.newObj sc)
      expectLine { a with s := s' } ("P ret=1 en=" ++ bitsOf s' a.pool) "new"
  | .pnew after ms sc =>
      -- TimerPool::doAfter / doEvery = newTimerEvent + initialize + setCallback + enable;
      -- the doAfter wrapper frees the token and deletes the timer after the user callback
      let j := a.s.nObjs
      let s1 := step a.s (.newObj (if after then sc ++ [.destroy j] else sc))
      let s2 := step (step s1 (.api (.init j ms after))) (.api (.enable j))
      let pool := j :: a.pool
      expectLine { a with s := s2, pool := pool, tags := a.tags ++ ["pool"] } ("P ret=1 en=" ++ bitsOf s2 pool) "pool new"
  | .pcancel k =>
      let live := a.pool.contains k && (a.s.obj k).alive
      let s' := if live then step (step a.s (.api (.disable k))) (.api (.destroy k)) else a.s
      expectLine { a with s := s' } ("P ret=" ++ (if live then "1" else "0") ++ " en=" ++ bitsOf s' a.pool) "pool cancel"
  | .pcleanup =>
      let s' := a.pool.foldl (fun st k => step (step st (.api (.disable k))) (.api (.destroy k))) a.s
      expectLine { a with s := s' } ("P ret=1 en=" ++ bitsOf s' a.pool) "pool cleanup"
  | .api act_ =>
      let (s', r) := act a.s act_
      expectLine { a with s := s' } ("P ret=" ++ (if r then "1" else "0") ++ " en=" ++ bitsOf s' a.pool) "api result"
  | .adv d =>
      let s1 := step (step a.s (.advance d)) .beginPass
      let a1 := firePass { a with s := s1 } []
      if a1.err.isSome then a1 else
      if !valid a1.s .endPass then
        let due := a1.s.timers.filter fun r => r.expired ≤ a1.s.passNow.getD 0
        { a1 with err := some s!"op#{a1.nops} pass ended although timer(s) {due.map (·.owner)} are due (deadline(s) {due.map (·.expired)} <= now {a1.s.passNow.getD 0}): SKIPPED" }
      else
        let s2 := step a1.s .endPass
        let fired := a1.s.log.length - a.s.log.length
        let tg := if fired = 0 then "pass0" else if fired = 1 then "pass1" else "passN"
        expectLine { a1 with s := s2, tags := a1.tags ++ [tg] } ("P ret=1 en=" ++ bitsOf s2 a1.pool) "after pass"

structure DS where
  ops : Array String := #[]
  tl : Array String := #[]

def finish (d : DS) : List String :=
  let a : TAcc := d.ops.foldl stepOp ({ tl := d.tl.toList } : TAcc)
  let tagsLine := if a.tags.isEmpty then [] else ["B " ++ " ".intercalate a.tags.eraseDups]
  match a.err with
  | some e => tagsLine ++ ["reject " ++ e]
  | none =>
    match a.tl with
    | [] => tagsLine ++ [s!"ok ops={a.nops} callbacks={a.s.log.length}"]
    | l :: _ => tagsLine ++ ["reject unexpected extra implementation output: [" ++ l ++ "]"]

def stepLine (d : DS) (line : String) : DS × List String :=
  let t := line.trimAscii.toString
  if t.isEmpty then (d, [])
  else if t.startsWith "case " then ({}, [t])
  else if t == "end" then ({}, finish d)
  else if t.startsWith "T " then ({ d with tl := d.tl.push (t.drop 2).toString }, [])
  else ({ d with ops := d.ops.push t }, [])

def main : IO Unit := runDriver ({} : DS) stepLine
