/- C02 driver: trace acceptor. Input per case: op lines, then the implementation's output lines
prefixed "T ", then "end". Replays the implementation's callback order on the model (every
`F j` must be a `fire` step that is enabled in the model: due, minimal deadline, object armed),
checks that the pass ends with nothing due, and compares every API result and isEnabled()
vector. Prints `ok …` or `reject …`. -/
import TboxModel.Util
import TboxModel.C02.Model
import TboxModel.C02.Wide
import TboxModel.C02.WideExec
open Tbox.Util Tbox.C02

def maxMs : Nat := 4611686018427387904        -- 2^62
def clockMax : Nat := 7000000000000           -- ms; both virtual clocks of the harness are int64 counts of nanoseconds
/-- the harness's virtual monotonic clock starts at 1000 ms: both machines begin a case with `advance 999` -/
def realNow (s : State) : Nat := s.now

/-- isEnabled() vector; in a TimerPool case (`poolMode`) every object is owned by the pool and shows `p`
while armed, `x` once gone -/
def bitsOf (s : State) (poolMode : Bool := false) (slot : Bool := false) : String :=
  if s.nObjs = 0 then "-" else
  String.ofList ((List.range s.nObjs).map fun j =>
    let o := s.obj j
    if slot && j == 0 then 's' else      -- the loop's exit-timer slot: its state is not observable through the API
    if poolMode then (if o.alive && o.inited && o.enabled then 'p' else 'x')
    else if !o.alive then 'x' else if o.inited && o.enabled then '1' else '0')

def takeNat (cs : List Char) : Option (Nat × List Char) :=
  let ds := cs.takeWhile Char.isDigit
  if ds.isEmpty || ds.length > 19 then none else (String.ofList ds).toNat?.map fun n => (n, cs.drop ds.length)

/- callback scripts: items separated by `,`; a nested script (of a timer created inside the callback)
is written in brackets.
  plain TimerEvent case: e<j> d<j> x<j> i<j>:<ms>:<o|p>  n[<script>] (newTimerEvent + setCallback)
                         q<w> (loop->exitLoop(w ms), only in a case that declared the exit-timer slot with `xslot`)
  TimerPool case:        c<k> (cancel)  a<ms>[<script>] (doAfter)  v<ms>[<script>] (doEvery)  z (cleanup)
`x<self>` (destroying the timer whose callback is running) is outside the property: rejected at top
level; nested scripts, whose own id is only known at run time, may not contain `x` at all.
In a slot case object 0 is the loop's exit timer: scripts may not address it except through `q`. -/

/-- `CommonLoop::exitLoop(w)` on the exit-timer slot (object 0): the pending exit timer is disabled and deleted; w = 0 stops the
loop (the driver notes that), else a new one-shot of w ms is created, initialised and enabled — for the timer core the same as
re-initialising and enabling the slot -/
def exitActs (w : Nat) : List Act := if w = 0 then [.disable 0] else [.init 0 w true, .enable 0]

mutual
partial def pItems (cs : List Char) (self : Option Nat) (pool slot : Bool) : Option (List Act × List Char) :=
  match cs with
  | [] => some ([], [])
  | ']' :: _ => some ([], cs)
  | _ => do
    let (a, rest) ← pItem cs self pool slot
    match rest with
    | ',' :: rest' =>
      match rest' with
      | [] => none
      | ']' :: _ => none
      | _ => do
        let (as, rest'') ← pItems rest' self pool slot
        pure (a ++ as, rest'')
    | _ => pure (a, rest)

partial def pNested (cs : List Char) (pool slot : Bool) : Option (List Act × List Char) :=
  match cs with
  | '[' :: rest => do
    let (as, rest') ← pItems rest none pool slot
    match rest' with
    | ']' :: rest'' => pure (as, rest'')
    | _ => none
  | _ => none

partial def pItem (cs : List Char) (self : Option Nat) (pool slot : Bool) : Option (List Act × List Char) :=
  let okId (k : Nat) : Bool := !(slot && k == 0)
  match cs with
  | 'c' :: rest => if !pool then none else do let (k, r) ← takeNat rest; pure ([.cancel k], r)
  | 'z' :: rest => if !pool then none else pure ([.cleanup], rest)
  | 'a' :: rest => if !pool then none else do
      let (ms, r) ← takeNat rest
      if ms < 1 ∨ ms > maxMs then none else
      let (sc, r') ← pNested r pool slot
      pure ([.doAfter ms sc], r')
  | 'v' :: rest => if !pool then none else do
      let (ms, r) ← takeNat rest
      if ms < 1 ∨ ms > maxMs then none else
      let (sc, r') ← pNested r pool slot
      pure ([.doEvery ms sc], r')
  | 'n' :: rest => if pool then none else do
      let (sc, r') ← pNested rest pool slot
      pure ([.newObj sc], r')
  | 'q' :: rest => if pool || !slot then none else do
      let (w, r) ← takeNat rest
      if w > maxMs then none else pure (exitActs w, r)
  | 'e' :: rest => if pool then none else do let (k, r) ← takeNat rest; if okId k then pure ([.enable k], r) else none
  | 'd' :: rest => if pool then none else do let (k, r) ← takeNat rest; if okId k then pure ([.disable k], r) else none
  | 'x' :: rest => if pool then none else do
      let (k, r) ← takeNat rest
      match self with
      | none => none
      | some me => if k = me || !okId k then none else pure ([.destroy k], r)
  | 'i' :: rest => if pool then none else do
      let (k, r) ← takeNat rest
      if !okId k then none else
      match r with
      | ':' :: r1 => do
        let (ms, r2) ← takeNat r1
        if ms < 1 ∨ ms > maxMs then none else
        match r2 with
        | ':' :: 'o' :: r3 => pure ([.init k ms true], r3)
        | ':' :: 'p' :: r3 => pure ([.init k ms false], r3)
        | _ => none
      | _ => none
  | _ => none
end

def parseScript (w : String) (self : Nat) (poolScript : Bool := false) (slot : Bool := false) : Option (List Act) :=
  if w == "-" then some [] else
  if w.isEmpty then none else
  match pItems w.toList (some self) poolScript slot with
  | some (as, []) => some as
  | _ => none

def parseAct (w : String) (slot : Bool) : Option Act :=
  match pItem w.toList none false slot with
  | some ([a], []) => some a
  | _ => none

inductive POp where
  | new (sc : List Act) | api (a : Act) | adv (d : Nat) | engine (e : String) | bad
  | pnew (after : Bool) (ms : Nat) (sc : List Act) | pcancel (k : Nat) | pcleanup
  | pat (tp : Int) (sc : List Act) | wall (d : Int)
  | idle (d : Nat)
  | wnew | winit (j : Nat) (ms : Int) (oneshot : Bool) | wen (j : Nat) | wdis (j : Nat) | wdel (j : Nat)
  | xslot | xl (w : Nat) | xlo (w : Nat)             -- the loop's exit timer: slot declaration, exitLoop(w) inside / outside a run
  | wxslot | wxl (w : Int)                            -- wide cases: exit-timer slot, exitLoop(w) with any signed count
  | pnull (kind : String) | pdestroy                  -- TimerPool: empty std::function; ~TimerPool with pending timers (then a fresh pool)

def msOk (w : String) : Option Nat := match w.toNat? with | some n => if n ≤ maxMs ∧ w.length ≤ 19 then some n else none | none => none

def parseOp (s : State) (slot : Bool) (ws : List String) : POp :=
  match ws with
  | ["engine", e] => if (e == "epoll" || e == "select") && s.nObjs == 0 then .engine e else .bad
  | ["xslot"] => if s.nObjs == 0 then .xslot else .bad
  | ["xl", w] => match msOk w with | some n => if slot then .xl n else .bad | none => .bad
  | ["xlo", w] => match msOk w with | some n => if slot then .xlo n else .bad | none => .bad
  | ["pnull", k, ms] => match msOk ms with | some n => if (k == "a" || k == "e" || k == "t") && 1 ≤ n then .pnull k else .bad | none => .bad
  | ["pdestroy"] => .pdestroy
  | ["new", sc] => match parseScript sc s.nObjs false slot with | some l => .new l | none => .bad
  | ["pafter", ms, sc] => match ms.toNat?, parseScript sc 0 true with
      | some n, some l => if 1 ≤ n ∧ n ≤ maxMs ∧ ms.length ≤ 19 then .pnew true n l else .bad | _, _ => .bad
  | ["pevery", ms, sc] => match ms.toNat?, parseScript sc 0 true with
      | some n, some l => if 1 ≤ n ∧ n ≤ maxMs ∧ ms.length ≤ 19 then .pnew false n l else .bad | _, _ => .bad
  | ["pat", tp, sc] => match tp.toNat?, parseScript sc 0 true with
      | some n, some l => if n ≤ 100000000 then .pat (Int.ofNat n) l else .bad | _, _ => .bad
  | ["wall", d] => match intOfString? d with
      | some n => if -100000 ≤ n ∧ n ≤ 100000 then .wall n else .bad | none => .bad
  | ["pcancel", k] => match k.toNat? with | some k => .pcancel k | none => .bad
  | ["pcleanup"] => .pcleanup
  | ["adv", d] => match d.toNat? with | some n => if n ≤ clockMax ∧ d.length ≤ 19 then .adv n else .bad | none => .bad
  | ["idle", d] => match d.toNat? with | some n => if n ≤ clockMax ∧ d.length ≤ 19 then .idle n else .bad | none => .bad
  | ["idlex", d] => match d.toNat? with | some n => if n ≤ clockMax ∧ d.length ≤ 19 then .idle n else .bad | none => .bad   -- wait interrupted (EINTR): same to the timers
  | ["wnew"] => .wnew
  | ["wxslot"] => .wxslot
  | ["wxl", w] => match intOfString? w with
      | some v => if w.length ≤ 20 ∧ -(maxMs : Int) ≤ v ∧ v ≤ maxMs then .wxl v else .bad
      | none => .bad
  | ["winit", j, ms, m] => match j.toNat?, intOfString? ms with
      | some j, some v => if ms.length ≤ 20 ∧ -(maxMs : Int) ≤ v ∧ v ≤ maxMs ∧ (m == "o" || m == "p") ∧ !(v == 0 && m == "p") then .winit j v (m == "o") else .bad
      | _, _ => .bad
  | ["wen", j] => match j.toNat? with | some j => .wen j | none => .bad
  | ["wdis", j] => match j.toNat? with | some j => .wdis j | none => .bad
  | ["wdel", j] => match j.toNat? with | some j => .wdel j | none => .bad
  | ["init", j, ms, m] => match parseAct ("i" ++ j ++ ":" ++ ms ++ ":" ++ m) slot with
      | some (.init j ms o) => if j < s.nObjs then .api (.init j ms o) else .bad | _ => .bad
  | ["en", j] => match j.toNat? with | some j => if j < s.nObjs && !(slot && j == 0) then .api (.enable j) else .bad | none => .bad
  | ["dis", j] => match j.toNat? with | some j => if j < s.nObjs && !(slot && j == 0) then .api (.disable j) else .bad | none => .bad
  | ["del", j] => match j.toNat? with | some j => if j < s.nObjs && !(slot && j == 0) then .api (.destroy j) else .bad | none => .bad
  | _ => .bad

/-! ### the two model layers in lock-step -/

def wA : Wide.Algs := Tbox.C02.Heap.sortedAlgs Wide.key
def wl : Int64 := 10000000

structure TAcc where
  s : State := step init (.advance 999)                       -- the abstract model (Model.lean)
  x : Wide.XState := Wide.xstep wA wl Wide.xinit (.advance 999) -- the width-faithful machine (WideExec.lean), same op list
  shadow : Bool := true      -- both layers run (false once a wide case used a negative interval: outside the abstract model)
  slot : Bool := false       -- object 0 is the loop's exit timer
  stopReq : Bool := false    -- stopLoop() was called: the loop leaves `runLoop` after this pass
  tl : List String := []
  tags : List String := []
  err : Option String := none
  nops : Nat := 0
  mode : Nat := 0            -- 0 undecided, 1 plain TimerEvent case, 2 TimerPool case, 3 wide case (signed intervals)
  wall : Int := 0            -- system clock (ms since the harness's wall epoch); `adv` moves both clocks, `wall` only this one

def TAcc.bits (a : TAcc) (s : State) : String := bitsOf s (a.mode == 2) a.slot

def xbits (x : Wide.XState) (slot : Bool := false) : String :=
  if x.nObjs = 0 then "-" else
  String.ofList ((List.range x.nObjs).map fun j =>
    let o := x.obj j
    if slot && j == 0 then 's' else
    if !o.alive then 'x' else if o.inited && o.enabled then '1' else '0')

def stepName : Step → String
  | .newObj _ => "newObj" | .api _ => "api" | .advance d => s!"advance {d}" | .beginPass => "beginPass"
  | .fire tok => s!"fire token {tok}" | .endPass => "endPass"

/-- the wide machine takes the step the abstract one took.  `fire tok`: the wide machine serves the FRONT of its heap vector;
which of several records with the front's deadline is in front is the heap library's choice, so the record is first
moved to the front among its equals (as the acceptor follows the real heap) -/
def xApply (x : Wide.XState) (st : Step) : Option Wide.XState :=
  let x := match st with
    | .fire tok => match x.loop.heap.find? (fun t => t.tok == tok), x.loop.heap.head? with
        | some t, some f => if t.expired == f.expired then { x with loop := { x.loop with heap := Wide.bringFront x.loop.heap t } } else x
        | _, _ => x
    | _ => x
  if Wide.xvalid wA wl x st then some (Wide.xstep wA wl x st) else none

def sync (a : TAcc) (sts : List Step) : TAcc :=
  sts.foldl (fun a st =>
    if a.err.isSome || !a.shadow then a else
    match xApply a.x st with
    | some x' => { a with x := x' }
    | none => { a with err := some s!"M: op#{a.nops} the two model layers disagree: the width-faithful machine refuses step [{stepName st}] of the abstract model" }) a

/-- the abstract model takes the step the wide machine took (wide cases) -/
def shadowStep (a : TAcc) (st : Step) : TAcc :=
  if a.err.isSome || !a.shadow then a else
  if valid a.s st then { a with s := step a.s st }
  else { a with err := some s!"M: op#{a.nops} the two model layers disagree: the abstract model refuses step [{stepName st}] of the width-faithful machine" }

/-- after every op: the two layers are in related states (the relation `Wide.Sim` of the simulation theorem, made executable) -/
def agree (a : TAcc) : TAcc :=
  if a.err.isSome || !a.shadow then a else
  let srt (l : List (Nat × Nat × Nat × Nat × Bool)) := Tbox.C02.Heap.isort (fun p => p.1) l
  let sa := srt (a.s.timers.map fun r => (r.tok, r.owner, r.expired, r.interval, r.oneshot))
  let xa := srt (a.x.loop.heap.map fun t => (t.tok, t.owner, t.expired.toNat, t.interval.toNat, t.rep == 1))
  let objsOk := (List.range (max a.s.nObjs a.x.nObjs)).all fun j =>
    let o := a.s.obj j
    let p := a.x.obj j
    o.alive == p.alive && o.inited == p.inited && o.enabled == p.enabled && o.oneshot == p.oneshot && o.token == p.token &&
      (o.interval : Int) == p.interval.toInt
  let bad : Option String :=
    if sa != xa then some s!"pending records abstract={sa} wide={xa}"
    else if !objsOk then some "object flags"
    else if a.s.nObjs != a.x.nObjs then some "object count"
    else if a.s.pool != a.x.pool then some "live pool tokens"
    else if a.s.nextTok != a.x.loop.nextTok then some "token allocator"
    else if a.s.now != a.x.now.toNat then some "clock"
    else if a.s.log.length != a.x.log.length || a.s.log.head? != a.x.log.head? then some "callback log"
    else if !Tbox.C02.Heap.isHeapB Wide.key a.x.loop.heap then some "wide vector not heap-ordered"
    else none
  match bad with
  | some m => { a with err := some s!"M: op#{a.nops} the two model layers disagree after the op: {m}" }
  | none => a

def expectLine (a : TAcc) (want : String) (what : String) : TAcc :=
  if a.err.isSome then a else
  match a.tl with
  | l :: rest => if l == want then { a with tl := rest }
                 else { a with err := some s!"op#{a.nops} {what}: impl=[{l}] model=[{want}]" }
  | [] => { a with err := some s!"op#{a.nops} {what}: impl=<missing> model=[{want}]" }

/-- the loop left `runLoop` iff `stopLoop()` was called (exit timer fired, or exitLoop(0)) -/
def expectExit (a : TAcc) : TAcc :=
  if a.err.isSome then a else
  if a.stopReq then expectLine { a with stopReq := false, tags := a.tags ++ ["loop-exit"] } "P loop-exit" "the loop must leave runLoop (stopLoop was called)"
  else a

def isSlotAct : Act → Bool
  | .init 0 _ _ => true | .enable 0 => true | .disable 0 => true | _ => false

/-- return values of the calls a callback made, as the harness prints them (`R 101`, `R -` if none);
the tail of the doAfter wrapper (`pfree`) is not a user call, `exitLoop` returns nothing -/
def retsLine (script : List Act) (rets : List Bool) (slot : Bool) : String :=
  let vis := (script.zip rets).filter fun p => match p.1 with | .pfree _ => false | a => !(slot && isSlotAct a)
  if vis.isEmpty then "R -" else "R " ++ String.ofList (vis.map fun p => if p.2 then '1' else '0')

def actTags : List Act → List String
  | [] => []
  | a :: as => (match a with
      | .doAfter _ _ => ["cb-doAfter"] | .doEvery _ _ => ["cb-doEvery"] | .cancel _ => ["cb-cancel"]
      | .cleanup => ["cb-cleanup"] | .newObj _ => ["cb-new"] | _ => []) ++ actTags as

/-- consume the `F j en=…` / `R …` lines of one pass, then continue with `k`.  The exit timer's callback is internal to the
loop (no `F` line): whenever its record is due and of minimal deadline it may fire silently; among records of EQUAL
deadline the heap decides the order, which is observable only afterwards (does the loop leave `runLoop`?), so both orders
are tried. -/
partial def firePass (a : TAcc) (seen : List Nat) (k : TAcc → TAcc) : TAcc :=
  if a.err.isSome then a else
  let slotRec : Option Rec := if a.slot then (a.s.timers.find? (fun r => r.owner == 0)).filter (canFire a.s) else none
  let silent : Option TAcc := slotRec.map fun r =>
    let (s', _) := fireR a.s r
    sync { a with s := s', stopReq := true, tags := a.tags ++ ["exit-fired"] ++ (if a.s.passNow.getD 0 > r.expired then ["exit-late"] else []) } [.fire r.tok]
  let fallthrough : TAcc := match silent with
    | some a' => firePass a' seen k
    | none => k a
  match a.tl with
  | l :: rest =>
    match words l with
    | ["F", j, en] =>
      let normal : TAcc :=
        match j.toNat? with
        | none => { a with err := some s!"op#{a.nops} unparsable callback line [{l}]" }
        | some j =>
          match a.s.timers.find? (fun r => r.owner == j) with
          | none => { a with err := some s!"op#{a.nops} callback on timer {j} which is not armed (disabled, destroyed, cancelled, one-shot already fired, or never enabled)" }
          | some r =>
            if !canFire a.s r then
              let t := a.s.passNow.getD 0
              if r.expired > t then { a with err := some s!"op#{a.nops} timer {j} fired EARLY: deadline {r.expired} > now {t}" }
              else { a with err := some s!"op#{a.nops} timer {j} (deadline {r.expired}) fired before an earlier deadline" }
            else
              -- isEnabled() vector at callback entry: a one-shot already reports disabled
              let sEntry := if r.oneshot then a.s.setObj j { a.s.obj j with enabled := false } else a.s
              let want := "en=" ++ a.bits sEntry
              if en != want then { a with err := some s!"op#{a.nops} at entry of callback {j}: impl=[{en}] model=[{want}]" }
              else
                let ties := (a.s.timers.filter fun q => q.expired == r.expired).length
                let nBefore := a.s.timers.length
                let script := (a.s.obj j).script
                let (s', rets) := fireR a.s r          -- = (fire a.s r, return values): theorem fireR_fst
                let stops := a.slot && script.any (fun x => match x with | .disable 0 => true | _ => false)   -- exitLoop(0) inside the callback
                let tags := (if ties > 1 then ["tie"] else []) ++ (if seen.contains j then ["catchup"] else [])
                  ++ (if a.s.passNow.getD 0 > r.expired then ["late"] else [])
                  ++ (if s'.timers.length + (if r.oneshot then 1 else 0) < nBefore then ["cb-removed-other"] else [])
                  ++ (if s'.timers.length + (if r.oneshot then 1 else 0) > nBefore then ["cb-armed-other"] else [])
                  ++ actTags script
                  ++ (if script.any (fun x => match x with | .cancel k => k == j | _ => false) then ["cb-cancel-self"] else [])
                  ++ (if a.slot && script.any isSlotAct then ["cb-exitLoop"] else [])
                  ++ (if slotRec.isSome then ["exit-tie"] else [])
                let a0 := sync { a with s := s', tl := rest, tags := a.tags ++ tags, stopReq := a.stopReq || stops } [.fire r.tok]
                let a1 := expectLine a0 (retsLine script rets a.slot) s!"results of the calls made by callback {j}"
                if a1.err.isSome then a1 else firePass a1 (j :: seen) k
      match silent with
      | some a' =>
        let viaExit := firePass a' seen k
        if viaExit.err.isNone then viaExit else
        let n := normal
        if n.err.isNone then n else viaExit
      | none => normal
    | _ => fallthrough
  | [] => fallthrough

def boolStr (b : Bool) : String := if b then "1" else "0"

/-- the `W` line of an idle pass against `Wide.waitCore / epollTimeout / selectTimeval`.
Property level (plain `reject`): with a timer pending the loop must not be told to sleep for ever, past the
nearest deadline, or with an invalid timeval.  Model level (`reject M`): the exact value. -/
def checkWait (nops : Nat) (line : String) (front : Option UInt64) (now : UInt64) : Option String :=
  let w := Wide.waitCore false front now
  let rem : Option Nat := front.map fun e => e.toNat - now.toNat
  match words line with
  | ["W", "epoll", t] =>
    match intOfString? t with
    | none => some s!"op#{nops} unparsable wait line [{line}]"
    | some t =>
      match rem with
      | some r =>
        if t < 0 then some s!"op#{nops} epoll_wait is told to wait FOR EVER (timeout {t}) although a timer is due in {r} ms"
        else if t > r then some s!"op#{nops} epoll_wait is told to sleep {t} ms, PAST the nearest deadline ({r} ms ahead)"
        else if t != (Wide.epollTimeout w).toInt then some s!"M: op#{nops} epoll timeout impl={t} model={(Wide.epollTimeout w).toInt}"
        else none
      | none => if t != (Wide.epollTimeout w).toInt then some s!"M: op#{nops} epoll timeout impl={t} model={(Wide.epollTimeout w).toInt} (no timer pending)" else none
  | ["W", "select", "null"] =>
    match rem with
    | some r => some s!"op#{nops} select is told to wait FOR EVER (null timeval) although a timer is due in {r} ms"
    | none => none
  | ["W", "select", sec, usec] =>
    match intOfString? sec, intOfString? usec with
    | some sec, some usec =>
      let want := Wide.selectTimeval w
      match rem with
      | some r =>
        if sec < 0 ∨ usec < 0 ∨ usec ≥ 1000000 then some s!"op#{nops} select is given an invalid timeval ({sec}, {usec})"
        else if sec * 1000000 + usec > (r : Int) * 1000 then some s!"op#{nops} select is told to sleep ({sec} s, {usec} us), PAST the nearest deadline ({r} ms ahead)"
        else if want.map (fun p => (p.1.toInt, p.2.toInt)) != some (sec, usec) then some s!"M: op#{nops} select timeval impl=({sec}, {usec}) model={want.map (fun p => (p.1.toInt, p.2.toInt))}"
        else none
      | none => some s!"M: op#{nops} select timeval impl=({sec}, {usec}) model=null (no timer pending)"
    | _, _ => some s!"op#{nops} unparsable wait line [{line}]"
  | _ => some s!"op#{nops} idle pass: expected the wait line of the engine, impl=[{line}]"

/-- front deadline of the abstract model, as the 64-bit field -/
def frontOf (s : State) : Option UInt64 :=
  match s.timers with
  | [] => none
  | r :: rs => some (UInt64.ofNat (rs.foldl (fun m q => min m q.expired) r.expired))

/-! ### wide cases (any signed interval): the width-faithful machine is the acceptor, the abstract model follows while it applies -/

/-- consume the `F j en=…` / `R -` lines of one pass of a wide case -/
partial def wFirePass (a : TAcc) : TAcc :=
  if a.err.isSome then a else
  let now := a.x.passNow.getD a.x.now
  let normal : Unit → TAcc := fun _ =>
    match a.tl with
    | l :: rest =>
      match words l with
      | ["F", j, en] =>
        match j.toNat? with
        | none => { a with err := some s!"op#{a.nops} unparsable callback line [{l}]" }
        | some j =>
          match a.x.loop.heap.find? (fun t => t.owner == j), a.x.loop.heap with
          | some t, f :: _ =>
            if !Wide.due now t.expired then
              { a with err := some s!"op#{a.nops} timer {j} fired EARLY: 64-bit deadline {t.expired} > now {now}" }
            else if t.expired != f.expired then
              { a with err := some s!"op#{a.nops} timer {j} (deadline {t.expired}) fired before an earlier deadline ({f.expired})" }
            else
              match xApply a.x (.fire t.tok) with
              | none => { a with err := some s!"M: op#{a.nops} wide model served another record than {j}" }
              | some x1 =>
                let want := "en=" ++ xbits x1 a.slot
                if en != want then { a with err := some s!"op#{a.nops} at entry of callback {j}: impl=[{en}] model=[{want}]" } else
                let tags := (if t.interval.toNat ≥ 9223372036854775808 then ["w-negative"] else []) ++
                            (if t.interval.toNat ≥ 2147483648 ∧ t.interval.toNat < 9223372036854775808 then ["w-fired-2^31+"] else [])
                let a0 := shadowStep { a with x := x1, tl := rest, tags := a.tags ++ ["w-fire"] ++ tags } (.fire t.tok)
                let a1 := expectLine a0 "R -" s!"results of the calls made by callback {j}"
                if a1.err.isSome then a1 else wFirePass a1
          | _, _ => { a with err := some s!"op#{a.nops} callback on timer {j} which is not armed (disabled, destroyed, one-shot already fired, or never enabled)" }
      | _ => a
    | [] => a
  -- the exit timer's callback (`stopLoop()`) is internal to the loop, no `F` line: when its record is the heap front and due, and the
  -- next line is not a callback on a record of the SAME deadline (the heap decides among equals), it fires silently
  let nextDeadline : Option UInt64 := match a.tl with
    | l :: _ => match words l with
      | ["F", j, _] => (j.toNat?.bind fun j => a.x.loop.heap.find? (fun t => t.owner == j)).map (·.expired)
      | _ => none
    | [] => none
  match (if a.slot then a.x.loop.heap.head? else none) with
  | some f =>
    if f.owner == 0 && Wide.due now f.expired && nextDeadline != some f.expired then
      match xApply a.x (.fire f.tok) with
      | some x1 =>
        let tg := ["w-exit-fired"] ++ (if f.interval.toNat ≥ 9223372036854775808 then ["w-exit-negative-fired"] else [])
        wFirePass (shadowStep { a with x := x1, stopReq := true, tags := a.tags ++ tg } (.fire f.tok))
      | none => { a with err := some s!"M: op#{a.nops} wide model cannot serve the due exit timer" }
    else normal ()
  | none => normal ()

/-- one pass of a wide case at the current clock: begin, the callbacks, then nothing may be due -/
def wDrain (a : TAcc) : TAcc :=
  if a.err.isSome then a else
  let a0 := shadowStep { a with x := Wide.xstep wA wl a.x .beginPass } .beginPass
  let a1 := wFirePass a0
  if a1.err.isSome then a1 else
  if !Wide.xvalid wA wl a1.x .endPass then
    match (Wide.handleOne wA wl a1.x.loop (a1.x.passNow.getD a1.x.now)).2 with
    | some sv => { a1 with err := some s!"op#{a1.nops} pass ended although timer {sv.timer.owner} is due (64-bit deadline {sv.timer.expired} <= now {a1.x.now}): SKIPPED" }
    | none => { a1 with err := some s!"M: op#{a1.nops} wide machine cannot end the pass" }
  else shadowStep { a1 with x := Wide.xstep wA wl a1.x .endPass } .endPass

/-- `adv` / `idle` of a wide case: the clock, the pass, then the report line -/
def wPass (a : TAcc) (d : Nat) : TAcc :=
  let a0 := shadowStep { a with x := Wide.xstep wA wl a.x (.advance d) } (.advance d)
  let a1 := wDrain a0
  if a1.err.isSome then a1 else expectExit (expectLine a1 ("P ret=1 en=" ++ xbits a1.x a.slot) "after pass")

def boundaryTags (ms : Nat) : List String :=
  (if ms ≥ 2147483646 ∧ ms ≤ 2147483650 then ["iv~2^31"] else []) ++ (if ms ≥ 4294967294 ∧ ms ≤ 4294967298 then ["iv~2^32"] else []) ++
  (if ms > 2147483650 ∧ ms < 4294967294 then ["iv-25..49d"] else []) ++ (if ms > 4294967298 then ["iv>2^32"] else [])

/-- API acts made outside callbacks, on both layers -/
def apiActs (a : TAcc) (acts : List Act) : TAcc :=
  let s' := runScript a.s acts          -- = the steps `.api act` one after the other
  sync { a with s := s' } (acts.map Step.api)

/-- the pass of `adv d` / `idle d` in a plain or TimerPool case -/
def plainPass (a : TAcc) (d : Nat) : TAcc :=
  let s1 := step (step a.s (.advance d)) .beginPass
  let a0 := sync { a with s := s1, wall := a.wall + d } [.advance d, .beginPass]
  let n0 := a.s.log.length
  firePass a0 [] fun a1 =>
    if a1.err.isSome then a1 else
    if !valid a1.s .endPass then
      let due := a1.s.timers.filter fun r => r.expired ≤ a1.s.passNow.getD 0
      { a1 with err := some s!"op#{a1.nops} pass ended although timer(s) {due.map (·.owner)} are due (deadline(s) {due.map (·.expired)} <= now {a1.s.passNow.getD 0}): SKIPPED" }
    else
      let s2 := step a1.s .endPass
      let fired := a1.s.log.length - n0
      let tg := if fired = 0 then "pass0" else if fired = 1 then "pass1" else "passN"
      let a2 := sync { a1 with s := s2, tags := a1.tags ++ [tg] } [.endPass]
      expectExit (expectLine a2 ("P ret=1 en=" ++ a2.bits s2) "after pass")

def stepOp (a : TAcc) (line : String) : TAcc :=
  if a.err.isSome then a else
  let a := { a with nops := a.nops + 1 }
  let op := parseOp a.s a.slot (words line)
  let isPool := match op with
    | .pnew _ _ _ => true | .pcancel _ => true | .pcleanup => true | .pat _ _ => true | .wall _ => true | .pnull _ => true | .pdestroy => true | _ => false
  let isPlain := match op with | .new _ => true | .api _ => true | .xslot => true | .xl _ => true | .xlo _ => true | _ => false
  let isWide := match op with | .wxslot => true | .wxl _ => true | .wnew => true | .winit _ _ _ => true | .wen _ => true | .wdis _ => true | .wdel _ => true | _ => false
  let op := if (isPool && a.mode != 0 && a.mode != 2) || (isPlain && a.mode != 0 && a.mode != 1) || (isWide && a.mode != 0 && a.mode != 3) then POp.bad else op
  -- wide ops address existing objects only
  let op := match op with
    | .winit j _ _ => if j < a.x.nObjs && !(a.slot && j == 0) then op else POp.bad
    | .wen j => if j < a.x.nObjs && !(a.slot && j == 0) then op else POp.bad
    | .wdis j => if j < a.x.nObjs && !(a.slot && j == 0) then op else POp.bad
    | .wdel j => if j < a.x.nObjs && !(a.slot && j == 0) then op else POp.bad
    | .wxslot => if a.x.nObjs == 0 then op else POp.bad
    | .wxl _ => if a.slot then op else POp.bad
    | _ => op
  -- the clock stays below 7·10^12 ms (int64 nanoseconds)
  let clk := a.x.now.toNat
  let op := match op with
    | .adv d => if clk + d ≤ clockMax then op else POp.bad
    | .idle d => if clk + d ≤ clockMax then op else POp.bad
    | _ => op
  -- doAt: only time points 1 … 100000 ms ahead of the system clock are in the model
  let op := match op with
    | .pat tp _ => if 1 ≤ tp - a.wall ∧ tp - a.wall ≤ 100000 then op else POp.bad
    | _ => op
  let a := match op with
    | .bad => a
    | _ => if isPool then { a with mode := 2 } else if isPlain then { a with mode := 1 } else if isWide then { a with mode := 3 } else a
  agree <| match op with
  | .bad => expectLine a "bad-op" "malformed op"
  | .engine e => expectLine { a with tags := a.tags ++ [e] } ("P engine=" ++ e) "engine"
  | .new sc =>
      let s' := step a.s (.newObj sc)
      let a1 := sync { a with s := s' } [.newObj sc]
      expectLine a1 ("P ret=1 en=" ++ a1.bits s') "new"
  | .xslot =>
      let s' := step a.s (.newObj [])
      let a1 := sync { a with s := s', slot := true, tags := a.tags ++ ["exit-slot"] } [.newObj []]
      expectLine a1 ("P ret=1 en=" ++ a1.bits s') "exit-timer slot"
  | .xl w =>
      -- loop->exitLoop(w) from a deferred function of the running loop
      let a1 := apiActs { a with tags := a.tags ++ ["exitLoop"] ++ boundaryTags w ++ (if w == 0 then ["exitLoop-0"] else []), stopReq := a.stopReq || w == 0 } (exitActs w)
      expectExit (expectLine a1 ("P ret=1 en=" ++ a1.bits a1.s) "exitLoop")
  | .xlo w =>
      -- the loop is stopped (exitLoop(0)); once runLoop has returned exitLoop(w) is called from outside; then the loop runs again
      let a1 := apiActs { a with tags := a.tags ++ ["exitLoop-outside"], stopReq := true } (exitActs 0)
      let a2 := expectExit (expectLine a1 ("P ret=1 en=" ++ a1.bits a1.s) "exitLoop(0)")
      -- (exitLoop(0) outside a run clears `keep_running_`, which `runLoop` sets again: no effect on the next run)
      let a3 := apiActs a2 (exitActs w)
      expectLine a3 ("P armed-outside en=" ++ a3.bits a3.s) "exitLoop outside the run"
  | .pnew after ms sc =>
      -- TimerPool::doAfter / doEvery: the model's `Pool.doAfter` / `Pool.doEvery` (= step (.api (.doAfter ms sc)))
      let (s', _tok) := if after then Pool.doAfter a.s ms sc else Pool.doEvery a.s ms sc
      let a1 := sync { a with s := s', tags := a.tags ++ ["pool"] ++ boundaryTags ms } [.api (if after then .doAfter ms sc else .doEvery ms sc)]
      expectLine a1 ("P ret=1 en=" ++ a1.bits s') "pool new"
  | .pat tp sc =>
      match Pool.doAt a.s a.wall tp sc with
      | some (s', _tok) =>
        let a1 := sync { a with s := s', tags := a.tags ++ ["pool", "doAt"] } [.api (.doAfter (tp - a.wall).toNat sc)]
        expectLine a1 ("P ret=1 en=" ++ a1.bits s') "pool doAt"
      | none => expectLine a "bad-op" "doAt in the past"
  | .wall d => expectLine { a with wall := a.wall + d, tags := a.tags ++ ["walljump"] } "P wall" "wall clock jump"
  | .pnull k =>
      -- doAfter / doEvery / doAt with an empty std::function: refused at the call (null token), nothing is created
      expectLine { a with tags := a.tags ++ ["pool-null-" ++ k] } ("P ret=0 cancel=0 en=" ++ a.bits a.s) "pool call with an empty callback"
  | .pdestroy =>
      -- ~TimerPool with pending timers (= cleanup), then a fresh pool on the same loop
      let s' := Pool.cleanup a.s
      let a1 := sync { a with s := s', tags := a.tags ++ ["pool-destroy"] ++ (if a.s.pool.isEmpty then [] else ["pool-destroy-pending"]) } [.api .cleanup]
      expectLine a1 ("P ret=1 en=" ++ a1.bits s') "pool destruction"
  | .pcancel k =>
      let (s', r) := Pool.cancel a.s k
      let a1 := sync { a with s := s' } [.api (.cancel k)]
      expectLine a1 ("P ret=" ++ boolStr r ++ " en=" ++ a1.bits s') "pool cancel"
  | .pcleanup =>
      let s' := Pool.cleanup a.s
      let a1 := sync { a with s := s' } [.api .cleanup]
      expectLine a1 ("P ret=1 en=" ++ a1.bits s') "pool cleanup"
  | .api act_ =>
      let (s', r) := act a.s act_
      let tg := match act_ with | .init _ ms _ => boundaryTags ms | _ => []
      let a1 := sync { a with s := s', tags := a.tags ++ tg } [.api act_]
      expectLine a1 ("P ret=" ++ boolStr r ++ " en=" ++ a1.bits s') "api result"
  | .wxslot =>
      -- wide case with the loop's exit timer: object 0 is the slot (not observable, not addressable)
      let a1 := shadowStep { a with x := Wide.xNewObj a.x [], slot := true, tags := a.tags ++ ["wide", "exit-slot"] } (.newObj [])
      let a2 := wDrain a1
      expectLine a2 ("P ret=1 en=" ++ xbits a1.x true) "wxslot"
  | .wxl w =>
      -- loop->exitLoop(milliseconds(w)) with any signed count, from a deferred function of the running loop
      let (x', _stop) := Wide.xExitLoop wA a.x 0 (Int64.ofInt w)
      if w == 0 then
        let a1 := shadowStep { a with x := x', stopReq := true, tags := a.tags ++ ["w-exitLoop", "exitLoop-0"] } (.api (.disable 0))
        expectExit (expectLine a1 ("P ret=1 en=" ++ xbits x' true) "exitLoop(0)")
      else
        let neverDue := w < 0 ∧ a.x.now.toNat < (-w).toNat
        let a0 := { a with x := x', tags := a.tags ++ ["w-exitLoop"] ++ (if w < 0 then ["w-exit-negative"] else boundaryTags w.toNat) ++ (if neverDue then ["w-exit-negative-wrapped"] else []) }
        -- a negative count is outside the abstract model: from here on only the wide machine runs
        let a1 := if w < 0 then { a0 with shadow := false, tags := a0.tags ++ ["shadow-off"] }
                  else shadowStep (shadowStep a0 (.api (.init 0 w.toNat true))) (.api (.enable 0))
        expectExit (expectLine (wDrain a1) ("P ret=1 en=" ++ xbits x' true) "exitLoop")
  | .wnew =>
      let a1 := shadowStep { a with x := Wide.xNewObj a.x [], tags := a.tags ++ ["wide"] } (.newObj [])
      let a2 := wDrain a1
      expectExit (expectLine a2 ("P ret=1 en=" ++ xbits a1.x a.slot) "wnew")
  | .winit j ms o =>
      let (x', r) := Wide.xInit wA a.x j (Int64.ofInt ms) o
      let tg := if ms < 0 then ["w-init-negative"] else if ms == 0 then ["w-init-zero"] else boundaryTags ms.toNat
      let a0 := { a with x := x', tags := a.tags ++ tg }
      -- a negative count is outside the abstract model: from here on only the wide machine runs
      let a1 := if ms < 0 then { a0 with shadow := false, tags := a0.tags ++ ["shadow-off"] } else shadowStep a0 (.api (.init j ms.toNat o))
      expectExit (expectLine (wDrain a1) ("P ret=" ++ boolStr r ++ " en=" ++ xbits x' a.slot) "winit")
  | .wen j =>
      let (x', r) := Wide.xEnable wA a.x j
      let ok := Tbox.C02.Heap.isHeapB Wide.key x'.loop.heap
      if !ok then { a with err := some s!"M: op#{a.nops} wide model: vector not heap-ordered" } else
      let a1 := shadowStep { a with x := x' } (.api (.enable j))
      expectExit (expectLine (wDrain a1) ("P ret=" ++ boolStr r ++ " en=" ++ xbits x' a.slot) "wen")
  | .wdis j =>
      let (x', r) := Wide.xDisable wA a.x j
      let a1 := shadowStep { a with x := x' } (.api (.disable j))
      expectExit (expectLine (wDrain a1) ("P ret=" ++ boolStr r ++ " en=" ++ xbits x' a.slot) "wdis")
  | .wdel j =>
      let (x', r) := Wide.xDestroy wA a.x j
      let a1 := shadowStep { a with x := x' } (.api (.destroy j))
      expectExit (expectLine (wDrain a1) ("P ret=" ++ boolStr r ++ " en=" ++ xbits x' a.slot) "wdel")
  | .idle d =>
      -- the loop goes to sleep (no next-function pending): the wait it asks for, then as `adv d`
      let (front, now) := if a.mode == 3 then (a.x.loop.heap.head?.map (·.expired), a.x.now)
                          else (frontOf a.s, UInt64.ofNat a.s.now)
      match a.tl with
      | [] => { a with err := some s!"op#{a.nops} idle pass: impl=<missing>" }
      | l :: rest =>
        match checkWait a.nops l front now with
        | some e => { a with err := some e }
        | none =>
          let wtag := match front with
            | none => "idle-none"
            | some e => if e.toNat - now.toNat > 2147483647 then "idle-clamped" else if e.toNat ≤ now.toNat then "idle-due" else "idle-wait"
          let a := { a with tl := rest, tags := a.tags ++ ["idle", wtag] }
          if a.mode == 3 then wPass a d else plainPass a d
  | .adv d =>
      if a.mode == 3 then wPass a d else plainPass a d

structure DS where
  ops : Array String := #[]
  tl : Array String := #[]

def finish (d : DS) : List String :=
  let a : TAcc := d.ops.foldl stepOp ({ tl := d.tl.toList } : TAcc)
  let tagsLine := if a.tags.isEmpty then [] else ["B " ++ " ".intercalate ((a.tags ++ (if a.shadow then ["lockstep"] else [])).eraseDups)]
  match a.err with
  | some e => tagsLine ++ ["reject " ++ e]
  | none =>
    match a.tl with
    | [] => tagsLine ++ [s!"ok ops={a.nops} callbacks={a.x.log.length}"]
    | l :: _ => tagsLine ++ ["reject unexpected extra implementation output: [" ++ l ++ "]"]

def stepLine (d : DS) (line : String) : DS × List String :=
  let t := line.trimAscii.toString
  if t.isEmpty then (d, [])
  else if t.startsWith "case " then ({}, [t])
  else if t == "end" then ({}, finish d)
  else if t.startsWith "T " then ({ d with tl := d.tl.push (t.drop 2).toString }, [])
  else ({ d with ops := d.ops.push t }, [])

def main : IO Unit := runDriver ({} : DS) stepLine
