/- C03 driver: trace acceptor. Input per case: op lines, then the implementation's output lines
prefixed "T ", then "end".  For every `pass` the kernel's interest and ready list (`K` line, as
seen by the interposed epoll_wait/select of the harness) are checked against the model
(interest = what the model says is registered; ready = interest ∩ actual readiness, complete,
distinct, ascending for select) and then taken as the oracle; with that order the model is
deterministic, so every callback line (`F`), script result line (`E`), API result and
isEnabled() vector of the real loop must be exactly what the model produces.
Prints `ok …` or `reject …`. -/
import TboxModel.Util
import TboxModel.C03.Model
open Tbox.Util Tbox.C03

/-- the descriptors of the harness: six socket pairs on low numbers, the read end of a pipe (6), the write end of a pipe (7),
a TCP socket whose non-blocking connect was refused (8) — `kindOf` in the model — and two socket pairs on the numbers 1023 and
1024 = FD_SETSIZE - 1 and FD_SETSIZE (the numbering is the real one from 1000 on) -/
def slotList : List Nat := [0, 1, 2, 3, 4, 5, 6, 7, 8, 1023, 1024]
def fdSetSize : Nat := 1024
def nFnMax : Nat := 16

def bitsOf (s : State) : String :=
  if s.nEv = 0 then "-" else
  String.ofList ((List.range s.nEv).map fun j =>
    let v := s.evs j
    if !v.alive then 'x' else if v.enabled then '1' else '0')

def numLt (w : String) (lim : Nat) : Option Nat := do
  if w.isEmpty || !w.all Char.isDigit then none
  let n ← w.toNat?
  if n < lim then some n else none

def numSlot (w : String) : Option Nat := do
  let n ← numLt w 2000
  if slotList.contains n then some n else none

def parseAct (w : String) : Option Act :=
  match w.toList with
  | [] => none
  | k :: rest =>
    let r := String.ofList rest
    if r.isEmpty then none else
    match k with
    | 'i' =>
      match r.splitOn ":" with
      | [e, f, m, o] => do
        let e ← numLt e 1000; let f ← numSlot f; let m ← numLt m 65536
        if o == "o" then some (.init e f m true) else if o == "p" then some (.init e f m false) else none
      | _ => none
    | 'e' => (numLt r 1000).map .enable
    | 'd' => (numLt r 1000).map .disable
    | 'x' => (numLt r 1000).map .destroy
    | 'c' => (numSlot r).map .close
    | 'k' => (numSlot r).map .kill
    | 'o' => (numSlot r).map .oob
    | 'r' => (numSlot r).map (.setR · true)
    | 'u' => (numSlot r).map (.setR · false)
    | 'w' => (numSlot r).map (.setW · true)
    | 'b' => (numSlot r).map (.setW · false)
    | 'h' => (numSlot r).map (.cond · 0)
    | 's' => (numSlot r).map (.cond · 1)
    | 'E' => (numLt r 1000).map .enableF
    | 'y' => (numLt r 1000).map .reborn
    | 'D' => (numLt r 1000).map (.ctlL false)
    | 'M' => (numLt r 1000).map (.ctlL true)
    | 't' => (numLt r nFnMax).map .arm
    | 'n' => (numLt r nFnMax).map .post
    | _ => none

def parseScript (w : String) (self : Nat) : Option (List Act) :=
  if w == "-" then some [] else
  (w.splitOn ",").mapM fun item => do
    let a ← parseAct item
    if a == .destroy self || a == .reborn self then none else some a

/-- one pass of a run, for the comparison of the two back-ends (`cmp`): a digest of the model state
before the pass, whether the pass satisfies the order-independence criterion, the order in which the
kernel listed the ready descriptors, and the callbacks made (sorted) -/
structure PassRec where
  digest : String
  syn : Bool
  quiet : Bool := true     -- no ready descriptor is hung up / in error (there the engines report different masks)
  lag : Bool := false      -- the kernel's epoll table was not the loop's at this wait (a MOD / DEL had been refused)
  loud : List Nat := []    -- the descriptors that are hung up / in error at this wait (a function of the state, hence of the digest)
  order : List Nat
  keys : List (Nat × Nat)

def insKey (k : Nat × Nat) : List (Nat × Nat) → List (Nat × Nat)
  | [] => [k]
  | x :: xs => if k.1 < x.1 || (k.1 == x.1 && k.2 ≤ x.2) then k :: x :: xs else x :: insKey k xs
def sortKeys (l : List (Nat × Nat)) : List (Nat × Nat) := l.foldr insKey []

/-- the two queues of the loop that the model leaves to the acceptor: the one-shot timers that are armed
(interval 1 ms; the virtual clock advances by 1 ms at every `pass`, before the tasks queued behind the driver task run) and
`run_next_func_queue_` in posting order, `none` standing for the harness's own driver task -/
structure Qs where
  nfn : Nat := 0
  clock : Nat := 0                    -- virtual milliseconds: every `pass` advances it by 1 before anything else happens
  armed : List (Nat × Nat) := []      -- (callable, deadline)
  q : List (Option Nat) := []
  real : List (Nat × Nat) := []       -- the epoll table the KERNEL holds (descriptor, tbox mask; absent = not registered): see `realAfter`
  lag : Bool := false                 -- an EPOLL_CTL_MOD / _DEL was refused at some point of this run

structure TAcc where
  s : State := init
  qs : Qs := {}
  fns : Array (List Act) := #[]
  pend : List Nat := []    -- tasks queued behind the driver task in the batch that is being run
  eintr : Bool := false    -- op `eintr`: the next wait is interrupted
  be : Backend := .epoll
  cur : List PassRec := []
  prev : Option (List PassRec) := none
  maxE : Nat := 4          -- EpollLoop::max_loop_entries_ (the harness is built with DEFAULT_MAX_LOOP_ENTRIES=4)
  timer : Bool := false    -- op `tm`: a 1 ms timer is armed; every pass advances the clock by 1 ms
  tl : List String := []
  tags : List String := []
  err : Option String := none
  nops : Nat := 0

def fail (a : TAcc) (msg : String) : TAcc := { a with err := some s!"op#{a.nops} {msg}" }

/-- a divergence on something a harmless rewrite may change (`reject M: …`): which `epoll_ctl` calls the loop issues once the kernel's
table lags behind (skipping a MOD that changes nothing, retrying a failed call) -/
def failM (a : TAcc) (msg : String) : TAcc := { a with err := some s!"M: op#{a.nops} {msg}" }

def expectLine (a : TAcc) (want : String) (what : String) : TAcc :=
  match a.tl with
  | l :: rest => if l == want then { a with tl := rest }
                 else fail a s!"{what}: impl=[{l}] model=[{want}]"
  | [] => fail a s!"{what}: impl=<missing> model=[{want}]"

/-! ### replay of one pass with the lines the real loop must print -/

def actTags (s : State) : Act → List String
  | .init e _ _ _ => if (s.evs e).alive && (s.evs e).enabled then ["init-while-enabled"] else []
  | .destroy e => if (s.evs e).alive && (s.evs e).enabled then ["destroy-while-enabled"] else []
  | .reborn e => if (s.evs e).alive then (if (s.evs e).enabled then ["reborn-while-enabled"] else ["reborn"]) else []
  | .enable e => if (s.evs e).alive && (s.evs e).enabled then ["enable-twice"] else []
  | .enableF e =>
    let v := s.evs e
    if v.alive && v.inited && !v.enabled then
      match s.recs v.fd with
      | some r => if r.kev == 0 && v.mask % 8 != 0 then ["ctl-add-refused"] else ["ctl-mod-not-refused"]
      | none => []
    else []
  | .cond f c =>
    if (condFd s f c).2 then [if c == 0 then (if kindOf f == 0 then (if s.writable f then "peer-close" else "peer-close-unread") else if kindOf f == 1 then "pipe-writer-closed" else "pipe-reader-closed") else "peer-shutwr"]
    else []
  | _ => []

def realOf (real : List (Nat × Nat)) (f : Nat) : Nat := ((real.find? (·.1 == f)).map (·.2)).getD 0

/-- **the kernel's own epoll table** across one model transition `s → s'` that issues at most one `epoll_ctl` per descriptor
(one `enable()` / `disable()`, also inside `delete`, `onEvent` of a one-shot event): which call `reloadEpoll` issued is read off
the cached mask before / after (0 → m: ADD, m → m': MOD - also when m' = m -, m → 0: DEL; a call was issued iff the subscriber vector
changed), and the kernel answers as Linux does: ADD on a registered descriptor EEXIST, on a closed number EBADF, MOD on an
unregistered one ENOENT, each leaving the entry as it was; `rA` / `rMD` = the interposer refuses the ADD / the MOD or DEL of this
call; closing the descriptor drops the entry.  Without refused MOD / DEL this is `State.kern` (checked at every wait). -/
def realAfter (s s' : State) (real : List (Nat × Nat)) (rA rMD : Bool) : List (Nat × Nat) :=
  slotList.filterMap fun f =>
    let cur := realOf real f
    let kb := match s.recs f with | some r => (r.kev, r.subs) | none => (0, [])
    let ka := match s'.recs f with | some r => (r.kev, r.subs) | none => (0, [])
    let v :=
      if s'.gen f != s.gen f then 0
      else if kb.2 == ka.2 then cur
      else if kb.1 == 0 then
        (if ka.1 == 0 then cur else if rA then cur else if cur != 0 then cur else if s'.isOpen f then ka.1 else 0)
      else if ka.1 != 0 then (if rMD then cur else if cur == 0 then 0 else ka.1)
      else (if rMD then cur else 0)
    if v == 0 then none else some (f, v)

/-- one API call: the model's `act`, and for `arm`/`post` the acceptor's queues (the harness answers 0
for a callable that was never defined; `enable()` of an armed one-shot timer changes nothing) -/
def actQ (s : State) (q : Qs) (x : Act) : (State × Bool) × Qs :=
  match x with
  | .arm k => if k < q.nfn then ((s, true), { q with armed := if q.armed.any (·.1 == k) then q.armed else q.armed ++ [(k, q.clock + 1)] })
              else ((s, false), q)
  | .post k => if k < q.nfn then ((s, true), { q with q := q.q ++ [some k] }) else ((s, false), q)
  | _ =>
    let r := act s x
    let rA := match x with | .enableF _ => true | _ => false
    let rMD := match x with | .ctlL _ _ => true | _ => false
    let real' := realAfter s r.1 q.real rA rMD
    -- a refused MOD / DEL counts once it left the kernel with something else than the loop believes
    (r, { q with real := real', lag := q.lag || (rMD && slotList.any (fun f => realOf real' f != r.1.kern f)) })

def scriptRets (s : State) (q : Qs) : List Act → State × Qs × String × List String
  | [] => (s, q, "", [])
  | x :: xs =>
    let r := actQ s q x
    let r2 := scriptRets r.1.1 r.2 xs
    (r2.1, r2.2.1, (if r.1.2 then "1" else "0") ++ r2.2.2.1, actTags s x ++ r2.2.2.2)

/-- expected line, the model state just before it (for diagnosis) -/
abbrev Exp := List (String × State)

structure Rp where
  s : State
  qs : Qs := {}
  out : Exp := []
  tags : List String := []
  rb : List Nat := []      -- event objects deleted and re-created at the same address by a callback of this pass

def rpEvent (w : Wait) (f m : Nat) (p : Rp) (e : Nat) : Rp :=
  let v := p.s.evs e
  let r := enterEvent w f m p.s e
  if !r.2 then { p with s := r.1, tags := p.tags ++ (if v.alive then ["mask-miss"] else ["dead-event"]) }
  else
    let l1 := s!"F {e} {m} en={bitsOf r.1}"
    let sr := scriptRets r.1 { p.qs with real := realAfter p.s r.1 p.qs.real false false } v.script
    let rets := if sr.2.2.1.isEmpty then "-" else sr.2.2.1
    let l2 := s!"E {e} rets={rets} en={bitsOf sr.1}"
    let t := (if v.oneshot then ["oneshot"] else [])
      ++ (if v.script.any (fun x => match x with | .destroy _ => true | .reborn _ => true | _ => false) then ["cb-destroy"] else [])
      ++ (if v.script.any (fun x => match x with | .reborn _ => true | _ => false) then ["cb-reborn"] else [])
      ++ (if p.rb.contains e then ["aba-callback"] else [])
      ++ (if v.script.any (fun x => match x with | .close _ => true | _ => false) then ["cb-close"] else [])
      ++ (if v.script.any (fun x => match x with | .init _ _ _ _ => true | _ => false) then ["cb-init"] else [])
      ++ (if slotList.any (fun g => sr.1.gen g != r.1.gen g) then ["cb-fd-reuse"] else [])
      ++ (if sr.1.breach && !r.1.breach then ["cb-close-while-referenced"] else [])
      ++ (if v.script.any (fun x => match x with | .arm _ => true | .post _ => true | _ => false) then ["cb-arm-post"] else [])
      ++ (if m &&& 4 != 0 then ["except-ready"] else [])
      ++ (if m &&& v.mask % 8 != m then ["cb-mask-beyond-subscription"] else []) ++ sr.2.2.2
    { s := sr.1, qs := sr.2.1, out := p.out ++ [(l1, p.s), (l2, r.1)], tags := p.tags ++ t,
      rb := p.rb ++ v.script.filterMap (fun x => match x with | .reborn j => some j | _ => none) }

def rpLoop (w : Wait) (f m : Nat) : Rp → List Nat → Rp
  | p, [] => p
  | p, e :: rest =>
    match findRec w p.s f with
    | none => { p with tags := p.tags ++ ["loop-break"] }
    | some r => if r.subs.contains e then rpLoop w f m (rpEvent w f m p e) rest
                else rpLoop w f m { p with tags := p.tags ++
                        [if p.rb.contains e then "skip-reborn-elsewhere" else if (p.s.evs e).alive then "skip-disabled-sibling" else "skip-destroyed-sibling"] } rest

def rpFd (w : Wait) (p : Rp) (fm : Nat × Nat) : Rp :=
  match findRec w p.s fm.1 with
  | none => { p with tags := p.tags ++ [if (p.s.recs fm.1).isSome then "skip-new-record" else "skip-no-record"] }
  | some r => rpLoop w fm.1 fm.2 { p with tags := p.tags ++ (if r.subs.length ≥ 2 then ["shared-fd"] else []) } r.subs

/-- the dispatch of a turn: snapshot `w` of the wait, started from the state `p` the timer callbacks left -/
def rpPass (w : Wait) (p : Rp) (ready : List (Nat × Nat)) : Rp :=
  ready.foldl (rpFd w) { p with tags := p.tags ++ (if ready.length ≥ 2 then ["multi-ready"] else []) }

/-- a timer callback (`kind = "T"`) or a deferred task (`kind = "N"`) running the script of callable `k` -/
def rpCall (kind : String) (fns : Array (List Act)) (p : Rp) (k : Nat) : Rp :=
  let sc := fns.getD k []
  let l1 := s!"{kind}F {k} en={bitsOf p.s}"
  let sr := scriptRets p.s p.qs sc
  let rets := if sr.2.2.1.isEmpty then "-" else sr.2.2.1
  let l2 := s!"{kind}E {k} rets={rets} en={bitsOf sr.1}"
  let t := (if sc.any (fun x => match x with | .destroy _ => true | _ => false) then [kind ++ "-destroy"] else [])
    ++ (if slotList.any (fun g => sr.1.gen g != p.s.gen g) then [kind ++ "-fd-reuse"] else [])
    ++ (if sc.any (fun x => match x with | .arm _ => true | .post _ => true | _ => false) then [kind ++ "-arm-post"] else [])
    ++ (if p.s.serial != sr.1.serial then [kind ++ "-new-record"] else []) ++ sr.2.2.2
  { s := sr.1, qs := sr.2.1, out := p.out ++ [(l1, p.s), (l2, p.s)], tags := p.tags ++ t }

def stateDigest (s : State) : String :=
  let slots := slotList.map fun f =>
    let subs := match s.recs f with | some r => toString r.subs | none => "-"
    s!"{f}:{actualMask s f}:{s.hup f}:{s.err f}:{s.eof f}:{s.gone f}:{s.kern f}:{subs}:{s.isOpen f}"
  let evs := (List.range s.nEv).map fun e =>
    let v := s.evs e
    s!"{v.alive},{v.inited},{v.fd},{v.mask},{v.oneshot},{v.enabled}"
  " ".intercalate slots ++ " | " ++ " ".intercalate evs ++ s!" | {s.breach}"

def parseReady (w : String) : Option (List (Nat × Nat)) :=
  if w == "-" then some [] else
  (w.splitOn ",").mapM fun item =>
    match item.splitOn ":" with
    | [f, m] => do let f ← numSlot f; let m ← numLt m 8; pure (f, m)
    | _ => none

def interestStr (be : Backend) (s : State) : String :=
  String.ofList (slotList.map fun f => Char.ofNat (48 + interest be s f))

/-- why a callback the real loop made is not the one the model expects -/
def diagnose (s : State) (l : String) : String :=
  match words l with
  | ["F", e, _, _] =>
    match e.toNat? with
    | some e =>
      let v := s.evs e
      if !v.alive then s!" — callback on DESTROYED event {e}"
      else if !v.enabled then s!" — callback on DISABLED event {e}"
      else s!" — callback on event {e} (fd {v.fd}) which is not due here (stale or out-of-order readiness)"
    | none => ""
  | _ => ""

def matchExp (a : TAcc) : Exp → TAcc
  | [] => a
  | (want, sBefore) :: rest =>
    match a.tl with
    | l :: tl' =>
      if l == want then matchExp { a with tl := tl' } rest
      else if (words l).take 3 == (words want).take 3 then
        fail a s!"in pass: impl=[{l}] model=[{want}] — same callback, different isEnabled() vector / script results"
      else fail a s!"in pass: impl=[{l}] model=[{want}]{diagnose sBefore l}"
    | [] => fail a s!"in pass: impl=<missing> model=[{want}]"

def insNat (k : Nat) : List Nat → List Nat
  | [] => [k]
  | x :: xs => if k ≤ x then k :: x :: xs else x :: insNat k xs
def sortNat (l : List Nat) : List Nat := l.foldr insNat []

/-- the order in which the real loop fired the due timers: the `TF k` lines of the timer phase (everything
up to the first line that is not TF/TE/TM); `none` = the persistent timer of op `tm` -/
def timerOrder (tl : List String) : List (Option Nat) :=
  (tl.takeWhile fun l => l == "TM" || l.startsWith "TF " || l.startsWith "TE ").filterMap fun l =>
    if l == "TM" then some none
    else match words l with
      | "TF" :: k :: _ => (k.toNat?).map some
      | _ => none

def isCbLine (l : String) : Bool :=
  l.startsWith "F " || l.startsWith "E " || l.startsWith "TF " || l.startsWith "TE " || l.startsWith "NF " ||
  l.startsWith "NE " || l == "TM"

/-- the tasks queued behind the driver task run as soon as its step returns (same `handleNextFunc`) -/
def flushPend (a : TAcc) : TAcc :=
  if a.pend.isEmpty then a else
  let p := a.pend.foldl (rpCall "N" a.fns) { s := a.s, qs := a.qs }
  let sm := step a.s (.defer (a.pend.map (a.fns.getD · [])))
  if bitsOf sm != bitsOf p.s || cbKeys sm != cbKeys p.s then fail a "internal: driver replay diverges from the model's deferred batch" else
  let a1 := matchExp a p.out
  if a1.err.isSome then a1 else { a1 with s := p.s, qs := p.qs, pend := [], tags := a1.tags ++ p.tags ++ ["task-behind-driver"] }

def doPass (a0 : TAcc) : TAcc :=
  -- the driver task re-posts itself, then the rest of the current batch runs, then the loop turns
  let a := flushPend { a0 with qs := { a0.qs with q := a0.qs.q ++ [none], clock := a0.qs.clock + 1 } }
  if a.err.isSome then a else
  match a.tl with
  | [] => fail a "pass: no K line from the implementation"
  | l :: rest =>
    match words l with
    | ["K", i, r] =>
      -- epoll: the table the kernel really holds (`realAfter`); it is `State.kern` unless a MOD / DEL was refused
      let lagging := a.be == .epoll && slotList.any (fun f => realOf a.qs.real f != a.s.kern f)
      if lagging && !a.qs.lag then fail a s!"internal: the acceptor's kernel table {a.qs.real} is not the model's although no MOD / DEL was refused" else
      let intr : Nat → Nat := fun f => if a.be == .epoll then realOf a.qs.real f else interest a.be a.s f
      let rep : Nat → Nat := fun f => reportOf a.be (intr f) (actualMask a.s f) (a.s.isOpen f && a.s.hup f) (a.s.isOpen f && a.s.err f)
      let wantI := "i=" ++ String.ofList (slotList.map fun f => Char.ofNat (48 + intr f))
      if i != wantI then (if a.qs.lag then failM else fail) a s!"kernel interest at wait: impl=[{i}] model=[{wantI}]" else
      if !r.startsWith "r=" then fail a s!"unparsable K line [{l}]" else
      -- select fails with EBADF iff a closed descriptor is in its sets; then removeInvalidFds runs instead of a dispatch
      let invalid0 := slotList.filter fun f => (a.s.recs f).isSome && !a.s.isOpen f
      let badf := a.be == .select && !a.eintr && badfTrigger a.s invalid0
      if a.eintr != (r == "r=EINTR") then fail a s!"interrupted wait: impl=[{r}] model={if a.eintr then "EINTR" else "no EINTR"}" else
      if badf != (r == "r=EBADF") then
        fail a s!"select EBADF: impl=[{r}] model={if badf then "EBADF expected (a closed descriptor is watched)" else "no EBADF expected"}"
      else
      match (if badf || a.eintr then some [] else parseReady (r.drop 2).toString) with
      | none => fail a s!"unparsable K line [{l}]"
      | some ready =>
        if !((ready.map (·.1)).Nodup && ready.all (fun fm => fm.2 != 0 && fm.2 == rep fm.1) && (a.be == .epoll || sortedFds ready)) then
          let want := slotList.filterMap fun f => if rep f != 0 then some s!"{f}:{rep f}" else none
          fail a s!"ready list [{r}] is not what the kernel model says this engine reports ({want}): distinct descriptors in back-end order, each with interest ∩ readiness plus the hang-up / error bits of that engine"
        else
          let missing := if badf || a.eintr then [] else slotList.filter fun f =>
            rep f != 0 && !(ready.map (·.1)).contains f
          let full := a.be == .epoll && ready.length ≥ a.maxE
          if a.be == .epoll && ready.length > a.maxE then
            fail a s!"epoll_wait returned {ready.length} events, max_loop_entries is {a.maxE}" else
          if !missing.isEmpty && !full then fail a s!"ready descriptors {missing} missing from the kernel's list [{r}]" else
          let a := { a with maxE := if full then a.maxE + a.maxE / 2 else a.maxE, eintr := false,
                            tags := a.tags ++ (if full then ["epoll-grow"] else []) ++ (if full && !missing.isEmpty then ["epoll-truncated"] else [])
                                      ++ (if a.eintr then ["eintr"] else []) }
          -- handleExpiredTimers(): every armed timer is due; the heap decides the order among equal deadlines (oracle)
          let order := timerOrder rest
          let due := (a.qs.armed.filter (·.2 ≤ a.qs.clock)).map (·.1)
          let fired := order.filterMap id
          if sortNat fired != sortNat due then
            fail a s!"timer phase: impl fired {fired}, due after this wait: {due} (each exactly once, before any descriptor callback)" else
          if (order.filter (·.isNone)).length != (if a.timer then 1 else 0) then
            fail a s!"timer armed: expected TM right after the wait, impl=[{rest.head?.getD "<missing>"}]" else
          -- a one-shot timer is disabled just before its callback runs (TimerEventImpl::onEvent): `enable()` of a due timer
          -- that has not fired yet changes nothing, of one that has fired arms it for the next turn
          let p0 : Rp := { s := a.s, qs := a.qs }
          let p1 := order.foldl (fun p o => match o with
            | none => { p with out := p.out ++ [("TM", p.s)] }
            | some k => rpCall "T" a.fns { p with qs := { p.qs with armed := p.qs.armed.filter (·.1 != k) } } k) p0
          -- the dispatch (snapshot of the wait = state a.s), or removeInvalidFds with the descriptors that are closed NOW
          let invalid := slotList.filter fun f => (p1.s.recs f).isSome && !p1.s.isOpen f
          let p2 := if badf then { p1 with s := removeInvalid p1.s invalid } else rpPass (waitOf a.s ready) p1 ready
          -- handleNextFunc(): the batch up to the driver task; what is queued behind it runs after the driver's step
          let batch := p2.qs.q
          let before := (batch.takeWhile (·.isSome)).filterMap id
          let after := ((batch.dropWhile (·.isSome)).drop 1).filterMap id
          let p3 := before.foldl (rpCall "N" a.fns) { p2 with qs := { p2.qs with q := [] } }
          let tmsS := fired.map (a.fns.getD · [])
          let nxS := before.map (a.fns.getD · [])
          let st : Step := if badf then .loopBadf invalid0 tmsS invalid nxS else if lagging then .loopLag tmsS ready nxS else .loop a.be tmsS ready nxS
          let sm := step a.s st
          if !valid a.s st then fail a "internal: the turn is not a valid model step" else
          if bitsOf sm != bitsOf p3.s || cbKeys sm != cbKeys p3.s then
            fail a "internal: driver replay diverges from the model's turn"
          else
            let a1 := matchExp { a with tl := rest } p3.out
            if a1.err.isSome then a1 else
            -- anything the loop printed beyond the expected callbacks shows up here
            match a1.tl with
            | l2 :: _ =>
              if isCbLine l2 then
                fail a1 s!"in pass: impl=[{l2}] model=<no further callback>{diagnose p3.s l2}"
              else
                let ncb := (cbKeys p3.s).length - (cbKeys a.s).length
                let tg := if badf then "ebadf-pass" else if ncb = 0 then "pass0" else if ncb = 1 then "pass1" else "passN"
                let tb := if a.be == .select then "select" else "epoll"
                let syn := badf || OrderIndepSyn p1.s ready
                let pr : PassRec := { digest := stateDigest a.s ++ s!" | {order} {before}", syn := syn, order := ready.map (·.1),
                                      quiet := ready.all (fun fm => quietFd a.s fm.1), lag := lagging,
                                      loud := slotList.filter (fun f => !quietFd a.s f && (a.s.recs f).isSome),
                                      keys := sortKeys ((cbKeys p3.s).take ncb) }
                let tt := (if !fired.isEmpty then ["timer-phase"] else []) ++ (if !before.isEmpty then ["next-phase"] else [])
                  ++ (if !fired.isEmpty && !ready.isEmpty then ["timer+ready"] else [])
                  ++ (if !fired.isEmpty && ready.any (fun fm => p1.s.gen fm.1 != a.s.gen fm.1) then ["timer-reuses-ready-fd"] else [])
                  ++ (if ready.any (fun fm => (p1.s.recs fm.1).isSome && (findRec (waitOf a.s ready) p1.s fm.1).isNone) then ["timer-made-record-skipped"] else [])
                  ++ (if badf && invalid0.any (fun f => match a.s.recs f with | some r => r.subs.length ≥ 3 | none => false) then ["ebadf-3subs"] else [])
                  ++ (if badf && invalid != invalid0 then ["ebadf-timer-changed-set"] else [])
                  ++ (if ready.any (fun fm => a.s.hup fm.1) then ["ready-hup"] else [])
                  ++ (if ready.any (fun fm => a.s.err fm.1) then ["ready-err"] else [])
                  ++ (if ready.any (fun fm => fm.2 &&& interest a.be a.s fm.1 != fm.2) then ["ready-beyond-interest"] else [])
                  ++ (if ready.any (fun fm => !quietFd a.s fm.1 && ncb = 0) then ["hup-unmet-mask"] else [])
                  ++ (if slotList.any (fun f => a.be == .epoll && a.s.isOpen f && a.s.kern f == 0 && interest .select a.s f != 0) then ["dead-registration"] else [])
                  ++ (if lagging then ["kernel-lags"] else [])
                  ++ (if lagging && ready.any (fun fm => (findRec (waitOf a.s ready) a.s fm.1).isNone) then ["lag-ready-without-record"] else [])
                  ++ (if lagging && ready.any (fun fm => fm.2 &&& interest .select a.s fm.1 != fm.2) then ["lag-ready-beyond-wanted"] else [])
                  ++ (if lagging && slotList.any (fun f => interest .select a.s f &&& realOf a.qs.real f != interest .select a.s f) then ["lag-kernel-misses-wanted"] else [])
                expectLine { a1 with s := p3.s, qs := p3.qs, pend := after, cur := a1.cur ++ [pr],
                                     tags := a1.tags ++ p3.tags ++ [tg, tb] ++ tt ++ (if syn && ready.length ≥ 2 then ["order-indep-syn"] else []) }
                  ("P en=" ++ bitsOf p3.s) (if badf then "after EBADF pass" else "after pass")
            | [] => fail a1 "after pass: impl=<missing>"
    | _ => fail a s!"pass: expected a K line, impl=[{l}]"

def stepOp (a : TAcc) (line : String) : TAcc :=
  if a.err.isSome then a else
  let a := { a with nops := a.nops + 1 }
  match words line with
  | ["cmp"] =>
    -- compare the passes of this run with those of the previous run (the other back-end, same ops)
    match a.prev with
    | none => expectLine { a with tags := a.tags ++ ["cmp-nothing"] } "P cmp" "cmp"
    | some p =>
      let rec go (k : Nat) : List PassRec → List PassRec → Option String × List String
        | x :: xs, y :: ys =>
          if x.digest != y.digest then (none, ["cmp-diverged"])
          else if x.lag || y.lag then (none, ["cmp-kernel-lags"])
          else if sortKeys ((x.order.filter (!x.loud.contains ·)).map (·, 0)) != sortKeys ((y.order.filter (!y.loud.contains ·)).map (·, 0)) then
            (none, ["cmp-ready-set-differs"])      -- epoll_wait filled its array: the kernel did not report the same (quiet) descriptors
          else if !(x.syn && y.syn) then (none, ["cmp-order-dependent"])
          else if x.keys != y.keys then
            if x.quiet && y.quiet then
              (some s!"back-ends disagree in pass {k} although it satisfies OrderIndepSyn: first run {x.keys} (order {x.order}), second run {y.keys} (order {y.order})", [])
            else
              -- the third sentence of the statement has no "same kernel report" premise: the same scenario, an order-independent pass,
              -- different callbacks (event, mask) - on a descriptor that is hung up / in error the engines translate the kernel's answer differently
              (some s!"back-ends differ hup-err: pass {k} is order-independent, descriptors {x.loud} are hung up / in error; first run callbacks {x.keys} (ready {x.order}), second run callbacks {y.keys} (ready {y.order})", [])
          else
            let r := go (k + 1) xs ys
            (r.1, (if x.order != y.order && x.order.length ≥ 2 then ["cmp-order-differs"] else []) ++ ["cmp-agree"]
                  ++ (if !(x.quiet && y.quiet) then ["cmp-hup-err-agree"] else []) ++ r.2)
        | _, _ => (none, [])
      let r := go 1 p a.cur
      match r.1 with
      | some msg => fail a msg
      | none => expectLine { a with tags := a.tags ++ r.2 } "P cmp" "cmp"
  | ["eintr"] =>
    if a.eintr then expectLine a "bad-op" "malformed op" else expectLine { a with eintr := true } "P eintr" "eintr"
  | ["fn", sc] =>
    match (if a.fns.size < nFnMax then parseScript sc 1000000 else none) with
    | none => expectLine a "bad-op" "malformed op"
    | some l =>
      expectLine { a with fns := a.fns.push l, qs := { a.qs with nfn := a.qs.nfn + 1 } } s!"P fn={a.fns.size}" "fn"
  | ["tm"] =>
    if a.timer then expectLine a "bad-op" "malformed op"
    else expectLine { a with timer := true, tags := a.tags ++ ["timer"] } "P tm" "tm"
  | ["bulk", n] =>
    match numLt n 201 with
    | none => expectLine a "bad-op" "malformed op"
    | some n =>
      if n = 0 then expectLine a "bad-op" "malformed op" else
      let base := a.s.nEv
      let s1 := (List.range n).foldl (fun s i =>
        let s := step s (.newEv [])
        (act s (.init (base + i) (100 + i) 0 false)).1) a.s
      let s2 := (List.range n).foldl (fun s i => (act s (.destroy (base + i))).1) s1
      expectLine { a with s := s2, tags := a.tags ++ [if n > poolKeep then "bulk>keep" else "bulk"] }
        ("P ret=1 en=" ++ bitsOf s2) "bulk"
  | ["be", k] =>
    let a := { a with prev := (if a.cur.isEmpty then a.prev else some a.cur), cur := [], maxE := 4, timer := false,
                      qs := {}, fns := #[], pend := [], eintr := false }
    if k == "epoll" then expectLine { a with s := init, be := .epoll } "P be=epoll" "be"
    else if k == "select" then expectLine { a with s := initL fdSetSize, be := .select } "P be=select" "be"
    else expectLine a "bad-op" "malformed op"
  | ["pass"] => doPass a
  | ["new", sc] =>
    match (if a.s.nEv < 64 then parseScript sc a.s.nEv else none) with
    | none => expectLine a "bad-op" "malformed op"
    | some l =>
      let s' := step a.s (.newEv l)
      expectLine { a with s := s' } ("P ret=1 en=" ++ bitsOf s') "new"
  | ["do", x] =>
    match parseAct x with
    | none => expectLine a "bad-op" "malformed op"
    | some x =>
      let rq := actQ a.s a.qs x
      let r := rq.1
      let t := actTags a.s x ++ match x with
        | .close f => ["fd-reuse"] ++ (if (a.s.recs f).isSome then ["close-while-referenced"] else [])
        | .kill f => if r.2 then ["kill"] ++ (if (a.s.recs f).isSome then ["close-while-referenced"] else []) else []
        | .oob _ => ["oob"]
        | .cond _ _ => ["cond"]
        | .enableF _ => ["enableF"]
        | .ctlL _ _ => ["ctlL"] ++ (if rq.2.lag && !a.qs.lag then ["ctl-mod-del-refused"] else [])
        | .init _ f _ _ => if f ≥ 1023 then [if r.2 then "high-fd-accepted" else "high-fd-refused"] else []
        | _ => []
      expectLine { a with s := r.1, qs := rq.2, tags := a.tags ++ t } ("P ret=" ++ (if r.2 then "1" else "0") ++ " en=" ++ bitsOf r.1) "api result"
  | _ => expectLine a "bad-op" "malformed op"

structure DS where
  ops : Array String := #[]
  tl : Array String := #[]

def finish (d : DS) : List String :=
  let a : TAcc := d.ops.foldl stepOp ({ tl := d.tl.toList } : TAcc)
  let tagsLine := if a.tags.isEmpty then [] else ["B " ++ " ".intercalate a.tags.eraseDups]
  match a.err with
  | some e => tagsLine ++ ["reject " ++ e]
  | none =>
    match a.tl with
    | [] =>
      let bad := a.s.log.any fun o => match o with | .bad _ => true | _ => false
      if bad then tagsLine ++ ["reject internal: model reached a stale access"]
      else tagsLine ++ [s!"ok ops={a.nops} callbacks={(cbKeys a.s).length}"]
    | l :: _ => tagsLine ++ ["reject unexpected extra implementation output: [" ++ l ++ "]"]

def stepLine (d : DS) (line : String) : DS × List String :=
  let t := line.trimAscii.toString
  if t.isEmpty then (d, [])
  else if t.startsWith "case " then ({}, [t])
  else if t == "end" then ({}, finish d)
  else if t.startsWith "T " then ({ d with tl := d.tl.push (t.drop 2).toString }, [])
  else ({ d with ops := d.ops.push t }, [])

def main : IO Unit := runDriver ({} : DS) stepLine
