/- C03 driver: trace acceptor. Input per case: op lines, then the implementation's output lines
prefixed "T ", then "end".  For every `pass` the kernel's interest and ready list (`K` line, as
seen by the interposed epoll_wait/select of the harness) are checked against the model
(interest = what the model says is registered; ready = interest ∩ actual readiness, complete,
distinct, ascending for select) and then taken as the oracle; with that order the model is
deterministic, so every callback line (`F`), script result line (`E`), API result and
isEnabled() vector of the real loop must be exactly what the model produces.
Prints `ok …` or `reject …`. -/
import TboxModel.Util
import TboxModel.C03.Model
open Tbox.Util Tbox.C03

def nSlots : Nat := 6

def bitsOf (s : State) : String :=
  if s.nEv = 0 then "-" else
  String.ofList ((List.range s.nEv).map fun j =>
    let v := s.evs j
    if !v.alive then 'x' else if v.enabled then '1' else '0')

def numLt (w : String) (lim : Nat) : Option Nat := do
  if w.isEmpty || !w.all Char.isDigit then none
  let n ← w.toNat?
  if n < lim then some n else none

def parseAct (w : String) : Option Act :=
  match w.toList with
  | [] => none
  | k :: rest =>
    let r := String.ofList rest
    if r.isEmpty then none else
    match k with
    | 'i' =>
      match r.splitOn ":" with
      | [e, f, m, o] => do
        let e ← numLt e 1000; let f ← numLt f nSlots; let m ← numLt m 8
        if o == "o" then some (.init e f m true) else if o == "p" then some (.init e f m false) else none
      | _ => none
    | 'e' => (numLt r 1000).map .enable
    | 'd' => (numLt r 1000).map .disable
    | 'x' => (numLt r 1000).map .destroy
    | 'c' => (numLt r nSlots).map .close
    | 'r' => (numLt r nSlots).map (.setR · true)
    | 'u' => (numLt r nSlots).map (.setR · false)
    | 'w' => (numLt r nSlots).map (.setW · true)
    | 'b' => (numLt r nSlots).map (.setW · false)
    | _ => none

def parseScript (w : String) (self : Nat) : Option (List Act) :=
  if w == "-" then some [] else
  (w.splitOn ",").mapM fun item => do
    let a ← parseAct item
    if a == .destroy self then none else some a

structure TAcc where
  s : State := init
  be : Backend := .epoll
  tl : List String := []
  tags : List String := []
  err : Option String := none
  nops : Nat := 0

def fail (a : TAcc) (msg : String) : TAcc := { a with err := some s!"op#{a.nops} {msg}" }

def expectLine (a : TAcc) (want : String) (what : String) : TAcc :=
  match a.tl with
  | l :: rest => if l == want then { a with tl := rest }
                 else fail a s!"{what}: impl=[{l}] model=[{want}]"
  | [] => fail a s!"{what}: impl=<missing> model=[{want}]"

/-! ### replay of one pass with the lines the real loop must print -/

def scriptRets (s : State) : List Act → State × String
  | [] => (s, "")
  | x :: xs =>
    let r := act s x
    let r2 := scriptRets r.1 xs
    (r2.1, (if r.2 then "1" else "0") ++ r2.2)

/-- expected line, the model state just before it (for diagnosis) -/
abbrev Exp := List (String × State)

structure Rp where
  s : State
  out : Exp := []
  tags : List String := []

def rpEvent (w : Wait) (f m : Nat) (p : Rp) (e : Nat) : Rp :=
  let v := p.s.evs e
  let r := enterEvent w f m p.s e
  if !r.2 then { p with s := r.1, tags := p.tags ++ (if v.alive then ["mask-miss"] else ["dead-event"]) }
  else
    let l1 := s!"F {e} {m} en={bitsOf r.1}"
    let sr := scriptRets r.1 v.script
    let rets := if sr.2.isEmpty then "-" else sr.2
    let l2 := s!"E {e} rets={rets} en={bitsOf sr.1}"
    let t := (if v.oneshot then ["oneshot"] else [])
      ++ (if v.script.any (fun x => match x with | .destroy _ => true | _ => false) then ["cb-destroy"] else [])
      ++ (if v.script.any (fun x => match x with | .close _ => true | _ => false) then ["cb-close"] else [])
      ++ (if v.script.any (fun x => match x with | .init _ _ _ _ => true | _ => false) then ["cb-init"] else [])
      ++ (if (List.range nSlots).any (fun g => sr.1.gen g != r.1.gen g) then ["cb-fd-reuse"] else [])
    { s := sr.1, out := p.out ++ [(l1, p.s), (l2, r.1)], tags := p.tags ++ t }

def rpLoop (w : Wait) (f m : Nat) : Rp → List Nat → Rp
  | p, [] => p
  | p, e :: rest =>
    match findRec w p.s f with
    | none => { p with tags := p.tags ++ ["loop-break"] }
    | some r => if r.subs.contains e then rpLoop w f m (rpEvent w f m p e) rest
                else rpLoop w f m { p with tags := p.tags ++
                        [if (p.s.evs e).alive then "skip-disabled-sibling" else "skip-destroyed-sibling"] } rest

def rpFd (w : Wait) (p : Rp) (fm : Nat × Nat) : Rp :=
  match findRec w p.s fm.1 with
  | none => { p with tags := p.tags ++ [if (p.s.recs fm.1).isSome then "skip-new-record" else "skip-no-record"] }
  | some r => rpLoop w fm.1 fm.2 { p with tags := p.tags ++ (if r.subs.length ≥ 2 then ["shared-fd"] else []) } r.subs

def rpPass (s : State) (ready : List (Nat × Nat)) : Rp :=
  ready.foldl (rpFd (waitOf s ready)) { s := s, tags := if ready.length ≥ 2 then ["multi-ready"] else [] }

def cbKeys (s : State) : List (Nat × Nat) :=
  s.log.filterMap fun o => match o with | .cb c => some (c.e, c.m) | _ => none

def parseReady (w : String) : Option (List (Nat × Nat)) :=
  if w == "-" then some [] else
  (w.splitOn ",").mapM fun item =>
    match item.splitOn ":" with
    | [f, m] => do let f ← numLt f nSlots; let m ← numLt m 8; pure (f, m)
    | _ => none

def interestStr (be : Backend) (s : State) : String :=
  String.ofList ((List.range nSlots).map fun f => Char.ofNat (48 + interest be s f))

/-- why a callback the real loop made is not the one the model expects -/
def diagnose (s : State) (l : String) : String :=
  match words l with
  | ["F", e, _, _] =>
    match e.toNat? with
    | some e =>
      let v := s.evs e
      if !v.alive then s!" — callback on DESTROYED event {e}"
      else if !v.enabled then s!" — callback on DISABLED event {e}"
      else s!" — callback on event {e} (fd {v.fd}) which is not due here (stale or out-of-order readiness)"
    | none => ""
  | _ => ""

def matchExp (a : TAcc) : Exp → TAcc
  | [] => a
  | (want, sBefore) :: rest =>
    match a.tl with
    | l :: tl' =>
      if l == want then matchExp { a with tl := tl' } rest
      else if (words l).take 3 == (words want).take 3 then
        fail a s!"in pass: impl=[{l}] model=[{want}] — same callback, different isEnabled() vector / script results"
      else fail a s!"in pass: impl=[{l}] model=[{want}]{diagnose sBefore l}"
    | [] => fail a s!"in pass: impl=<missing> model=[{want}]"

def doPass (a : TAcc) : TAcc :=
  match a.tl with
  | [] => fail a "pass: no K line from the implementation"
  | l :: rest =>
    match words l with
    | ["K", i, r] =>
      let wantI := "i=" ++ interestStr a.be a.s
      if i != wantI then fail a s!"kernel interest at wait: impl=[{i}] model=[{wantI}]" else
      if !r.startsWith "r=" then fail a s!"unparsable K line [{l}]" else
      match parseReady (r.drop 2).toString with
      | none => fail a s!"unparsable K line [{l}]"
      | some ready =>
        if !validReady a.be a.s ready then
          fail a s!"ready list [{r}] is not (interest ∩ actual readiness) of distinct descriptors in back-end order"
        else
          let missing := (List.range nSlots).filter fun f =>
            (interest a.be a.s f &&& actualMask a.s f) != 0 && !(ready.map (·.1)).contains f
          if !missing.isEmpty then fail a s!"ready descriptors {missing} missing from the kernel's list [{r}]" else
          let p := rpPass a.s ready
          let sm := pass a.s ready
          if bitsOf sm != bitsOf p.s || cbKeys sm != cbKeys p.s then
            fail a "internal: driver replay diverges from the model's pass"
          else
            let a1 := matchExp { a with tl := rest } p.out
            if a1.err.isSome then a1 else
            -- anything the loop printed beyond the expected callbacks shows up here
            match a1.tl with
            | l2 :: _ =>
              if l2.startsWith "F " || l2.startsWith "E " then
                fail a1 s!"in pass: impl=[{l2}] model=<no further callback>{diagnose p.s l2}"
              else
                let ncb := (cbKeys p.s).length - (cbKeys a.s).length
                let tg := if ncb = 0 then "pass0" else if ncb = 1 then "pass1" else "passN"
                let tb := if a.be == .select then "select" else "epoll"
                expectLine { a1 with s := p.s, tags := a1.tags ++ p.tags ++ [tg, tb] } ("P en=" ++ bitsOf p.s) "after pass"
            | [] => fail a1 "after pass: impl=<missing>"
    | _ => fail a s!"pass: expected a K line, impl=[{l}]"

def stepOp (a : TAcc) (line : String) : TAcc :=
  if a.err.isSome then a else
  let a := { a with nops := a.nops + 1 }
  match words line with
  | ["be", k] =>
    if k == "epoll" then expectLine { a with s := init, be := .epoll } "P be=epoll" "be"
    else if k == "select" then expectLine { a with s := init, be := .select } "P be=select" "be"
    else expectLine a "bad-op" "malformed op"
  | ["pass"] => doPass a
  | ["new", sc] =>
    match (if a.s.nEv < 64 then parseScript sc a.s.nEv else none) with
    | none => expectLine a "bad-op" "malformed op"
    | some l =>
      let s' := step a.s (.newEv l)
      expectLine { a with s := s' } ("P ret=1 en=" ++ bitsOf s') "new"
  | ["do", x] =>
    match parseAct x with
    | none => expectLine a "bad-op" "malformed op"
    | some x =>
      let r := act a.s x
      let t := match x with
        | .close _ => if r.2 then ["fd-reuse"] else ["close-refused"]
        | _ => []
      expectLine { a with s := r.1, tags := a.tags ++ t } ("P ret=" ++ (if r.2 then "1" else "0") ++ " en=" ++ bitsOf r.1) "api result"
  | _ => expectLine a "bad-op" "malformed op"

structure DS where
  ops : Array String := #[]
  tl : Array String := #[]

def finish (d : DS) : List String :=
  let a : TAcc := d.ops.foldl stepOp ({ tl := d.tl.toList } : TAcc)
  let tagsLine := if a.tags.isEmpty then [] else ["B " ++ " ".intercalate a.tags.eraseDups]
  match a.err with
  | some e => tagsLine ++ ["reject " ++ e]
  | none =>
    match a.tl with
    | [] =>
      let bad := a.s.log.any fun o => match o with | .bad _ => true | _ => false
      if bad then tagsLine ++ ["reject internal: model reached a stale access"]
      else tagsLine ++ [s!"ok ops={a.nops} callbacks={(cbKeys a.s).length}"]
    | l :: _ => tagsLine ++ ["reject unexpected extra implementation output: [" ++ l ++ "]"]

def stepLine (d : DS) (line : String) : DS × List String :=
  let t := line.trimAscii.toString
  if t.isEmpty then (d, [])
  else if t.startsWith "case " then ({}, [t])
  else if t == "end" then ({}, finish d)
  else if t.startsWith "T " then ({ d with tl := d.tl.push (t.drop 2).toString }, [])
  else ({ d with ops := d.ops.push t }, [])

def main : IO Unit := runDriver ({} : DS) stepLine
