/- C03 driver: trace acceptor. Input per case: op lines, then the implementation's output lines
prefixed "T ", then "end".  For every `pass` the kernel's interest and ready list (`K` line, as
seen by the interposed epoll_wait/select of the harness) are checked against the model
(interest = what the model says is registered; ready = interest ∩ actual readiness, complete,
distinct, ascending for select) and then taken as the oracle; with that order the model is
deterministic, so every callback line (`F`), script result line (`E`), API result and
isEnabled() vector of the real loop must be exactly what the model produces.
Prints `ok …` or `reject …`. -/
import TboxModel.Util
import TboxModel.C03.Model
open Tbox.Util Tbox.C03

def nSlots : Nat := 6

def bitsOf (s : State) : String :=
  if s.nEv = 0 then "-" else
  String.ofList ((List.range s.nEv).map fun j =>
    let v := s.evs j
    if !v.alive then 'x' else if v.enabled then '1' else '0')

def numLt (w : String) (lim : Nat) : Option Nat := do
  if w.isEmpty || !w.all Char.isDigit then none
  let n ← w.toNat?
  if n < lim then some n else none

def parseAct (w : String) : Option Act :=
  match w.toList with
  | [] => none
  | k :: rest =>
    let r := String.ofList rest
    if r.isEmpty then none else
    match k with
    | 'i' =>
      match r.splitOn ":" with
      | [e, f, m, o] => do
        let e ← numLt e 1000; let f ← numLt f nSlots; let m ← numLt m 8
        if o == "o" then some (.init e f m true) else if o == "p" then some (.init e f m false) else none
      | _ => none
    | 'e' => (numLt r 1000).map .enable
    | 'd' => (numLt r 1000).map .disable
    | 'x' => (numLt r 1000).map .destroy
    | 'c' => (numLt r nSlots).map .close
    | 'k' => (numLt r nSlots).map .kill
    | 'o' => (numLt r nSlots).map .oob
    | 'r' => (numLt r nSlots).map (.setR · true)
    | 'u' => (numLt r nSlots).map (.setR · false)
    | 'w' => (numLt r nSlots).map (.setW · true)
    | 'b' => (numLt r nSlots).map (.setW · false)
    | _ => none

def parseScript (w : String) (self : Nat) : Option (List Act) :=
  if w == "-" then some [] else
  (w.splitOn ",").mapM fun item => do
    let a ← parseAct item
    if a == .destroy self then none else some a

/-- one pass of a run, for the comparison of the two back-ends (`cmp`): a digest of the model state
before the pass, whether the pass satisfies the order-independence criterion, the order in which the
kernel listed the ready descriptors, and the callbacks made (sorted) -/
structure PassRec where
  digest : String
  syn : Bool
  order : List Nat
  keys : List (Nat × Nat)

def insKey (k : Nat × Nat) : List (Nat × Nat) → List (Nat × Nat)
  | [] => [k]
  | x :: xs => if k.1 < x.1 || (k.1 == x.1 && k.2 ≤ x.2) then k :: x :: xs else x :: insKey k xs
def sortKeys (l : List (Nat × Nat)) : List (Nat × Nat) := l.foldr insKey []

structure TAcc where
  s : State := init
  be : Backend := .epoll
  cur : List PassRec := []
  prev : Option (List PassRec) := none
  maxE : Nat := 4          -- EpollLoop::max_loop_entries_ (the harness is built with DEFAULT_MAX_LOOP_ENTRIES=4)
  timer : Bool := false    -- op `tm`: a 1 ms timer is armed; every pass advances the clock by 1 ms
  tl : List String := []
  tags : List String := []
  err : Option String := none
  nops : Nat := 0

def fail (a : TAcc) (msg : String) : TAcc := { a with err := some s!"op#{a.nops} {msg}" }

def expectLine (a : TAcc) (want : String) (what : String) : TAcc :=
  match a.tl with
  | l :: rest => if l == want then { a with tl := rest }
                 else fail a s!"{what}: impl=[{l}] model=[{want}]"
  | [] => fail a s!"{what}: impl=<missing> model=[{want}]"

/-! ### replay of one pass with the lines the real loop must print -/

def actTags (s : State) : Act → List String
  | .init e _ _ _ => if (s.evs e).alive && (s.evs e).enabled then ["init-while-enabled"] else []
  | .destroy e => if (s.evs e).alive && (s.evs e).enabled then ["destroy-while-enabled"] else []
  | _ => []

def scriptRets (s : State) : List Act → State × String × List String
  | [] => (s, "", [])
  | x :: xs =>
    let r := act s x
    let r2 := scriptRets r.1 xs
    (r2.1, (if r.2 then "1" else "0") ++ r2.2.1, actTags s x ++ r2.2.2)

/-- expected line, the model state just before it (for diagnosis) -/
abbrev Exp := List (String × State)

structure Rp where
  s : State
  out : Exp := []
  tags : List String := []

def rpEvent (w : Wait) (f m : Nat) (p : Rp) (e : Nat) : Rp :=
  let v := p.s.evs e
  let r := enterEvent w f m p.s e
  if !r.2 then { p with s := r.1, tags := p.tags ++ (if v.alive then ["mask-miss"] else ["dead-event"]) }
  else
    let l1 := s!"F {e} {m} en={bitsOf r.1}"
    let sr := scriptRets r.1 v.script
    let rets := if sr.2.1.isEmpty then "-" else sr.2.1
    let l2 := s!"E {e} rets={rets} en={bitsOf sr.1}"
    let t := (if v.oneshot then ["oneshot"] else [])
      ++ (if v.script.any (fun x => match x with | .destroy _ => true | _ => false) then ["cb-destroy"] else [])
      ++ (if v.script.any (fun x => match x with | .close _ => true | _ => false) then ["cb-close"] else [])
      ++ (if v.script.any (fun x => match x with | .init _ _ _ _ => true | _ => false) then ["cb-init"] else [])
      ++ (if (List.range nSlots).any (fun g => sr.1.gen g != r.1.gen g) then ["cb-fd-reuse"] else [])
      ++ (if sr.1.breach && !r.1.breach then ["cb-close-while-referenced"] else [])
      ++ (if m &&& 4 != 0 then ["except-ready"] else []) ++ sr.2.2
    { s := sr.1, out := p.out ++ [(l1, p.s), (l2, r.1)], tags := p.tags ++ t }

def rpLoop (w : Wait) (f m : Nat) : Rp → List Nat → Rp
  | p, [] => p
  | p, e :: rest =>
    match findRec w p.s f with
    | none => { p with tags := p.tags ++ ["loop-break"] }
    | some r => if r.subs.contains e then rpLoop w f m (rpEvent w f m p e) rest
                else rpLoop w f m { p with tags := p.tags ++
                        [if (p.s.evs e).alive then "skip-disabled-sibling" else "skip-destroyed-sibling"] } rest

def rpFd (w : Wait) (p : Rp) (fm : Nat × Nat) : Rp :=
  match findRec w p.s fm.1 with
  | none => { p with tags := p.tags ++ [if (p.s.recs fm.1).isSome then "skip-new-record" else "skip-no-record"] }
  | some r => rpLoop w fm.1 fm.2 { p with tags := p.tags ++ (if r.subs.length ≥ 2 then ["shared-fd"] else []) } r.subs

def rpPass (s : State) (ready : List (Nat × Nat)) : Rp :=
  ready.foldl (rpFd (waitOf s ready)) { s := s, tags := if ready.length ≥ 2 then ["multi-ready"] else [] }

def stateDigest (s : State) : String :=
  let slots := (List.range nSlots).map fun f =>
    let subs := match s.recs f with | some r => toString r.subs | none => "-"
    s!"{f}:{actualMask s f}:{s.kern f}:{subs}:{s.isOpen f}"
  let evs := (List.range s.nEv).map fun e =>
    let v := s.evs e
    s!"{v.alive},{v.inited},{v.fd},{v.mask},{v.oneshot},{v.enabled}"
  " ".intercalate slots ++ " | " ++ " ".intercalate evs ++ s!" | {s.breach}"

def parseReady (w : String) : Option (List (Nat × Nat)) :=
  if w == "-" then some [] else
  (w.splitOn ",").mapM fun item =>
    match item.splitOn ":" with
    | [f, m] => do let f ← numLt f nSlots; let m ← numLt m 8; pure (f, m)
    | _ => none

def interestStr (be : Backend) (s : State) : String :=
  String.ofList ((List.range nSlots).map fun f => Char.ofNat (48 + interest be s f))

/-- why a callback the real loop made is not the one the model expects -/
def diagnose (s : State) (l : String) : String :=
  match words l with
  | ["F", e, _, _] =>
    match e.toNat? with
    | some e =>
      let v := s.evs e
      if !v.alive then s!" — callback on DESTROYED event {e}"
      else if !v.enabled then s!" — callback on DISABLED event {e}"
      else s!" — callback on event {e} (fd {v.fd}) which is not due here (stale or out-of-order readiness)"
    | none => ""
  | _ => ""

def matchExp (a : TAcc) : Exp → TAcc
  | [] => a
  | (want, sBefore) :: rest =>
    match a.tl with
    | l :: tl' =>
      if l == want then matchExp { a with tl := tl' } rest
      else if (words l).take 3 == (words want).take 3 then
        fail a s!"in pass: impl=[{l}] model=[{want}] — same callback, different isEnabled() vector / script results"
      else fail a s!"in pass: impl=[{l}] model=[{want}]{diagnose sBefore l}"
    | [] => fail a s!"in pass: impl=<missing> model=[{want}]"

def doPass (a : TAcc) : TAcc :=
  match a.tl with
  | [] => fail a "pass: no K line from the implementation"
  | l :: rest0 =>
    -- loop order: wait, expired timers, fd events, next-funcs: the timer callback comes right after the wait
    let tmOk := !a.timer || rest0.head? == some "TM"
    let rest := if a.timer then rest0.drop 1 else rest0
    if !tmOk then fail a s!"timer armed: expected TM right after the wait, impl=[{rest0.head?.getD "<missing>"}]" else
    match words l with
    | ["K", i, r] =>
      let wantI := "i=" ++ interestStr a.be a.s
      if i != wantI then fail a s!"kernel interest at wait: impl=[{i}] model=[{wantI}]" else
      if !r.startsWith "r=" then fail a s!"unparsable K line [{l}]" else
      -- select fails with EBADF iff a closed descriptor is in its sets; then removeInvalidFds runs instead of a dispatch
      let invalid := (List.range nSlots).filter fun f => (a.s.recs f).isSome && !a.s.isOpen f
      let badf := a.be == .select && badfTrigger a.s invalid
      if badf != (r == "r=EBADF") then
        fail a s!"select EBADF: impl=[{r}] model={if badf then "EBADF expected (a closed descriptor is watched)" else "no EBADF expected"}"
      else if badf then
        let s' := removeInvalid a.s invalid
        let a := { a with cur := a.cur ++ [{ digest := stateDigest a.s, syn := true, order := [], keys := [] }] }
        match rest with
        | l2 :: _ =>
          if l2.startsWith "F " || l2.startsWith "E " then fail a s!"callback in an EBADF pass: impl=[{l2}]"
          else expectLine { a with tl := rest, s := s', tags := a.tags ++ ["ebadf-pass"] ++
                  (if invalid.any (fun f => match a.s.recs f with | some r => r.subs.length ≥ 3 | none => false) then ["ebadf-3subs"] else []) }
                ("P en=" ++ bitsOf s') "after EBADF pass"
        | [] => fail a "after EBADF pass: impl=<missing>"
      else
      match parseReady (r.drop 2).toString with
      | none => fail a s!"unparsable K line [{l}]"
      | some ready =>
        if !validReady a.be a.s ready then
          fail a s!"ready list [{r}] is not (interest ∩ actual readiness) of distinct descriptors in back-end order"
        else
          let missing := (List.range nSlots).filter fun f =>
            (interest a.be a.s f &&& actualMask a.s f) != 0 && !(ready.map (·.1)).contains f
          let full := a.be == .epoll && ready.length ≥ a.maxE
          if a.be == .epoll && ready.length > a.maxE then
            fail a s!"epoll_wait returned {ready.length} events, max_loop_entries is {a.maxE}" else
          if !missing.isEmpty && !full then fail a s!"ready descriptors {missing} missing from the kernel's list [{r}]" else
          let a := { a with maxE := if full then a.maxE + a.maxE / 2 else a.maxE,
                            tags := a.tags ++ (if full then ["epoll-grow"] else []) ++ (if full && !missing.isEmpty then ["epoll-truncated"] else []) }
          let p := rpPass a.s ready
          let sm := pass a.s ready
          if bitsOf sm != bitsOf p.s || cbKeys sm != cbKeys p.s then
            fail a "internal: driver replay diverges from the model's pass"
          else
            let a1 := matchExp { a with tl := rest } p.out
            if a1.err.isSome then a1 else
            -- anything the loop printed beyond the expected callbacks shows up here
            match a1.tl with
            | l2 :: _ =>
              if l2.startsWith "F " || l2.startsWith "E " then
                fail a1 s!"in pass: impl=[{l2}] model=<no further callback>{diagnose p.s l2}"
              else
                let ncb := (cbKeys p.s).length - (cbKeys a.s).length
                let tg := if ncb = 0 then "pass0" else if ncb = 1 then "pass1" else "passN"
                let tb := if a.be == .select then "select" else "epoll"
                let syn := OrderIndepSyn a.s ready
                let pr : PassRec := { digest := stateDigest a.s, syn := syn, order := ready.map (·.1),
                                      keys := sortKeys ((cbKeys p.s).take ncb) }
                expectLine { a1 with s := p.s, cur := a1.cur ++ [pr],
                                     tags := a1.tags ++ p.tags ++ [tg, tb] ++ (if syn && ready.length ≥ 2 then ["order-indep-syn"] else []) }
                  ("P en=" ++ bitsOf p.s) "after pass"
            | [] => fail a1 "after pass: impl=<missing>"
    | _ => fail a s!"pass: expected a K line, impl=[{l}]"

def stepOp (a : TAcc) (line : String) : TAcc :=
  if a.err.isSome then a else
  let a := { a with nops := a.nops + 1 }
  match words line with
  | ["cmp"] =>
    -- compare the passes of this run with those of the previous run (the other back-end, same ops)
    match a.prev with
    | none => expectLine { a with tags := a.tags ++ ["cmp-nothing"] } "P cmp" "cmp"
    | some p =>
      let rec go (k : Nat) : List PassRec → List PassRec → Option String × List String
        | x :: xs, y :: ys =>
          if x.digest != y.digest then (none, ["cmp-diverged"])
          else if sortKeys (x.order.map (·, 0)) != sortKeys (y.order.map (·, 0)) then
            (none, ["cmp-ready-set-differs"])      -- epoll_wait filled its array: the kernel did not report the same descriptors
          else if !(x.syn && y.syn) then (none, ["cmp-order-dependent"])
          else if x.keys != y.keys then
            (some s!"back-ends disagree in pass {k} although it satisfies OrderIndepSyn: first run {x.keys} (order {x.order}), second run {y.keys} (order {y.order})", [])
          else
            let r := go (k + 1) xs ys
            (r.1, (if x.order != y.order && x.order.length ≥ 2 then ["cmp-order-differs"] else []) ++ ["cmp-agree"] ++ r.2)
        | _, _ => (none, [])
      let r := go 1 p a.cur
      match r.1 with
      | some msg => fail a msg
      | none => expectLine { a with tags := a.tags ++ r.2 } "P cmp" "cmp"
  | ["tm"] =>
    if a.timer then expectLine a "bad-op" "malformed op"
    else expectLine { a with timer := true, tags := a.tags ++ ["timer"] } "P tm" "tm"
  | ["bulk", n] =>
    match numLt n 201 with
    | none => expectLine a "bad-op" "malformed op"
    | some n =>
      if n = 0 then expectLine a "bad-op" "malformed op" else
      let base := a.s.nEv
      let s1 := (List.range n).foldl (fun s i =>
        let s := step s (.newEv [])
        (act s (.init (base + i) (100 + i) 0 false)).1) a.s
      let s2 := (List.range n).foldl (fun s i => (act s (.destroy (base + i))).1) s1
      expectLine { a with s := s2, tags := a.tags ++ [if n > poolKeep then "bulk>keep" else "bulk"] }
        ("P ret=1 en=" ++ bitsOf s2) "bulk"
  | ["be", k] =>
    let a := { a with prev := (if a.cur.isEmpty then a.prev else some a.cur), cur := [], maxE := 4, timer := false }
    if k == "epoll" then expectLine { a with s := init, be := .epoll } "P be=epoll" "be"
    else if k == "select" then expectLine { a with s := init, be := .select } "P be=select" "be"
    else expectLine a "bad-op" "malformed op"
  | ["pass"] => doPass a
  | ["new", sc] =>
    match (if a.s.nEv < 64 then parseScript sc a.s.nEv else none) with
    | none => expectLine a "bad-op" "malformed op"
    | some l =>
      let s' := step a.s (.newEv l)
      expectLine { a with s := s' } ("P ret=1 en=" ++ bitsOf s') "new"
  | ["do", x] =>
    match parseAct x with
    | none => expectLine a "bad-op" "malformed op"
    | some x =>
      let r := act a.s x
      let t := actTags a.s x ++ match x with
        | .close f => ["fd-reuse"] ++ (if (a.s.recs f).isSome then ["close-while-referenced"] else [])
        | .kill f => if r.2 then ["kill"] ++ (if (a.s.recs f).isSome then ["close-while-referenced"] else []) else []
        | .oob _ => ["oob"]
        | _ => []
      expectLine { a with s := r.1, tags := a.tags ++ t } ("P ret=" ++ (if r.2 then "1" else "0") ++ " en=" ++ bitsOf r.1) "api result"
  | _ => expectLine a "bad-op" "malformed op"

structure DS where
  ops : Array String := #[]
  tl : Array String := #[]

def finish (d : DS) : List String :=
  let a : TAcc := d.ops.foldl stepOp ({ tl := d.tl.toList } : TAcc)
  let tagsLine := if a.tags.isEmpty then [] else ["B " ++ " ".intercalate a.tags.eraseDups]
  match a.err with
  | some e => tagsLine ++ ["reject " ++ e]
  | none =>
    match a.tl with
    | [] =>
      let bad := a.s.log.any fun o => match o with | .bad _ => true | _ => false
      if bad then tagsLine ++ ["reject internal: model reached a stale access"]
      else tagsLine ++ [s!"ok ops={a.nops} callbacks={(cbKeys a.s).length}"]
    | l :: _ => tagsLine ++ ["reject unexpected extra implementation output: [" ++ l ++ "]"]

def stepLine (d : DS) (line : String) : DS × List String :=
  let t := line.trimAscii.toString
  if t.isEmpty then (d, [])
  else if t.startsWith "case " then ({}, [t])
  else if t == "end" then ({}, finish d)
  else if t.startsWith "T " then ({ d with tl := d.tl.push (t.drop 2).toString }, [])
  else ({ d with ops := d.ops.push t }, [])

def main : IO Unit := runDriver ({} : DS) stepLine
