/- C04 driver: op lines in, observable lines out (same format as props/C04/harness.cpp).
   After every op: isEnabled() of every event and the field-wise disposition of the four signals. -/
import TboxModel.Util
import TboxModel.C04.Model
open Tbox.Util Tbox.C04

def nSig : Nat := 4
def nLoop : Nat := 3

def showDisp (d : Disp) : String :=
  let k := match d.kind with
    | .dfl => "d" | .ign => "i" | .handler h => "h" ++ toString h | .tbox => "T"
  k ++ ":" ++ (if d.siginfo then "1" else "0") ++ ":" ++ toString d.flags ++ ":" ++ toString d.mask

def bitsOf (s : State) : String :=
  if s.nEv = 0 then "-" else
  String.ofList ((List.range s.nEv).map fun e =>
    let v := s.evs e
    if !v.alive then 'x' else if v.enabled then '1' else '0')

def showState (s : State) : String :=
  "en=" ++ bitsOf s ++ " disp=" ++ "|".intercalate ((List.range nSig).map fun g => showDisp (s.os g))

def idx? (w : String) (bound : Nat) : Option Nat := do
  let i ← w.toNat?
  if i < bound then some i else none

/-- "-" or a strictly ascending comma list of signal indices -/
def parseSigs (w : String) : Option (List Nat) :=
  if w == "-" then some [] else do
    let l ← (w.splitOn ",").mapM (fun x => idx? x nSig)
    if l.Pairwise (· < ·) then some l else none

def parseKind (w : String) : Option (Kind × Bool) :=
  match w.toList with
  | ['d'] => some (.dfl, false)
  | ['i'] => some (.ign, false)
  | ['h', c] => (idx? (String.ofList [c]) 3).map fun h => (.handler h, false)
  | ['a', c] => (idx? (String.ofList [c]) 3).map fun h => (.handler h, true)
  | _ => none

def parseOp (s : State) (ws : List String) : Option Op :=
  match ws with
  | ["new", l] => do pure (.newEv (← idx? l nLoop))
  | ["init", e, sg, m] => do
      let e ← idx? e s.nEv
      let sg ← parseSigs sg
      if m == "o" then pure (.init e sg true) else if m == "p" then pure (.init e sg false) else none
  | ["en", e] => do pure (.enable (← idx? e s.nEv))
  | ["dis", e] => do pure (.disable (← idx? e s.nEv))
  | ["del", e] => do pure (.destroy (← idx? e s.nEv))
  | ["sa", g, k, f, m] => do
      let g ← idx? g nSig
      let (k, si) ← parseKind k
      pure (.setDisp g { kind := k, siginfo := si, flags := (← idx? f 4), mask := (← idx? m 16) })
  | ["raise", g] => do pure (.raise (← idx? g nSig))
  | ["pass", l] => do pure (.pass (← idx? l nLoop))
  | _ => none

/-- canonical form of the callbacks of one pass: split into dispatch groups (a new group starts when the
signal changes or an event repeats), sort each group by event id -/
def groupCbs (cbs : List Cb) : List (Nat × List Cb) :=
  let rec go (acc : List (Nat × List Cb)) (cur : Option (Nat × List Cb)) : List Cb → List (Nat × List Cb)
    | [] => (match cur with | some c => c :: acc | none => acc).reverse
    | c :: rest =>
      match cur with
      | none => go acc (some (c.sig, [c])) rest
      | some (g, l) =>
        if g == c.sig && !(l.any fun x => x.ev == c.ev) then go acc (some (g, l ++ [c])) rest
        else go ((g, l) :: acc) (some (c.sig, [c])) rest
  go [] none cbs

def insertCb (c : Cb) : List Cb → List Cb
  | [] => [c]
  | x :: xs => if c.ev ≤ x.ev then c :: x :: xs else x :: insertCb c xs

def showCbs (cbs : List Cb) : String :=
  if cbs.isEmpty then "-" else
  ";".intercalate ((groupCbs cbs).map fun (g, l) =>
    toString g ++ ":" ++ ",".intercalate ((l.foldr insertCb []).map fun c =>
      "e" ++ toString c.ev ++ (if c.enabledInCb then "+" else "-")))

def showCalls (cs : List (Nat × Nat)) : String :=
  if cs.isEmpty then "-" else ",".intercalate (cs.map fun (h, g) => toString h ++ ":" ++ toString g)

def loopsWithSubs (s : State) : Nat := ((List.range nLoop).filter fun l => !(s.subs l).isEmpty).length
def ctxCount (s : State) : Nat := ((List.range nSig).filter fun g => (s.ctxs g).isSome).length

def tagsOf (s s' : State) (op : Op) : List String :=
  let dc := (if ctxCount s' > ctxCount s then ["install"] else []) ++ (if ctxCount s' < ctxCount s then ["restore"] else [])
    ++ (if loopsWithSubs s' > loopsWithSubs s then ["open-pipe"] else []) ++ (if loopsWithSubs s' < loopsWithSubs s then ["close-pipe"] else [])
  match op with
  | .enable e =>
      let v := s.evs e
      dc ++ (if !v.alive then ["en-dead"] else if !v.inited then ["en-uninited"] else if v.enabled then ["en-again"] else
        (if v.sigs.length > 1 then ["en-multi"] else ["en"]) ++
        (if v.sigs.any fun g => (fdsOf s g).length ≥ 1 && !(fdsOf s g).contains v.loop then ["join-ctx"] else []) ++
        (if v.sigs.any fun g => !(subsOf s v.loop g).isEmpty then ["join-loop"] else []))
  | .disable e | .destroy e =>
      let v := s.evs e
      dc ++ (if !v.alive then ["dis-dead"] else if !v.enabled then ["dis-idle"] else ["dis"] ++
        (if v.sigs.any fun g => (fdsOf s g).length ≥ 2 && (subsOf s v.loop g).length == 1 then ["leave-ctx"] else []) ++
        (if v.sigs.any fun g => (subsOf s v.loop g).length ≥ 2 then ["leave-loop"] else []))
  | .raise g =>
      match (s.os g).kind with
      | .dfl => ["raise-dfl"] | .ign => ["raise-ign"] | .handler _ => ["raise-user"]
      | .tbox => [match (ctxOf s g).old.kind with | .handler _ => "raise-chain" | _ => "raise-nochain",
                  "fan" ++ toString (fdsOf s g).length]
  | .pass l =>
      let n := s'.cbs.length - s.cbs.length
      dc ++ (if (s.pipe l).isEmpty then ["pass-empty"] else
        (if (s.pipe l).length ≥ 2 then ["pass-items>1"] else []) ++
        (if n = 0 then ["pass-stale"] else if n = 1 then ["pass-cb1"] else ["pass-cbN"]) ++
        (if (s'.cbs.take n).any (·.oneshot) then ["oneshot-fired"] else []) ++
        (if (s.pipe l).length > 10 then ["pass-chunk>10"] else []))
  | .setDisp g _ => if (s.os g).kind = .tbox then ["sa-refused"] else ["sa"]
  | .init e _ _ => if (s.evs e).inited then ["reinit"] else ["init"]
  | .newEv _ => []

def stepLine (s : State) (line : String) : State × List String :=
  let ws := words line
  match ws with
  | [] => (s, [])
  | "case" :: _ => (init, [line.trimAscii.toString])
  | ["eng", e] => if e == "e" || e == "s" then (s, ["P eng"]) else (s, ["bad-op"])
  | _ =>
    match parseOp s ws with
    | none => (s, ["bad-op"])
    | some op =>
      -- `initialize` on an enabled event is outside the property's histories: refused by both sides
      if !valid s op then (s, ["P refused " ++ showState s]) else
      let s' := step s op
      let tags := tagsOf s s' op
      let b := if tags.isEmpty then [] else ["B " ++ " ".intercalate tags]
      let body := match op with
        | .newEv _ => "ret=1"
        | .init e sg o => "ret=" ++ (if (initEv s e sg o).2 then "1" else "0")
        | .enable e => "ret=" ++ (if (enable s e).2 then "1" else "0")
        | .disable e => "ret=" ++ (if (disable s e).2 then "1" else "0")
        | .destroy e => "ret=" ++ (if (destroy s e).2 then "1" else "0")
        | .setDisp g d => "ret=" ++ (if (setDisp s g d).2 then "1" else "0")
        | .raise g =>
            let o := match (raise s g).2 with | .killed => "killed" | .ignored => "ignored" | .handled => "handled"
            "raise " ++ o ++ " calls=" ++ showCalls ((s'.calls.take (s'.calls.length - s.calls.length)).reverse)
        | .pass _ => "pass cbs=" ++ showCbs ((s'.cbs.take (s'.cbs.length - s.cbs.length)).reverse) ++ " thr=ok"
      (s', b ++ ["P " ++ body ++ " " ++ showState s'])

def main : IO Unit := runDriver init stepLine
