/- C04 driver: trace acceptor.  Input per case: op lines, then the implementation's output lines prefixed "T ",
   then "end".  Every op is run on the model of the REPAIRED code; the expected line (isEnabled() of every event,
   field-wise disposition of the six signals, handler invocations per raise, callbacks per pass in call order) must
   equal the implementation's line.  The only thing taken from the implementation is the `ord=` field of a pass
   line: the order in which its std::set<SignalSubscribuer*> walks the events (the model's oracle).
   Prints `ok …` or `reject …` per case. -/
import TboxModel.Util
import TboxModel.C04.Model
open Tbox.Util Tbox.C04

def nSig : Nat := 12      -- ids accepted in op lines
def nShow : Nat := 7      -- ids whose disposition is printed (0..5 as before, 6 = SIGRTMAX)
def nLoop : Nat := 3

/-- position of the id's signal number in ascending order of the numbers
(-3, 0, SIGKILL 9, SIGUSR1 10, SIGUSR2 12, SIGSTOP 19, 32, RTMIN+1, RTMIN+2, SIGRTMAX 64, 65, INT_MAX):
`std::set<int>` iterates in that order -/
def rankOf : Nat → Nat
  | 0 => 2 | 1 => 3 | 2 => 4 | 3 => 5 | 4 => 7 | 5 => 8 | 6 => 9 | 7 => 10 | 8 => 11 | 9 => 1 | 10 => 0 | 11 => 6
  | n => n + 12

def showDisp (d : Disp) : String :=
  let k := match d.kind with
    | .dfl => "d" | .ign => "i" | .handler h => "h" ++ toString h | .tbox => "T"
  -- round 6: the flags / mask of tbox's OWN handler are model-internal (`M own=`), the application's dispositions are shown whole
  if d.kind = .tbox then k else
  k ++ ":" ++ (if d.siginfo then "1" else "0") ++ ":" ++ toString d.flags ++ ":" ++ toString d.mask

/-- `M own=`: SA_SIGINFO, the other flags and the mask of tbox's handler, per signal it is installed for -/
def showOwn (os : Nat → Disp) : String :=
  let l := (List.range 7).filterMap fun g =>
    let d := os g
    if d.kind = .tbox then some (toString g ++ ":" ++ (if d.siginfo then "1" else "0") ++ ":" ++ toString d.flags ++ ":" ++ toString d.mask) else none
  if l.isEmpty then "-" else ",".intercalate l

def bitsOf (s : State) : String :=
  if s.nEv = 0 then "-" else
  String.ofList ((List.range s.nEv).map fun e =>
    let v := s.evs e
    if !v.alive then 'x' else if v.enabled then '1' else '0')

def showState (s : State) : String :=
  "en=" ++ bitsOf s ++ " disp=" ++ "|".intercalate ((List.range nShow).map fun g => showDisp (s.os g))

def idx? (w : String) (bound : Nat) : Option Nat := do
  let i ← w.toNat?
  if i < bound then some i else none

/-- "-" or a strictly ascending comma list of signal indices -/
def parseSigs (w : String) : Option (List Nat) :=
  if w == "-" then some [] else do
    let l ← (w.splitOn ",").mapM (fun x => idx? x nSig)
    if l.Pairwise (fun a b => rankOf a < rankOf b) then some l else none

def parseKind (w : String) : Option (Kind × Bool) :=
  match w.toList with
  | ['d'] => some (.dfl, false)
  | ['i'] => some (.ign, false)
  | ['h', c] => (idx? (String.ofList [c]) 3).map fun h => (.handler h, false)
  | ['a', c] => (idx? (String.ofList [c]) 3).map fun h => (.handler h, true)
  | _ => none

/-- "1.2" (strictly ascending, '.'-separated) or "-" -/
def parseSigsDot (w : String) : Option (List Nat) :=
  if w == "-" then some [] else do
    let l ← (w.splitOn ".").mapM (fun x => idx? x nSig)
    if l.Pairwise (fun a b => rankOf a < rankOf b) then some l else none

def parseAct (w : String) : Option Act :=
  match w.toList with
  | 'i' :: rest =>
      match (String.ofList rest).splitOn ":" with
      | [j, sg, m] => do
          let j ← idx? j 64; let sg ← parseSigsDot sg
          if m == "o" then some (.init j sg true) else if m == "p" then some (.init j sg false) else none
      | _ => none
  | 'e' :: rest => (idx? (String.ofList rest) 64).map .enable
  | 'd' :: rest => (idx? (String.ofList rest) 64).map .disable
  | 'x' :: rest => (idx? (String.ofList rest) 64).map .destroy
  | 'p' :: rest => (idx? (String.ofList rest) 64).map .enableP
  | _ => none

def parseScript (w : String) (self : Nat) : Option (List Act) :=
  if w == "-" then some [] else
  (w.splitOn ",").mapM fun item => do
    let a ← parseAct item
    if a == .destroy self then none else some a

/-- "-" or "e3,e0,e1" -/
def parseOrd (w : String) : Option (List Nat) :=
  if w == "-" then some [] else
  (w.splitOn ",").mapM fun item =>
    match item.toList with
    | 'e' :: rest => (String.ofList rest).toNat?
    | _ => none

def parseOp (s : State) (ord : List Nat) (ws : List String) : Option Op :=
  match ws with
  | ["new", l, sc] => do pure (.newEv (← idx? l nLoop) (← parseScript sc s.nEv))
  | ["init", e, sg, m] => do
      let e ← idx? e s.nEv
      let sg ← parseSigs sg
      if m == "o" then pure (.init e sg true) else if m == "p" then pure (.init e sg false) else none
  | ["en", e] => do pure (.enable (← idx? e s.nEv))
  | ["enp", e] => do pure (.enableP (← idx? e s.nEv))
  | ["dis", e] => do pure (.disable (← idx? e s.nEv))
  | ["del", e] => do pure (.destroy (← idx? e s.nEv))
  | ["sa", g, k, f, m] => do
      let g ← idx? g nSig
      let (k, si) ← parseKind k
      -- round 5: flags = bit set over RESTART, NODEFER, RESETHAND, ONSTACK, NOCLDSTOP, NOCLDWAIT; mask = the 64-bit sa_mask, decimal
      pure (.setDisp g { kind := k, siginfo := si, flags := (← idx? f 64), mask := (← idx? m (2 ^ 64)) })
  | ["raise", g] => do pure (.raise (← idx? g nSig))
  | ["raisew", g, wf] => do
      let g ← idx? g nSig
      let wf ← if wf == "-" then some [] else (wf.splitOn ",").mapM (fun x => idx? x nLoop)
      if wf.Nodup then pure (.raiseW g wf) else none
  | ["pass", l] => do pure (.pass (← idx? l nLoop) ord)
  | ["passc", l, cs] => do
      let l ← idx? l nLoop
      let cs ← (cs.splitOn ",").mapM fun x =>
        if x == "x" || x == "e" then some (none : Option Nat) else do
          let c ← idx? x 11
          if c ≥ 1 then some (some c) else none
      if cs.length ≤ 64 then pure (.passC l ord cs) else none
  | ["cap", b] => if b == "s" then some (.setCap true) else if b == "d" then some (.setCap false) else none
  | ["init1", e, sg, m] | ["initl", e, sg, m] | ["initd", e, sg, m] => do
      -- the int / initializer_list overloads INSERT into the event's set (after the disable): the resulting set in
      -- `std::set` order
      let e ← idx? e s.nEv
      let sg ← parseSigs sg
      if (ws.head? == some "init1" || ws.head? == some "initd") && sg.length != 1 then none
      if sg.length > 3 then none
      let all := (s.evs e).sigs ++ sg.filter (fun g => !(s.evs e).sigs.contains g)
      let sorted := (List.range nSig).map (fun r => all.filter (fun g => rankOf g == r)) |>.flatten
      if m == "o" then pure (.init e sorted true) else if m == "p" then pure (.init e sorted false) else none
  | _ => none

/-- run-length groups of equal neighbours -/
def rle : List String → List (String × Nat)
  | [] => []
  | x :: xs =>
    match rle xs with
    | (y, n) :: r => if x == y then (y, n + 1) :: r else (x, 1) :: (y, n) :: r
    | [] => [(x, 1)]

def showCbs (cbs : List Cb) : String :=
  if cbs.isEmpty then "-" else
  let toks := cbs.map fun c => toString c.sig ++ ":e" ++ toString c.ev ++ (if c.enabledInCb then "+" else "-")
  ",".intercalate ((rle toks).map fun (t, n) => if n > 1 then t ++ "*" ++ toString n else t)

/-! the system calls of the critical sections (`M sys=`): P pipe2, B block all signals, A<id> sigaction (x = it fails),
S restore the mask, Cw Cr close of the pipe — transcribed beside `subscribe` / `unsubscribe` / `subscribeFail` -/
def sysSub (s : State) (l g : Nat) : List String :=
  (if s.hasPipe l then [] else ["P"]) ++
  (if (subsOf s l g).isEmpty then
     ["B"] ++ (if (fdsOf s g).isEmpty then ["A" ++ toString g ++ (if sigValid g then "" else "x")] else []) ++ ["S"]
   else [])

/-- the failure path closes the pipe INSIDE the critical section (the scope-exit that restores the mask runs at `return`) -/
def sysSubFail (s : State) (l g : Nat) : List String :=
  (if s.hasPipe l then [] else ["P"]) ++ ["B", "A" ++ toString g ++ "x"] ++
  (if ((s.subs l).erase g).isEmpty then ["Cw", "Cr"] else []) ++ ["S"]

def sysUnsub (s : State) (l g e : Nat) : List String :=
  if !(del e (subsOf s l g)).isEmpty then [] else
  ["B"] ++ (if (del l (fdsOf s g)).isEmpty then ["A" ++ toString g] else []) ++ ["S"] ++
  (if ((s.subs l).erase g).isEmpty then ["Cw", "Cr"] else [])

def sysUnsubAll (s : State) (l e : Nat) : List Nat → List String
  | [] => []
  | g :: gs => sysUnsub s l g e ++ sysUnsubAll (unsubscribe s l g e) l e gs

def sysSubAll (s : State) (l e : Nat) : List Nat → List String
  | [] => []
  | g :: gs => if subscribeFails s l g then sysSubFail s l g else sysSub s l g ++ sysSubAll (subscribe s l g e) l e gs

def sysDisable (s : State) (e : Nat) : List String :=
  let v := s.evs e
  if v.alive && v.enabled then sysUnsubAll s v.loop e v.sigs else []

def sysEnable (s : State) (e : Nat) : List String :=
  let v := s.evs e
  if !v.alive || !v.inited then [] else
  let r := subscribeAllF s v.loop e v.sigs
  sysSubAll s v.loop e v.sigs ++ (if !r.2.2 && !v.enabled then sysUnsubAll r.1 v.loop e r.2.1 else [])

/-- `enable()` with `pipe2` failing: the one `pipe2` call (x = it fails) and nothing else, or — no pipe needed — as `enable()` -/
def sysEnableP (s : State) (e : Nat) : List String := if needsPipe s e then ["Px"] else sysEnable s e

def showSys (t : List String) : String := if t.isEmpty then "-" else ",".intercalate t

/-- the handler's writes of one delivery, by loop -/
def showWr (s : State) (g : Nat) (wf : List Nat) : String :=
  if (s.os g).kind != .tbox then "-" else
  let ls := (List.range nLoop).filter fun l => (fdsOf s g).contains l
  if ls.isEmpty then "-" else
  let errs := ["EAGAIN", "EINTR", "EIO", "EPIPE"]
  let inj := (List.range nLoop).filter fun l => wf.contains l       -- ascending, as the harness assigns the errnos
  ",".intercalate (ls.map fun l =>
    "l" ++ toString l ++ ":" ++
      (match inj.idxOf? l with
       | some k => errs.getD ((k + g) % 4) "ERR"
       | none => if hd s l + (s.pipe l).length < capOf s then "ok" else "EAGAIN"))

/-- the signal number of an id (as in the harness) -/
def signoOf : Nat → Nat
  | 0 => 9 | 1 => 10 | 2 => 12 | 3 => 19 | 4 => 35 | 5 => 36 | 6 => 64 | _ => 0

/-- what the invoked user handler sees: the blocked signals (64-bit set, decimal) and whether it runs on the alternate stack -/
def showEnv (s : State) (g : Nat) : String :=
  let called := match (s.os g).kind with
    | .handler _ => true
    | .tbox => (match (ctxOf s g).old.kind with | .handler _ => true | _ => false)
    | _ => false
  if !called then "-" else
  let (self, m, st) := handlerEnv s g
  toString (m ||| (if self then 2 ^ (signoOf g - 1) else 0)) ++ ":" ++ (if st then "1" else "0")

/-- the same state with the pipes of the loops the driver uses evaluated once (the model keeps them as a function that
grows by one closure per step; without this a burst of n deliveries costs n^3) -/
def normPipe (s : State) : State :=
  let p0 := s.pipe 0
  let p1 := s.pipe 1
  let p2 := s.pipe 2
  let h0 := hd s 0
  let h1 := hd s 1
  let h2 := hd s 2
  { s with pipe := fun l => if l = 0 then p0 else if l = 1 then p1 else if l = 2 then p2 else [],
           head := fun l => if l = 0 then h0 else if l = 1 then h1 else if l = 2 then h2 else 0 }

def raisesN (s : State) (g : Nat) : Nat → State
  | 0 => s
  | n + 1 => raisesN (normPipe (raise s g).1) g n


def showOrd (ord : List Nat) : String :=
  if ord.isEmpty then "-" else ",".intercalate (ord.map fun e => "e" ++ toString e)

def showCalls (cs : List (Nat × Nat)) : String :=
  if cs.isEmpty then "-" else ",".intercalate (cs.map fun (h, g) => toString h ++ ":" ++ toString g)

def loopsWithSubs (s : State) : Nat := ((List.range nLoop).filter fun l => !(s.subs l).isEmpty).length
def ctxCount (s : State) : Nat := ((List.range nSig).filter fun g => (s.ctxs g).isSome).length

def tagsOf (s s' : State) (op : Op) : List String :=
  let dc := (if ctxCount s' > ctxCount s then ["install"] else []) ++ (if ctxCount s' < ctxCount s then ["restore"] else [])
    ++ (if loopsWithSubs s' > loopsWithSubs s then ["open-pipe"] else []) ++ (if loopsWithSubs s' < loopsWithSubs s then ["close-pipe"] else [])
  match op with
  | .enable e =>
      let v := s.evs e
      dc ++ (if !v.alive then ["en-dead"] else if !v.inited then ["en-uninited"] else if v.enabled then ["en-again"]
        else if !(enable repaired s e).2 then [if (subscribeAllF s v.loop e v.sigs).2.1.isEmpty then "en-fail-first" else "en-fail-rollback"] else
        (if v.sigs.length > 1 then ["en-multi"] else ["en"]) ++
        (if v.sigs.any fun g => (fdsOf s g).length ≥ 1 && !(fdsOf s g).contains v.loop then ["join-ctx"] else []) ++
        (if v.sigs.any fun g => !(subsOf s v.loop g).isEmpty then ["join-loop"] else []))
  | .disable e | .destroy e =>
      let v := s.evs e
      (if (List.range nSig).any fun g => (s.os g).kind = .tbox && (s'.os g).kind != .tbox && ((s'.os g).flags ≥ 4 || (s'.os g).mask ≥ 2 ^ 32)
       then ["restore-wide"] else []) ++
      dc ++ (if !v.alive then ["dis-dead"] else if !v.enabled then ["dis-idle"] else ["dis"] ++
        (if v.sigs.any fun g => (fdsOf s g).length ≥ 2 && (subsOf s v.loop g).length == 1 then ["leave-ctx"] else []) ++
        (if v.sigs.any fun g => (subsOf s v.loop g).length ≥ 2 then ["leave-loop"] else []))
  | .raise g =>
      match (s.os g).kind with
      | .dfl => ["raise-dfl"] | .ign => ["raise-ign"]
      | .handler _ => ["raise-user"] ++ (if (s.os g).resetHand then ["raise-resethand-direct"] else []) ++
                      (if (s.os g).mask ≥ 2 ^ 31 then ["env-wide-mask"] else []) ++ (if (s.os g).onStack then ["env-onstack"] else [])
      | .tbox => [match (ctxOf s g).old.kind with | .handler _ => "raise-chain" | _ => "raise-nochain",
                  "fan" ++ toString (fdsOf s g).length] ++
                 (match (ctxOf s g).old.kind with
                  | .handler _ => (if (ctxOf s g).old.resetHand then ["raise-chain-resethand"] else []) ++
                                  (if (ctxOf s g).old.noDefer || (ctxOf s g).old.onStack || (ctxOf s g).old.mask != 0 then ["chain-env-differs"] else [])
                  | _ => []) ++
                 (if (fdsOf s g).any fun l => hd s l + (s.pipe l).length ≥ capOf s then ["raise-overflow"] else []) ++
                 (if (fdsOf s g).any fun l => hd s l > 0 then ["head-page"] else []) ++
                 (if (fdsOf s g).any fun l => hd s l > 0 && hd s l + (s.pipe l).length ≥ capOf s && (s.pipe l).length < capOf s
                  then ["head-page-drop"] else [])
  | .pass l _ =>
      let n := s'.cbs.length - s.cbs.length
      let live := ((s.pipe l).foldl (fun acc g => acc + (subsOf s l g).length) 0)
      let scripted := (s'.cbs.take n).any fun c => !(s.evs c.ev).script.isEmpty
      dc ++ (if (s.pipe l).isEmpty then ["pass-empty"] else
        (if scripted then ["cb-script"] else []) ++
        (if (s'.cbs.take n).any (fun c => !(s.evs c.ev).script.all (fun a => match a with
            | .enable j | .disable j | .destroy j | .init j _ _ | .enableP j => (s.evs j).loop == l)) then ["cb-cross-loop"] else []) ++
        (if (s'.cbs.take n).any (fun c => (s.evs c.ev).script.any (fun a => match a with | .enableP _ => true | _ => false)) then ["cb-enp"] else []) ++
        (if (s.pipe l).length ≥ capOf s then ["pass-full-pipe"] else []) ++
        (if n < live then ["cb-skipped-or-lost"] else []) ++ (if n > live then ["cb-extra"] else []) ++
        (if (s.pipe l).length ≥ 2 then ["pass-items>1"] else []) ++
        (if n = 0 then ["pass-stale"] else if n = 1 then ["pass-cb1"] else ["pass-cbN"]) ++
        (if (s'.cbs.take n).any (·.oneshot) then ["oneshot-fired"] else []) ++
        (if (s.pipe l).length > 10 then ["pass-chunk>10"] else []))
  | .raiseW g wf =>
      if (s.os g).kind = .tbox then
        ["raisew"] ++ (if (fdsOf s g).any fun l => wf.contains l then ["write-fail"] else []) ++
        (if (fdsOf s g).any fun l => !wf.contains l then ["write-ok"] else [])
      else ["raisew-idle"]
  | .passC l _ cs =>
      let n := s'.cbs.length - s.cbs.length
      dc ++ (if (s.pipe l).isEmpty then ["passc-empty"] else
        (if cs.any (·.isNone) then ["read-error"] else []) ++ (if cs.any (fun c => c.isSome && c != some 10) then ["read-short"] else []) ++
        (if s'.hasPipe l && !(s'.pipe l).isEmpty then ["passc-left-pending"] else []) ++
        (if n = 0 then ["pass-stale"] else if n = 1 then ["pass-cb1"] else ["pass-cbN"]))
  | .setCap _ => ["cap"]
  | .setDisp g d => if (s.os g).kind = .tbox then ["sa-refused"] else if !sigValid g then ["sa-einval"] else
      ["sa"] ++ (if d.flags ≥ 4 then ["sa-flags-wide"] else []) ++ (if d.mask ≥ 2 ^ 32 then ["sa-mask-wide"] else []) ++
      (if normMask d.mask != d.mask then ["sa-mask-killstop"] else [])
  | .init e _ _ => dc ++ (if (s.evs e).enabled then ["reinit-enabled"] else if (s.evs e).inited then ["reinit"] else ["init"])
  | .newEv _ sc => if sc.isEmpty then [] else ["new-script"]
  | .enableP e =>
      if needsPipe s e then ["enp-pipe2-fails"] ++ (if (s.evs e).sigs.length > 1 then ["enp-multi"] else []) ++
        (if (List.range nSig).any fun g => (s.os g).kind = .tbox then ["enp-others-installed"] else [])
      else dc ++ ["enp-no-pipe2-call"] ++ (if (s.evs e).alive && (s.evs e).inited && !(s.evs e).enabled && (enable repaired s e).2 then ["enp-joins-open-pipe"] else [])

/-- expected output of one op line on the model (B tag line first, if any) -/
def stepLine (s : State) (line : String) (ord : List Nat) : State × List String :=
  let ws := words line
  match ws with
  | [] => (s, [])
  | ["eng", e] => if e == "e" || e == "s" then (s, ["P eng"]) else (s, ["bad-op"])
  | ["lost", l] =>
    -- round 5 (observation, outside the statement): the loop is destroyed while its events are subscribed.  ~CommonLoop does
    -- not touch the signal bookkeeping: no system call, every disposition and isEnabled() as before.  Terminal: the harness
    -- accepts only deliveries afterwards (the orphaned events must not be touched: their loop pointer dangles).
    match idx? l nLoop with
    | some l => (s, ["B lost" ++ (if s.hasPipe l then " lost-subscribed" else ""), "P lost " ++ showState s, "M sys=-", "M own=" ++ showOwn s.os])
    | none => (s, ["bad-op"])
  | ["blk", g] =>
    -- round 6: the delivery goes to a thread blocked in read(): the same delivery as `raise g`, plus what the blocked call sees
    match idx? g nShow with
    | some g =>
      if !sigValid g then (s, ["bad-op"]) else
      let s' := normPipe (raise s g).1
      let o := match (raise s g).2 with | .killed => "killed" | .ignored => "ignored" | .handled => "handled"
      let b := match blockedCall s g with | .killed => "killed" | .undisturbed => "undisturbed" | .restarted => "restarted" | .eintr => "eintr"
      let saved := (s.os g).kind = .tbox && (ctxOf s g).old.restart && (match (ctxOf s g).old.kind with | .handler _ => true | _ => false)
      (s', ["B blk blk-" ++ b ++ (if saved then " blk-saved-restart-lost" else ""),
            "P raise " ++ o ++ " calls=" ++ showCalls ((s'.calls.take (s'.calls.length - s.calls.length)).reverse) ++ " " ++ showState s',
            "M wr=" ++ showWr s g [], "M env=" ++ showEnv s g, "M blk=" ++ b])
    | none => (s, ["bad-op"])
  | ["burst", g, n] =>
    -- n deliveries in a row (n `raise` ops); the writes of the first and of the last one are shown
    match idx? g nSig, idx? n 40001 with
    | some g, some n =>
      if n = 0 then (s, ["bad-op"]) else
      let sLast := raisesN s g (n - 1)
      let s' := normPipe (raise sLast g).1
      let o := match (raise s g).2 with | .killed => "killed" | .ignored => "ignored" | .handled => "handled"
      let wr := if n = 1 then showWr s g [] else showWr s g [] ++ "/" ++ showWr sLast g []
      let tags := (if (s.os g).kind = .tbox then ["burst"] else ["burst-idle"]) ++
        (if (fdsOf s g).any fun l => (s'.pipe l).length ≥ capOf s then ["raise-overflow", "burst-overflow"] else [])
      (s', ["B " ++ " ".intercalate tags,
            "P burst " ++ o ++ " ncalls=" ++ toString (s'.calls.length - s.calls.length) ++ " " ++ showState s', "M wr=" ++ wr])
    | _, _ => (s, ["bad-op"])
  | _ =>
    match parseOp s ord ws with
    | none => (s, ["bad-op"])
    | some op =>
      if !valid s op then (s, ["bad-op"]) else
      let s' := normPipe (step repaired s op)
      let tags := tagsOf s s' op
      let b := if tags.isEmpty then [] else ["B " ++ " ".intercalate tags]
      match op with
      | .setCap _ => (s', b ++ ["P cap"])
      | _ =>
      let body := match op with
        | .newEv _ _ => "ret=1"
        | .init e sg o => "ret=" ++ (if (initEv repaired s e sg o).2 then "1" else "0")
        | .enable e => "ret=" ++ (if (enable repaired s e).2 then "1" else "0")
        | .enableP e => "ret=" ++ (if (enableP repaired s e).2 then "1" else "0")
        | .disable e => "ret=" ++ (if (disable s e).2 then "1" else "0")
        | .destroy e => "ret=" ++ (if (destroy s e).2 then "1" else "0")
        | .setDisp g d => "ret=" ++ (if (setDisp s g d).2 then "1" else "0")
        | .raise g | .raiseW g _ =>
            let o := match (raise s g).2 with | .killed => "killed" | .ignored => "ignored" | .handled => "handled"
            "raise " ++ o ++ " calls=" ++ showCalls ((s'.calls.take (s'.calls.length - s.calls.length)).reverse)
        | .pass _ _ | .passC _ _ _ =>
            "pass ord=" ++ showOrd ord ++ " cbs=" ++ showCbs ((s'.cbs.take (s'.cbs.length - s.cbs.length)).reverse) ++ " thr=ok"
        | .setCap _ => "cap"
      let m := match op with
        | .init e _ _ => ["M sys=" ++ showSys (sysDisable s e), "M own=" ++ showOwn s'.os]
        | .enable e => ["M sys=" ++ showSys (sysEnable s e), "M own=" ++ showOwn s'.os]
        | .enableP e => ["M sys=" ++ showSys (sysEnableP s e), "M own=" ++ showOwn s'.os]
        | .disable e | .destroy e => ["M sys=" ++ showSys (sysDisable s e), "M own=" ++ showOwn s'.os]
        | .raise g => ["M wr=" ++ showWr s g [], "M env=" ++ showEnv s g]
        | .raiseW g wf => ["M wr=" ++ showWr s g wf, "M env=" ++ showEnv s g]
        | .pass _ _ | .passC _ _ _ => ["M cs=ok", "M own=" ++ showOwn s'.os]
        | _ => []
      (s', b ++ ["P " ++ body ++ " " ++ showState s'] ++ m)

structure TAcc where
  s : State := init
  tl : List String := []
  tags : List String := []
  err : Option String := none
  merr : Option String := none     -- first mismatch on an `M` line (model-internal observable): the run goes on
  nops : Nat := 0
  lost : Bool := false             -- a loop was destroyed with subscribers: only deliveries are accepted from here on

/-- the oracle of a pass: the `ord=` field of the implementation's next line -/
def ordOfImplLine (l : String) : List Nat :=
  match (words l).find? (fun w => w.startsWith "ord=") with
  | some w => (parseOrd (w.drop 4).toString).getD []
  | none => []

def stepOp (a : TAcc) (line : String) : TAcc :=
  if a.err.isSome then a else
  let a := { a with nops := a.nops + 1 }
  let ord := match a.tl with | l :: _ => (ordOfImplLine l).eraseDups | [] => []
  let w0 := (words line).headD ""
  let (s', outs) := if a.lost && !(w0 == "raise" || w0 == "raisew" || w0 == "burst" || w0 == "blk") then (a.s, ["bad-op"]) else stepLine a.s line ord
  let a := { a with lost := a.lost || (w0 == "lost" && outs != ["bad-op"]) }
  let tags := (outs.filter (·.startsWith "B ")).flatMap fun l => words (l.drop 2).toString
  let want := outs.filter (fun l => !l.startsWith "B ")
  let rec cmp (want tl : List String) (merr : Option String) : Option String × Option String × List String :=
    match want, tl with
    | [], tl => (none, merr, tl)
    | w :: ws, l :: ls =>
      if w == l then cmp ws ls merr
      else if w.startsWith "M " && l.startsWith "M " then
        cmp ws ls (merr.orElse fun _ => some s!"op#{a.nops} [{line.trimAscii}]: impl=[{l}] model=[{w}]")
      else (some s!"op#{a.nops} [{line.trimAscii}]: impl=[{l}] model=[{w}]", merr, ls)
    | w :: _, [] => (some s!"op#{a.nops} [{line.trimAscii}]: impl=<missing> model=[{w}]", merr, [])
  let (err, merr, rest) := cmp want a.tl a.merr
  { a with s := s', tl := rest, tags := a.tags ++ tags, err := err, merr := merr }

structure DS where
  ops : Array String := #[]
  tl : Array String := #[]

def finish (d : DS) : List String :=
  let a : TAcc := d.ops.foldl stepOp ({ tl := d.tl.toList } : TAcc)
  let tagsLine := if a.tags.isEmpty then [] else ["B " ++ " ".intercalate a.tags]
  match a.err with
  | some e => tagsLine ++ ["reject " ++ e]
  | none =>
    match a.merr with
    | some e => tagsLine ++ ["reject M: " ++ e]
    | none =>
    match a.tl with
    | [] => tagsLine ++ [s!"ok ops={a.nops} callbacks={a.s.cbs.length}"]
    | l :: _ => tagsLine ++ ["reject unexpected extra implementation output: [" ++ l ++ "]"]

def stepIn (d : DS) (line : String) : DS × List String :=
  let t := line.trimAscii.toString
  if t.isEmpty then (d, [])
  else if t.startsWith "case " then ({}, [t])
  else if t == "end" then ({}, finish d)
  else if t.startsWith "T " then ({ d with tl := d.tl.push (t.drop 2).toString }, [])
  else ({ d with ops := d.ops.push t }, [])

def main : IO Unit := runDriver ({} : DS) stepIn
