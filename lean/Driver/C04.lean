/- C04 driver (stub until the model exists) -/
def main : IO Unit := pure ()
