/- C05 driver: trace acceptor.  Input per case: op lines, then the implementation's output lines
prefixed "T ", then "end".  Walks ops and implementation lines in lockstep (every op has a fixed
answer shape; deterministic answers — `init`, null tokens, task numbering, `bad-op` — are
predicted from the model's `Cfg.ok` / life-cycle), collects the recorded history and validates
it with `Tbox.C05.Spec.check`.  Prints `ok …` or `reject <reason>`. -/
import TboxModel.Util
import TboxModel.C05.Model
import TboxModel.C05.Spec
import TboxModel.C05.Replay
open Tbox.Util Tbox.C05 Tbox.C05.Spec
open Tbox.C05.Replay (Ev EvK Api)

structure TAcc where
  h : Hist := {}
  tl : List String := []
  configured : Bool := false
  ready : Bool := false         -- initialize() succeeded and cleanup() not yet called
  cleaned : Bool := false
  fin : Bool := false
  err : Option String := none
  nops : Nat := 0
  tags : List String := []
  mn : Nat := 0
  spawns : Nat := 0              -- threads created by execute(), as counted by the harness
  mdiv : List String := []       -- model-internal (policy) divergences: spawn rule, voluntary-exit rule
  destroyed : Bool := false      -- the object was deleted (destructor without a preceding cleanup())
  nest : List (Nat × TaskH) := []  -- tasks submitted by task bodies / callbacks: (raw number - 2048, record)
  evs : Array Ev := #[]            -- step-level events (replayed on the model at `fin`)
  noReplay : Bool := false         -- the event log overflowed
  wt0 : Bool := false              -- WorkThread constructed without a default loop
  okCfg : Bool := false            -- initialize() accepted the configuration (or WorkThread)
  failN : Nat := 0                 -- a `failspawn n` op is pending: the n-th thread creation from now on fails (0 = none)
  bulkDrained : Bool := false      -- a drain / settle succeeded after the bulk submission and before cleanup
  pendX : Option (Nat × Int × Bool × Nat × Bool) := none   -- the execute() just answered: (task, prio, cb, cs, token returned)
  mn0 : Nat := 0                   -- configuration of the FIRST lifecycle (the replay starts from `init` of it)
  max0 : Nat := 1
  life : Nat := 0                  -- lifecycles finished so far on this object (`relife`)
  prevTasks : Nat := 0             -- loop-submitted tasks of the previous lifecycle (stale tokens: `ostat` / `ocancel`)
  ranTot : Nat := 0                -- bodies / callbacks / order pairs of the finished lifecycles
  cbTot : Nat := 0
  pairsTot : Nat := 0
  segMd : List String := []        -- thread-accounting divergences of finished lifecycles
  segOk : Bool := false            -- the initialize() of the CURRENT lifecycle was accepted (WorkThread: true)

def TAcc.ev (a : TAcc) (q thr : Nat) (k : EvK) : TAcc := if q == 0 then a else { a with evs := a.evs.push ⟨q, thr, k⟩ }

def ansToStatus : Ans → Status | .w => .waiting | .e => .executing | .n => .notFound

/-- the completion callback is really delivered: not for a WorkThread without any loop (variants 0, 1 of the
harness pass no loop to execute()) -/
def effCb (a : TAcc) (k : Nat) (cb : Bool) : Bool := cb && !(a.wt0 && k % 4 < 2)

def fail (a : TAcc) (m : String) : TAcc := { a with err := some s!"op#{a.nops} {m}" }

def nextLine (a : TAcc) : Option String × TAcc :=
  match a.tl with
  | l :: rest => (some l, { a with tl := rest })
  | [] => (none, a)

def expectExact (a : TAcc) (want : String) : TAcc :=
  match nextLine a with
  | (some l, a') => if l == want then a' else fail a s!"impl=[{l}] expected=[{want}]"
  | (none, _) => fail a s!"implementation output ends here (crash / timeout); expected [{want}]"

def parseAns (s : String) : Option Ans :=
  if s == "w" then some .w else if s == "e" then some .e else if s == "n" then some .n else none

/-- `P stat k a qb qa` -/
def takeStat (a : TAcc) (l : String) (wantK : Option Nat) : TAcc :=
  match words l with
  | ["P", "stat", k, x, qb, qa, cs] =>
    match k.toNat?, parseAns x, qb.toNat?, qa.toNat?, cs.toNat? with
    | some k, some x, some qb, some qa, some cs =>
      if k ≥ a.h.tasks.size then fail a s!"status line for unknown task [{l}]"
      else if wantK.isSome && wantK != some k then fail a s!"status line for the wrong task [{l}]"
      else
        let tag := "stat-" ++ (match x with | .w => "w" | .e => "e" | .n => "n")
        let a2 : TAcc := { a with h := { a.h with queries := a.h.queries.push { k := k, a := x, qb := qb, qa := qa } }, tags := tag :: a.tags }
        a2.ev cs 0 (.api (.stat k (ansToStatus x)))
    | _, _, _, _, _ => fail a s!"unparsable [{l}]"
  | _ => fail a s!"impl=[{l}] expected a status line"

partial def takeHammer (a : TAcc) : TAcc :=
  match nextLine a with
  | (none, _) => fail a "implementation output ends inside hammer (crash / timeout)"
  | (some l, a') =>
    if l == "P hammer" then a'
    else
      let a2 := takeStat a' l none
      if a2.err.isSome then a2 else takeHammer a2

/-- at `P fin`: the tasks submitted by bodies / callbacks (raw numbers 2048+j) are appended to the task table and
every event that names one of them is renumbered -/
def finalizeNested (a : TAcc) : TAcc :=
  let base := a.h.tasks.size
  let n := a.nest.length
  let sorted := (List.range n).filterMap fun j => (a.nest.find? (·.1 == j)).map (·.2)
  if sorted.length != n then fail a "nested task numbers are not contiguous" else
  let rn (k : Nat) : Nat := if k ≥ 2048 then base + (k - 2048) else k
  let h := a.h
  { a with h := { h with
      tasks := h.tasks ++ sorted.toArray,
      bodies := h.bodies.map fun b => { b with k := rn b.k },
      cbs := h.cbs.map fun c => { c with k := rn c.k },
      queries := h.queries.map fun q => { q with k := rn q.k },
      extra := h.extra.map rn } }

partial def takeEvents (a : TAcc) : TAcc :=
  match nextLine a with
  | (none, _) => fail a "implementation output ends before `P fin` (crash / timeout)"
  | (some l, a') =>
    if l == "P fin" then finalizeNested { a' with fin := true }
    else match words l with
    | ["E", "body", k, thr, s, e] =>
      match k.toNat?, thr.toNat?, s.toNat?, e.toNat? with
      | some k, some thr, some s, some e =>
        takeEvents (({ a' with h := { a'.h with bodies := a'.h.bodies.push { k := k, thr := thr, s := s, e := e } } }).ev s thr (.BS k))
      | _, _, _, _ => fail a s!"unparsable [{l}]"
    | ["E", "cb", k, thr, q] =>
      match k.toNat?, thr.toNat?, q.toNat? with
      | some k, some thr, some q =>
        takeEvents (({ a' with h := { a'.h with cbs := a'.h.cbs.push { k := k, thr := thr, q := q } } }).ev q thr (.CB k))
      | _, _, _ => fail a s!"unparsable [{l}]"
    | ["N", "exec", k, _, thr, prio, cb, qb, qa, cs] =>
      match k.toNat?, intOfString? prio, qb.toNat?, qa.toNat?, cs.toNat?, thr.toNat? with
      | some k, some p, some qb, some qa, some cs, some thr =>
        if k < 2048 then fail a s!"nested task numbered below 2048 [{l}]" else
        let lvl := if a'.h.isPool then levelOf p else 2
        let cbE := effCb a' k (cb == "1")
        let a2 : TAcc := { a' with nest := (k - 2048, { lvl := lvl, cb := cbE, qb := qb, qa := qa }) :: a'.nest,
                                   tags := "nested-exec" :: a'.tags }
        takeEvents (a2.ev cs thr (.api (.exec k (if a'.h.isPool then p else 0) cbE false true)))
      | _, _, _, _, _, _ => fail a s!"unparsable [{l}]"
    | ["N", "execnull", _, _, qb, qa] =>
      match qb.toNat?, qa.toNat? with
      | some qb, some qa => takeEvents { a' with h := { a'.h with nestedNull := (qb, qa) :: a'.h.nestedNull } }
      | _, _ => fail a s!"unparsable [{l}]"
    | ["N", "stat", k, x, thr, qb, qa, cs] =>
      match k.toNat?, parseAns x, qb.toNat?, qa.toNat?, cs.toNat? with
      | some k, some x, some qb, some qa, some cs =>
        let a2 : TAcc := { a' with h := { a'.h with queries := a'.h.queries.push { k := k, a := x, qb := qb, qa := qa } },
                                   tags := (if thr == "0" then "callback-query" else "worker-query") :: a'.tags }
        takeEvents (a2.ev cs (thr.toNat?.getD 0) (.api (.stat k (ansToStatus x))))
      | _, _, _, _, _ => fail a s!"unparsable [{l}]"
    | ["N", "cancel", k, r, thr, qb, qa, cs] =>
      let a' := a'.ev (cs.toNat?.getD 0) (thr.toNat?.getD 0) (.api (.cancel (k.toNat?.getD 0) (r.toNat?.getD 9)))
      match k.toNat?, r.toNat?, qb.toNat?, qa.toNat? with
      | some k, some r, some qb, some qa =>
        let q : Option Query :=
          if r == 0 then some { k := k, a := .w, cancelOk := true, isCancel := true, qb := qb, qa := qa }
          else if r == 1 then some { k := k, a := .n, isCancel := true, qb := qb, qa := qa }
          else if r == 2 then some { k := k, a := .e, isCancel := true, qb := qb, qa := qa }
          else if r == 3 && !a'.h.isPool then some { k := k, a := .n, isCancel := true, qb := qb, qa := qa }
          else none
        match q with
        | some q => takeEvents { a' with h := { a'.h with queries := a'.h.queries.push q },
                                         tags := (if thr == "0" then "callback-cancel" else "worker-cancel") :: a'.tags }
        | none => fail a s!"cancel returned {r} [{l}]"
      | _, _, _, _ => fail a s!"unparsable [{l}]"
    | ["W", i, ws, we] =>
      match i.toNat?, ws.toNat?, we.toNat? with
      | some i, some ws, some we =>
        takeEvents ((({ a' with h := { a'.h with workers := a'.h.workers.push { thr := i, s := ws, e := we } } }).ev ws i .TS).ev we i .TE)
      | _, _, _ => fail a s!"unparsable [{l}]"
    | ["S", "overflow"] => takeEvents { a' with noReplay := true }
    | ["E", "bulk", n, ran] =>
      match n.toNat?, ran.toNat? with
      | some n, some ran =>
        if n != a'.h.bulkN then fail a s!"bulk: {n} tasks recorded, {a'.h.bulkN} accepted"
        else if ran > n then fail a s!"bulk: {ran} executions of {n} accepted tasks: a task body was executed more than once"
        else if a'.bulkDrained && ran != n then fail a s!"bulk: only {ran} of {n} accepted tasks were executed although the pool had drained before cleanup"
        else if a'.h.cleanup.isNone && ran != n && false then a'
        else takeEvents { a' with tags := "bulk" :: a'.tags }
      | _, _ => fail a s!"unparsable [{l}]"
    | ["S", kind, thr, q] =>
      match thr.toNat?, q.toNat? with
      | some thr, some q =>
        let k : Option EvK := if kind == "L" then some .L else if kind == "U" then some .U else if kind == "CW" then some .CW
          else if kind == "CX" then some .CX else if kind == "LL" then some .LL else if kind == "NO" then some .NO
          else if kind == "NA" then some .NA else none
        (match k with
         | some k => takeEvents (a'.ev q thr k)
         | none => fail a s!"unparsable [{l}]")
      | _, _ => fail a s!"unparsable [{l}]"
    | ["S", kind, thr, q, arg] =>
      match thr.toNat?, q.toNat?, arg.toNat? with
      | some thr, some q, some arg =>
        if kind == "J" then takeEvents (a'.ev q thr (.J arg))
        else if kind == "TC" then takeEvents (a'.ev q thr (.TC arg))
        else fail a s!"unparsable [{l}]"
      | _, _, _ => fail a s!"unparsable [{l}]"
    | ["E", "extra", k, _] =>
      takeEvents { a' with h := { a'.h with extra := k.toNat?.getD 0 :: a'.h.extra } }
    | _ => fail a s!"impl=[{l}] expected an event line or `P fin`"

/-- the model's spawn decision for an execute() issued in a quiescent pool -/
def modelSpawns (mn mx thr idle undoN : Nat) : Bool :=
  let s : State := { cfg := { min := mn, max := mx }, undo := List.replicate undoN ⟨0, 0, false⟩, idle := idle,
                     cab := List.range thr, nW := thr }
  decide ((step s (.execute 0 false)).nW > s.nW)

/-- the model's voluntary-exit decision of a worker that comes back to the loop top with an empty queue while
the other `thr - 1` workers are idle -/
def modelExits (mn mx thr : Nat) : Bool :=
  let s : State := { cfg := { min := mn, max := mx }, idle := thr - 1, cab := List.range thr, nW := thr, pc := fun _ => .start }
  match (step s (.enter 0)).pc 0 with
  | .exitVol _ => true
  | _ => false

def mdivAdd (a : TAcc) (m : String) : TAcc := { a with mdiv := a.mdiv ++ [s!"op#{a.nops} {m}"] }

/-- `M spawn <spawned> <quiescent> <threads> <idle> <waiting>` after every exec line -/
def takeSpawn (a : TAcc) : TAcc :=
  match nextLine a with
  | (none, _) => fail a "implementation output ends before the spawn record (crash / timeout)"
  | (some l, a') =>
    match (words l).drop 2 |>.mapM String.toNat? with
    | some [sp, q, thr, idle, un, failed] =>
      if !(l.startsWith "M spawn ") then fail a s!"impl=[{l}] expected a spawn record" else
      let a' := { a' with spawns := a'.spawns + sp, failN := (if failed > 0 then 0 else a'.failN - sp),
                          tags := (if failed > 0 then ["spawn-failed"] else []) ++ a'.tags }
      let a' := match a'.pendX with
        | some (k, p, cb, cs, tok) => { (a'.ev cs 0 (.api (.exec k p cb (failed > 0) tok))) with pendX := none }
        | none => a'
      if failed > 0 then a' else
      if !a'.h.isPool then (if sp != 0 then mdivAdd a' "WorkThread::execute created a thread" else a')
      else if sp > 1 then mdivAdd a' s!"execute created {sp} threads"
      else if q == 1 && a'.ready then
        let want := modelSpawns a'.mn a'.h.max thr idle un
        if want != (sp == 1) then
          mdivAdd a' s!"spawn rule: quiescent pool threads={thr} idle={idle} waiting={un} min={a'.mn} max={a'.h.max}: execute created {sp} thread(s), model {if want then 1 else 0}"
        else { a' with tags := (if sp == 1 then "spawn-checked-1" else "spawn-checked-0") :: a'.tags }
      else a'
    | _ => fail a s!"impl=[{l}] expected a spawn record"

def boundedNat0 (s : String) (hi : Nat) : Option Nat := do
  let n ← s.toNat?
  if n ≤ hi then some n else none

/-- mirrors `parse_script` of the harness; returns the number of actions -/
def scriptOk (w : String) (ntasks : Nat) (allowR : Bool := false) : Bool :=
  if w == "-" then true else
  let items := w.splitOn ","
  items.length ≥ 1 && items.length ≤ 6 && items.all fun it =>
    if it == "S" || it == "C" then true
    else if it == "R1" || it == "R2" || it == "R3" || it == "R4" then allowR
    else match it.toList with
      | 's' :: rest | 'c' :: rest =>
        (match (String.ofList rest).toNat? with | some k => !rest.isEmpty && decide (k < ntasks) | none => false)
      | 'x' :: rest =>
        it.length ≥ 6 &&
        (match (String.ofList rest).splitOn ":" with
         | [p, c, d] =>
           (match intOfString? p with | some p => decide (-100 ≤ p) && decide (p ≤ 100) | none => false) &&
           (c == "0" || c == "1") && (boundedNat0 d 20000).isSome
         | _ => false)
      | _ => false

def boundedNat (s : String) (hi : Nat) : Option Nat := do
  let n ← s.toNat?
  if n ≤ hi then some n else none

/-- a value of the C++ type `ssize_t` (64 bit) -/
def ssizeOf? (s : String) : Option Int := do
  let n ← intOfString? s
  if -9223372036854775808 ≤ n && n ≤ 9223372036854775807 then some n else none

def stepOp1 (a : TAcc) (line : String) : TAcc :=
  if a.err.isSome then a else
  let a := { a with nops := a.nops + 1 }
  let bad := expectExact a "bad-op"
  match words line with
  | ["cfg", kind, mn, mx, seed, pert] =>
    match ssizeOf? mn, ssizeOf? mx, seed.toNat?, boundedNat pert 1000 with
    | some smn, some smx, some _, some _ =>
      if a.configured || a.destroyed || !(kind == "pool" || kind == "wt" || kind == "wt0") || (smn > 64 && smn ≤ smx) then bad else
      let isPool := kind == "pool"
      let ok := if isPool then Cfg.okI smn smx else true
      let mn := smn.toNat
      let mx := smx.toNat
      -- a pending `failspawn n` with n <= min makes initialize() fail: it must roll back (no worker thread left)
      let failsInit := isPool && ok && a.failN != 0 && a.failN ≤ mn
      let ok := ok && !failsInit
      let a1 := match nextLine a with
        | (some l, a') =>
          if l.startsWith "P init threw" then fail a s!"initialize() threw an exception when a worker thread could not be created [{l}]"
          else if l == s!"P init {if ok then 1 else 0} {if ok then (if isPool then mn else 1) else 0}" then a'
          else if !ok && l.startsWith "P init 0 " then fail a s!"initialize() failed and left worker threads running [{l}]"
          else fail a s!"impl=[{l}] expected=[P init {if ok then 1 else 0} …]"
        | (none, _) => fail a "implementation output ends at cfg (crash / timeout)"
      let a1 := { a1 with failN := if failsInit then 0 else a1.failN - (if isPool && ok then mn else 0),
                          tags := (if failsInit then ["init-spawn-failed"] else []) ++ a1.tags }
      { a1 with configured := true, ready := ok, okCfg := ok, segOk := ok, wt0 := kind == "wt0", mn := (if isPool then mn else 1),
                mn0 := (if isPool then mn else 1), max0 := (if isPool then mx else 1),
                h := { a1.h with isPool := isPool, max := if isPool then mx else 1 },
                tags := (if isPool then (if mn == mx then "pool-fixed" else if mn == 0 then "pool-min0" else "pool-elastic") else "workthread") :: a1.tags }
    | _, _, _, _ => bad
  | "exec" :: prio :: cb :: dur :: [] | "execs" :: prio :: cb :: dur :: _ :: _ :: [] =>
    let ws := words line
    let scriptsOk := ws.length == 4 ||
      (scriptOk (ws.getD 4 "") a.h.tasks.size && scriptOk (ws.getD 5 "") a.h.tasks.size (allowR := !a.wt0) && (cb == "1" || ws.getD 5 "" == "-"))
    match intOfString? prio, boundedNat dur 20000 with
    | some p, some _ =>
      if !(cb == "0" || cb == "1") || p < -2147483648 || p > 2147483647 || !a.configured || a.h.tasks.size ≥ 2048 || a.fin || !scriptsOk then bad else
      let a := if ws.length == 6 then { a with tags := "reentrant" :: a.tags } else a
      match nextLine a with
      | (none, _) => fail a "implementation output ends at exec (crash / timeout)"
      | (some l, a') =>
        match words l with
        | ["P", "exec", k, qb, qa, cs] =>
          match qb.toNat?, qa.toNat?, cs.toNat? with
          | some qb, some qa, some cs =>
            if k == "threw" then
              fail a s!"execute() threw an exception at [{qb},{qa}]: the caller got no token (the task may still be queued: lost or run unannounced)"
            else if k == "null" then
              if a.ready && a.failN == 0 then fail a s!"execute returned a null token although the pool is ready"
              else if a.ready then takeSpawn { a' with pendX := some (4095, p, false, cs, false) }
              else takeSpawn a'
            else if !a.ready then fail a s!"execute returned a token [{l}] although the pool is not ready"
            else if k.toNat? != some a.h.tasks.size then fail a s!"unexpected task number [{l}]"
            else
              -- WorkThread has a single queue: every task at the same level
              let lvl := if a.h.isPool then levelOf p else 2
              let kk := a.h.tasks.size
              let cbE := effCb a kk (cb == "1")
              takeSpawn { a' with h := { a'.h with tasks := a'.h.tasks.push { lvl := lvl, cb := cbE, qb := qb, qa := qa } },
                                  pendX := some (kk, (if a.h.isPool then p else 0), cbE, cs, true) }
          | _, _, _ => fail a s!"unparsable [{l}]"
        | _ => fail a s!"impl=[{l}] expected an exec line"
    | _, _ => bad
  | ["stat", k] =>
    match k.toNat? with
    | some k =>
      if !a.configured || k ≥ a.h.tasks.size then bad else
      match nextLine a with
      | (none, _) => fail a "implementation output ends at stat (crash / timeout)"
      | (some l, a') => takeStat a' l (some k)
    | none => bad
  | ["cancel", k] =>
    match k.toNat? with
    | some k =>
      if !a.configured || k ≥ a.h.tasks.size then bad else
      match nextLine a with
      | (none, _) => fail a "implementation output ends at cancel (crash / timeout)"
      | (some l, a') =>
        match words l with
        | ["P", "cancel", k', r, qb, qa, cs] =>
          match k'.toNat?, r.toNat?, qb.toNat?, qa.toNat? with
          | some k', some r, some qb, some qa =>
            if k' != k then fail a s!"cancel line for the wrong task [{l}]" else
            let a' := a'.ev (cs.toNat?.getD 0) 0 (.api (.cancel k r))
            let q : Option Query :=
              if r == 0 then some { k := k, a := .w, cancelOk := true, isCancel := true, qb := qb, qa := qa }
              else if r == 1 then some { k := k, a := .n, isCancel := true, qb := qb, qa := qa }
              else if r == 2 then some { k := k, a := .e, isCancel := true, qb := qb, qa := qa }
              else if r == 3 && !a.h.isPool && a.cleaned then some { k := k, a := .n, isCancel := true, qb := qb, qa := qa }
              else none
            match q with
            | some q => { a' with h := { a'.h with queries := a'.h.queries.push q }, tags := s!"cancel-{r}" :: a'.tags }
            | none => fail a s!"cancel returned {r}"
          | _, _, _, _ => fail a s!"unparsable [{l}]"
        | _ => fail a s!"impl=[{l}] expected a cancel line"
    | none => bad
  | ["relife", mn, mx] =>
    -- initialize() again on the same object after cleanup() has returned: the finished lifecycle is validated as a
    -- history of its own (its records are printed first, like `fin`), the step-level replay continues across it
    match ssizeOf? mn, ssizeOf? mx with
    | some smn, some smx =>
      -- a pending `failspawn k` is admitted only if it hits THIS initialize(): valid arguments and k <= min
      let failsInit := a.failN != 0 && Cfg.okI smn smx && a.failN ≤ smn.toNat
      if !a.configured || !a.h.isPool || !a.cleaned || a.destroyed || a.fin || (a.failN != 0 && !failsInit) || a.h.bulkN != 0 || (smn > 64 && smn ≤ smx) then bad else
      let nLoop := a.h.tasks.size
      let a1 := takeEvents a
      if a1.err.isSome then a1 else
      match check a1.h with
      | .error e => fail a s!"lifecycle {a.life + 1}: {e}"
      | .ok n =>
        let expectW := (if a1.segOk then a1.mn else 0) + a1.spawns
        let md := if a1.nest.isEmpty && !a1.tags.contains "init-spawn-failed" && a1.h.workers.size != expectW then
          [s!"lifecycle {a.life + 1}: thread accounting: {a1.h.workers.size} worker threads were created, expected min + spawns = {expectW}"] else []
        let ok2 := Cfg.okI smn smx
        match nextLine a1 with
        | (none, _) => fail a "implementation output ends at relife (crash / timeout)"
        | (some l, a2) =>
          match words l with
          | ["P", "initf", o, live, qb, ccs, qa] =>
            -- initialize() after cleanup() whose k-th thread creation fails (fix C05-06): it has created k-1 workers, must stop
            -- and join them itself (its own cleanup()) and refuse.  Model: `reinitF` (Life.lean); the replay takes the stand-in
            -- `initialize(k-1, max (k-1) 1)` + cleanup(), exact by `C05_failed_initialize_reduces`
            if !failsInit then fail a s!"impl=[{l}] but no thread creation was scheduled to fail"
            else if o != "0" then fail a s!"initialize({smn}, {smx}) after cleanup() answered {o} although thread creation {a.failN} failed [{l}]"
            else if live != "0" then fail a s!"initialize() failed and left worker threads running [{l}]"
            else
              let k := a.failN - 1
              let a3 := a2.ev (qb.toNat?.getD 0) 0 (.api (.init k (if k == 0 then 1 else k)))
              let a3 := if ccs.toNat?.getD 0 != 0 then (a3.ev (ccs.toNat?.getD 0) 0 (.api .cleanup)).ev (qa.toNat?.getD 0) 0 .cleanupRet else a3
              { a3 with h := { isPool := true, max := smx.toNat }, nest := [], ready := false, segOk := true, cleaned := true, fin := false,
                        spawns := 0, mn := k, failN := 0, life := a.life + 1, prevTasks := nLoop, ranTot := a.ranTot + a1.h.bodies.size,
                        cbTot := a.cbTot + a1.h.cbs.size, pairsTot := a.pairsTot + n, segMd := a.segMd ++ md, bulkDrained := false,
                        pendX := none, tags := "relife-spawn-failed" :: a3.tags }
          | ["P", "init", o, live, qb] =>
            if failsInit then fail a s!"impl=[{l}] expected an initf line" else
            if o != (if ok2 then "1" else "0") then fail a s!"initialize({smn}, {smx}) after cleanup() answered {o}, expected {if ok2 then 1 else 0} [{l}]"
            else if live.toNat? != some (if ok2 then smn.toNat else 0) then
              fail a s!"initialize({smn}, {smx}) after cleanup(): {live} worker threads are alive, expected {if ok2 then smn.toNat else 0} [{l}]"
            else
              let a3 := if ok2 then a2.ev (qb.toNat?.getD 0) 0 (.api (.init smn.toNat smx.toNat)) else a2
              { a3 with h := { isPool := true, max := smx.toNat }, nest := [], ready := ok2, segOk := ok2, cleaned := !ok2, fin := false,
                        spawns := 0, mn := smn.toNat, life := a.life + 1, prevTasks := nLoop, ranTot := a.ranTot + a1.h.bodies.size,
                        cbTot := a.cbTot + a1.h.cbs.size, pairsTot := a.pairsTot + n, segMd := a.segMd ++ md, bulkDrained := false,
                        pendX := none, tags := (if ok2 then "relife" else "relife-refused") :: a3.tags }
          | _ =>
            if l.startsWith "P init threw" then fail a s!"initialize() after cleanup() threw an exception [{l}]"
            else fail a s!"impl=[{l}] expected an init line"
    | _, _ => bad
  | ["reinit", mn, mx] =>
    -- initialize() on a pool that is ready is refused and changes nothing (whatever the arguments)
    match ssizeOf? mn, ssizeOf? mx with
    | some _, some _ => if !a.configured || !a.h.isPool || !a.ready then bad else expectExact { a with tags := "reinit" :: a.tags } "P init 0"
    | _, _ => bad
  | ["bulk", n, prio] =>
    match boundedNat n 200000, intOfString? prio with
    | some n, some p =>
      if n == 0 || p < -2147483648 || p > 2147483647 || !a.configured || a.fin || a.h.bulkN != 0 then bad else
      match nextLine a with
      | (none, _) => fail a "implementation output ends at bulk (crash / timeout)"
      | (some l, a') =>
        match words l with
        | ["P", "bulk", acc, qb, _] =>
          match acc.toNat?, qb.toNat? with
          | some acc, some qb =>
            if acc != (if a.ready then n else 0) then fail a s!"bulk: {acc} of {n} execute() calls returned a token, pool ready = {a.ready}"
            else { a' with noReplay := true, h := { a'.h with bulkN := acc, bulkLvl := (if a.h.isPool then levelOf p else 2), bulkQb := qb + 1 } }
          | _, _ => fail a s!"unparsable [{l}]"
        | _ => fail a s!"impl=[{l}] expected a bulk line"
    | _, _ => bad
  | ["failspawn", n] =>
    match boundedNat n 8 with
    | some n => if n == 0 || (a.configured && !a.h.isPool) || a.destroyed then bad else expectExact { a with failN := n } "P failspawn"
    | none => bad
  | ["holdpick", us] =>
    match boundedNat us 20000 with
    | some n => if n == 0 || !a.configured then bad else expectExact { a with tags := "holdpick" :: a.tags } "P holdpick"
    | none => bad
  | ["ostat", k] | ["ocancel", k] =>
    -- a token of the previous lifecycle of the same object: the task has run, was cancelled or was dropped — the only
    -- answer consistent with that history is not-found / 1 (property level), in every later lifecycle
    let isC := (words line).head! == "ocancel"
    match k.toNat? with
    | some k =>
      if !a.configured || !a.h.isPool || k ≥ a.prevTasks then bad else
      match nextLine a with
      | (none, _) => fail a "implementation output ends at ostat / ocancel (crash / timeout)"
      | (some l, a') =>
        match words l with
        | ["P", o, k', r, _, _, cs] =>
          if o != (if isC then "ocancel" else "ostat") || k'.toNat? != some k then fail a s!"impl=[{l}] expected an {if isC then "ocancel" else "ostat"} line" else
          if !isC && r != "n" then fail a s!"getTaskStatus with the token of task {k} of the PREVIOUS lifecycle answered {r}: a stale token must be NOT FOUND (it aliases a task of the new lifecycle)"
          else if isC && r != "1" then fail a s!"cancel with the token of task {k} of the PREVIOUS lifecycle answered {r}: a stale token must answer 1 (it aliases a task of the new lifecycle)"
          else
            let ev : Api := if isC then .cancel (4096 + k) 1 else .stat (4096 + k) .notFound
            { (a'.ev (if a'.ready then cs.toNat?.getD 0 else 0) 0 (.api ev)) with tags := "stale-token" :: a'.tags }
        | _ => fail a s!"impl=[{l}] expected an ostat / ocancel line"
    | none => bad
  | ["forge", kind, k] =>
    match k.toNat? with
    | some k =>
      let foreign := kind == "wt" || kind == "pool"
      if !a.configured || a.h.bulkN != 0 || (!a.h.isPool && a.cleaned) ||
         !(foreign || kind == "pos" || kind == "posbig" || kind == "idbig" || kind == "idmax" || kind == "null") ||
         (if foreign then k != 0 else k ≥ a.h.tasks.size) then bad else
      match nextLine a with
      | (none, _) => fail a "implementation output ends at forge (crash / timeout)"
      | (some l, a') =>
        match words l with
        | ["P", "forge", st, r, _, _, cs1, cs2] =>
          if st != "n" || r != "1" then
            fail a s!"a token this object never issued (forge {kind}) was answered status={st} cancel={r}: it must be NOT FOUND / 1 (forged, foreign or null tokens must never resolve)"
          else
            let live := a'.ready
            let a2 := a'.ev (if live then cs1.toNat?.getD 0 else 0) 0 (.api (.forged false 2))
            let a3 := a2.ev (if live then cs2.toNat?.getD 0 else 0) 0 (.api (.forged true 1))
            { a3 with tags := (if foreign then "foreign-token" else "forged-token") :: a3.tags }
        | ["P", "forge", "threw", _, _] =>
          fail a s!"a token this object never issued (forge {kind}) made getTaskStatus / cancel throw an exception: forged tokens must be answered NOT FOUND / 1"
        | _ => fail a s!"impl=[{l}] expected a forge line"
    | none => bad
  | ["snap"] =>
    if !a.configured || !a.h.isPool then bad else
    match nextLine a with
    | (none, _) => fail a "implementation output ends at snap (crash / timeout)"
    | (some l, a') =>
      match (words l).drop 2 |>.mapM String.toNat? with
      | some [thr, idle, doing, u0, u1, u2, u3, u4, qb, qa, cs, peak] =>
        if !(l.startsWith "P snap ") then fail a s!"impl=[{l}] expected a snapshot line" else
        let a2 : TAcc := { a' with h := { a'.h with snaps := a'.h.snaps.push { thr := thr, idle := idle, doing := doing, undo := [u0, u1, u2, u3, u4], qb := qb, qa := qa } },
                                   tags := "snap" :: a'.tags }
        a2.ev (if a'.ready then cs else 0) 0 (.api (.snap thr idle doing [u0, u1, u2, u3, u4] peak))
      | _ => fail a s!"impl=[{l}] expected a snapshot line"
  | ["hammer", us] =>
    match boundedNat us 200000 with
    | some _ => if !a.configured then bad else takeHammer a
    | none => bad
  | ["sleep", us] =>
    match boundedNat us 200000 with
    | some _ => expectExact a "P sleep"
    | none => bad
  | ["drain"] =>
    if !a.configured then bad else
    match nextLine a with
    | (some "P drain ok", a') => { a' with bulkDrained := a'.bulkDrained || (a'.h.bulkN != 0 && !a'.cleaned) }
    | (some "P drain timeout", _) => fail a "drain: an accepted, not cancelled task was not executed within the watchdog time (lost wake-up?)"
    | (some l, _) => fail a s!"impl=[{l}] expected a drain line"
    | (none, _) => fail a "implementation output ends at drain (crash / timeout)"
  | ["settle"] =>
    if !a.configured then bad else
    match nextLine a with
    | (some "P settle ok", a') =>
      (match nextLine a' with
       | (none, _) => fail a "implementation output ends at settle (crash / timeout)"
       | (some l, a2) =>
         if l == "M quiet -" then a2 else
         match (words l).drop 2 |>.mapM String.toNat? with
         | some [thr, idle, doing, un, live] =>
           if !(l.startsWith "M quiet ") then fail a s!"impl=[{l}] expected a quiescence record" else
           let a2 := { a2 with tags := "settled" :: a2.tags, bulkDrained := a2.bulkDrained || (a2.h.bulkN != 0 && !a2.cleaned) }
           if a2.cleaned || !a2.ready then a2
           else if doing != 0 || un != 0 then mdivAdd a2 s!"quiescent pool reports doing={doing} waiting={un}"
           else if idle != thr || live != thr then mdivAdd a2 s!"quiescent pool: threads={thr} idle={idle} live worker threads={live}"
           else if thr < a2.mn then mdivAdd a2 s!"voluntary-exit rule: quiescent pool has {thr} workers, fewer than min={a2.mn}"
           else if modelExits a2.mn a2.h.max thr then
             mdivAdd a2 s!"voluntary-exit rule: quiescent pool keeps {thr} idle workers, min={a2.mn}: the model's worker exits"
           else { a2 with tags := "exit-rule-checked" :: a2.tags }
         | _ => fail a s!"impl=[{l}] expected a quiescence record")
    | (some "P settle timeout", _) => fail a "settle: the pool did not become quiescent within the watchdog time (a task is never executed, or a worker never settles)"
    | (some l, _) => fail a s!"impl=[{l}] expected a settle line"
    | (none, _) => fail a "implementation output ends at settle (crash / timeout)"
  | [op] =>
    if op == "fin" then (if a.fin then bad else takeEvents a) else
    if !(op == "cleanup" || op == "destroy") || !a.configured then bad else
    match nextLine a with
    | (none, _) => fail a s!"implementation output ends at {op} (crash / timeout)"
    | (some l, a') =>
      match words l with
      | ["P", o, "ok", qb, qa, live, cs, ccs] =>
        match qb.toNat?, qa.toNat?, live.toNat?, cs.toNat?, ccs.toNat? with
        | some qb, some qa, some live, some cs, some ccs =>
          if o != op then fail a s!"impl=[{l}] expected a {op} line" else
          if live != 0 then fail a s!"{op}: cleanup returned while {live} worker thread(s) had not finished (not joined)" else
          let first := a'.h.cleanup.isNone
          let a' := if ccs != 0 then (a'.ev ccs 0 (.api .cleanup)).ev qa 0 .cleanupRet else a'
          { a' with ready := false, cleaned := true,
                    configured := op == "cleanup", destroyed := a'.destroyed || op == "destroy",
                    h := if first then { a'.h with cleanup := some (qb, qa), cleanupCs := cs } else a'.h,
                    tags := op :: (if first && cs != 0 then ["cleanup-cs"] else []) ++ a'.tags }
        | _, _, _, _, _ => fail a s!"unparsable [{l}]"
      | ["P", "cleanup", "timeout"] => fail a "cleanup() did not return within the watchdog time: a worker is blocked for ever (DEADLOCK)"
      | _ => fail a s!"impl=[{l}] expected a {op} line"
  | _ => bad

/-- `offloop n dur`: the loop is stopped, the main thread submits n tasks with completion callbacks, waits for the
bodies, runs the loop again.  Answer shape = n exec answers, then `P offloop ok`. -/
def stepOp (a : TAcc) (line : String) : TAcc :=
  if a.err.isSome then a else
  match words line with
  | ["offloop", n, dur] =>
    match boundedNat n 64, boundedNat dur 20000 with
    | some n, some _ =>
      if n == 0 || !a.configured || a.h.tasks.size + n ≥ 2048 || a.fin then expectExact { a with nops := a.nops + 1 } "bad-op" else
      let a1 := (List.range n).foldl (fun acc _ => { stepOp1 acc s!"exec 0 1 {dur}" with nops := acc.nops }) { a with nops := a.nops + 1 }
      if a1.err.isSome then a1 else
      (match nextLine a1 with
       | (some "P offloop ok", a2) => { a2 with tags := "offloop" :: a2.tags }
       | (some "P offloop timeout", _) => fail a1 "offloop: tasks submitted while the loop was stopped were not executed within the watchdog time"
       | (some l, _) => fail a1 s!"impl=[{l}] expected an offloop line"
       | (none, _) => fail a1 "implementation output ends inside offloop (crash / timeout)")
    | _, _ => expectExact { a with nops := a.nops + 1 } "bad-op"
  | _ => stepOp1 a line

structure DS where
  ops : Array String := #[]
  tl : Array String := #[]
  crash : String := ""

def finish (d : DS) : List String :=
  let a : TAcc := d.ops.foldl stepOp ({ tl := d.tl.toList } : TAcc)
  let thrs := (a.h.bodies.toList.map (·.thr)).eraseDups.length
  let tags0 := a.tags ++ (if thrs ≥ 2 then ["multi-worker"] else []) ++
    (if a.h.bodies.size > 0 then ["ran"] else []) ++ (if a.h.cbs.size > 0 then ["cb"] else []) ++
    (if a.h.cleanup.isSome && a.h.bodies.size < a.h.tasks.size then ["not-all-ran"] else [])
  match a.err with
  | some e => ["B " ++ " ".intercalate (tags0.eraseDups), "reject " ++ e ++ (if d.crash.isEmpty then "" else " — " ++ d.crash)]
  | none =>
    match a.tl with
    | l :: _ => ["reject unexpected extra implementation output: [" ++ l ++ "]"]
    | [] =>
      if !a.fin then
        ["B " ++ " ".intercalate (("no-fin" :: tags0).eraseDups), s!"ok ops={a.nops} (no history check: case has no `fin`)"]
      else match check a.h with
        | .error e => ["B " ++ " ".intercalate (tags0.eraseDups), "reject " ++ e]
        | .ok n =>
          -- thread accounting: threads created = min (or 1 for WorkThread) + spawns
          let expectW := (if a.h.isPool then (if a.segOk then a.mn else 0) else 1) + a.spawns
          let md := a.mdiv ++ a.segMd ++ (if a.configured && a.nest.isEmpty && a.h.bulkN == 0 && !a.tags.contains "init-spawn-failed" && a.h.workers.size != expectW then
            [s!"thread accounting: {a.h.workers.size} worker threads were created, expected min + spawns = {expectW}"] else [])
          -- step-level replay: the recorded run must be an execution of the model
          let doReplay := a.okCfg && !a.noReplay && !a.evs.isEmpty
          let cfg : Cfg := if doReplay then { min := a.mn0, max := a.max0 } else { min := 0, max := 1 }
          let r := if doReplay then Tbox.C05.Replay.replay cfg a.evs else { s := init cfg }
          let chk := Tbox.C05.Replay.checked cfg r
          let rechecked := chk.isSome
          let fs : State := match chk with | some (_, s) => s | none => r.s
          let complete := doReplay && !r.dead
          let md := md ++ r.md.take 3 ++
            (if doReplay && !rechecked then ["replay: the reconstructed step list is not accepted by `exec`"] else []) ++
            (if complete && fs.ranIds.length != a.ranTot + a.h.bodies.size then
              [s!"replay: the model executed {fs.ranIds.length} task bodies, the run {a.ranTot + a.h.bodies.size}"] else []) ++
            (if complete && a.h.cleanup.isSome && fs.cbs.length != a.cbTot + a.h.cbs.size then
              [s!"replay: the model executed {fs.cbs.length} completion callbacks, the run {a.cbTot + a.h.cbs.size}"] else [])
          let tags := tags0 ++ (if n > 0 then ["order-checked"] else []) ++ (if md.isEmpty then [] else ["m-divergence"]) ++
            (if complete then ["replayed"] else []) ++ (if a.noReplay then ["log-overflow"] else []) ++
            (if r.picks > 0 then ["pick-replayed"] else []) ++ (if r.answers > 0 then ["answer-replayed"] else []) ++
            (if r.spawns > a.mn0 then ["spawn-replayed"] else []) ++ (if r.cabChecks > 0 then ["cabinet-layer-checked"] else []) ++ (if complete && a.life > 0 then ["lifecycles-replayed"] else [])
          match r.perr with
          | some e => md.map (fun m => "mdiv " ++ m) ++ ["B " ++ " ".intercalate (tags.eraseDups), "reject " ++ e]
          | none =>
          md.map (fun m => "mdiv " ++ m) ++
          ["B " ++ " ".intercalate (tags.eraseDups),
           s!"ok ops={a.nops} tasks={a.h.tasks.size} ran={a.h.bodies.size} cbs={a.h.cbs.size} queries={a.h.queries.size} orderpairs={n + a.pairsTot} lifecycles={a.life + 1} steps={r.steps.length} picks={r.picks} answers={r.answers}"]

def stepLine (d : DS) (line : String) : DS × List String :=
  let t := line.trimAscii.toString
  if t.isEmpty then (d, [])
  else if t.startsWith "case " then ({}, [t])
  else if t == "end" then ({}, finish d)
  else if t.startsWith "T " then
    let l := (t.drop 2).toString
    -- `CRASH …` lines are appended by the framework, not by the implementation
    if l.startsWith "CRASH" then ({ d with crash := l }, []) else ({ d with tl := d.tl.push l }, [])
  else ({ d with ops := d.ops.push t }, [])

def main : IO Unit := runDriver ({} : DS) stepLine
