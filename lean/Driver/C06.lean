/- C06 driver: op lines in, observable lines out (same format as props/C06/harness.cpp). -/
import TboxModel.Util
import TboxModel.C06.Model
open Tbox.Util Tbox.C06

/-- generated payload `g<seed>:<len>`: byte i = (seed + 31 i + i / 256) mod 256 -/
def genBytes (seed len : Nat) : List Byte :=
  (List.range len).map fun i => UInt8.ofNat ((seed + 31 * i + i / 256) % 256)

def data? (w : String) : Option (List Byte) :=
  if w.startsWith "g" then
    match (w.drop 1).toString.splitOn ":" with
    | [a, b] => do
        let seed ← a.toNat?
        let len ← b.toNat?
        if seed < 256 ∧ len ≤ 8388608 then some (genBytes seed len) else none
    | _ => none
  else bytesOfHex w

def fnv (bs : List Byte) : UInt32 :=
  bs.foldl (fun h b => (h ^^^ b.toUInt32) * 16777619) 2166136261

def hex32 (v : UInt32) : String :=
  String.ofList ((List.range 8).map fun i => hexDigit ((v.toNat / 16 ^ (7 - i)) % 16))

/-- short byte strings in hex, long ones as `<len>#<fnv1a>` -/
def digest (bs : List Byte) : String :=
  if bs.length ≤ 16 then hexOfBytes bs else toString bs.length ++ "#" ++ hex32 (fnv bs)

def act? (w : String) : Option Act :=
  if w == "en" then some .enable
  else if w == "dis" then some .disable
  else if w == "disc" then some .disconnect
  else if w.startsWith "s:" then (data? (w.drop 2).toString).map .send
  else none

/-- `-` = callback set with an empty script, `none` = callback unset, else comma separated acts -/
def script? (w : String) : Option (Option (List Act)) :=
  if w == "none" then some none
  else if w == "-" then some (some [])
  else ((w.splitOn ",").mapM act?).map some

def wans? (w : String) : Option WAns :=
  if w == "ea" then some .eagain
  else if w == "er" then some .err
  else if w.startsWith "a" then (w.drop 1).toString.toNat?.map .accept
  else none

def rans? (w : String) : Option RAns :=
  if w == "ea" then some .eagain
  else if w == "er" then some .err
  else if w.startsWith "f" then
    match (w.drop 1).toString.toNat? with
    | some d => if d ≤ 2 then some .fill else none
    | none => none
  else if w.startsWith "c" then
    match (w.drop 1).toString.toNat? with
    | some k => if 1 ≤ k ∧ k ≤ 1024 then some (.chunk (k - 1)) else none
    | none => none
  else none

def parseOp (ws : List String) : Option Op :=
  match ws with
  | ["init", e] => do let e ← e.toNat?; if e ≤ 7 then pure (.init e) else none
  | ["initnull"] => some .initNull
  | ["cinit"] => some .cinit
  | ["en"] => some .enable
  | ["dis"] => some .disable
  | ["send", d] => (data? d).map .send
  | ["rcb", t, "none"] => do pure (.setRcb (← t.toNat?) none)
  | ["rcb", t, k, sc] => do
      let t ← t.toNat?; let k ← k.toNat?
      match ← script? sc with
      | none => none
      | some as => pure (.setRcb t (some (k, as)))
  | ["scb", sc] => (script? sc).map .setScb
  | ["zcb", sc] => (script? sc).map .setZcb
  | ["recb", sc] => (script? sc).map .setRecb
  | ["wecb", sc] => (script? sc).map .setWecb
  | ["dcb", sc] => (script? sc).map .setDcb
  | ["disc"] => some .disconnect
  | ["feed", d] => (data? d).map .feed
  | ["peof"] => some .peof
  | "kw" :: l => if l.isEmpty then none else (l.mapM wans?).map .kw
  | "kr" :: l => if l.isEmpty then none else (l.mapM rans?).map .kr
  | ["wmax", k] => k.toNat?.map .wmax
  | ["rmax", k] => k.toNat?.map fun _ => .nop
  | ["shr"] => some .nop
  | ["rd"] => some .rd
  | ["wr"] => some .wr
  | _ => none

/-- user callbacks only: a discard / a dropped send are log lines in the code, visible through `rq` / `wire` -/
def showEv : Ev → Option String
  | .recv p k => some ("R:" ++ digest p ++ ":" ++ toString k)
  | .discard _ => none
  | .sendComplete _ => some "SC"
  | .readZero _ => some "Z"
  | .readError c => some ("RE" ++ toString c)
  | .writeError c => some ("WE" ++ toString c)
  | .disconnected _ _ => some "DC"
  | .sendDrop _ => none

def showSt (s : S) : String :=
  if s.conn ∧ s.expired then "X" else
  match s.st with | .empty => "E" | .inited => "I" | .running => "R"

def b01 (b : Bool) : String := if b then "1" else "0"

def branchTags (s : S) (op : Op) (s' : S) : List String :=
  let evs := (s'.hist.drop s.hist.length)
  let t1 := match op with
    | .send d =>
        if s.hasWr = false ∨ (s.conn ∧ s.expired) then ["send-refused"]
        else if s.st ≠ .running then ["send-before-enable"]
        else if s.sendQ ≠ [] then ["send-append"]
        else (match popW s d.length with
              | (.accept k, _) => if k < d.length then ["send-partial"] else ["send-direct"]
              | (.eagain, _) => ["send-eagain"]
              | (.err, _) => ["send-error-drop"])
    | .enable => if s.st = .inited ∧ s.sendQ ≠ [] then ["enable-with-queued"] else []
    | .rd =>
        if s.readOn ∧ (s.pending ≠ [] ∨ s.eof) then
          (if s'.got.length > s.got.length then
             (if s'.hist.length = s.hist.length then ["rd-below-threshold"] else ["rd-data"]) ++
             (if s.recvQ ≠ [] then ["rd-with-leftover"] else []) ++
             (if s.rq.length - s'.rq.length ≥ 2 then ["rd-multi-chunk"] else []) ++
             (if s'.pending ≠ [] then ["rd-stopped-early"] else [])
           else if s.pending = [] then ["rd-eof"] else ["rd-fault"])
        else ["rd-idle"]
    | .wr =>
        if s.writeArmed then
          (if s.sendQ = [] then ["wr-complete"]
           else if s'.sendQ = [] then ["wr-drained"]
           else if s'.sendQ.length < s.sendQ.length then ["wr-partial"] else ["wr-stalled"])
        else ["wr-idle"]
    | .disconnect => ["disconnect"]
    | _ => []
  let t2 := evs.filterMap fun e => match e with
    | .recv p k => some (if k = 0 then "consume-none" else if k < p.length then "consume-some" else "consume-all")
    | .discard _ => some "discard"
    | .disconnected _ _ => some "disconnected"
    | .sendDrop _ => some "drop"
    | _ => none
  t1 ++ t2 ++ (if s.conn then ["conn"] else [])

def stepLine (s : S) (line : String) : S × List String :=
  let ws := words line
  match ws with
  | [] => (s, [])
  | "case" :: _ => (init, [line.trimAscii.toString])
  | _ =>
    match parseOp ws with
    | none => (s, ["bad-op"])
    | some op =>
      if !op.okIn s then (s, ["bad-op"]) else
      let (s', r) := step s op
      let evs := (s'.hist.drop s.hist.length).filterMap showEv
      let tags := branchTags s op s'
      (s', (if tags.isEmpty then [] else ["B " ++ " ".intercalate tags]) ++
        ["P ret=" ++ b01 r ++ " st=" ++ showSt s' ++ " ev=" ++ (if evs.isEmpty then "-" else ",".intercalate evs) ++
           " wire+=" ++ digest (s'.wire.drop s.wire.length) ++
           " rq=" ++ (if s'.conn ∧ s'.expired then "x" else digest s'.recvQ),
         if s'.conn ∧ s'.expired then "M gone" else
         "M armed=" ++ b01 s'.writeArmed ++ " ron=" ++ b01 s'.readOn ++ " sq=" ++ toString s'.sendQ.length])

def main : IO Unit := runDriver init stepLine
