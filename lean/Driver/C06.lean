/- C06 driver: op lines in, observable lines out (same format as props/C06/harness.cpp). -/
import TboxModel.Util
import TboxModel.C06.Model
import TboxModel.C06.Kernel
import TboxModel.C06.NetModel
open Tbox.Util Tbox.C06

/-- generated payload `g<seed>:<len>`: byte i = (seed + 31 i + i / 256) mod 256 -/
def genBytes (seed len : Nat) : List Byte :=
  (List.range len).map fun i => UInt8.ofNat ((seed + 31 * i + i / 256) % 256)

def data? (w : String) : Option (List Byte) :=
  if w.startsWith "g" then
    match (w.drop 1).toString.splitOn ":" with
    | [a, b] => do
        let seed ← a.toNat?
        let len ← b.toNat?
        if seed < 256 ∧ len ≤ 8388608 then some (genBytes seed len) else none
    | _ => none
  else bytesOfHex w

def fnv (bs : List Byte) : UInt32 :=
  bs.foldl (fun h b => (h ^^^ b.toUInt32) * 16777619) 2166136261

def hex32 (v : UInt32) : String :=
  String.ofList ((List.range 8).map fun i => hexDigit ((v.toNat / 16 ^ (7 - i)) % 16))

/-- short byte strings in hex, long ones as `<len>#<fnv1a>` -/
def digest (bs : List Byte) : String :=
  if bs.length ≤ 16 then hexOfBytes bs else toString bs.length ++ "#" ++ hex32 (fnv bs)

def act? (w : String) : Option Act :=
  if w == "en" then some .enable
  else if w == "dis" then some .disable
  else if w == "disc" then some .disconnect
  else if w.startsWith "s:" then (data? (w.drop 2).toString).map .send
  else none

/-- `-` = callback set with an empty script, `none` = callback unset, else comma separated acts -/
def script? (w : String) : Option (Option (List Act)) :=
  if w == "none" then some none
  else if w == "-" then some (some [])
  else ((w.splitOn ",").mapM act?).map some

/-- errno values the op file may name (`e<n>`); EAGAIN has its own token -/
def errnoOk (n : Nat) : Bool :=
  [4, 5, 12, 28, 32, 104, 105,
   -- EBADF, EFAULT, EFBIG, ENETUNREACH, ENOTCONN, ETIMEDOUT, EHOSTUNREACH, EDQUOT
   9, 14, 27, 101, 107, 110, 113, 122].contains n

def wans? (w : String) : Option WAns :=
  if w == "ea" then some .eagain
  else if w == "er" then some (.err 32)
  else if w.startsWith "e" then
    match (w.drop 1).toString.toNat? with
    | some n => if errnoOk n then some (.err n) else none
    | none => none
  else if w.startsWith "a" then (w.drop 1).toString.toNat?.map .accept
  else none

/-- `s:<answer>` = for the next write of `send()`, `c:<answer>` = for the next write of the
write-ready callback, `<answer>` = for whichever write comes first -/
def went? (w : String) : Option WEnt :=
  if w.startsWith "s:" then (wans? (w.drop 2).toString).map fun a => ⟨some .send, a⟩
  else if w.startsWith "c:" then (wans? (w.drop 2).toString).map fun a => ⟨some .cb, a⟩
  else (wans? w).map fun a => ⟨none, a⟩

def rans? (w : String) : Option RAns :=
  if w == "ea" then some .eagain
  else if w == "ei" then some .eintr
  else if w == "er" then some .err
  else if w.startsWith "f" then
    match (w.drop 1).toString.toNat? with
    | some d => if d ≤ 1025 then some .fill else none
    | none => none
  else if w.startsWith "c" then
    match (w.drop 1).toString.toNat? with
    | some k => if 1 ≤ k ∧ k ≤ 1024 then some (.chunk (k - 1)) else none
    | none => none
  else none

def parseOp (ws : List String) : Option Op :=
  match ws with
  | ["init", e] => do let e ← e.toNat?; if e ≤ 7 then pure (.init e) else none
  | ["initnull"] => some .initNull
  | ["cinit"] => some .cinit
  | ["en"] => some .enable
  | ["dis"] => some .disable
  | ["send", d] => (data? d).map .send
  | ["rcb", t, "none"] => do pure (.setRcb (← t.toNat?) none)
  | ["rcb", t, k, sc] => do
      let t ← t.toNat?; let k ← k.toNat?
      match ← script? sc with
      | none => none
      | some as => pure (.setRcb t (some (k, as)))
  | ["scb", sc] => (script? sc).map .setScb
  | ["zcb", sc] => (script? sc).map .setZcb
  | ["recb", sc] => (script? sc).map .setRecb
  | ["wecb", sc] => (script? sc).map .setWecb
  | ["dcb", sc] => (script? sc).map .setDcb
  | ["disc"] => some .disconnect
  | ["feed", d] => (data? d).map .feed
  | ["peof"] => some .peof
  | "kw" :: l => if l.isEmpty then none else (l.mapM went?).map .kw
  | "kr" :: l => if l.isEmpty then none else (l.mapM rans?).map .kr
  | ["wmax", k] => k.toNat?.map .wmax
  | ["rmax", k] => k.toNat?.map fun _ => .nop
  | ["shr"] => some .nop
  | ["rd"] => some .rd
  | ["wr"] => some .wr
  | ["rw"] => some .rw
  | _ => none

/-- user callbacks only: a discard / a dropped send are log lines in the code, visible through `rq` / `wire` -/
def showEv : Ev → Option String
  | .recv p k => some ("R:" ++ digest p ++ ":" ++ toString k)
  | .discard _ => none
  | .sendComplete _ => some "SC"
  | .readZero _ => some "Z"
  | .readError c => some ("RE" ++ toString c)
  | .writeError c => some ("WE" ++ toString c)
  | .disconnected _ _ => some "DC"
  | .sendDrop _ => none

def showSt (s : S) : String :=
  if s.conn ∧ s.expired then "X" else
  match s.st with | .empty => "E" | .inited => "I" | .running => "R"

def b01 (b : Bool) : String := if b then "1" else "0"

def branchTags (s : S) (op : Op) (s' : S) : List String :=
  let evs := (s'.hist.drop s.hist.length)
  let t1 := match op with
    | .send d =>
        if s.hasWr = false ∨ (s.conn ∧ s.expired) then ["send-refused"]
        else if s.st ≠ .running then ["send-before-enable"]
        else if s.sendQ ≠ [] then ["send-append"]
        else (match popW s .send d.length with
              | (.accept k, _) => if k < d.length then ["send-partial"] else ["send-direct"]
              | (.eagain, _) => ["send-eagain"]
              | (.err c, _) => if transientErr c then ["send-transient-queued"] ++ (if c = 4 then ["send-eintr"] else [])
                               else ["send-error-refused"]) ++
             (if s.wq.any (fun e => e.site == some .cb) ∧ (popAt .send s.wq).isSome then ["send-passes-cb-answer"] else [])
    | .enable => if s.st = .inited ∧ s.sendQ ≠ [] then ["enable-with-queued"] else []
    | .rd =>
        if s.readOn ∧ (s.pending ≠ [] ∨ s.eof) then
          (if s'.got.length > s.got.length then
             (if s'.hist.length = s.hist.length then ["rd-below-threshold"] else ["rd-data"]) ++
             (if s.recvQ ≠ [] then ["rd-with-leftover"] else []) ++
             (if s.rq.length - s'.rq.length ≥ 2 then ["rd-multi-chunk"] else []) ++
             (if s'.pending ≠ [] then ["rd-stopped-early"] else [])
           else if s.pending = [] then ["rd-eof"] else ["rd-fault"]) ++
          (match s.rq with | .eintr :: _ => ["rd-eintr"] | _ => []) ++
          (if s'.got.length > s.got.length ∧ (s.rq.take (s.rq.length - s'.rq.length)).any (· == .eintr) then ["rd-eintr-midstream"] else [])
        else ["rd-idle"]
    | .wr =>
        if s.writeArmed then
          (if s.sendQ = [] then ["wr-complete"]
           else if s'.sendQ = [] then ["wr-drained"]
           else if s'.sendQ.length < s.sendQ.length then ["wr-partial"] else ["wr-stalled"]) ++
          (if s.sendQ = [] then [] else
            (match popW s .cb s.sendQ.length with
             | (.err c, _) => (if transientErr c then ["wr-error-transient"] else ["wr-error-lasting"]) ++ (if c = 4 then ["wr-eintr"] else [])
             | (.eagain, _) => ["wr-eagain"]
             | _ => []) ++
            (if s.wq.any (fun e => e.site == some .send) ∧ (popAt .cb s.wq).isSome then ["wr-passes-send-answer"] else []))
        else ["wr-idle"]
    | .rw =>
        let r := s.readOn ∧ (s.pending ≠ [] ∨ s.eof)
        (if r ∧ s.writeArmed then ["rw-both"] else if r then ["rw-read"] else if s.writeArmed then ["rw-write"] else ["rw-idle"]) ++
        (if r ∧ s.writeArmed ∧ ¬ s'.writeArmed ∧ s'.st ≠ .running then ["rw-write-skipped"] else []) ++
        (if ¬ s.writeArmed ∧ s'.writeArmed then ["rw-armed-in-dispatch"] else [])
    | .disconnect => ["disconnect"]
    | _ => []
  let isPass : Bool := match op with | .rd | .rw => true | _ => false
  let closing : Bool := isPass && s.readOn && s.pending.isEmpty && s.eof && !s.recvQ.isEmpty &&
    (match s.rq with | .eagain :: _ => false | .eintr :: _ => false | .err :: _ => false | _ => true)
  let t1 := t1 ++ (if closing then ["flush-at-close"] else [])
  let t2 := evs.filterMap fun e => match e with
    | .recv p k => some (if k = 0 then "consume-none" else if k < p.length then "consume-some" else "consume-all")
    | .discard _ => some "discard"
    | .disconnected _ _ => some "disconnected"
    | .sendDrop _ => some "drop"
    | _ => none
  t1 ++ t2 ++ (if s.conn then ["conn"] else [])

/-- the end-to-end run is judged against its specification directly: both streams arrive whole, each
side is told about the close once unless it closed actively, dead handles refuse to send -/
def e2eLine (ws : List String) : Option (List String) :=
  match ws with
  | [_, mode, n1, c1, n2, c2, thr, closer, sb] => do
      let n1 ← n1.toNat?; let c1 ← c1.toNat?; let n2 ← n2.toNat?; let c2 ← c2.toNat?
      let thr ← thr.toNat?; let sb ← sb.toNat?
      if mode ≠ "sc" ∧ mode ≠ "ac" then none
      if closer ≠ "c" ∧ closer ≠ "s" ∧ closer ≠ "h" then none
      if c1 = 0 ∨ c2 = 0 ∨ n1 > 16777216 ∨ n2 > 16777216 ∨ (mode = "sc" ∧ sb ≠ 0) ∨ (closer = "s" ∧ thr > 1) then none
      if n1 = 0 ∨ n2 = 0 then none
      let late :=
        if mode = "sc" then
          (if closer = "s" then "sd=10 ssend=0 valid=0 csend2=0"
           else if closer = "c" then "csend=0 svalid=1" else "shut=1 svalid=1 csend2=0")
        else
          (if closer = "s" then "sd=10 ssend=0 sexp=1 cexp=1 csend2=0"
           else if closer = "c" then "cd=10 csend=0 sexp=1 ssend2=0" else "shut=1 sexp=1 ssend2=0 cexp=1 csend2=0")
      pure ["B e2e e2e-" ++ mode ++ "-" ++ closer ++ (if thr > 1 then " e2e-threshold" else "") ++ (if sb > 0 then " e2e-sndbuf" else ""),
            "P e2e c2s=" ++ digest (genBytes 11 n1) ++ " s2c=" ++ digest (genBytes 23 n2) ++
              " sdisc=" ++ (if closer = "s" then "0" else "1") ++ " cdisc=" ++ (if closer = "c" then "0" else "1") ++
              " late=" ++ late,
            "M e2e spres=1 cpres=1"]
  | _ => none

/-! ### the TCP plumbing ("n…" ops): lean/TboxModel/C06/NetModel.lean -/

namespace NetDrv
open Tbox.C06.Net

def nact? (allowed : String) (w : String) : Option Net.Act :=
  if w == "stop" then (if allowed.contains 'p' then some .stop else none)
  else if w == "start" then (if allowed.contains 't' then some .start else none)
  else if w == "disc" then (if allowed.contains 'd' then some .disc else none)
  else if w == "cleanup" then (if allowed.contains 'c' then some .cleanup else none)
  else if w == "shut" then (if allowed.contains 'h' then some .shut else none)
  else if w.startsWith "m:" then
    (if allowed.contains 'm' then
      match bytesOfHex (w.drop 2).toString with
      | some d => if d.length ≤ 64 then some (.more d) else none
      | none => none
     else none)
  else if w.startsWith "s:" then
    (if allowed.contains 's' then
      match bytesOfHex (w.drop 2).toString with
      | some d => if d.length ≤ 64 then some (.send d) else none
      | none => none
     else none)
  else none

def nscript? (allowed : String) (w : String) : Option Net.Script :=
  if w == "-" then some []
  else
    match (w.splitOn ",").mapM (nact? allowed) with
    | some l => if l.length ≤ 3 then some l else none
    | none => none

def which? (w : String) : Option Nat :=
  if w == "conn" then some 0 else if w == "disc" then some 1 else if w == "recv" then some 2
  else if w == "sc" then some 3 else none

def small? (w : String) (max : Nat) : Option Nat := do
  let k ← w.toNat?
  if k < max then some k else none

def data? (w : String) (allowEmpty : Bool) : Option (List UInt8) := do
  let d ← bytesOfHex w
  if d.length ≤ 1024 ∧ (allowEmpty ∨ d ≠ []) then some d else none

def parse (ws : List String) : Option Net.Op :=
  match ws with
  | ["nsinit"] => some .svInit
  | ["nsstart"] => some .svStart
  | ["nsstop"] => some .svStop
  | ["nscleanup"] => some .svCleanup
  | ["nssend", k, d] => do pure (.svSend (← small? k 16) (← data? d true))
  | ["nsdisc", k] => do pure (.svDisc (← small? k 16))
  | ["nsvalid", k] => do pure (.svValid (← small? k 16))
  | ["nsshut", k] => do pure (.svShut (← small? k 16))
  | ["ncshut", i] => do pure (.clShut (← small? i 2))
  | ["nbudget", k] => do pure (.budget (← small? k 9))
  | ["nfault", kind, k] => do
      let k ← small? k 9
      if kind == "socket" then pure (.fault 0 k) else if kind == "accept" then pure (.fault 1 k)
      else if kind == "late" then pure (.fault 2 k) else if kind == "inprog" then pure (.fault 3 k)
      -- connect() answers EINTR although the connection is made: handled like EINPROGRESS (no effect in the model)
      else if kind == "eintr" then pure (.fault 3 k)
      -- accept() answers EAGAIN / ECONNABORTED with the connection still pending: like EMFILE, the next pass tries again
      else if kind == "again" then pure (.fault 1 k) else if kind == "abortkeep" then pure (.fault 1 k)
      -- connect() answers ECONNREFUSED at once; accept() answers ECONNABORTED and the pending connection is gone
      else if kind == "refuse" then pure (.fault 4 k) else if kind == "abort" then pure (.fault 5 k) else none
  | ["nscb", w, sc] => do
      let w ← which? w
      pure (.svScript w (← nscript? (if w = 3 then "pdchm" else "pdschm") sc))
  | ["ncinit", i] => do pure (.clInit (← small? i 2))
  | ["ncstart", i] => do pure (.clStart (← small? i 2))
  | ["ncstop", i] => do pure (.clStop (← small? i 2))
  | ["nccleanup", i] => do pure (.clCleanup (← small? i 2))
  | ["ncrec", i, b] => do pure (.clRec (← small? i 2) ((← small? b 2) = 1))
  | ["ncsend", i, d] => do pure (.clSend (← small? i 2) (← data? d true))
  | ["nccb", i, w, sc] => do
      let w ← which? w
      pure (.clScript (← small? i 2) w (← nscript? (if w = 0 ∨ w = 1 then "ptschm" else "ptchm") sc))
  | ["nkinit", n] => do pure (.knInit (← small? n 6))
  | ["nkstart"] => some .knStart
  | ["nkstop"] => some .knStop
  | ["nkcleanup"] => some .knCleanup
  -- setReconnectDelayCalcFunc: seconds after the 1st, 2nd, … failure ("-": empty table), 1 beyond the table
  | ["nkdelay", tbl] => do
      if tbl == "-" then pure (.knDelay []) else
      let ds ← (tbl.splitOn ",").mapM fun t => do
        let d ← t.toNat?
        if d ≤ 2147483647 then some d else none
      if ds.length ≤ 4 then pure (.knDelay ds) else none
  -- … a delay function that also calls stop() / cleanup() of the connector when it is asked about the k-th failure
  | ["nkdelayact", tbl, k, act] => do
      let ds ← if tbl == "-" then some [] else (tbl.splitOn ",").mapM fun t => do
        let d ← t.toNat?
        if d ≤ 2147483647 then some d else none
      let k ← small? k 6
      if ds.length > 4 ∨ k = 0 then none
      else if act == "stop" then pure (.knDelayAct ds k false) else if act == "cleanup" then pure (.knDelayAct ds k true)
      -- stop() and start() (its connect() refused at once); asked about the 1st failure it would restart for ever
      else if act == "restart" ∧ k ≥ 2 then pure (.knDelayRe ds k) else none
  | ["nkcb", w, sc] => do
      let sc ← nscript? "pc" sc
      if w == "fail" then pure (.knScript 0 sc) else if w == "conn" then pure (.knScript 1 sc) else none
  | ["nrconn"] => some .rawConn
  | ["nrsend", d] => do pure (.rawSend (← data? d false))
  | ["nrclose"] => some .rawClose
  | ["nrhold", b] => do pure (.rawHold ((← small? b 2) = 1))
  | ["nadv", n] => do
      let n ← n.toNat?
      if n ≤ 100000 then pure (.adv n) else none
  | _ => none

def kindStr : Kind → String
  | .connected => "C" | .recv _ => "R" | .sendComplete => "S" | .disconnected => "D"

/-- canonical form of the callbacks of one connection in one op: C? R<all bytes>? S? D?, and
"!order" if connected was not first / disconnected not last / either came twice -/
def showKinds (ks : List Kind) : String :=
  let nc := (ks.filter (· == .connected)).length
  let nd := (ks.filter (· == .disconnected)).length
  let ns := (ks.filter (· == .sendComplete)).length
  let rs := ks.filterMap fun k => match k with | .recv d => some d | _ => none
  let bad := nc > 1 || nd > 1 || (nc == 1 && ks.head? != some .connected) || (nd == 1 && ks.getLast? != some .disconnected)
  let parts := (if nc > 0 then ["C"] else []) ++ (if rs.isEmpty then [] else ["R" ++ digest rs.flatten]) ++
    (if ns > 0 then ["S"] else []) ++ (if nd > 0 then ["D"] else []) ++ (if bad then ["!order"] else [])
  if parts.isEmpty then "-" else ",".intercalate parts

def svNum : SvSt → Nat | .none => 0 | .inited => 1 | .running => 2
def clNum : ClSt → Nat | .none => 0 | .inited => 1 | .connecting => 2 | .connected => 3
def knNum : KnSt → Nat | .none => 0 | .inited => 1 | .delay => 2 | .connecting => 3

def report (n n' : N) (r : Bool) : String :=
  let evs := n'.hist.drop n.hist.length
  let toks := (evs.filterMap fun e => match e with | .sv t _ => some t | _ => none).eraseDups.mergeSort (· ≤ ·)
  let svPart := toks.map fun t =>
    " t" ++ toString t ++ "=" ++ showKinds (evs.filterMap fun e => match e with | .sv t' k => if t' = t then some k else none | _ => none)
  let clPart := [0, 1].map fun i =>
    let mine := evs.filterMap fun e => match e with | .cl i' l k => if i' = i then some (l, k) else none | _ => none
    let ls := (mine.map (·.1)).eraseDups
    let groups := ls.map fun l => showKinds (mine.filterMap fun (l', k) => if l' = l then some k else none)
    -- getReceiveBuffer(): null unless connected; at rest the receive buffer is empty (the callbacks take everything)
    " C" ++ toString i ++ ":" ++ toString (clNum (n'.client i).st) ++ (if (n'.client i).st = .connected then "b0" else "") ++
      "=" ++ (if groups.isEmpty then "-" else "|".intercalate groups)
  let knEv := evs.filterMap fun e => match e with | .knConnected => some "C" | .knFailed => some "F" | _ => none
  "P ret=" ++ b01 r ++ " S" ++ toString (svNum n'.sv.st) ++ String.join svPart ++ String.join clPart ++
    " K" ++ toString (knNum n'.kn.st) ++ "=" ++ (if knEv.isEmpty then "-" else ",".intercalate knEv) ++
    " raw=" ++ digest n'.rawGot ++ (if n'.rawEof then "|eof" else "")

/-- a token that was freed is used while a connection accepted after it is live (the cabinet hands freed slots out again) -/
def staleNewer (n : N) (t : Nat) : List String :=
  if t < n.sv.issued && n.sv.table.any (fun e => e.1 > t) then ["net-stale-after-newer"] else []

def tags (n n' : N) (op : Net.Op) : List String :=
  let evs := n'.hist.drop n.hist.length
  let has (p : Net.Ev → Bool) := evs.any p
  (match op with
    | .svStop => if n.sv.table.length ≥ 1 then ["net-svstop-live"] else []
    | .svCleanup => if n.sv.table.length ≥ 1 ∨ n.backlog ≠ [] then ["net-svcleanup-live"] else []
    | .svSend t _ => if (svLookup n t).isNone then ["net-stale-token"] ++ staleNewer n t else []
    | .svDisc t => if (svLookup n t).isNone then ["net-stale-token"] ++ staleNewer n t else ["net-svdisc"]
    | .svValid t => if (svLookup n t).isNone then staleNewer n t else []
    | .svShut t => if (svLookup n t).isNone then staleNewer n t else []
    | .knDelay tbl => if tbl.isEmpty then [] else ["net-kndelay-set"] ++ (if n.kn.st == .delay then ["net-kndelay-set-in-delay"] else [])
    | .clStop i => ["net-clstop-" ++ toString (clNum (n.client i).st)]
    | .clSend i _ => if (n.client i).st ≠ .connected then ["net-clsend-unconnected"] else []
    | .adv _ => if (dueTimers { n with now := n'.now }).length ≥ 1 then ["net-retry-timer"] else []
    | .knStop => ["net-knstop-" ++ toString (knNum n.kn.st)]
    | _ => []) ++
  (if has (fun e => match e with | .sv _ .disconnected => true | _ => false) then ["net-sv-disconnected"] else []) ++
  (if has (fun e => match e with | .cl _ _ .disconnected => true | _ => false) then ["net-cl-disconnected"] else []) ++
  (if has (fun e => e == .svStop) && (match op with | .svStop => false | .svCleanup => false | _ => true) then ["net-stop-in-callback"] else []) ++
  (if has (fun e => match e with | .clStart _ => true | _ => false) && (match op with | .clStart _ => false | _ => true) then ["net-reconnect"] else []) ++
  (if has (fun e => e == .knFailed) then ["net-connect-failed"] else []) ++
  -- a connect that the kernel had completed (AF_UNIX: at once) was given up by stop() before the write event was served
  (if (List.range (n'.links.length - n.links.length)).any (fun j =>
        let l := n.links.length + j
        match (n'.link l).who with
        | .cl i => !(n'.link l).cOpen && !evs.contains (.cl i l .connected)
        | _ => false) then ["net-stop-while-established"] else []) ++
  (if [0, 1].any (fun i => (evs.filter fun e => match e with | .cl j _ .connected => j == i | _ => false).length ≥ 2) then ["net-reconnect-twice-in-op"] else []) ++
  -- the listener was closed with a connection in its backlog whose connector had not served its write event yet: ECONNRESET
  (if (List.range n'.links.length).any (fun l => (n'.link l).rst && !(n'.link l).cOpen && l ≥ n.links.length &&
        !evs.any (fun e => match e with | .cl _ l' .connected => l' == l | _ => false) &&
        (match (n'.link l).who with | .raw => false | _ => true)) then ["net-backlog-reset"] else []) ++
  -- retries of the bare connector with a user delay table: armed with a custom delay / with delay 0 (fires in the next pass)
  (let base := match op with | .knStart => 0 | _ => n.kn.fails
   (if n'.kn.delays ≠ [] ∧ n'.kn.fails > base ∧ n'.kn.st == .delay then ["net-kndelay-armed"] else []) ++
   (match n.kn.dAct with
    | some (k, cl) =>
        let quietOp := !has (fun e => e == .knFailed || e == .knConnected) && (match op with | .knCleanup => false | .knStop => false | _ => true)
        if !cl && n.kn.dRe && (evs.filter (· == .knStart)).length > (match op with | .knStart => 1 | _ => 0) && n'.kn.st == .delay then ["net-delayfunc-restart"]
        else if !cl && quietOp && n'.kn.fails == k && k > base && n'.kn.st == .inited then ["net-delayfunc-stop"]
        else if cl && quietOp && n.kn.st != .none && n'.kn.st == .none then ["net-delayfunc-cleanup"] else []
    | none => []) ++
   (if (List.range n'.kn.fails).any (fun j => j + 1 > base && n'.kn.delayOf (j + 1) == 0) then ["net-retry-zero-delay"] else [])) ++
  (if n'.sockFail < n.sockFail then ["net-socket-fail"] else []) ++
  (if n'.acceptFail < n.acceptFail then ["net-accept-fail"] else []) ++
  (if n'.lateFail < n.lateFail then ["net-late-fail"] else []) ++
  (if n'.connFail < n.connFail then ["net-connect-refused"] else []) ++
  (if n'.acceptAbort < n.acceptAbort then ["net-accept-aborted"] else []) ++
  (if n'.budget < n.budget then ["net-send-more"] else []) ++
  (if (n'.links.zip n.links).any (fun (a, b) => (a.cShut && !b.cShut) || (a.sShut && !b.sShut)) then ["net-shutdown"] else []) ++
  (if (n.sv.st != .none && n'.sv.st == .none && (match op with | .svCleanup => false | _ => true)) ||
      ([0, 1].any fun i => (n.client i).st != .none && (n'.client i).st == .none && (match op with | .clCleanup _ => false | _ => true)) ||
      (n.kn.st != .none && n'.kn.st == .none && (match op with | .knCleanup => false | _ => true))
   then ["net-cleanup-in-callback"] else []) ++
  ["net"]

def stepLine (n : N) (ws : List String) : N × List String :=
  -- a previous op never came to rest (callback scripts feeding each other): nothing more is compared
  if !n.quiet then (n, ["P livelock"]) else
  match parse ws with
  | none => (n, ["bad-op"])
  | some op =>
    if !op.okIn n then (n, ["bad-op"]) else
    let r := (Net.step {} n op).2
    let n' := Net.stepQ {} n op
    if !n'.quiet then (n', ["B net-not-quiescent", "P livelock"]) else
    ({ n' with rawGot := [] }, ["B " ++ " ".intercalate (tags n n' op), report n n' r])

end NetDrv

open Tbox.C06.Kern in
def showSys : Sys → String
  | .nonblock => "nonblock"
  | .linger on secs => "linger:" ++ b01 on ++ ":" ++ toString secs
  | .shutdown how => "shutdown:" ++ toString how
  | .close => "close"

def showEnd : Kern.PeerEnd → String
  | .open => "open" | .eof => "eof" | .reset => "reset"

/-- the interposed harness runs on an AF_UNIX socket pair -/
def unixCfg : Kern.Cfg := { inet := false }

/-- the AF_INET scenario (`tcp …`) as an execution of the kernel-queue model: every payload queued in
the connected callback, natural kernel answers, active close at send-complete (from inside the
callback or from the main flow), the deferred tasks, then the peer reads to the end -/
def tcpLine (ws : List String) : Option (List String) :=
  match ws with
  | [_, closer, how, rb, ch, sizes] => do
      if closer ≠ "sd" ∧ closer ≠ "ss" ∧ closer ≠ "cs" then none
      -- `opuS`: the `opu` run judged against the property itself (every byte, then EOF) instead of the code as it is
      if how ≠ "cb" ∧ how ≠ "op" ∧ how ≠ "opu" ∧ how ≠ "opuS" then none
      let rb ← rb.toNat?; let ch ← ch.toNat?
      if rb < 1024 ∨ rb > 1048576 ∨ ch < 256 ∨ ch > 1048576 then none
      let parts ← (sizes.splitOn ",").mapM fun t =>
        match t.splitOn ":" with
        | [a, b] => do
            let a ← a.toNat?; let b ← b.toNat?
            if a < 256 ∧ b ≠ 0 ∧ b ≤ 8388608 then some (a, b) else none
        | _ => none
      let total := (parts.map (·.2)).foldl (· + ·) 0
      if parts.length > 16 ∨ total > 33554432 then none
      let script : List Act := if how = "cb" then [.disconnect] else []
      let ops : List Kern.KOp :=
        [.user .cinit 0, .user (.setScb (some script)) 0] ++ parts.map (fun (a, b) => .user (.send (genBytes a b)) 0) ++
        [.user .wr 0] ++ (if how = "opu" then [.user (.feed (List.replicate 100 0x5a)) 0] else []) ++
        (if how = "cb" then [] else [.user .disconnect 0]) ++ [.deferred 0, .peerRead total, .peerRead 0]
      let k := Kern.krun {} Kern.kinit ops
      let sc := (k.u.hist.filter fun e => match e with | .sendComplete _ => true | _ => false).length
      let dc := (k.u.hist.filter fun e => match e with | .disconnected _ _ => true | _ => false).length
      -- the library side's own calls on the connection: the harness's descriptor was made non-blocking by accept4/socket flags
      let sys := (k.sys.filter fun c => c != .nonblock).map showSys
      pure ["B tcp tcp-" ++ closer ++ "-" ++ how ++ (if total ≥ 2097152 then " tcp-2MiB" else "") ++ (if k.unreadAtClose then " close-unread" else ""),
            "P tcp got=" ++ (if how = "opu" then "*" else digest k.peerGot) ++ " end=" ++ showEnd k.peerEnd ++ " sc=" ++ toString sc ++ " disc=" ++ toString dc,
            "M tcp sys=" ++ (if sys.isEmpty then "-" else ",".intercalate sys)]
  | _ => none

/-- driver state of the single-object ops: the kernel-queue model over Model.lean, and whether the op
file asked `write(2)` to accept bytes after shutdown(SHUT_WR) (not an execution of the kernel: nothing
more is compared in the case) -/
structure DS where
  k : Kern.K := {}
  refused : Bool := false

def mLine (k k' : Kern.K) : String :=
  let sys := (k'.sys.drop k.sys.length).map showSys
  let sysS := " sys=" ++ (if sys.isEmpty then "-" else ",".intercalate sys)
  let s' := k'.u
  if s'.conn ∧ s'.expired then "M gone" ++ sysS else
  "M armed=" ++ b01 s'.writeArmed ++ " ron=" ++ b01 s'.readOn ++ " sq=" ++ toString s'.sendQ.length ++ sysS

def stepLine (ds : DS) (line : String) : DS × List String :=
  let ws := words line
  let k := ds.k
  let s := k.u
  match ws with
  | [] => (ds, [])
  | "e2e" :: _ => (ds, (e2eLine ws).getD ["bad-op"])
  | "tcp" :: _ => (ds, (tcpLine ws).getD ["bad-op"])
  | _ =>
    if ds.refused then (ds, ["P kernel-refuses"]) else
    match ws with
    | ["pread", n] =>
        match n.toNat? with
        | some (n + 1) =>
            let k' := Kern.kstep unixCfg k (.peerRead n)
            ({ ds with k := k' }, ["B " ++ (if k'.peerEnd != k.peerEnd then "pread-end-" ++ showEnd k'.peerEnd else if k'.peerGot.length > k.peerGot.length then "pread-data" else "pread-idle") ++
                                     (if k'.kq ≠ [] then " pread-left" else ""),
                                   "P pread got=" ++ digest (k'.peerGot.drop k.peerGot.length) ++ " end=" ++ showEnd k'.peerEnd])
        | _ => (ds, ["bad-op"])
    | ["shut"] =>
        if !s.conn then (ds, ["bad-op"]) else
        let k' := Kern.kstep unixCfg k .shutWr
        let r := s.conn && !s.expired
        ({ ds with k := k' }, ["B shut" ++ (if k.kq ≠ [] then " shut-with-queue" else ""),
          "P ret=" ++ b01 r ++ " st=" ++ showSt s ++ " ev=- wire+=- rq=" ++ (if s.conn ∧ s.expired then "x" else digest s.recvQ), mLine k k'])
    | ["defer"] =>
        let k' := Kern.kstep unixCfg k (.deferred 0)
        ({ ds with k := k' }, ["B defer" ++ (if k'.closed && !k.closed then " close" ++ (if k.kq ≠ [] then " close-with-queue" else "") ++ (if k'.aborted then " close-unread" else "") else ""),
          "P ret=1 st=" ++ showSt s ++ " ev=- wire+=- rq=" ++ (if s.conn ∧ s.expired then "x" else digest s.recvQ), mLine k k'])
    | _ =>
    match parseOp ws with
    | none => (ds, ["bad-op"])
    | some op =>
      if !op.okIn s then (ds, ["bad-op"]) else
      -- a peer write to a closed descriptor fails: not an operation of the model
      if k.closed && (match op with | .feed _ => true | _ => false) then (ds, ["bad-op"]) else
      let ur := Kern.userStepR unixCfg k op 0
      if ur.refused then ({ ds with refused := true }, ["B kernel-refuses", "P kernel-refuses"]) else
      let k' := ur.k
      let s' := k'.u
      let r := ur.ret
      let evs := (s'.hist.drop s.hist.length).filterMap showEv
      let tags := branchTags s op s' ++
        (if k'.closed && !k.closed then ["close"] ++ (if k'.kq ≠ [] then ["close-with-queue"] else []) ++ (if k'.aborted then ["close-unread"] else []) else [])
      ({ ds with k := k' }, (if tags.isEmpty then [] else ["B " ++ " ".intercalate tags]) ++
        ["P ret=" ++ b01 r ++ " st=" ++ showSt s' ++ " ev=" ++ (if evs.isEmpty then "-" else ",".intercalate evs) ++
           " wire+=" ++ digest ur.delta ++
           " rq=" ++ (if s'.conn ∧ s'.expired then "x" else digest s'.recvQ),
         mLine k k'])

def isNetOp (w : String) : Bool :=
  w.length ≥ 2 ∧ w.startsWith "n" ∧ "sckrabf".contains (w.toList.getD 1 ' ')

def stepBoth (st : DS × Net.N) (line : String) : (DS × Net.N) × List String :=
  match words line with
  | "case" :: _ => (({}, Net.init), [line.trimAscii.toString])
  | w :: ws =>
      if isNetOp w then
        let r := NetDrv.stepLine st.2 (w :: ws)
        ((st.1, r.1), r.2)
      else
        let r := stepLine st.1 line
        ((r.1, st.2), r.2)
  | [] => (st, [])

def main : IO Unit := runDriver (({} : DS), Net.init) stepBoth
