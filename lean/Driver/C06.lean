/- C06 driver: op lines in, observable lines out (same format as props/C06/harness.cpp). -/
import TboxModel.Util
import TboxModel.C06.Model
open Tbox.Util Tbox.C06

/-- generated payload `g<seed>:<len>`: byte i = (seed + 31 i + i / 256) mod 256 -/
def genBytes (seed len : Nat) : List Byte :=
  (List.range len).map fun i => UInt8.ofNat ((seed + 31 * i + i / 256) % 256)

def data? (w : String) : Option (List Byte) :=
  if w.startsWith "g" then
    match (w.drop 1).toString.splitOn ":" with
    | [a, b] => do
        let seed ← a.toNat?
        let len ← b.toNat?
        if seed < 256 ∧ len ≤ 8388608 then some (genBytes seed len) else none
    | _ => none
  else bytesOfHex w

def fnv (bs : List Byte) : UInt32 :=
  bs.foldl (fun h b => (h ^^^ b.toUInt32) * 16777619) 2166136261

def hex32 (v : UInt32) : String :=
  String.ofList ((List.range 8).map fun i => hexDigit ((v.toNat / 16 ^ (7 - i)) % 16))

/-- short byte strings in hex, long ones as `<len>#<fnv1a>` -/
def digest (bs : List Byte) : String :=
  if bs.length ≤ 16 then hexOfBytes bs else toString bs.length ++ "#" ++ hex32 (fnv bs)

def act? (w : String) : Option Act :=
  if w == "en" then some .enable
  else if w == "dis" then some .disable
  else if w == "disc" then some .disconnect
  else if w.startsWith "s:" then (data? (w.drop 2).toString).map .send
  else none

/-- `-` = callback set with an empty script, `none` = callback unset, else comma separated acts -/
def script? (w : String) : Option (Option (List Act)) :=
  if w == "none" then some none
  else if w == "-" then some (some [])
  else ((w.splitOn ",").mapM act?).map some

def wans? (w : String) : Option WAns :=
  if w == "ea" then some .eagain
  else if w == "er" then some .err
  else if w.startsWith "a" then (w.drop 1).toString.toNat?.map .accept
  else none

def rans? (w : String) : Option RAns :=
  if w == "ea" then some .eagain
  else if w == "er" then some .err
  else if w.startsWith "f" then
    match (w.drop 1).toString.toNat? with
    | some d => if d ≤ 2 then some .fill else none
    | none => none
  else if w.startsWith "c" then
    match (w.drop 1).toString.toNat? with
    | some k => if 1 ≤ k ∧ k ≤ 1024 then some (.chunk (k - 1)) else none
    | none => none
  else none

def parseOp (ws : List String) : Option Op :=
  match ws with
  | ["init", e] => do let e ← e.toNat?; if e ≤ 7 then pure (.init e) else none
  | ["initnull"] => some .initNull
  | ["cinit"] => some .cinit
  | ["en"] => some .enable
  | ["dis"] => some .disable
  | ["send", d] => (data? d).map .send
  | ["rcb", t, "none"] => do pure (.setRcb (← t.toNat?) none)
  | ["rcb", t, k, sc] => do
      let t ← t.toNat?; let k ← k.toNat?
      match ← script? sc with
      | none => none
      | some as => pure (.setRcb t (some (k, as)))
  | ["scb", sc] => (script? sc).map .setScb
  | ["zcb", sc] => (script? sc).map .setZcb
  | ["recb", sc] => (script? sc).map .setRecb
  | ["wecb", sc] => (script? sc).map .setWecb
  | ["dcb", sc] => (script? sc).map .setDcb
  | ["disc"] => some .disconnect
  | ["feed", d] => (data? d).map .feed
  | ["peof"] => some .peof
  | "kw" :: l => if l.isEmpty then none else (l.mapM wans?).map .kw
  | "kr" :: l => if l.isEmpty then none else (l.mapM rans?).map .kr
  | ["wmax", k] => k.toNat?.map .wmax
  | ["rmax", k] => k.toNat?.map fun _ => .nop
  | ["shr"] => some .nop
  | ["rd"] => some .rd
  | ["wr"] => some .wr
  | ["rw"] => some .rw
  | _ => none

/-- user callbacks only: a discard / a dropped send are log lines in the code, visible through `rq` / `wire` -/
def showEv : Ev → Option String
  | .recv p k => some ("R:" ++ digest p ++ ":" ++ toString k)
  | .discard _ => none
  | .sendComplete _ => some "SC"
  | .readZero _ => some "Z"
  | .readError c => some ("RE" ++ toString c)
  | .writeError c => some ("WE" ++ toString c)
  | .disconnected _ _ => some "DC"
  | .sendDrop _ => none

def showSt (s : S) : String :=
  if s.conn ∧ s.expired then "X" else
  match s.st with | .empty => "E" | .inited => "I" | .running => "R"

def b01 (b : Bool) : String := if b then "1" else "0"

def branchTags (s : S) (op : Op) (s' : S) : List String :=
  let evs := (s'.hist.drop s.hist.length)
  let t1 := match op with
    | .send d =>
        if s.hasWr = false ∨ (s.conn ∧ s.expired) then ["send-refused"]
        else if s.st ≠ .running then ["send-before-enable"]
        else if s.sendQ ≠ [] then ["send-append"]
        else (match popW s d.length with
              | (.accept k, _) => if k < d.length then ["send-partial"] else ["send-direct"]
              | (.eagain, _) => ["send-eagain"]
              | (.err, _) => ["send-error-drop"])
    | .enable => if s.st = .inited ∧ s.sendQ ≠ [] then ["enable-with-queued"] else []
    | .rd =>
        if s.readOn ∧ (s.pending ≠ [] ∨ s.eof) then
          (if s'.got.length > s.got.length then
             (if s'.hist.length = s.hist.length then ["rd-below-threshold"] else ["rd-data"]) ++
             (if s.recvQ ≠ [] then ["rd-with-leftover"] else []) ++
             (if s.rq.length - s'.rq.length ≥ 2 then ["rd-multi-chunk"] else []) ++
             (if s'.pending ≠ [] then ["rd-stopped-early"] else [])
           else if s.pending = [] then ["rd-eof"] else ["rd-fault"])
        else ["rd-idle"]
    | .wr =>
        if s.writeArmed then
          (if s.sendQ = [] then ["wr-complete"]
           else if s'.sendQ = [] then ["wr-drained"]
           else if s'.sendQ.length < s.sendQ.length then ["wr-partial"] else ["wr-stalled"])
        else ["wr-idle"]
    | .rw =>
        let r := s.readOn ∧ (s.pending ≠ [] ∨ s.eof)
        (if r ∧ s.writeArmed then ["rw-both"] else if r then ["rw-read"] else if s.writeArmed then ["rw-write"] else ["rw-idle"]) ++
        (if r ∧ s.writeArmed ∧ ¬ s'.writeArmed ∧ s'.st ≠ .running then ["rw-write-skipped"] else []) ++
        (if ¬ s.writeArmed ∧ s'.writeArmed then ["rw-armed-in-dispatch"] else [])
    | .disconnect => ["disconnect"]
    | _ => []
  let isPass : Bool := match op with | .rd | .rw => true | _ => false
  let closing : Bool := isPass && s.readOn && s.pending.isEmpty && s.eof && !s.recvQ.isEmpty &&
    (match s.rq with | .eagain :: _ => false | .err :: _ => false | _ => true)
  let t1 := t1 ++ (if closing then ["flush-at-close"] else [])
  let t2 := evs.filterMap fun e => match e with
    | .recv p k => some (if k = 0 then "consume-none" else if k < p.length then "consume-some" else "consume-all")
    | .discard _ => some "discard"
    | .disconnected _ _ => some "disconnected"
    | .sendDrop _ => some "drop"
    | _ => none
  t1 ++ t2 ++ (if s.conn then ["conn"] else [])

/-- the end-to-end run is judged against its specification directly: both streams arrive whole, each
side is told about the close once unless it closed actively, dead handles refuse to send -/
def e2eLine (ws : List String) : Option (List String) :=
  match ws with
  | [_, mode, n1, c1, n2, c2, thr, closer, sb] => do
      let n1 ← n1.toNat?; let c1 ← c1.toNat?; let n2 ← n2.toNat?; let c2 ← c2.toNat?
      let thr ← thr.toNat?; let sb ← sb.toNat?
      if mode ≠ "sc" ∧ mode ≠ "ac" then none
      if closer ≠ "c" ∧ closer ≠ "s" ∧ closer ≠ "h" then none
      if c1 = 0 ∨ c2 = 0 ∨ n1 > 16777216 ∨ n2 > 16777216 ∨ (mode = "sc" ∧ sb ≠ 0) ∨ (closer = "s" ∧ thr > 1) then none
      if n1 = 0 ∨ n2 = 0 then none
      let late :=
        if mode = "sc" then
          (if closer = "s" then "sd=10 ssend=0 valid=0 csend2=0"
           else if closer = "c" then "csend=0 svalid=1" else "shut=1 svalid=1 csend2=0")
        else
          (if closer = "s" then "sd=10 ssend=0 sexp=1 cexp=1 csend2=0"
           else if closer = "c" then "cd=10 csend=0 sexp=1 ssend2=0" else "shut=1 sexp=1 ssend2=0 cexp=1 csend2=0")
      pure ["B e2e e2e-" ++ mode ++ "-" ++ closer ++ (if thr > 1 then " e2e-threshold" else "") ++ (if sb > 0 then " e2e-sndbuf" else ""),
            "P e2e c2s=" ++ digest (genBytes 11 n1) ++ " s2c=" ++ digest (genBytes 23 n2) ++
              " sdisc=" ++ (if closer = "s" then "0" else "1") ++ " cdisc=" ++ (if closer = "c" then "0" else "1") ++
              " late=" ++ late,
            "M e2e spres=1 cpres=1"]
  | _ => none

def stepLine (s : S) (line : String) : S × List String :=
  let ws := words line
  match ws with
  | [] => (s, [])
  | "case" :: _ => (init, [line.trimAscii.toString])
  | "e2e" :: _ => (s, (e2eLine ws).getD ["bad-op"])
  | _ =>
    match parseOp ws with
    | none => (s, ["bad-op"])
    | some op =>
      if !op.okIn s then (s, ["bad-op"]) else
      let (s', r) := step s op
      let evs := (s'.hist.drop s.hist.length).filterMap showEv
      let tags := branchTags s op s'
      (s', (if tags.isEmpty then [] else ["B " ++ " ".intercalate tags]) ++
        ["P ret=" ++ b01 r ++ " st=" ++ showSt s' ++ " ev=" ++ (if evs.isEmpty then "-" else ",".intercalate evs) ++
           " wire+=" ++ digest (s'.wire.drop s.wire.length) ++
           " rq=" ++ (if s'.conn ∧ s'.expired then "x" else digest s'.recvQ),
         if s'.conn ∧ s'.expired then "M gone" else
         "M armed=" ++ b01 s'.writeArmed ++ " ron=" ++ b01 s'.readOn ++ " sq=" ++ toString s'.sendQ.length])

def main : IO Unit := runDriver init stepLine
