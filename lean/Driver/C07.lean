/- C07 driver: op lines in, observable lines out (same format as props/C07/harness.cpp).

Line syntax: `[F] <op> …`.  A request for `new[]` succeeds iff it is at most `allocLimit` bytes (the
harness's interposed `operator new[]` does the same).  A leading `F` first runs the operation with an
allocator that refuses everything; if that attempt reports failure it must have been a no-op
(`keep=1`), and the operation is then run again with the working allocator — so the state lines do
not depend on whether the capacity policy needed an allocation (that is in the `M` line).  Per operation: a `B` line (branch tags), a state line (`P`, or
`M` once the case has over-committed or appended from its own storage: the content then depends on
the capacity policy) and an `M` line
with what a harmless rewrite may change (how a failure was reported, allocator traffic,
writable size, live blocks). -/
import TboxModel.Util
import TboxModel.C07.Model
open Tbox.Util Tbox.C07

/-- the harness's allocator refuses requests above 16 MiB -/
def allocLimit : Nat := 16777216

structure DState where
  s : Store := init
  tainted : Bool := false     -- an over-commit happened in this case

def showStore (s : Store) : String :=
  "|".intercalate (s.map fun b => hexOfBytes b.readable ++ ":" ++ toString b.readableSize)

def slot? (w : String) : Option Nat := do
  let i ← w.toNat?
  if i < nSlots then some i else none

/-- a `size_t` literal -/
def num? (w : String) : Option Nat := do
  if w.length > 20 ∨ w.isEmpty ∨ !(w.all Char.isDigit) then none
  let n ← w.toNat?
  if n < W then some n else none

def parseOp (ws : List String) : Option Op :=
  match ws with
  | ["ctor", i, c] => do pure (.construct (← slot? i) (← num? c))
  | ["ctord", i] => do pure (.defaultCtor (← slot? i))
  | ["app", i, d] => do pure (.append (← slot? i) (← bytesOfHex d))
  | ["appa", i, pl, d] => do
      let p ← num? pl
      if p < 16 then pure (.append (← slot? i) (← bytesOfHex d)) else none
  | ["apps", i, off, k] => do pure (.appendSelf (← slot? i) (← num? off) (← num? k))
  | ["res", i, n] => do pure (.reserve (← slot? i) (← num? n))
  | ["rwc", i, n, d] => do
      let n ← num? n; let d ← bytesOfHex d
      if d.length ≤ n then pure (.rwc (← slot? i) n d) else none
  | ["over", i, n] => do pure (.over (← slot? i) (← num? n))
  | ["fetch", i, n] => do pure (.fetch (← slot? i) (← num? n))
  | ["fetcha", i, pl, n] => do
      let p ← num? pl
      if p < 16 then pure (.fetch (← slot? i) (← num? n)) else none
  | ["con", i, n] => do pure (.consume (← slot? i) (← num? n))
  | ["conall", i] => do pure (.consumeAll (← slot? i))
  | ["shrink", i] => do pure (.shrink (← slot? i))
  | ["cpa", d, s] => do pure (.copyAssign (← slot? d) (← slot? s))
  | ["mva", d, s] => do pure (.moveAssign (← slot? d) (← slot? s))
  | ["cpc", d, s] => do
      let d ← slot? d; let s ← slot? s
      if d = s then none else pure (.copyCtor d s)
  | ["mvc", d, s] => do
      let d ← slot? d; let s ← slot? s
      if d = s then none else pure (.moveCtor d s)
  | ["swap", i, j] => do pure (.swap (← slot? i) (← slot? j))
  | ["reset", i] => do pure (.reset (← slot? i))
  | _ => none

def sizeTag (n : Nat) : String :=
  if n ≥ 9223372036854775808 then " n>=2^63" else if n ≥ 4294967296 then " n>=2^32"
  else if n ≥ 2147483648 then " n>=2^31" else if n ≥ 65536 then " n>=2^16" else ""

def ensureTag (al : Alloc) (b : Buf) (n : Nat) : String :=
  (if n = 0 then "ensure0" else if b.writable ≥ n then "enough"
  else if uadd b.writable b.r ≥ n then (if b.r > 0 ∧ b.w > b.r then "compact-nonempty" else "compact")
  else if b.w > maxHalf ∨ n > maxHalf - b.w then
    (if b.w + n ≥ W then "refused-sum-wraps" else "refused-double-wraps")
  else if !(al (Buf.growSize b.w n)) then (if Buf.growSize b.w n > allocLimit then "alloc-too-big" else "alloc-fault")
  else (if b.r > 0 ∧ b.w > b.r then "grow-r>0" else if b.mem.isEmpty then "grow-null" else "grow")) ++ sizeTag n

def readTag (b : Buf) (n : Nat) : String :=
  (if b.readableSize = 0 then "read-empty" else if n = 0 then "read0"
  else if n ≥ b.readableSize then "snap" else "partial") ++ sizeTag n

def cloneTag (al : Alloc) (o : Buf) : String :=
  if o.readableSize > 0 then (if al o.readableSize then "copy-nonempty" else "copy-alloc-fault") else "copy-empty"

/-- which branches of the model this op exercises (distribution / non-triviality only) -/
def branchTags (al : Alloc) (s : Store) : Op → String
  | .append i d => ensureTag al (s.get i) d.length ++ (if d.length < 4 then " len<4" else "")
  | .appendSelf i off k =>
      if off + k ≤ (s.get i).readableSize then "self-append " ++ ensureTag al (s.get i) k else "self-append-skip"
  | .reserve i n => ensureTag al (s.get i) n
  | .rwc i n _ => ensureTag al (s.get i) n
  | .over _ n => "overcommit" ++ sizeTag n
  | .fetch i n => readTag (s.get i) n
  | .consume i n => readTag (s.get i) n
  | .copyAssign d c => if d = c then "self-assign" else cloneTag al (s.get c)
  | .copyCtor _ c => cloneTag al (s.get c)
  | .moveAssign d c => if d = c then "self-move" else if (s.get c).mem.isEmpty then "move-from-null" else "move"
  | .moveCtor _ c => if (s.get c).mem.isEmpty then "move-from-null" else "move"
  | .shrink i => if (s.get i).readableSize > 0 then cloneTag al (s.get i) ++ " shrink-nonempty" else "shrink-empty"
  | .swap i j => if i = j then "self-swap" else "swap"
  | .construct _ c => if c = 0 then "ctor0" else if !(al c) then "ctor-alloc-fault" else "ctor"
  | .defaultCtor _ => if !(al kInitialSize) then "ctor-alloc-fault" else "ctord"
  | _ => "other"

def firstSlot : Op → Nat
  | .construct i _ | .defaultCtor i | .append i _ | .appendSelf i _ _ | .reserve i _ | .rwc i _ _
  | .over i _ | .fetch i _ | .consume i _ | .consumeAll i | .shrink i | .reset i | .swap i _ => i
  | .copyAssign d _ | .moveAssign d _ | .copyCtor d _ | .moveCtor d _ => d

def live (s : Store) : Nat := (s.map Buf.owns).foldl (· + ·) 0

def stepLine (st : DState) (line : String) : DState × List String :=
  let ws := words line
  match ws with
  | [] => (st, [])
  | "case" :: _ => ({}, [line.trimAscii.toString])
  | ["teardown"] =>
      -- every buffer is destroyed (all blocks must be gone), then the slots are default-constructed again
      ({ st with s := init }, ["P live=0"])
  | _ =>
    let (fault, ws) := match ws with
      | "F" :: rest => (true, rest)
      | _ => (false, ws)
    let al : Alloc := if fault then (fun _ => false) else (fun sz => sz ≤ allocLimit)
    match parseOp ws with
    | none => (st, ["bad-op"])
    | some op =>
      let s := st.s
      -- `F op`: an attempt with a failing allocator; if it reports failure (a no-op: `C07_fail_noop`)
      -- the operation is executed again with the working allocator
      let okAl : Alloc := fun sz => sz ≤ allocLimit
      let (s1, o1) := step al s op
      let (s', o) := if fault ∧ o1.st ≠ .ok then
          let (s2, o2) := step okAl s1 op
          (s2, { o2 with news := o1.news + o2.news, dels := o1.dels + o2.dels })
        else (s1, o1)
      let keep := if fault ∧ o1.st ≠ .ok then (if showStore s1 = showStore s then "1" else "0") else "1"
      let tainted := st.tainted || (match op with | .over _ _ => true | .appendSelf _ _ _ => true | _ => false)
      -- after an over-commit the content depends on the capacity (an implementation detail)
      let tag := if tainted then "M " else "P "
      let wr := match op with
        | .reserve i n => if o.st = .ok then (if (s'.get i).writable ≥ n then " wr=1" else " wr=0") else ""
        | _ => ""
      let how := match o1.st with | .ok => "ok" | .refused => "refused" | .badAlloc => "badalloc"
      ({ s := s', tainted := tainted },
       ["B " ++ branchTags al s op,
        tag ++ showStore s' ++ " ret=" ++ toString o.ret ++ " out=" ++ hexOfBytes o.fetched ++
          " st=" ++ (if o.st = .ok then "ok" else "fail") ++ " in=1 keep=" ++ keep ++ wr,
        "M how=" ++ how ++ " news=" ++ toString o.news ++ " dels=" ++ toString o.dels ++
          " wsz=" ++ toString (s'.get (firstSlot op)).writable ++ " live=" ++ toString (live s')])

def main : IO Unit := runDriver ({} : DState) stepLine
