/- C07 driver: op lines in, observable lines out (same format as props/C07/harness.cpp).

Line syntax: `[F|F<k>] <op> …`.  A request for `new[]` succeeds iff it is at most `allocLimit` bytes (the
harness's interposed `operator new[]` does the same).  A leading `F` first runs the operation with an
allocator that refuses everything, `F<k>` with one that refuses exactly the k-th request made inside the
operation (composite operations make several); if that attempt reports failure it must have been a no-op
(`keep=1`), and the operation is then run again with the working allocator — so the state lines do
not depend on whether the capacity policy needed an allocation (that is in the `M` line).  Per operation: a `B` line (branch tags), a state line (`P`, or
`M` once the case has over-committed, appended from its own storage or used a size derived from the
writable size: the content then depends on the capacity policy) and an `M` line
with what a harmless rewrite may change (how a failure was reported, allocator traffic,
writable size, live blocks).

Sizes may be state-derived: `@rs`, `@ws` (readable / writable size of the buffer the op names — of the
SOURCE buffer for `appo`), optionally `+K` / `-K` (saturating at 0).  Payloads are hex or `%<n>:<seed>`
(synthetic, `Tbox.C07.pattern`).  Composite lines (`rt i` = `{ Buffer c(b); b = c; }`, `rtm i d` =
`{ Buffer c(b); c.append(d); b = std::move(c); }`) are executed as `Tbox.C07.runScript` with the temporary
in the hidden slot 4.

Two executable models: the list model (`Tbox.C07.step`, the one the theorems speak about) and, after a
`fast` line, the ByteArray model (`Tbox.C07.stepA`, proved equal: `C07_array_refines`).  `quiet` replaces
the contents in the state lines by their lengths (`dig i` prints a digest on demand). -/
import TboxModel.Util
import TboxModel.C07.Fast
open Tbox.Util Tbox.C07

/-- the harness's allocator refuses requests above 16 MiB -/
def allocLimit : Nat := 16777216
/-- largest synthetic payload -/
def patLimit : Nat := 16777216
/-- the temporary of composite operations -/
def tmpSlot : Nat := 4

def okAl : Alloc := fun sz => sz ≤ allocLimit
def noAl : Alloc := fun _ => false

/-- payload of an operation line -/
inductive Payload where
  | hex (d : List Byte)
  | pat (n seed : Nat)

def Payload.length : Payload → Nat
  | .hex d => d.length
  | .pat n _ => n
def Payload.toList : Payload → List Byte
  | .hex d => d
  | .pat n seed => pattern seed n
def Payload.toBytes : Payload → ByteArray
  | .hex d => ⟨d.toArray⟩
  | .pat n seed => patternA seed n

/-- a parsed operation (payloads not yet materialised) -/
inductive LOp where
  | plain (op : Op)                         -- an operation without payload
  | append (i : Nat) (d : Payload)
  | rwc (i : Nat) (n : Nat) (d : Payload)

def LOp.toOp : LOp → Op
  | .plain op => op
  | .append i d => .append i d.toList
  | .rwc i n d => .rwc i n d.toList
def LOp.toOpA : LOp → OpA
  | .plain op => opAofOp op
  | .append i d => .append i d.toBytes
  | .rwc i n d => .rwc i n d.toBytes
/-- the operation without its payload bytes (tags, slots) -/
def LOp.shape : LOp → Op
  | .plain op => op
  | .append i d => .append i (List.replicate (min d.length 4) 0)
  | .rwc i n _ => .rwc i n []

/-- one line = a body of statements (cut short by an exception) and a clean-up -/
structure Script where
  body : List LOp
  cleanup : List LOp := []

/-- the result of one micro-step, model-independent -/
structure LOut where
  fetchedHex : String := "-"
  ret : Nat := 0
  st : Status := .ok
  news : Nat := 0
  dels : Nat := 0

def hex64 (v : UInt64) : String :=
  String.ofList ((List.range 16).reverse.map fun k => hexDigit ((v.toNat >>> (4 * k)) % 16))

/-- fetched bytes: hex up to 64 bytes, digest beyond -/
def outHexL (d : List Byte) : String :=
  if d.length ≤ 64 then hexOfBytes d else "~" ++ hex64 (fnv d) ++ ":" ++ toString d.length
def outHexA (d : ByteArray) : String :=
  if d.size ≤ 64 then hexOfBytes d.data.toList else "~" ++ hex64 (fnvA d 0 d.size) ++ ":" ++ toString d.size

def lout (o : Out) : LOut := { fetchedHex := outHexL o.fetched, ret := o.ret, st := o.st, news := o.news, dels := o.dels }
def loutA (o : OutA) : LOut := { fetchedHex := outHexA o.fetched, ret := o.ret, st := o.st, news := o.news, dels := o.dels }

/-- the two executable models behind one interface -/
inductive Mach where
  | list (s : Store)
  | arr (s : StoreA)

def Mach.init : Mach := .list (Tbox.C07.init ++ [Buf.empty])
def Mach.toFast : Mach → Mach
  | .list s => .arr (storeAofStore s)
  | m => m

def Mach.rs : Mach → Nat → Nat
  | .list s, i => (s.get i).readableSize
  | .arr s, i => (s.get i).readableSize
def Mach.ws : Mach → Nat → Nat
  | .list s, i => (s.get i).writable
  | .arr s, i => (s.get i).writable
def Mach.live : Mach → Nat
  | .list s => (s.map Buf.owns).foldl (· + ·) 0
  | .arr s => (s.toList.map BufA.owns).foldl (· + ·) 0
def Mach.content : Mach → Nat → String
  | .list s, i => hexOfBytes (s.get i).readable
  | .arr s, i => hexOfBytes (s.get i).toBuf.readable
def Mach.digest : Mach → Nat → UInt64
  | .list s, i => fnv (s.get i).readable
  | .arr s, i => (s.get i).digest
/-- one statement with one allocator -/
def Mach.step1 (al : Alloc) : Mach → LOp → Mach × LOut
  | .list s, op => let (s', o) := step al s op.toOp; (.list s', lout o)
  | .arr s, op => let (s', o) := stepA al s op.toOpA; (.arr s', loutA o)
/-- a whole script with the allocators chosen for its statements: `runScript` / `runScriptA` -/
def Mach.script (m : Mach) (body cleanup : List (Alloc × LOp)) : Mach × List LOut :=
  match m with
  | .list s =>
      let (s', os) := runScript s (body.map fun (al, op) => (al, op.toOp)) (cleanup.map fun (al, op) => (al, op.toOp))
      (.list s', os.map lout)
  | .arr s =>
      let (s', os) := runScriptA s (body.map fun (al, op) => (al, op.toOpA)) (cleanup.map fun (al, op) => (al, op.toOpA))
      (.arr s', os.map loutA)

/-- which requests fail during an attempt -/
inductive Fault where
  | none | all | kth (k : Nat)

/-- allocator for the next statement, `made` requests having been made so far (a statement makes at most one) -/
def Fault.alloc : Fault → Nat → Alloc
  | .none, _ => okAl
  | .all, _ => noAl
  | .kth k, made => if made + 1 = k then noAl else okAl

/-- choose the allocators statement by statement (the k-th REQUEST fails: which statement makes it depends
on the run), then execute the script as ONE `runScript` with those allocators -/
def Mach.exec (m : Mach) (f : Fault) (sc : Script) : Mach × List LOut :=
  let als : List (Alloc × LOp) :=
    match sc.body with
    | [op] => [(f.alloc 0, op)]
    | body =>
        let rec go (m : Mach) (made : Nat) : List LOp → List (Alloc × LOp)
          | [] => []
          | op :: rest =>
              let al := f.alloc made
              let (m', o) := m.step1 al op
              (al, op) :: (if o.st = .badAlloc then rest.map (fun op => (okAl, op)) else go m' (made + o.news) rest)
        go m 0 body
  m.script als (sc.cleanup.map fun op => (okAl, op))

structure DState where
  m : Mach := Mach.init
  tainted : Bool := false     -- the state lines are model-internal from here on
  quiet : Bool := false

/-- a `size_t` literal -/
def lit? (w : String) : Option Nat := do
  if w.length > 20 ∨ w.isEmpty ∨ !(w.all Char.isDigit) then none
  let n ← w.toNat?
  if n < W then some n else none

def slot? (w : String) : Option Nat := do
  let i ← lit? w
  if i < nSlots then some i else none

/-- a size: literal, or `@rs` / `@ws` with an optional `+K` / `-K` (K a literal below 2^32) -/
def num? (rs ws : Option Nat) (w : String) : Option Nat :=
  if w.startsWith "@" then do
    let body := (w.drop 1).toString
    let base ← if body.startsWith "rs" then rs else if body.startsWith "ws" then ws else none
    let rest := (body.drop 2).toString
    if rest.isEmpty then some base
    else do
      let k ← lit? (rest.drop 1).toString
      if k ≥ 4294967296 then none
      else if rest.startsWith "+" then (if base + k < W then some (base + k) else none)
      else if rest.startsWith "-" then some (base - k)
      else none
  else lit? w

def payload? (rs ws : Option Nat) (w : String) : Option Payload :=
  if w.startsWith "%" then
    match ((w.drop 1).toString.splitOn ":") with
    | [n, seed] => do
        let n ← num? rs ws n
        let seed ← lit? seed
        if n ≤ patLimit ∧ seed < 4294967296 then some (.pat n seed) else none
    | _ => none
  else (bytesOfHex w).map .hex

def parseLine (rs ws : Option Nat) (wds : List String) : Option Script :=
  let N := num? rs ws
  let one (op : Op) : Script := { body := [.plain op] }
  match wds with
  | ["ctor", i, c] => do pure (one (.construct (← slot? i) (← N c)))
  | ["ctord", i] => do pure (one (.defaultCtor (← slot? i)))
  | ["app", i, d] => do pure { body := [.append (← slot? i) (← payload? rs ws d)] }
  | ["appa", i, pl, d] => do
      let p ← lit? pl
      if p < 16 then pure { body := [.append (← slot? i) (← payload? rs ws d)] } else none
  | ["apps", i, off, k] => do pure (one (.appendSelf (← slot? i) (← N off) (← N k)))
  | ["appo", i, j, off, k] => do
      let i ← slot? i; let j ← slot? j
      if i = j then none else pure (one (.appendFrom i j (← N off) (← N k)))
  | ["res", i, n] => do pure (one (.reserve (← slot? i) (← N n)))
  | ["rwc", i, n, d] => do
      let n ← N n; let d ← payload? rs ws d
      if d.length ≤ n then pure { body := [.rwc (← slot? i) n d] } else none
  | ["over", i, n] => do pure (one (.over (← slot? i) (← N n)))
  | ["fetch", i, n] => do pure (one (.fetch (← slot? i) (← N n)))
  | ["fetcha", i, pl, n] => do
      let p ← lit? pl
      if p < 16 then pure (one (.fetch (← slot? i) (← N n))) else none
  | ["fetchw", i, n] => do pure (one (.fetchSelf (← slot? i) (← N n)))
  | ["con", i, n] => do pure (one (.consume (← slot? i) (← N n)))
  | ["conall", i] => do pure (one (.consumeAll (← slot? i)))
  | ["shrink", i] => do pure (one (.shrink (← slot? i)))
  | ["cpa", d, s] => do pure (one (.copyAssign (← slot? d) (← slot? s)))
  | ["mva", d, s] => do pure (one (.moveAssign (← slot? d) (← slot? s)))
  | ["cpc", d, s] => do
      let d ← slot? d; let s ← slot? s
      if d = s then none else pure (one (.copyCtor d s))
  | ["mvc", d, s] => do
      let d ← slot? d; let s ← slot? s
      if d = s then none else pure (one (.moveCtor d s))
  | ["swap", i, j] => do pure (one (.swap (← slot? i) (← slot? j)))
  | ["reset", i] => do pure (one (.reset (← slot? i)))
  -- { Buffer c(b); b = c; }
  | ["rt", i] => do
      let i ← slot? i
      pure { body := [.plain (.copyCtor tmpSlot i), .plain (.copyAssign i tmpSlot)], cleanup := [.plain (.reset tmpSlot)] }
  -- { Buffer c(b); c.append(d); b = std::move(c); }
  | ["rtm", i, d] => do
      let i ← slot? i; let d ← payload? rs ws d
      pure { body := [.plain (.copyCtor tmpSlot i), .append tmpSlot d, .plain (.moveAssign i tmpSlot)],
             cleanup := [.plain (.reset tmpSlot)] }
  | _ => none

def sizeTag (n : Nat) : String :=
  if n ≥ 9223372036854775808 then " n>=2^63" else if n ≥ 4294967296 then " n>=2^32"
  else if n ≥ 2147483648 then " n>=2^31" else if n ≥ 65536 then " n>=2^16" else ""

def ensureTag (al : Alloc) (b : Buf) (n : Nat) : String :=
  (if n = 0 then "ensure0" else if b.writable ≥ n then (if b.writable = n then "enough-exact" else "enough")
  else if uadd b.writable b.r ≥ n then (if b.r > 0 ∧ b.w > b.r then "compact-nonempty" else "compact")
  else if b.w > maxHalf ∨ n > maxHalf - b.w then
    (if b.w + n ≥ W then "refused-sum-wraps" else "refused-double-wraps")
  else if !(al (Buf.growSize b.w n)) then (if Buf.growSize b.w n > allocLimit then "alloc-too-big" else "alloc-fault")
  else (if b.r > 0 ∧ b.w > b.r then "grow-r>0" else if b.mem.isEmpty then "grow-null" else "grow")) ++ sizeTag n

def readTag (b : Buf) (n : Nat) : String :=
  (if b.readableSize = 0 then "read-empty" else if n = 0 then "read0"
  else if n ≥ b.readableSize then "snap" else "partial") ++ sizeTag n

def cloneTag (al : Alloc) (o : Buf) : String :=
  if o.readableSize > 0 then (if al o.readableSize then "copy-nonempty" else "copy-alloc-fault") else "copy-empty"

/-- which branches of the model this op exercises (distribution / non-triviality only) -/
def branchTags (al : Alloc) (s : Store) : Op → String
  | .append i d => ensureTag al (s.get i) d.length ++ (if d.length < 4 then " len<4" else "")
  | .appendSelf i off k =>
      if off + k ≤ (s.get i).readableSize then
        "self-append " ++ (if off = 0 ∧ k = (s.get i).readableSize ∧ k > 0 then "self-append-all " else "") ++ ensureTag al (s.get i) k
      else "self-append-skip"
  | .appendFrom i j off k =>
      if off + k ≤ (s.get j).readableSize then "append-from-other " ++ ensureTag al (s.get i) k else "append-from-skip"
  | .fetchSelf i n =>
      "fetch-into-writable " ++ readTag (s.get i) n ++ " " ++
        ensureTag al (s.get i) (if n > (s.get i).readableSize then (s.get i).readableSize else n)
  | .reserve i n => ensureTag al (s.get i) n
  | .rwc i n _ => ensureTag al (s.get i) n
  | .over _ n => "overcommit" ++ sizeTag n
  | .fetch i n => readTag (s.get i) n
  | .consume i n => readTag (s.get i) n
  | .copyAssign d c => if d = c then "self-assign" else cloneTag al (s.get c)
  | .copyCtor _ c => cloneTag al (s.get c)
  | .moveAssign d c => if d = c then "self-move" else if (s.get c).mem.isEmpty then "move-from-null" else "move"
  | .moveCtor _ c => if (s.get c).mem.isEmpty then "move-from-null" else "move"
  | .shrink i => if (s.get i).readableSize > 0 then cloneTag al (s.get i) ++ " shrink-nonempty" else "shrink-empty"
  | .swap i j => if i = j then "self-swap" else "swap"
  | .construct _ c => if c = 0 then "ctor0" else if !(al c) then "ctor-alloc-fault" else "ctor"
  | .defaultCtor _ => if !(al kInitialSize) then "ctor-alloc-fault" else "ctord"
  | _ => "other"

def firstSlot : Op → Nat
  | .construct i _ | .defaultCtor i | .append i _ | .appendSelf i _ _ | .appendFrom i _ _ _ | .fetchSelf i _
  | .reserve i _ | .rwc i _ _
  | .over i _ | .fetch i _ | .consume i _ | .consumeAll i | .shrink i | .reset i | .swap i _ => i
  | .copyAssign d _ | .moveAssign d _ | .copyCtor d _ | .moveCtor d _ => d

def showState (st : DState) (m : Mach) : String :=
  "|".intercalate ((List.range nSlots).map fun i =>
    (if st.quiet then "~" else m.content i) ++ ":" ++ toString (m.rs i))

/-- aggregate of the statements of one line -/
structure Agg where
  ret : Nat := 0
  out : String := "-"
  how : Status := .ok
  news : Nat := 0
  dels : Nat := 0

def aggregate (os : List LOut) : Agg :=
  os.foldl (fun a o =>
    { ret := if o.ret ≠ 0 then o.ret else a.ret,
      out := if o.fetchedHex ≠ "-" then o.fetchedHex else a.out,
      how := if a.how = .badAlloc ∨ o.st = .badAlloc then .badAlloc else if a.how = .refused ∨ o.st = .refused then .refused else .ok,
      news := a.news + o.news, dels := a.dels + o.dels }) {}

def parseFault (w : String) : Option Fault :=
  if w = "F" then some .all
  else if w.startsWith "F" then do
    let k ← lit? (w.drop 1).toString
    if k ≥ 1 ∧ k ≤ 9 then some (.kth k) else none
  else none

def stepLine (st : DState) (line : String) : DState × List String :=
  let ws := words line
  match ws with
  | [] => (st, [])
  | "case" :: _ => ({}, [line.trimAscii.toString])
  | ["teardown"] =>
      -- every buffer is destroyed (all blocks must be gone), then the slots are default-constructed again
      let m := match st.m with | .list _ => Mach.init | .arr _ => Mach.init.toFast
      ({ st with m := m }, ["P live=0"])
  | ["fast"] => ({ st with m := st.m.toFast }, ["P fast"])
  | ["quiet"] => ({ st with quiet := true }, ["P quiet"])
  | ["dig", i] =>
      match slot? i with
      | none => (st, ["bad-op"])
      | some i => (st, [(if st.tainted then "M " else "P ") ++ "dig=" ++ hex64 (st.m.digest i) ++ " len=" ++ toString (st.m.rs i)])
  | _ =>
    let (fault, ws) := match ws with
      | w :: rest => (match parseFault w with | some f => (f, rest) | none => (Fault.none, ws))
      | [] => (Fault.none, ws)
    -- the buffer whose sizes `@rs` / `@ws` refer to
    let refSlot : Option Nat := match ws with
      | "appo" :: _ :: j :: _ => slot? j
      | _ :: i :: _ => slot? i
      | _ => none
    let m := st.m
    match parseLine (refSlot.map (m.rs ·)) (refSlot.map (m.ws ·)) ws with
    | none => (st, ["bad-op"])
    | some sc =>
      let isFault := match fault with | .none => false | _ => true
      -- `F op`: an attempt with a failing allocator; if it reports failure (a no-op: `C07_fail_noop`,
      -- `C07_roundtrip_strong`) the operation is executed again with the working allocator
      let (m1, os1) := m.exec fault sc
      let a1 := aggregate os1
      let retry : Bool := isFault && decide (a1.how ≠ .ok)
      let (m', a) := if retry then
          let (m2, os2) := m1.exec .none sc
          let a2 := aggregate os2
          (m2, { a2 with news := a1.news + a2.news, dels := a1.dels + a2.dels })
        else (m1, a1)
      let keep := if retry then (if showState { st with quiet := false } m1 = showState { st with quiet := false } m then "1" else "0") else "1"
      let shape := match sc.body with | [op] => op.shape | _ => .reset tmpSlot
      let usesWs := ws.any (fun w => (w.splitOn "@ws").length > 1)
      let tainted := st.tainted || (match shape with | .over _ _ => true | .appendSelf _ _ _ => true | _ => false)
        || (usesWs && ws.head? != some "res")
      -- after an over-commit the content depends on the capacity (an implementation detail)
      let tag := if tainted then "M " else "P "
      let wr := match shape with
        | .reserve i n => if a.how = .ok then (if m'.ws i ≥ n then " wr=1" else " wr=0") else ""
        | _ => ""
      let how := match a1.how with | .ok => "ok" | .refused => "refused" | .badAlloc => "badalloc"
      let btags := match m, sc.body with
        | .list s, [op] => branchTags (fault.alloc 0) s op.toOp
        | .list s, (.plain (.copyCtor _ i)) :: _ :: rest =>
            (if rest.isEmpty then "roundtrip " else "roundtrip-append-move ") ++ cloneTag okAl (s.get i) ++
              (match fault with | .kth 2 => " second-alloc-fault" | .kth 3 => " third-alloc-fault" | _ => "")
        | _, _ => "fast"
      let fs := match sc.body with
        | [op] => firstSlot op.shape
        | _ => (match ws with | _ :: i :: _ => (slot? i).getD 0 | _ => 0)
      ({ st with m := m', tainted := tainted },
       ["B " ++ btags ++ (match fault with | .kth _ => " fault-kth" | _ => "") ++
          (if ws.any (fun w => (w.splitOn "@").length > 1) then " state-derived-size" else ""),
        tag ++ showState st m' ++ " ret=" ++ toString a.ret ++ " out=" ++ a.out ++
          " st=" ++ (if a.how = .ok then "ok" else "fail") ++ " in=1 keep=" ++ keep ++ wr,
        "M how=" ++ how ++ " news=" ++ toString a.news ++ " dels=" ++ toString a.dels ++
          " wsz=" ++ toString (m'.ws fs) ++ " live=" ++ toString m'.live])

def main : IO Unit := runDriver ({} : DState) stepLine
