/- C07 driver: op lines in, observable lines out (same format as harness/C07). -/
import TboxModel.Util
import TboxModel.C07.Model
open Tbox.Util Tbox.C07

def showStore (s : Store) : String :=
  "|".intercalate (s.map fun b => hexOfBytes b.readable ++ ":" ++ toString b.readableSize)

def slot? (w : String) : Option Nat := do
  let i ← w.toNat?
  if i < nSlots then some i else none

def parseOp (ws : List String) : Option Op :=
  match ws with
  | ["ctor", i, c] => do pure (.construct (← slot? i) (← c.toNat?))
  | ["app", i, d] => do pure (.append (← slot? i) (← bytesOfHex d))
  | ["res", i, n] => do pure (.reserve (← slot? i) (← n.toNat?))
  | ["rwc", i, n, d] => do
      let n ← n.toNat?; let d ← bytesOfHex d
      if d.length ≤ n then pure (.rwc (← slot? i) n d) else none
  | ["over", i, n] => do pure (.over (← slot? i) (← n.toNat?))
  | ["fetch", i, n] => do pure (.fetch (← slot? i) (← n.toNat?))
  | ["con", i, n] => do pure (.consume (← slot? i) (← n.toNat?))
  | ["conall", i] => do pure (.consumeAll (← slot? i))
  | ["shrink", i] => do pure (.shrink (← slot? i))
  | ["cpa", d, s] => do pure (.copyAssign (← slot? d) (← slot? s))
  | ["mva", d, s] => do pure (.moveAssign (← slot? d) (← slot? s))
  | ["cpc", d, s] => do
      let d ← slot? d; let s ← slot? s
      if d = s then none else pure (.copyCtor d s)
  | ["mvc", d, s] => do
      let d ← slot? d; let s ← slot? s
      if d = s then none else pure (.moveCtor d s)
  | ["swap", i, j] => do pure (.swap (← slot? i) (← slot? j))
  | ["reset", i] => do pure (.reset (← slot? i))
  | _ => none

def ensureTag (b : Buf) (n : Nat) : String :=
  if n = 0 then "ensure0" else if b.writable ≥ n then "enough"
  else if b.writable + b.r ≥ n then (if b.r > 0 ∧ b.w > b.r then "compact-nonempty" else "compact")
  else (if b.r > 0 ∧ b.w > b.r then "grow-r>0" else if b.mem.isEmpty then "grow-null" else "grow")

def readTag (b : Buf) (n : Nat) : String :=
  if b.readableSize = 0 then "read-empty" else if n = 0 then "read0"
  else if n ≥ b.readableSize then "snap" else "partial"

/-- which branches of the model this op exercises (distribution / non-triviality only) -/
def branchTags (s : Store) : Op → String
  | .append i d => ensureTag (s.get i) d.length
  | .reserve i n => ensureTag (s.get i) n
  | .rwc i n _ => ensureTag (s.get i) n
  | .over _ _ => "overcommit"
  | .fetch i n => readTag (s.get i) n
  | .consume i n => readTag (s.get i) n
  | .copyAssign d c => if d = c then "self-assign" else if (s.get c).readableSize > 0 then "copy-nonempty" else "copy-empty"
  | .copyCtor _ c => if (s.get c).readableSize > 0 then "copy-nonempty" else "copy-empty"
  | .moveAssign d c => if d = c then "self-move" else "move"
  | .shrink i => if (s.get i).readableSize > 0 then "shrink-nonempty" else "shrink-empty"
  | _ => "other"

def stepLine (s : Store) (line : String) : Store × List String :=
  let ws := words line
  match ws with
  | [] => (s, [])
  | "case" :: _ => (init, [line.trimAscii.toString])
  | _ =>
    match parseOp ws with
    | none => (s, ["bad-op"])
    | some op =>
      let (s', o) := step s op
      -- `over` exposes the capacity (an implementation detail): model-internal line
      let tag := match op with | .over _ _ => "M " | _ => "P "
      let wr := match op with
        | .reserve i n => if (s'.get i).writable ≥ n then " wr=1" else " wr=0"
        | _ => ""
      (s', ["B " ++ branchTags s op, tag ++ showStore s' ++ " ret=" ++ toString o.ret ++ " out=" ++ hexOfBytes o.fetched ++ wr])

def main : IO Unit := runDriver init stepLine
