/- C08 driver: op lines in, observable lines out (same format as props/C08/harness.cpp). -/
import TboxModel.Util
import TboxModel.C08.Model
open Tbox.Util Tbox.C08

structure St where
  cab  : Cab := {}
  toks : Array Token := #[]
  pool : PoolSys := PoolSys.init
  fd   : FdSys := FdSys.init

def maxObj : Nat := 1000
def maxVal : Nat := 1000000
def maxRaw : Nat := 4000000000

def commaList (l : List String) : String := if l.isEmpty then "-" else ",".intercalate l
def bit (b : Bool) : String := if b then "1" else "0"

/-- decimal digits only (no `_` separators, which `String.toNat?` accepts), at most 14 of them -/
def nat? (w : String) (bound : Nat) : Option Nat := do
  if w.length ≥ 15 ∨ ¬ w.all Char.isDigit then none
  let n ← w.toNat?
  if n < bound then some n else none

/-- `k:i,k:i,…` → pairs (invocation number, token index) -/
def parseScript (w : String) (ntok : Nat) : Option (List (Nat × Nat)) :=
  if w == "-" then some [] else
  (w.splitOn ",").mapM fun item =>
    match item.splitOn ":" with
    | [k, i] => do pure (← nat? k 100000, ← nat? i ntok)
    | _ => none

def scriptFn (toks : Array Token) (ps : List (Nat × Nat)) : Nat → List Token :=
  fun k => (ps.filter (·.1 = k)).map fun p => toks.getD p.2 {}

def sizeStr (c : Cab) : String := "size=" ++ toString c.size

def lookupTag (c : Cab) (t : Token) : String :=
  if t.id = 0 then "tok-null" else
  match c.cells[t.pos]? with
  | none => "tok-out-of-range"
  | some cell => if cell.id = t.id then "tok-live" else if cell.id = 0 then "tok-stale-freecell" else "tok-stale-reused"

def cabLine (s : St) (ws : List String) : Option (St × List String) :=
  match ws with
  | ["alloc", o] => do
      let o ← nat? o maxObj
      let tag := if s.cab.firstFree ≠ sizeMax then "alloc-reuse" else "alloc-push"
      let (c, r) := s.cab.alloc o
      match r with
      | none => pure ({ s with cab := c, toks := s.toks.push {} },
                      ["B alloc-throw", "P alloc throw " ++ sizeStr c, "M tok - -"])
      | some t =>
          let dup := s.toks.toList.findIdx? (· == t)
          let d := match dup with | some j => "dup=" ++ toString j | none => "fresh"
          pure ({ s with cab := c, toks := s.toks.push t },
                ["B " ++ tag, "P alloc " ++ d ++ " " ++ sizeStr c, "M tok " ++ toString t.id ++ " " ++ toString t.pos])
  | ["at", i] => do
      let t := s.toks[← nat? i s.toks.size]?.getD {}
      pure (s, ["B " ++ lookupTag s.cab t, "P at=" ++ toString (s.cab.at' t)])
  | ["atraw", id, pos] => do
      let t : Token := ⟨← nat? id maxRaw, ← nat? pos maxRaw⟩
      pure (s, ["B raw-" ++ lookupTag s.cab t, "M at=" ++ toString (s.cab.at' t)])
  | ["upd", i, o] => do
      let t := s.toks[← nat? i s.toks.size]?.getD {}
      let (c, b) := s.cab.update t (← nat? o maxObj)
      pure ({ s with cab := c }, ["B upd-" ++ lookupTag s.cab t, "P upd=" ++ bit b])
  | ["free", i] => do
      let t := s.toks[← nat? i s.toks.size]?.getD {}
      let (c, o) := s.cab.free t
      pure ({ s with cab := c }, ["B free-" ++ lookupTag s.cab t, "P free=" ++ toString o ++ " " ++ sizeStr c])
  | ["clear"] =>
      let c := s.cab.clear
      some ({ s with cab := c }, [if s.cab.count > 0 then "B clear-nonempty" else "B clear-empty",
                                  "P clear " ++ sizeStr c ++ " empty=" ++ bit (c.size == 0)])
  | ["size"] => some (s, ["P " ++ sizeStr s.cab ++ " empty=" ++ bit (s.cab.size == 0)])
  | ["reserve", n] => do
      let _ ← nat? n 100000
      pure (s, ["P ok"])
  | ["scan"] =>
      let vals := s.toks.toList.map fun t => toString (s.cab.at' t)
      let stale := s.toks.toList.filter fun t => (s.cab.lookup t).isNone
      some (s, ["B scan-stale=" ++ (if stale.length ≥ 100 then "100+" else if stale.length ≥ 10 then "10+" else if stale.length ≥ 1 then "1+" else "0"),
                "P scan " ++ commaList vals])
  | ["each", scr] => do
      let ps ← parseScript scr s.toks.size
      let (c, visP) := s.cab.foreach (scriptFn s.toks ps)
      let vis := visP.map (·.2)
      -- visiting order / reach under cross-removal depend on cell reuse: M line (see the harness)
      let sorted := (vis.toArray.qsort (· < ·)).toList
      pure ({ s with cab := c }, [if c.count < s.cab.count then "B each-removed" else "B each-plain",
                                  "P each " ++ (if ps.isEmpty then commaList (sorted.map toString) else "*") ++ " " ++ sizeStr c ++ " deadvisit=0",
                                  "M order " ++ commaList (vis.map toString)])
  | _ => none

def poolStatus (s : PoolSys) : String :=
  let vals := s.slots.map fun o => match o with | none => "-" | some (_, v) => toString v
  let st := s.pool.stat
  "P pool ctor=" ++ toString s.pool.ctor ++ " dtor=" ++ toString s.pool.dtor ++ " vals=" ++ ",".intercalate vals ++
  " stat=" ++ toString st.allocT ++ "/" ++ toString st.freeT ++ "/" ++ toString st.peakA ++ "/" ++ toString st.peakF ++ " alias=0"

def poolLine (s : St) (ws : List String) : Option (St × List String) :=
  match ws with
  | ["alloc", h, v] => do
      let h ← nat? h nPoolSlots
      let v ← nat? v maxVal
      match s.pool.slots[h]? with
      | some none =>
          let tag := if s.pool.pool.parked.isEmpty then "pool-malloc" else "pool-reuse"
          let (p, _) := s.pool.step (.alloc h v)
          pure ({ s with pool := p }, ["B " ++ tag, poolStatus p])
      | _ => pure (s, ["B pool-busy", "P busy"])
  | ["free", h] => do
      let h ← nat? h nPoolSlots
      match s.pool.slots[h]? with
      | some (some _) =>
          let tag := if s.pool.pool.freeNum < s.pool.pool.keep then "pool-park" else "pool-release"
          let (p, _) := s.pool.step (.free h)
          pure ({ s with pool := p }, ["B " ++ tag, poolStatus p])
      | _ => pure (s, ["B pool-none", "P none"])
  | ["new", k] => do
      let k ← if k == "max" then some sizeMax else nat? k 100000
      let (p, _) := s.pool.step (.renew k)
      pure ({ s with pool := p }, ["B pool-new", poolStatus p])
  | ["stat"] => some (s, [poolStatus s.pool])
  | _ => none

def fdStatus (old s : FdSys) : List String :=
  let hs := List.range nFdSlots
  let g := hs.map fun h => toString (s.get h)
  let nl := String.join (hs.map fun h => bit (s.isNull h))
  let closed := (s.closeLog.drop old.closeLog.length).map fun (r, f) => toString r ++ (if f then ":f" else ":r")
  let op := (List.range s.nextRes).filter fun r => ¬ s.closeLog.any (·.1 == r)
  let refs := hs.map fun h => match s.detailOf h with
    | none => "-"
    | some d => match s.details[d]? with | none => "?" | some det => toString det.ref
  ["P fd g=" ++ ",".intercalate g ++ " null=" ++ nl ++ " closed=" ++ commaList closed ++ " open=" ++ commaList (op.map toString),
   "M ref=" ++ ",".intercalate refs]

def fdTag (s : FdSys) (op : FdOp) : String :=
  let relTag (h : Nat) : String :=
    match s.detailOf h with
    | none => "rel-null"
    | some d => match s.details[d]? with
        | none => "rel-?"
        | some det => if det.ref = 1 then (if det.fd ≥ 0 then "rel-last-closes" else "rel-last-already-closed") else "rel-shared"
  match op with
  | .fresh h => "fresh-" ++ relTag h
  | .opn h _ => "open-" ++ relTag h
  | .copyCtor d c => "cpc-" ++ relTag d ++ (if (s.detailOf c).isNone then "-from-null" else "")
  | .moveCtor d _ => "mvc-" ++ relTag d
  | .copyAssign d c => if d = c then "cpa-self" else
      (if s.detailOf d = s.detailOf c ∧ (s.detailOf d).isSome then "cpa-same-detail-" else "cpa-") ++ relTag d
  | .moveAssign d c => if d = c then "mva-self" else
      (if s.detailOf d = s.detailOf c ∧ (s.detailOf d).isSome then "mva-same-detail-" else "mva-") ++ relTag d
  | .swap a b => if a = b then "swap-self" else "swap"
  | .reset h => "reset-" ++ relTag h
  | .close h => match s.detailOf h with
      | none => "close-null"
      | some d => match s.details[d]? with
          | none => "close-?"
          | some det => if det.fd < 0 then "close-again" else if det.ref > 1 then "close-shared" else "close-sole"

def parseFd (ws : List String) : Option FdOp :=
  let sl (w : String) := nat? w nFdSlots
  match ws with
  | ["new", h] => do pure (.fresh (← sl h))
  | ["open", h, "fn"] => do pure (.opn (← sl h) true)
  | ["open", h, "raw"] => do pure (.opn (← sl h) false)
  | ["cpc", d, c] => do pure (.copyCtor (← sl d) (← sl c))
  | ["mvc", d, c] => do pure (.moveCtor (← sl d) (← sl c))
  | ["cpa", d, c] => do pure (.copyAssign (← sl d) (← sl c))
  | ["mva", d, c] => do pure (.moveAssign (← sl d) (← sl c))
  | ["swap", a, b] => do pure (.swap (← sl a) (← sl b))
  | ["reset", h] => do pure (.reset (← sl h))
  | ["close", h] => do pure (.close (← sl h))
  | _ => none

def fdLine (s : St) (ws : List String) : Option (St × List String) := do
  let op ← parseFd ws
  if ¬ op.ok then none
  -- at most 200 descriptors per case (the harness holds real descriptors)
  let tooMany : Bool := match op with | .opn _ _ => decide (s.fd.nextRes ≥ 200) | _ => false
  if tooMany then none
  let f := s.fd.step op
  pure ({ s with fd := f }, ("B " ++ fdTag s.fd op) :: fdStatus s.fd f)

def stepLine (s : St) (line : String) : St × List String :=
  match words line with
  | [] => (s, [])
  | "case" :: _ => ({}, [line.trimAscii.toString])
  | "cab" :: ws => match cabLine s ws with | some r => r | none => (s, ["bad-op"])
  | "pool" :: ws => match poolLine s ws with | some r => r | none => (s, ["bad-op"])
  | "fd" :: ws => match fdLine s ws with | some r => r | none => (s, ["bad-op"])
  | _ => (s, ["bad-op"])

def main : IO Unit := runDriver ({} : St) stepLine
