/- C08 driver: op lines in, observable lines out (same format as props/C08/harness.cpp). -/
import TboxModel.Util
import TboxModel.C08.Model
import TboxModel.C08.Fast
open Tbox.Util Tbox.C08

structure St where
  cab  : CabA := {}      -- the cabinet over an Array: proved equal to the list model (C08_cab_array_refines)
  toks : Array Token := #[]
  pool : PoolSys := PoolSys.init
  fd   : FdSys := FdSys.init
  lt   : LtSys := LtSys.init
  poolBase : Nat := 0    -- `nextBlk` when the current pool was created (block labels on the M line are relative to it)

def maxObj : Nat := 1000
def maxVal : Nat := 1000000
def maxBulk : Nat := 400000

/-- a `size_t` value: decimal digits only, at most 20 of them, below 2^64 -/
def u64? (w : String) : Option Nat := do
  if w.isEmpty ∨ w.length > 20 ∨ ¬ w.all Char.isDigit then none
  let n ← w.toNat?
  if n < Token.word then some n else none

/-- checksum of a list of answers: Σ (i+1)·r mod 1000000007 -/
def digestSum (l : List Nat) : Nat :=
  (l.foldl (fun (acc : Nat × Nat) r => (acc.1 + 1, (acc.2 + (acc.1 + 1) * r) % 1000000007)) (0, 0)).2

def firstZero (l : List Nat) : String :=
  match l.findIdx? (· == 0) with
  | some i => toString i
  | none => "-"

def tokLt (a b : Token) : Bool := a.id < b.id || (a.id == b.id && a.pos < b.pos)

/-- non-null tokens, and how many of them equal their predecessor in sorted order -/
def dupTokens (toks : Array Token) : Nat × Nat :=
  let live := toks.filter (fun t => t.id != 0)
  let sorted := live.qsort tokLt
  let d := (sorted.foldl (fun (acc : Option Token × Nat) t =>
      (some t, if acc.1 == some t then acc.2 + 1 else acc.2)) (none, 0)).2
  (live.size, d)

def bulkObjs (n o0 : Nat) : List Nat := (List.range n).map fun i => 1 + (o0 + i) % 999

def commaList (l : List String) : String := if l.isEmpty then "-" else ",".intercalate l
def bit (b : Bool) : String := if b then "1" else "0"

/-- decimal digits only (no `_` separators, which `String.toNat?` accepts), at most 14 of them -/
def nat? (w : String) (bound : Nat) : Option Nat := do
  if w.length ≥ 15 ∨ ¬ w.all Char.isDigit then none
  let n ← w.toNat?
  if n < bound then some n else none

/-- one callback action: `I` free token I · `aO` alloc object O · `c` clear · `uI.O` update token I -/
def parseAct (w : String) (toks : Array Token) : Option CbAct :=
  if w == "c" then some .clear
  -- calls from inside a callback that leave the cabinet as it is: `n` a nested foreach (counting), `s` size()/at(),
  -- `rN` reserve(N) (may move the cells; the cabinet model has no capacity) — a no-op in the model: update of the null token
  else if w == "n" ∨ w == "s" then some (.update {} 0)
  else if w.startsWith "r" then do let _ ← nat? (w.drop 1).toString 100000; pure (.update {} 0)
  else if w.startsWith "a" then do pure (.alloc (← nat? (w.drop 1).toString maxObj))
  else if w.startsWith "u" then
    match (w.drop 1).toString.splitOn "." with
    | [i, o] => do pure (.update (toks.getD (← nat? i toks.size) {}) (← nat? o maxObj))
    | _ => none
  else do pure (.free (toks.getD (← nat? w toks.size) {}))

/-- callback actions that may throw: `xO` = `alloc(O)` with the next `operator new` failing, the `bad_alloc` caught inside
the callback; `XO` = the same, the exception leaves the callback (and `foreach`); `e` / `E` = `reserve(2^63)` throwing
`length_error`, caught / not caught.  g++ evaluates `allocPos()` before `allocId()`: `idAdvanced = false` (the M line
carries `lastid`; the theorems cover both orders) -/
def parseActX (w : String) (toks : Array Token) : Option CbActX :=
  if w == "e" then some (.throwing false true)
  else if w == "E" then some (.throwing false false)
  else if w.startsWith "x" then do pure (.allocOom (← nat? (w.drop 1).toString maxObj) false true)
  else if w.startsWith "X" then do pure (.allocOom (← nat? (w.drop 1).toString maxObj) false false)
  else do pure (.act (← parseAct w toks))

/-- `k:act,k:act,…` → (invocation number, action) -/
def parseScript (w : String) (toks : Array Token) : Option (List (Nat × CbActX)) :=
  if w == "-" then some [] else
  (w.splitOn ",").mapM fun item =>
    match item.splitOn ":" with
    | [k, a] => do pure (← nat? k 100000, ← parseActX a toks)
    | _ => none

def scriptFn (ps : List (Nat × CbActX)) : Nat → List CbActX :=
  fun k => (ps.filter (·.1 = k)).map (·.2)

/-- the tokens the successful `alloc`s of a history return, in order (a null token for an `out_of_range`) -/
def traceTokens (c : Cab) : List CabOpX → List Token
  | [] => []
  | .op (.act (.alloc o)) :: xs => ((c.alloc o).2.getD {}) :: traceTokens (c.alloc o).1 xs
  | x :: xs => traceTokens (c.stepX x) xs

/-- tokens DERIVED from the cabinet's own state and from an issued token `t` (lesson (g)): the next token to be
issued, ids around the id counter, neighbours of `t`'s id, positions at / beyond the end, the free-list head … -/
def deriveTok (c : CabA) (toks : Array Token) (kind : String) (i : Nat) : Option Token := do
  let t ← toks[i]?
  let L := c.lastId
  let F := c.firstFree
  let S := c.cells.size
  let w := Token.word
  match kind with
  | "next" => some (Token.ctor ((L + 1) % w) (if F ≠ sizeMax then F else S))
  | "nextid" => some (Token.ctor ((L + 1) % w) t.pos)
  | "lastid" => some (Token.ctor L t.pos)
  | "idm1" => some (Token.ctor ((t.id + w - 1) % w) t.pos)
  | "idp1" => some (Token.ctor ((t.id + 1) % w) t.pos)
  | "prev" =>
      -- the previous occupant of `t`'s cell: the latest earlier token with the same position
      let js := (List.range i).reverse.filter fun j => match toks[j]? with | some u => u.id != 0 && u.pos == t.pos | none => false
      (match js with | j :: _ => toks[j]? | [] => some t)
  | "zero" => some (Token.ctor 0 t.pos)
  | "posS" => some (Token.ctor t.id S)
  | "posS1" => some (Token.ctor t.id ((S + w - 1) % w))
  | "posmax" => some (Token.ctor t.id sizeMax)
  | "posF" => some (Token.ctor t.id F)
  | "swap" => some (Token.ctor t.pos t.id)
  | _ => none

/-- index of the first earlier token equal to each of `new` (tokens handed out twice) -/
def countDups (old : Array Token) (new : List Token) : Nat :=
  (new.foldl (fun (acc : Array Token × Nat) t =>
    (acc.1.push t, if t.id ≠ 0 ∧ acc.1.any (· == t) then acc.2 + 1 else acc.2)) (old, 0)).2

def sizeStr (c : CabA) : String := "size=" ++ toString c.size

def lookupTag (c : CabA) (t : Token) : String :=
  if t.id = 0 then "tok-null" else
  match c.cells[t.pos]? with
  | none => "tok-out-of-range"
  | some cell => if cell.id = t.id then "tok-live" else if cell.id = 0 then "tok-stale-freecell" else "tok-stale-reused"

partial def cabLine (s : St) (ws : List String) : Option (St × List String) :=
  match ws with
  | ["alloc", o] => do
      let o ← nat? o maxObj
      let tag := if s.cab.firstFree ≠ sizeMax then "alloc-reuse" else "alloc-push"
      let (c, r) := s.cab.alloc o
      match r with
      | none => pure ({ s with cab := c, toks := s.toks.push {} },
                      ["B alloc-throw", "P alloc throw " ++ sizeStr c, "M tok - -"])
      | some t =>
          let dup := s.toks.toList.findIdx? (· == t)
          let d := match dup with | some j => "dup=" ++ toString j | none => "fresh"
          pure ({ s with cab := c, toks := s.toks.push t },
                ["B " ++ tag, "P alloc " ++ d ++ " " ++ sizeStr c, "M tok " ++ toString t.id ++ " " ++ toString t.pos])
  | ["allocfail", o] => do
      -- the next `operator new` fails: with a free cell no allocation is attempted and the call succeeds
      let o' ← nat? o maxObj
      if s.cab.firstFree ≠ sizeMax then
        let r ← cabLine s ["alloc", o]
        pure (r.1, r.2.map fun l => if l.startsWith "B " then l ++ " allocfail-no-growth" else l)
      else
        -- g++ evaluates `allocPos()` before `allocId()`: the id counter is not advanced (M line; either order is
        -- covered by C08_cab_alloc_bad_alloc)
        let c := (s.cab.toCab.allocThrow false)
        let _ := o'
        pure ({ s with cab := CabA.ofCab c, toks := s.toks.push {} },
              ["B allocfail-throw", "P alloc bad_alloc " ++ sizeStr s.cab, "M lastid=" ++ toString c.lastId])
  | ["at", i] => do
      let t := s.toks[← nat? i s.toks.size]?.getD {}
      pure (s, ["B " ++ lookupTag s.cab t, "P at=" ++ toString (s.cab.at' t)])
  | ["atraw", id, pos] => do
      -- a forged token: any pair of size_t values, through the Token constructor
      let t : Token := Token.ctor (← u64? id) (← u64? pos)
      pure (s, ["B raw-" ++ lookupTag s.cab t, "M at=" ++ toString (s.cab.at' t)])
  | ["jump", v] => do
      let v ← u64? v
      if v < s.cab.lastId then none
      let near (b : Nat) : Bool := v + 4 ≥ b ∧ v < b
      pure ({ s with cab := s.cab.jump v }, ["B jump" ++ (if v + 3 ≥ sizeMax then "-near-max" else if near (2 ^ 32) then "-near-2^32"
        else if near (2 ^ 31) then "-near-2^31" else if near (2 ^ 63) then "-near-2^63" else if near (2 ^ 16) then "-near-2^16" else ""), "P ok"])
  | ["bulk", "alloc", n, o0] => do
      let n ← nat? n (maxBulk + 1)
      let o0 ← nat? o0 maxObj
      if s.toks.size + n > 2 * maxBulk then none
      let cells0 := s.cab.cells.size
      let hadFree := s.cab.firstFree ≠ sizeMax
      let (c, toks) := s.cab.allocN (bulkObjs n o0) s.toks
      let nulls := (toks.extract s.toks.size toks.size).foldl (fun k t => if t.id == 0 then k + 1 else k) 0
      let first := toks[s.toks.size]?.getD {}
      let last := toks.back?.getD {}
      let crossed (b : Nat) : Bool := cells0 ≤ b ∧ b < c.cells.size
      pure ({ s with cab := c, toks := toks },
            ["B bulk-alloc" ++ (if hadFree then " bulk-alloc-reuse" else "") ++ (if crossed 65536 then " bulk-cross-2^16" else "") ++
               (if c.cells.size > 65536 then " bulk-above-2^16" else ""),
             "P bulk alloc n=" ++ toString n ++ " null=" ++ toString nulls ++ " " ++ sizeStr c,
             "M bulk tok first=" ++ toString first.id ++ "." ++ toString first.pos ++ " last=" ++ toString last.id ++ "." ++ toString last.pos])
  | ["bulk", "at", frm, n] => do
      let frm ← nat? frm (2 * maxBulk + 1)
      let n ← nat? n (2 * maxBulk + 1)
      if frm + n > s.toks.size then none
      let ans := s.cab.atN (s.toks.extract frm (frm + n)).toList
      let res := ans.foldl (fun k r => if r != 0 then k + 1 else k) 0
      pure (s, ["B bulk-at" ++ (if res < n then " bulk-at-some-dead" else ""),
                "P bulk at resolved=" ++ toString res ++ " firstnull=" ++ firstZero ans ++ " sum=" ++ toString (digestSum ans)])
  | ["bulk", "free", frm, n, m, r, dir] => do
      let frm ← nat? frm (2 * maxBulk + 1)
      let n ← nat? n (2 * maxBulk + 1)
      let m ← nat? m 100000
      let r ← nat? r 100000
      if frm + n > s.toks.size ∨ m = 0 ∨ r ≥ m ∨ (dir != "up" ∧ dir != "down") then none
      let idx := (List.range n).filter fun i => i % m == r
      let idx := if dir == "up" then idx else idx.reverse
      let ts := idx.map fun i => s.toks[frm + i]?.getD {}
      let (c, rets) := s.cab.freeN ts #[]
      let freed := rets.foldl (fun k x => if x != 0 then k + 1 else k) 0
      pure ({ s with cab := c },
            ["B bulk-free-" ++ dir ++ (if freed < ts.length then " bulk-free-some-dead" else ""),
             "P bulk free freed=" ++ toString freed ++ " sum=" ++ toString (digestSum rets.toList) ++ " " ++ sizeStr c])
  | ["bulk", "distinct"] =>
      let (live, d) := dupTokens s.toks
      some (s, ["P bulk distinct tokens=" ++ toString live ++ " dups=" ++ toString d])
  | ["upd", i, o] => do
      let t := s.toks[← nat? i s.toks.size]?.getD {}
      let (c, b) := s.cab.update t (← nat? o maxObj)
      pure ({ s with cab := c }, ["B upd-" ++ lookupTag s.cab t, "P upd=" ++ bit b])
  | ["free", i] => do
      let t := s.toks[← nat? i s.toks.size]?.getD {}
      let (c, o) := s.cab.free t
      pure ({ s with cab := c }, ["B free-" ++ lookupTag s.cab t, "P free=" ++ toString o ++ " " ++ sizeStr c])
  | ["clear"] =>
      let c := s.cab.clear
      some ({ s with cab := c }, [if s.cab.count > 0 then "B clear-nonempty" else "B clear-empty",
                                  "P clear " ++ sizeStr c ++ " empty=" ++ bit (c.size == 0)])
  | ["size"] => some (s, ["P " ++ sizeStr s.cab ++ " empty=" ++ bit (s.cab.size == 0)])
  | ["reserve", n] => do
      -- below 100000: really reserved; from 2^32 on (more than any capacity reached) the call THROWS and leaves the cabinet as it was:
      -- `length_error` above `max_size()`, `bad_alloc` otherwise (the harness makes `operator new` fail)
      let n ← u64? n
      if n ≥ 100000 ∧ n < 2 ^ 32 then none          -- (a capacity that large can exist after the bulk ops: the call might not allocate)
      if n < 100000 then pure (s, ["P ok"])
      else pure (s, ["B reserve-throws", "P reserve threw " ++ sizeStr s.cab, "M " ++ (if (s.cab.toCab.reserve n).2 then "length_error" else "bad_alloc")])
  | ["opd", what, kind, i] => do
      let i ← nat? i s.toks.size
      let t ← deriveTok s.cab s.toks kind i
      let tag := "B derived-" ++ kind ++ "-" ++ lookupTag s.cab t
      match what with
      | "at" => pure (s, [tag, "P at=" ++ toString (s.cab.at' t)])
      | "free" =>
          let (c, o) := s.cab.free t
          pure ({ s with cab := c }, [tag, "P free=" ++ toString o ++ " " ++ sizeStr c])
      | "upd" =>
          let (c, b) := s.cab.update t 77
          pure ({ s with cab := c }, [tag, "P upd=" ++ bit b])
      | _ => none
  | ["scan"] =>
      let vals := s.toks.toList.map fun t => toString (s.cab.at' t)
      let stale := s.toks.toList.filter fun t => (s.cab.lookup t).isNone
      some (s, ["B scan-stale=" ++ (if stale.length ≥ 100 then "100+" else if stale.length ≥ 10 then "10+" else if stale.length ≥ 1 then "1+" else "0"),
                "P scan " ++ commaList vals])
  | ["each", scr] => do
      let ps ← parseScript scr s.toks
      let f := scriptFn ps
      let c0 := s.cab.toCab
      -- `foreachX` is `foreach` when no call throws (C08_cab_each_throw (2))
      let r := c0.foreachX f
      let newToks := traceTokens c0 r.trace
      let c := r.cab
      let vis := r.vis.map (·.2)
      -- visiting order / reach when callbacks change other entries depend on cell reuse: M line
      let sorted := (vis.toArray.qsort (· < ·)).toList
      let isAct (p : Nat × CbActX) (g : CbAct → Bool) : Bool := match p.2 with | .act a => g a | _ => false
      let threw := r.trace.any fun x => match x with | .allocFail _ => true | _ => false
      let tags := (if c.count < s.cab.count then ["each-removed"] else ["each-plain"]) ++
        (if ps.any (fun p => isAct p fun a => match a with | .alloc _ => true | _ => false) then ["each-cb-alloc"] else []) ++
        (if ps.any (fun p => isAct p (· == .clear)) then ["each-cb-clear"] else []) ++
        (if ps.any (fun p => isAct p (· == .update {} 0)) then ["each-cb-reentrant-read"] else []) ++
        (if c.cells.length > c0.cells.length then ["each-cb-grew"] else []) ++
        (if threw ∧ ¬ r.aborted then ["each-cb-threw-caught"] else []) ++
        (if r.aborted then ["each-cb-threw-aborted"] else []) ++
        (if ps.any (fun p => match p.2 with | .allocOom _ _ _ => true | _ => false) ∧ ¬ threw then ["each-cb-oom-no-growth"] else [])
      pure ({ s with cab := CabA.ofCab c, toks := s.toks ++ newToks.toArray },
            ["B " ++ " ".intercalate tags,
             "P each " ++ (if ps.isEmpty then commaList (sorted.map toString) else "*") ++ " " ++ sizeStr (CabA.ofCab c) ++
               " deadvisit=0 dup=" ++ toString (countDups s.toks newToks) ++ " abort=" ++ bit r.aborted,
             "M order " ++ commaList (vis.map toString) ++ " toks=" ++
               commaList (newToks.map fun t => toString t.id ++ "." ++ toString t.pos) ++ " lastid=" ++ toString c.lastId])
  | _ => none

def tokStr (t : Token) : String :=
  "id=" ++ toString t.id ++ " pos=" ++ toString t.pos ++ " null=" ++ bit t.isNull ++ " bool=" ++ bit t.toBool

/-- the hash VALUE is model-internal (any function compatible with `==` would do): `M` line -/
def hashStr (t : Token) : String := "M hash=" ++ toString t.hash

def magTag (pfx : String) (v : Nat) : String :=
  pfx ++ (if v ≥ 2 ^ 63 then ">=2^63" else if v ≥ 2 ^ 48 then ">=2^48" else if v ≥ 2 ^ 32 then ">=2^32"
          else if v ≥ 2 ^ 16 then ">=2^16" else if v ≥ 256 then ">=2^8" else "<2^8")

/-- `(id pos)*` -/
def parsePairs : List String → Option (List Token)
  | [] => some []
  | i :: p :: rest => do
      let i ← u64? i
      let p ← u64? p
      pure (Token.ctor i p :: (← parsePairs rest))
  | _ => none

def tokLine (ws : List String) : Option (List String) :=
  match ws with
  | ["def"] => some ["P tok " ++ tokStr Token.dflt, hashStr Token.dflt]
  | ["mk", i, p] => do
      let t := Token.ctor (← u64? i) (← u64? p)
      pure ["B " ++ magTag "tok-id" t.id ++ " " ++ magTag "tok-pos" t.pos, "P tok " ++ tokStr t ++ " copy=1", hashStr t]
  | ["reset", i, p] => do
      let t := Token.ctor (← u64? i) (← u64? p)
      pure ["P tok " ++ tokStr t.reset, hashStr t.reset]
  | ["cmp", i1, p1, i2, p2] => do
      let a := Token.ctor (← u64? i1) (← u64? p1)
      let b := Token.ctor (← u64? i2) (← u64? p2)
      pure ["B " ++ (if a.id == b.id then (if a.pos == b.pos then "cmp-equal" else "cmp-same-id") else "cmp-diff-id"),
            "P cmp eq=" ++ bit (a.equal b) ++ " ne=" ++ bit (a.ne b) ++ " lt=" ++ bit (a.less b) ++ " le=" ++ bit (a.le b) ++
            " gt=" ++ bit (a.gt b) ++ " ge=" ++ bit (a.ge b) ++ " hashok=" ++ bit (!(a.equal b) || a.hash == b.hash),
            "M heq=" ++ bit (a.hash == b.hash)]
  | "set" :: rest => do
      if rest.length > 80 then none
      let ts ← parsePairs rest
      -- std::set<Token> / std::unordered_set<Token>: distinct tokens, in `<` order
      let sorted := (ts.toArray.qsort Token.less).toList
      let uniq := sorted.foldl (fun (acc : List Token) t => match acc with
        | x :: _ => if x.equal t then acc else t :: acc
        | [] => [t]) []
      let uniq := uniq.reverse
      pure ["P set n=" ++ toString uniq.length ++ " un=" ++ toString uniq.length ++ " order=" ++
            commaList (uniq.map fun t => toString t.id ++ "." ++ toString t.pos)]
  | _ => none

def poolStatusP (s : PoolSys) : String :=
  let vals := s.slots.map fun o => match o with | none => "-" | some (_, v) => toString v
  let st := s.pool.stat
  "P pool ctor=" ++ toString s.pool.ctor ++ " dtor=" ++ toString s.pool.dtor ++ " vals=" ++ ",".intercalate vals ++
  " stat=" ++ toString st.allocT ++ "/" ++ toString st.freeT ++ "/" ++ toString st.peakA ++ "/" ++ toString st.peakF ++ " alias=0 leaked=" ++ toString s.pool.leaked ++
  " thrown=" ++ toString s.pool.thrown

/-- which block every live object sits in (labels in order of first use since the pool was created): only while
the pool never gives a block back (`keep` = max), otherwise the allocator may hand an address out twice -/
def poolBlocks (s : PoolSys) (base : Nat) : String :=
  if s.pool.keep = sizeMax then
    "M blk=" ++ ",".intercalate (s.slots.map fun o => match o with | none => "-" | some (b, _) => toString (b - base))
  else "M blk=-"

/-- `A h v` … `a` = an alloc whose constructor makes the calls in between; `F h` … `f` = a free whose
destructor does; must be well nested, depth ≤ 16 -/
def parseEvs : List String → List Bool → Nat → Option (List PEv)
  | [], [], _ => some []
  | [], _ :: _, _ => none
  | "A" :: h :: v :: rest, st, fuel => do
      if st.length ≥ 16 then none
      let h ← nat? h nPoolSlots
      let v ← nat? v maxVal
      let r ← parseEvs rest (true :: st) fuel
      pure (.abeg h v :: r)
  | "F" :: h :: rest, st, fuel => do
      if st.length ≥ 16 then none
      let h ← nat? h nPoolSlots
      let r ← parseEvs rest (false :: st) fuel
      pure (.fbeg h :: r)
  | "a" :: rest, true :: st, fuel => do pure (.aend :: (← parseEvs rest st fuel))
  | "t" :: rest, true :: st, fuel => do pure (.athr :: (← parseEvs rest st fuel))       -- the constructor throws (after its nested calls)
  | "f" :: rest, false :: st, fuel => do pure (.fend :: (← parseEvs rest st fuel))
  | _, _, _ => none

/-- branch tags of one event in state `s` -/
def evTag (s : PoolSys) : PEv → List String
  | .abeg h _ =>
      if s.skip > 0 then ["pool-skipped"] else
      match s.slots[h]? with
      | some none =>
          if s.reserved h then ["pool-skip-reserved"] else
          (match s.stack with
            | .allocF _ _ _ :: _ => if s.pool.parked.isEmpty then ["pool-ctor-alloc-malloc"] else ["pool-ctor-alloc-parked"]
            | .freeF _ _ :: _ => if s.pool.parked.isEmpty then ["pool-dtor-alloc-malloc"] else ["pool-dtor-alloc-parked"]
            | [] => [if s.pool.parked.isEmpty then "pool-malloc" else "pool-reuse"])
      | _ => ["pool-skip-busy"]
  | .fbeg h =>
      if s.skip > 0 then ["pool-skipped"] else
      match s.slots[h]? with
      | some (some _) => (match s.stack with
            | .allocF _ _ _ :: _ => ["pool-ctor-free"]
            | .freeF _ _ :: _ => ["pool-dtor-free"]
            | [] => [])
      | _ => ["pool-skip-none"]
  | .fend =>
      if s.skip > 0 then [] else
      match s.stack with
      | .freeF _ _ :: _ => [if s.pool.freeNum < s.pool.keep then "pool-park" else "pool-release"]
      | _ => []
  | .aend => []
  | .athr =>
      if s.skip > 0 then [] else
      match s.stack with
      | .allocF _ _ _ :: .allocF _ _ _ :: _ => ["pool-throw-nested-in-ctor"]
      | .allocF _ _ _ :: .freeF _ _ :: _ => ["pool-throw-nested-in-dtor"]
      | .allocF _ _ _ :: [] => ["pool-ctor-throw-after-nested"]
      | _ => []

def runEvsTags (s : PoolSys) : List PEv → PoolSys × List String
  | [] => (s, [])
  | e :: es =>
      let t := evTag s e
      let r := runEvsTags (s.ev e).1 es
      (r.1, t ++ r.2)

def poolLine (s : St) (ws : List String) : Option (St × List String) :=
  match ws with
  | ["alloc", h, v] => do
      let h ← nat? h nPoolSlots
      let v ← nat? v maxVal
      match s.pool.slots[h]? with
      | some none =>
          let (p, tags) := runEvsTags s.pool [.abeg h v, .aend]
          pure ({ s with pool := p }, ["B " ++ " ".intercalate tags, poolStatusP p, poolBlocks p s.poolBase])
      | _ => pure (s, ["B pool-busy", "P busy"])
  | ["allocthrow", h, v] => do
      -- `alloc(v)` whose constructor throws (between calls only)
      let h ← nat? h nPoolSlots
      let v ← nat? v maxVal
      match s.pool.slots[h]? with
      | some none =>
          let p := s.pool.step (.athrow h v)
          pure ({ s with pool := p }, ["B pool-ctor-throw-" ++ (if s.pool.pool.parked.isEmpty then "malloc" else "parked"), poolStatusP p, poolBlocks p s.poolBase])
      | _ => pure (s, ["B pool-busy", "P busy"])
  | ["free", h] => do
      let h ← nat? h nPoolSlots
      match s.pool.slots[h]? with
      | some (some _) =>
          let (p, tags) := runEvsTags s.pool [.fbeg h, .fend]
          pure ({ s with pool := p }, ["B " ++ " ".intercalate tags, poolStatusP p, poolBlocks p s.poolBase])
      | _ => pure (s, ["B pool-none", "P none"])
  | "x" :: toks => do
      if toks.length > 400 then none
      let evs ← parseEvs toks [] 0
      let (p, tags) := runEvsTags s.pool evs
      pure ({ s with pool := p }, ["B pool-x " ++ " ".intercalate tags, poolStatusP p, poolBlocks p s.poolBase])
  | ["new", k] => do
      let k ← if k == "max" then some sizeMax else u64? k
      let p := s.pool.step (.renew k)
      pure ({ s with pool := p, poolBase := p.pool.nextBlk }, ["B pool-new" ++ (if k ≥ 2 ^ 31 ∧ k < sizeMax then " pool-keep>=2^31" else ""), poolStatusP p, poolBlocks p p.pool.nextBlk])
  | ["drop", k] => do
      let k ← if k == "max" then some sizeMax else u64? k
      let p := s.pool.step (.drop k)
      pure ({ s with pool := p, poolBase := p.pool.nextBlk }, [if s.pool.liveBlocks.isEmpty then "B pool-drop-empty" else "B pool-drop-live", poolStatusP p, poolBlocks p p.pool.nextBlk])
  | ["stat"] => some (s, [poolStatusP s.pool, poolBlocks s.pool s.poolBase])
  | ["bulk", n, k, m] => do
      -- a pool of its own: n objects alive at once, all freed in allocation order, then m more
      let n ← nat? n (maxBulk + 1)
      let k ← if k == "max" then some sizeMax else nat? k (maxBulk + 1)
      let m ← nat? m (maxBulk + 1)
      if m > n then none
      let p0 := ({} : Pool).renew k
      let r := p0.allocManyTR n []
      let blocks := r.2.reverse
      let p2 := r.1.freeMany blocks
      let r3 := p2.allocManyTR m []
      let p4 := r3.1.freeMany r3.2.reverse
      let dups (l : List Nat) : Nat :=
        ((l.toArray.qsort (· < ·)).foldl (fun (acc : Option Nat × Nat) b => (some b, if acc.1 == some b then acc.2 + 1 else acc.2)) (none, 0)).2
      let line (tag : String) (p : Pool) (live alias : Nat) : String :=
        "P poolbulk " ++ tag ++ " live=" ++ toString live ++ " ctor=" ++ toString p.ctor ++ " dtor=" ++ toString p.dtor ++
        " stat=" ++ toString p.stat.allocT ++ "/" ++ toString p.stat.freeT ++ "/" ++ toString p.stat.peakA ++ "/" ++ toString p.stat.peakF ++
        " alias=" ++ toString alias
      pure (s, ["B pool-bulk" ++ (if n > k then " pool-bulk-over-keep" else "") ++ (if m > 0 ∧ k > 0 then " pool-bulk-reuse" else ""),
                line "a" r.1 n (dups blocks), line "f" p2 0 0, line "b" r3.1 m (dups r3.2), line "e" p4 0 0])
  | _ => none

def fdLabel (fd : Int) : String := toString fd

def sysStr : Sys → String
  | .getfl f => "getfl:" ++ fdLabel f
  | .setfl f b => "setfl:" ++ fdLabel f ++ ":" ++ bit b
  | .getfd f => "getfd:" ++ fdLabel f
  | .setfd f b => "setfd:" ++ fdLabel f ++ ":" ++ bit b
  | .rw k f => (match k with | 0 => "read:" | 1 => "readv:" | 2 => "write:" | _ => "writev:") ++ fdLabel f

def fdStatus (old s : FdSys) (calls : List Sys) : List String :=
  let hs := List.range nFdSlots
  let g := hs.map fun h => toString (s.get h)
  let nl := String.join (hs.map fun h => bit (s.isNull h))
  let closed := (s.closeLog.drop old.closeLog.length).map fun (r, f) => toString r ++ (if f then ":f" else ":r")
  let op := (List.range s.nextRes).filter fun r => ¬ s.closeLog.any (·.1 == r)
  let refs := hs.map fun h => match s.detailOf h with
    | none => "-"
    | some d => match s.details[d]? with | none => "?" | some det => toString det.ref
  -- kernel flags of the open descriptors that differ from the state after open: label:<O_NONBLOCK><FD_CLOEXEC>
  let fl := op.filterMap fun r => match s.flags[r]? with
    | some (nb, cx) => if nb || cx then some (toString r ++ ":" ++ bit nb ++ bit cx) else none
    | none => some (toString r ++ ":??")
  ["P fd g=" ++ ",".intercalate g ++ " null=" ++ nl ++ " closed=" ++ commaList closed ++ " open=" ++ commaList (op.map toString) ++
     " fl=" ++ commaList fl ++ " stale=0",
   "M ref=" ++ ",".intercalate refs,
   "M sys=" ++ commaList (calls.map sysStr)]

def fdTag (s : FdSys) (op : FdOp) : String :=
  -- what the kernel-facing members find: no record, a record closed through some copy (shared or not), an open descriptor
  let tgt (h : Nat) : String := match s.target h with
    | none => "empty"
    | some fd => if fd < 0 then (if (s.handles.count (s.detailOf h)) > 1 then "closed-shared" else "closed") else
        (if (s.handles.count (s.detailOf h)) > 1 then "open-shared" else "open")
  let relTag (h : Nat) : String :=
    match s.detailOf h with
    | none => "rel-null"
    | some d => match s.details[d]? with
        | none => "rel-?"
        | some det => if det.ref = 1 then (if det.fd ≥ 0 then "rel-last-closes" else "rel-last-already-closed") else "rel-shared"
  match op with
  | .fresh h => "fresh-" ++ relTag h
  | .opn h _ => "open-" ++ relTag h
  | .opnNeg h _ fn => "openneg-" ++ (if fn then "fn-" else "") ++ relTag h
  | .copyCtor d c => "cpc-" ++ relTag d ++ (if (s.detailOf c).isNone then "-from-null" else "")
  | .moveCtor d _ => "mvc-" ++ relTag d
  | .copyAssign d c => if d = c then "cpa-self" else
      (if s.detailOf d = s.detailOf c ∧ (s.detailOf d).isSome then "cpa-same-detail-" else "cpa-") ++ relTag d
  | .moveAssign d c => if d = c then "mva-self" else
      (if s.detailOf d = s.detailOf c ∧ (s.detailOf d).isSome then "mva-same-detail-" else "mva-") ++ relTag d
  | .swap a b => if a = b then "swap-self" else "swap"
  | .reset h => "reset-" ++ relTag h
  | .close h => match s.detailOf h with
      | none => "close-null"
      | some d => match s.details[d]? with
          | none => "close-?"
          | some det => if det.fd < 0 then "close-again" else if det.ref > 1 then "close-shared" else "close-sole"
  | .openFile h ok => (if ok then "fopen-ok-" else "fopen-fail-") ++ relTag h
  | .io h _ a => "io-" ++ tgt h ++ (if a < 0 then "-err" else if a = 0 then "-zero" else "")
  | .setNonBlock h en => "setnb-" ++ tgt h ++ (match (s.target h).bind s.kFlags with
      | some (nb, _) => if nb = en then "-nochange" else "-change" | none => "")
  | .isNonBlock h => "isnb-" ++ tgt h
  | .setCloexec h => "cloexec-" ++ tgt h ++ (match (s.target h).bind s.kFlags with
      | some (nb, cx) => (if cx then "-already" else "-set") ++ (if nb then "-on-nonblocking" else "") | none => "")

def parseFd (ws : List String) : Option FdOp :=
  let sl (w : String) := nat? w nFdSlots
  match ws with
  | ["new", h] => do pure (.fresh (← sl h))
  | ["open", h, "fn"] => do pure (.opn (← sl h) true)
  | ["open", h, "raw"] => do pure (.opn (← sl h) false)
  | ["open", h, "nullfn"] => do pure (.opn (← sl h) false)     -- `Fd(fd, CloseFunc())`: an empty function = no function
  | ["openneg", h, k, "fn"] => do pure (.opnNeg (← sl h) (← nat? k 3) true)
  | ["openneg", h, k, "raw"] => do pure (.opnNeg (← sl h) (← nat? k 3) false)
  | ["cpc", d, c] => do pure (.copyCtor (← sl d) (← sl c))
  | ["mvc", d, c] => do pure (.moveCtor (← sl d) (← sl c))
  | ["cpa", d, c] => do pure (.copyAssign (← sl d) (← sl c))
  | ["mva", d, c] => do pure (.moveAssign (← sl d) (← sl c))
  | ["swap", a, b] => do pure (.swap (← sl a) (← sl b))
  | ["reset", h] => do pure (.reset (← sl h))
  | ["close", h] => do pure (.close (← sl h))
  | ["fopen", h, "ok"] => do pure (.openFile (← sl h) true)
  | ["fopen", h, "enoent"] => do pure (.openFile (← sl h) false)
  | ["fopen", h, "emfile"] => do pure (.openFile (← sl h) false)
  | ["io", h, kind, ans] => do
      let k ← match kind with | "read" => some 0 | "readv" => some 1 | "write" => some 2 | "writev" => some 3 | _ => none
      let a : Int ← if ans ∈ ["eintr", "eagain", "eio", "epipe", "enospc"] then some (-1) else (nat? ans 100000).map Int.ofNat
      pure (.io (← sl h) k a)
  | ["nonblock", h, "1"] => do pure (.setNonBlock (← sl h) true)
  | ["nonblock", h, "0"] => do pure (.setNonBlock (← sl h) false)
  | ["isnb", h] => do pure (.isNonBlock (← sl h))
  | ["cloexec", h] => do pure (.setCloexec (← sl h))
  | _ => none

/-- `fd x …`: a program with re-entrant close functions.  Items are operations written with dots (`close.0`,
`cpa.1.0`, `open.2.fn`); `[ … ]` after `close.h` / `reset.h` / `new.h` is what the close function does when THAT
operation calls it.  Returned in pre-order with depths (`FdSys.runD`) -/
def parseFdTree : List String → Nat → Bool → Option (List (Nat × FdOp))
  | [], d, _ => if d = 0 then some [] else none
  | "[" :: rest, d, canOpen => if canOpen ∧ d < 8 then parseFdTree rest (d + 1) false else none
  | "]" :: rest, d, _ => if d > 0 then parseFdTree rest (d - 1) false else none
  | w :: rest, d, _ => do
      let op ← parseFd (w.splitOn ".")
      if ¬ op.ok then none
      let canOpen := match op with | .close _ | .reset _ | .fresh _ => true | _ => false
      let r ← parseFdTree rest d canOpen
      pure ((d, op) :: r)

def fdLine (s : St) (ws : List String) : Option (St × List String) := do
  -- fault schedule for `::close`: the next n calls really close and then report EINTR / EIO.  The code
  -- discards the result of `::close` (fd.cpp:58,98), so the model's step does not depend on it
  match ws with
  | ["closefail", n, e] =>
      let _ ← nat? n 100
      if e != "eintr" ∧ e != "eio" then none
      return (s, ["B closefail", "P ok"])
  | _ => pure ()
  match ws with
  | "x" :: toks =>
      if toks.length > 200 then none
      let prog ← parseFdTree toks 0 false
      let opens := prog.countP fun x => match x.2 with | .opn _ _ | .openFile _ true => true | _ => false
      if s.fd.nextRes + opens > 200 then none
      let flat := s.fd.flatD [] prog
      -- the operations that take place, one after the other (C08_fd_reentrant): tags and system calls of each
      let r := flat.foldl (fun (acc : FdSys × List String × List Sys) op =>
        (acc.1.step op, acc.2.1 ++ [fdTag acc.1 op], acc.2.2 ++ acc.1.calls op)) (s.fd, [], [])
      let f := s.fd.runD [] prog
      let nested := prog.any fun x => x.1 > 0
      let ran := flat.length
      return ({ s with fd := f }, ("B fd-x" ++ (if nested ∧ ran > (prog.filter (·.1 == 0)).length then " fd-x-callback-ran" else "") ++
        (if prog.any (fun x => x.1 > 1) ∧ ran = prog.length then " fd-x-depth2" else "") ++ " " ++ " ".intercalate r.2.1) :: fdStatus s.fd f r.2.2)
  | _ => pure ()
  let op ← parseFd ws
  if ¬ op.ok then none
  -- at most 200 descriptors per case (the harness holds real descriptors)
  let tooMany : Bool := match op with | .opn _ _ | .openFile _ true => decide (s.fd.nextRes ≥ 200) | _ => false
  if tooMany then none
  let f := s.fd.step op
  let ret : List String := match op with
    | .io h k a => ["P ret=" ++ toString (s.fd.io h k a).1]
    | .isNonBlock h => ["P ret=" ++ bit (s.fd.isNonBlock h).1]
    | _ => []
  pure ({ s with fd := f }, ("B " ++ fdTag s.fd op) :: ret ++ fdStatus s.fd f (s.fd.calls op))

def parseLt (ws : List String) : Option LtOp :=
  let t (w : String) := nat? w nLtTags
  let v (w : String) := nat? w nLtWs
  match ws with
  | ["tnew", i] => do pure (.tnew (← t i))
  | ["tdel", i] => do pure (.tdel (← t i))
  | ["tcpc", i, j] => do pure (.tcopy (← t i) (← t j))
  | ["tmvc", i, j] => do pure (.tcopy (← t i) (← t j))
  | ["tcpa", i, j] => do pure (.tassign (← t i) (← t j))
  | ["tmva", i, j] => do pure (.tassign (← t i) (← t j))
  | ["wnew", w] => do pure (.wnew (← v w))
  | ["wtag", w, i] => do pure (.wtag (← v w) (← t i))
  | ["wset", w, i] => do pure (.wtag (← v w) (← t i))
  | ["wget", w, i] => do pure (.wtag (← v w) (← t i))
  | ["wcpc", w, x] => do pure (.wcopyCtor (← v w) (← v x))
  | ["wmvc", w, x] => do pure (.wmoveCtor (← v w) (← v x))
  | ["wcpa", w, x] => do pure (.wcopyAssign (← v w) (← v x))
  | ["wmva", w, x] => do pure (.wmoveAssign (← v w) (← v x))
  | ["wswap", w, x] => do pure (.wswap (← v w) (← v x))
  | ["wreset", w] => do pure (.wreset (← v w))
  | _ => none

/-- malformed = slot out of range or the two slots of a constructor coincide; a missing tag is `absent` -/
def Tbox.C08.LtOp.wellFormed : LtOp → Bool
  | .tcopy i j => i != j
  | .wcopyCtor w v | .wmoveCtor w v => w != v
  | _ => true

def ltStatus (s : LtSys) : List String :=
  let wsl := List.range nLtWs
  let alive := String.join (wsl.map fun w => bit (s.isAlive w))
  let nl := String.join (wsl.map fun w => bit (s.isNull w))
  let tags := String.join ((List.range nLtTags).map fun i => bit (s.tagOf i).isSome)
  let freed := (List.range s.details.length).filter fun d => match s.details[d]? with | some det => det.freed | none => false
  let cnt := wsl.map fun w => match s.wOf w with
    | none => "-"
    | some d => match s.details[d]? with | some det => toString det.cnt | none => "?"
  ["P lt alive=" ++ alive ++ " null=" ++ nl ++ " tags=" ++ tags ++ " freed=" ++ commaList (freed.map toString) ++
     (if s.bad then " BAD" else ""),
   "M cnt=" ++ ",".intercalate cnt]

def ltTag (s : LtSys) (op : LtOp) : String :=
  let rel (w : Nat) : String := match s.wOf w with
    | none => "w-null"
    | some d => match s.details[d]? with
        | some det => if det.cnt = 1 then (if det.alive then "w-last-tag-alive" else "w-last-frees") else "w-shared"
        | none => "w-?"
  let trel (i : Nat) : String := match s.tagOf i with
    | none => "t-empty"
    | some d => match s.details[d]? with
        | some det => if det.cnt = 0 then "t-frees" else "t-outlived-by-watchers"
        | none => "t-?"
  -- what the source of a copy / move watches: nothing, a record whose tag is gone, a live tag
  let src (v : Nat) : String := match s.wOf v with
    | none => "-from-null"
    | some d => match s.details[d]? with
        | some det => if det.alive then "" else "-from-dead"
        | none => "-from-?"
  match op with
  | .tnew i => "tnew-" ++ trel i
  | .tdel i => "tdel-" ++ trel i
  | .tcopy i _ => "tcopy-" ++ trel i
  | .tassign _ _ => "tassign"
  | .wnew w => "wnew-" ++ rel w
  | .wtag w _ => "wtag-" ++ rel w
  | .wcopyCtor w v => "wcpc-" ++ rel w ++ src v
  | .wmoveCtor w v => "wmvc-" ++ rel w ++ (if src v == "-from-dead" then "-from-dead" else "")
  | .wcopyAssign w v => if w = v then "wcpa-self" else "wcpa-" ++ rel w ++ src v
  | .wmoveAssign w v => if w = v then "wmva-self" else "wmva-" ++ rel w ++ (if src v == "-from-dead" then "-from-dead" else "")
  | .wswap _ _ => "wswap"
  | .wreset w => "wreset-" ++ rel w

def ltLine (s : St) (ws : List String) : Option (St × List String) := do
  let op ← parseLt ws
  if ¬ op.wellFormed then none
  if op.ok s.lt then
    let l := s.lt.step op
    pure ({ s with lt := l }, ("B " ++ ltTag s.lt op) :: ltStatus l)
  else pure (s, ["B lt-absent", "P absent"])

def stepLine (s : St) (line : String) : St × List String :=
  match words line with
  | [] => (s, [])
  | "case" :: _ => ({}, [line.trimAscii.toString])
  | "cab" :: ws => match cabLine s ws with | some r => r | none => (s, ["bad-op"])
  | "pool" :: ws => match poolLine s ws with | some r => r | none => (s, ["bad-op"])
  | "fd" :: ws => match fdLine s ws with | some r => r | none => (s, ["bad-op"])
  | "lt" :: ws => match ltLine s ws with | some r => r | none => (s, ["bad-op"])
  | "tok" :: ws => match tokLine ws with | some r => (s, r) | none => (s, ["bad-op"])
  | _ => (s, ["bad-op"])

def main : IO Unit := runDriver ({} : St) stepLine
