/- C08 driver: op lines in, observable lines out (same format as props/C08/harness.cpp). -/
import TboxModel.Util
import TboxModel.C08.Model
open Tbox.Util Tbox.C08

structure St where
  cab  : Cab := {}
  toks : Array Token := #[]
  pool : PoolSys := PoolSys.init
  fd   : FdSys := FdSys.init
  lt   : LtSys := LtSys.init

def maxObj : Nat := 1000
def maxVal : Nat := 1000000
def maxRaw : Nat := 4000000000

def commaList (l : List String) : String := if l.isEmpty then "-" else ",".intercalate l
def bit (b : Bool) : String := if b then "1" else "0"

/-- decimal digits only (no `_` separators, which `String.toNat?` accepts), at most 14 of them -/
def nat? (w : String) (bound : Nat) : Option Nat := do
  if w.length ≥ 15 ∨ ¬ w.all Char.isDigit then none
  let n ← w.toNat?
  if n < bound then some n else none

/-- one callback action: `I` free token I · `aO` alloc object O · `c` clear · `uI.O` update token I -/
def parseAct (w : String) (toks : Array Token) : Option CbAct :=
  if w == "c" then some .clear
  else if w.startsWith "a" then do pure (.alloc (← nat? (w.drop 1).toString maxObj))
  else if w.startsWith "u" then
    match (w.drop 1).toString.splitOn "." with
    | [i, o] => do pure (.update (toks.getD (← nat? i toks.size) {}) (← nat? o maxObj))
    | _ => none
  else do pure (.free (toks.getD (← nat? w toks.size) {}))

/-- `k:act,k:act,…` → (invocation number, action) -/
def parseScript (w : String) (toks : Array Token) : Option (List (Nat × CbAct)) :=
  if w == "-" then some [] else
  (w.splitOn ",").mapM fun item =>
    match item.splitOn ":" with
    | [k, a] => do pure (← nat? k 100000, ← parseAct a toks)
    | _ => none

def scriptFn (ps : List (Nat × CbAct)) : Nat → List CbAct :=
  fun k => (ps.filter (·.1 = k)).map (·.2)

/-- index of the first earlier token equal to each of `new` (tokens handed out twice) -/
def countDups (old : Array Token) (new : List Token) : Nat :=
  (new.foldl (fun (acc : Array Token × Nat) t =>
    (acc.1.push t, if t.id ≠ 0 ∧ acc.1.any (· == t) then acc.2 + 1 else acc.2)) (old, 0)).2

def sizeStr (c : Cab) : String := "size=" ++ toString c.size

def lookupTag (c : Cab) (t : Token) : String :=
  if t.id = 0 then "tok-null" else
  match c.cells[t.pos]? with
  | none => "tok-out-of-range"
  | some cell => if cell.id = t.id then "tok-live" else if cell.id = 0 then "tok-stale-freecell" else "tok-stale-reused"

def cabLine (s : St) (ws : List String) : Option (St × List String) :=
  match ws with
  | ["alloc", o] => do
      let o ← nat? o maxObj
      let tag := if s.cab.firstFree ≠ sizeMax then "alloc-reuse" else "alloc-push"
      let (c, r) := s.cab.alloc o
      match r with
      | none => pure ({ s with cab := c, toks := s.toks.push {} },
                      ["B alloc-throw", "P alloc throw " ++ sizeStr c, "M tok - -"])
      | some t =>
          let dup := s.toks.toList.findIdx? (· == t)
          let d := match dup with | some j => "dup=" ++ toString j | none => "fresh"
          pure ({ s with cab := c, toks := s.toks.push t },
                ["B " ++ tag, "P alloc " ++ d ++ " " ++ sizeStr c, "M tok " ++ toString t.id ++ " " ++ toString t.pos])
  | ["at", i] => do
      let t := s.toks[← nat? i s.toks.size]?.getD {}
      pure (s, ["B " ++ lookupTag s.cab t, "P at=" ++ toString (s.cab.at' t)])
  | ["atraw", id, pos] => do
      let t : Token := ⟨← nat? id maxRaw, ← nat? pos maxRaw⟩
      pure (s, ["B raw-" ++ lookupTag s.cab t, "M at=" ++ toString (s.cab.at' t)])
  | ["upd", i, o] => do
      let t := s.toks[← nat? i s.toks.size]?.getD {}
      let (c, b) := s.cab.update t (← nat? o maxObj)
      pure ({ s with cab := c }, ["B upd-" ++ lookupTag s.cab t, "P upd=" ++ bit b])
  | ["free", i] => do
      let t := s.toks[← nat? i s.toks.size]?.getD {}
      let (c, o) := s.cab.free t
      pure ({ s with cab := c }, ["B free-" ++ lookupTag s.cab t, "P free=" ++ toString o ++ " " ++ sizeStr c])
  | ["clear"] =>
      let c := s.cab.clear
      some ({ s with cab := c }, [if s.cab.count > 0 then "B clear-nonempty" else "B clear-empty",
                                  "P clear " ++ sizeStr c ++ " empty=" ++ bit (c.size == 0)])
  | ["size"] => some (s, ["P " ++ sizeStr s.cab ++ " empty=" ++ bit (s.cab.size == 0)])
  | ["reserve", n] => do
      let _ ← nat? n 100000
      pure (s, ["P ok"])
  | ["scan"] =>
      let vals := s.toks.toList.map fun t => toString (s.cab.at' t)
      let stale := s.toks.toList.filter fun t => (s.cab.lookup t).isNone
      some (s, ["B scan-stale=" ++ (if stale.length ≥ 100 then "100+" else if stale.length ≥ 10 then "10+" else if stale.length ≥ 1 then "1+" else "0"),
                "P scan " ++ commaList vals])
  | ["each", scr] => do
      let ps ← parseScript scr s.toks
      let f := scriptFn ps
      let newToks := s.cab.actTokens (s.cab.eachActs f)
      let (c, visP) := s.cab.foreach f
      let vis := visP.map (·.2)
      -- visiting order / reach when callbacks change other entries depend on cell reuse: M line
      let sorted := (vis.toArray.qsort (· < ·)).toList
      let tags := (if c.count < s.cab.count then ["each-removed"] else ["each-plain"]) ++
        (if ps.any (fun p => match p.2 with | .alloc _ => true | _ => false) then ["each-cb-alloc"] else []) ++
        (if ps.any (fun p => p.2 == .clear) then ["each-cb-clear"] else []) ++
        (if c.cells.length > s.cab.cells.length then ["each-cb-grew"] else [])
      pure ({ s with cab := c, toks := s.toks ++ newToks.toArray },
            ["B " ++ " ".intercalate tags,
             "P each " ++ (if ps.isEmpty then commaList (sorted.map toString) else "*") ++ " " ++ sizeStr c ++
               " deadvisit=0 dup=" ++ toString (countDups s.toks newToks),
             "M order " ++ commaList (vis.map toString) ++ " toks=" ++
               commaList (newToks.map fun t => toString t.id ++ "." ++ toString t.pos)])
  | _ => none

def poolStatus (s : PoolSys) : String :=
  let vals := s.slots.map fun o => match o with | none => "-" | some (_, v) => toString v
  let st := s.pool.stat
  "P pool ctor=" ++ toString s.pool.ctor ++ " dtor=" ++ toString s.pool.dtor ++ " vals=" ++ ",".intercalate vals ++
  " stat=" ++ toString st.allocT ++ "/" ++ toString st.freeT ++ "/" ++ toString st.peakA ++ "/" ++ toString st.peakF ++ " alias=0 leaked=" ++ toString s.pool.leaked

/-- `A h v` … `a` = an alloc whose constructor makes the calls in between; `F h` … `f` = a free whose
destructor does; must be well nested, depth ≤ 16 -/
def parseEvs : List String → List Bool → Nat → Option (List PEv)
  | [], [], _ => some []
  | [], _ :: _, _ => none
  | "A" :: h :: v :: rest, st, fuel => do
      if st.length ≥ 16 then none
      let h ← nat? h nPoolSlots
      let v ← nat? v maxVal
      let r ← parseEvs rest (true :: st) fuel
      pure (.abeg h v :: r)
  | "F" :: h :: rest, st, fuel => do
      if st.length ≥ 16 then none
      let h ← nat? h nPoolSlots
      let r ← parseEvs rest (false :: st) fuel
      pure (.fbeg h :: r)
  | "a" :: rest, true :: st, fuel => do pure (.aend :: (← parseEvs rest st fuel))
  | "f" :: rest, false :: st, fuel => do pure (.fend :: (← parseEvs rest st fuel))
  | _, _, _ => none

/-- branch tags of one event in state `s` -/
def evTag (s : PoolSys) : PEv → List String
  | .abeg h _ =>
      if s.skip > 0 then ["pool-skipped"] else
      match s.slots[h]? with
      | some none =>
          if s.reserved h then ["pool-skip-reserved"] else
          (match s.stack with
            | .allocF _ _ _ :: _ => if s.pool.parked.isEmpty then ["pool-ctor-alloc-malloc"] else ["pool-ctor-alloc-parked"]
            | .freeF _ _ :: _ => if s.pool.parked.isEmpty then ["pool-dtor-alloc-malloc"] else ["pool-dtor-alloc-parked"]
            | [] => [if s.pool.parked.isEmpty then "pool-malloc" else "pool-reuse"])
      | _ => ["pool-skip-busy"]
  | .fbeg h =>
      if s.skip > 0 then ["pool-skipped"] else
      match s.slots[h]? with
      | some (some _) => (match s.stack with
            | .allocF _ _ _ :: _ => ["pool-ctor-free"]
            | .freeF _ _ :: _ => ["pool-dtor-free"]
            | [] => [])
      | _ => ["pool-skip-none"]
  | .fend =>
      if s.skip > 0 then [] else
      match s.stack with
      | .freeF _ _ :: _ => [if s.pool.freeNum < s.pool.keep then "pool-park" else "pool-release"]
      | _ => []
  | .aend => []

def runEvsTags (s : PoolSys) : List PEv → PoolSys × List String
  | [] => (s, [])
  | e :: es =>
      let t := evTag s e
      let r := runEvsTags (s.ev e).1 es
      (r.1, t ++ r.2)

def poolLine (s : St) (ws : List String) : Option (St × List String) :=
  match ws with
  | ["alloc", h, v] => do
      let h ← nat? h nPoolSlots
      let v ← nat? v maxVal
      match s.pool.slots[h]? with
      | some none =>
          let (p, tags) := runEvsTags s.pool [.abeg h v, .aend]
          pure ({ s with pool := p }, ["B " ++ " ".intercalate tags, poolStatus p])
      | _ => pure (s, ["B pool-busy", "P busy"])
  | ["free", h] => do
      let h ← nat? h nPoolSlots
      match s.pool.slots[h]? with
      | some (some _) =>
          let (p, tags) := runEvsTags s.pool [.fbeg h, .fend]
          pure ({ s with pool := p }, ["B " ++ " ".intercalate tags, poolStatus p])
      | _ => pure (s, ["B pool-none", "P none"])
  | "x" :: toks => do
      if toks.length > 400 then none
      let evs ← parseEvs toks [] 0
      let (p, tags) := runEvsTags s.pool evs
      pure ({ s with pool := p }, ["B pool-x " ++ " ".intercalate tags, poolStatus p])
  | ["new", k] => do
      let k ← if k == "max" then some sizeMax else nat? k 100000
      let p := s.pool.step (.renew k)
      pure ({ s with pool := p }, ["B pool-new", poolStatus p])
  | ["drop", k] => do
      let k ← if k == "max" then some sizeMax else nat? k 100000
      let p := s.pool.step (.drop k)
      pure ({ s with pool := p }, [if s.pool.liveBlocks.isEmpty then "B pool-drop-empty" else "B pool-drop-live", poolStatus p])
  | ["stat"] => some (s, [poolStatus s.pool])
  | _ => none

def fdStatus (old s : FdSys) : List String :=
  let hs := List.range nFdSlots
  let g := hs.map fun h => toString (s.get h)
  let nl := String.join (hs.map fun h => bit (s.isNull h))
  let closed := (s.closeLog.drop old.closeLog.length).map fun (r, f) => toString r ++ (if f then ":f" else ":r")
  let op := (List.range s.nextRes).filter fun r => ¬ s.closeLog.any (·.1 == r)
  let refs := hs.map fun h => match s.detailOf h with
    | none => "-"
    | some d => match s.details[d]? with | none => "?" | some det => toString det.ref
  ["P fd g=" ++ ",".intercalate g ++ " null=" ++ nl ++ " closed=" ++ commaList closed ++ " open=" ++ commaList (op.map toString),
   "M ref=" ++ ",".intercalate refs]

def fdTag (s : FdSys) (op : FdOp) : String :=
  let relTag (h : Nat) : String :=
    match s.detailOf h with
    | none => "rel-null"
    | some d => match s.details[d]? with
        | none => "rel-?"
        | some det => if det.ref = 1 then (if det.fd ≥ 0 then "rel-last-closes" else "rel-last-already-closed") else "rel-shared"
  match op with
  | .fresh h => "fresh-" ++ relTag h
  | .opn h _ => "open-" ++ relTag h
  | .copyCtor d c => "cpc-" ++ relTag d ++ (if (s.detailOf c).isNone then "-from-null" else "")
  | .moveCtor d _ => "mvc-" ++ relTag d
  | .copyAssign d c => if d = c then "cpa-self" else
      (if s.detailOf d = s.detailOf c ∧ (s.detailOf d).isSome then "cpa-same-detail-" else "cpa-") ++ relTag d
  | .moveAssign d c => if d = c then "mva-self" else
      (if s.detailOf d = s.detailOf c ∧ (s.detailOf d).isSome then "mva-same-detail-" else "mva-") ++ relTag d
  | .swap a b => if a = b then "swap-self" else "swap"
  | .reset h => "reset-" ++ relTag h
  | .close h => match s.detailOf h with
      | none => "close-null"
      | some d => match s.details[d]? with
          | none => "close-?"
          | some det => if det.fd < 0 then "close-again" else if det.ref > 1 then "close-shared" else "close-sole"

def parseFd (ws : List String) : Option FdOp :=
  let sl (w : String) := nat? w nFdSlots
  match ws with
  | ["new", h] => do pure (.fresh (← sl h))
  | ["open", h, "fn"] => do pure (.opn (← sl h) true)
  | ["open", h, "raw"] => do pure (.opn (← sl h) false)
  | ["cpc", d, c] => do pure (.copyCtor (← sl d) (← sl c))
  | ["mvc", d, c] => do pure (.moveCtor (← sl d) (← sl c))
  | ["cpa", d, c] => do pure (.copyAssign (← sl d) (← sl c))
  | ["mva", d, c] => do pure (.moveAssign (← sl d) (← sl c))
  | ["swap", a, b] => do pure (.swap (← sl a) (← sl b))
  | ["reset", h] => do pure (.reset (← sl h))
  | ["close", h] => do pure (.close (← sl h))
  | _ => none

def fdLine (s : St) (ws : List String) : Option (St × List String) := do
  let op ← parseFd ws
  if ¬ op.ok then none
  -- at most 200 descriptors per case (the harness holds real descriptors)
  let tooMany : Bool := match op with | .opn _ _ => decide (s.fd.nextRes ≥ 200) | _ => false
  if tooMany then none
  let f := s.fd.step op
  pure ({ s with fd := f }, ("B " ++ fdTag s.fd op) :: fdStatus s.fd f)

def parseLt (ws : List String) : Option LtOp :=
  let t (w : String) := nat? w nLtTags
  let v (w : String) := nat? w nLtWs
  match ws with
  | ["tnew", i] => do pure (.tnew (← t i))
  | ["tdel", i] => do pure (.tdel (← t i))
  | ["tcpc", i, j] => do pure (.tcopy (← t i) (← t j))
  | ["tmvc", i, j] => do pure (.tcopy (← t i) (← t j))
  | ["tcpa", i, j] => do pure (.tassign (← t i) (← t j))
  | ["tmva", i, j] => do pure (.tassign (← t i) (← t j))
  | ["wnew", w] => do pure (.wnew (← v w))
  | ["wtag", w, i] => do pure (.wtag (← v w) (← t i))
  | ["wset", w, i] => do pure (.wtag (← v w) (← t i))
  | ["wget", w, i] => do pure (.wtag (← v w) (← t i))
  | ["wcpc", w, x] => do pure (.wcopyCtor (← v w) (← v x))
  | ["wmvc", w, x] => do pure (.wmoveCtor (← v w) (← v x))
  | ["wcpa", w, x] => do pure (.wcopyAssign (← v w) (← v x))
  | ["wmva", w, x] => do pure (.wmoveAssign (← v w) (← v x))
  | ["wswap", w, x] => do pure (.wswap (← v w) (← v x))
  | ["wreset", w] => do pure (.wreset (← v w))
  | _ => none

/-- malformed = slot out of range or the two slots of a constructor coincide; a missing tag is `absent` -/
def Tbox.C08.LtOp.wellFormed : LtOp → Bool
  | .tcopy i j => i != j
  | .wcopyCtor w v | .wmoveCtor w v => w != v
  | _ => true

def ltStatus (s : LtSys) : List String :=
  let wsl := List.range nLtWs
  let alive := String.join (wsl.map fun w => bit (s.isAlive w))
  let nl := String.join (wsl.map fun w => bit (s.isNull w))
  let tags := String.join ((List.range nLtTags).map fun i => bit (s.tagOf i).isSome)
  let freed := (List.range s.details.length).filter fun d => match s.details[d]? with | some det => det.freed | none => false
  let cnt := wsl.map fun w => match s.wOf w with
    | none => "-"
    | some d => match s.details[d]? with | some det => toString det.cnt | none => "?"
  ["P lt alive=" ++ alive ++ " null=" ++ nl ++ " tags=" ++ tags ++ " freed=" ++ commaList (freed.map toString) ++
     (if s.bad then " BAD" else ""),
   "M cnt=" ++ ",".intercalate cnt]

def ltTag (s : LtSys) (op : LtOp) : String :=
  let rel (w : Nat) : String := match s.wOf w with
    | none => "w-null"
    | some d => match s.details[d]? with
        | some det => if det.cnt = 1 then (if det.alive then "w-last-tag-alive" else "w-last-frees") else "w-shared"
        | none => "w-?"
  let trel (i : Nat) : String := match s.tagOf i with
    | none => "t-empty"
    | some d => match s.details[d]? with
        | some det => if det.cnt = 0 then "t-frees" else "t-outlived-by-watchers"
        | none => "t-?"
  match op with
  | .tnew i => "tnew-" ++ trel i
  | .tdel i => "tdel-" ++ trel i
  | .tcopy i _ => "tcopy-" ++ trel i
  | .tassign _ _ => "tassign"
  | .wnew w => "wnew-" ++ rel w
  | .wtag w _ => "wtag-" ++ rel w
  | .wcopyCtor w v => "wcpc-" ++ rel w ++ (if (s.wOf v).isNone then "-from-null" else "")
  | .wmoveCtor w _ => "wmvc-" ++ rel w
  | .wcopyAssign w v => if w = v then "wcpa-self" else "wcpa-" ++ rel w ++ (if (s.wOf v).isNone then "-from-null" else "")
  | .wmoveAssign w v => if w = v then "wmva-self" else "wmva-" ++ rel w
  | .wswap _ _ => "wswap"
  | .wreset w => "wreset-" ++ rel w

def ltLine (s : St) (ws : List String) : Option (St × List String) := do
  let op ← parseLt ws
  if ¬ op.wellFormed then none
  if op.ok s.lt then
    let l := s.lt.step op
    pure ({ s with lt := l }, ("B " ++ ltTag s.lt op) :: ltStatus l)
  else pure (s, ["B lt-absent", "P absent"])

def stepLine (s : St) (line : String) : St × List String :=
  match words line with
  | [] => (s, [])
  | "case" :: _ => ({}, [line.trimAscii.toString])
  | "cab" :: ws => match cabLine s ws with | some r => r | none => (s, ["bad-op"])
  | "pool" :: ws => match poolLine s ws with | some r => r | none => (s, ["bad-op"])
  | "fd" :: ws => match fdLine s ws with | some r => r | none => (s, ["bad-op"])
  | "lt" :: ws => match ltLine s ws with | some r => r | none => (s, ["bad-op"])
  | _ => (s, ["bad-op"])

def main : IO Unit := runDriver ({} : St) stepLine
