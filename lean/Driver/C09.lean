/- C09 driver: trace acceptor. Input per case: op lines, then the implementation's output lines
prefixed "T ", then "end".  The expected records are computed with the model (formatText /
putsText / clampLevel / filter / render / file-sink rollover rule); the implementation's global
record order (sink 0, unfiltered) must be an interleaving of the per-thread expected sequences
(exactly once, whole, in per-thread order); every other sink must show exactly the filtered
global order; file sinks must hold exactly the expected records, whole, in order, across the
files in creation order, every file but the last at or above the size limit.
Prints `ok …` or `reject <reason>`; `B` lines carry branch tags. -/
import TboxModel.Util
import TboxModel.C09.Model
open Tbox.Util Tbox.C09

/-- deterministic message body shared with the harness -/
def genText (len seed : Nat) : Bytes :=
  (List.range len).map fun i => (48 + ((seed + i * 7 + (i / 64) * 13 + (i * i % 11)) % 75)).toUInt8

def fnv (bs : Bytes) : Nat :=
  (bs.foldl (fun (h : UInt32) b => (h ^^^ b.toUInt32) * 16777619) (2166136261 : UInt32)).toNat

def asciiBytes (s : String) : Bytes := s.toUTF8.toList

def basename (s : String) : String := (s.splitOn "/").getLast!

structure Msg where
  t : Nat
  level : Int
  mod : Option String
  func : Option String
  file : Option String
  line : Int
  kind : Char
  len : Nat
  seed : Nat

structure ERec where
  ttag : Nat
  lvl : Nat
  mod : String
  func : Option String
  file : Option String
  line : Int
  text : Bytes
  tr : Bool
  tags : List String

def optS (o : Option String) : String := o.getD "-"

def ERec.fields (e : ERec) : String :=
  s!"{e.mod} {optS e.func} {optS e.file} {e.line} {e.text.length} {fnv e.text} {if e.tr then 1 else 0}"
def ERec.rline (e : ERec) : String := s!"{e.ttag} {e.lvl} {e.fields}"
/-- what a rendered line shows: the line number is printed only together with a file name -/
def ERec.lline (e : ERec) : String :=
  let e' := if e.file.isNone then { e with line := 0 } else e
  -- the record format cannot tell a text that ends in "(TRUNCATED)" (after a blank or alone) from a truncated text: the
  -- harness's line parser reads the marker; the byte-exact comparison (W lines) is what distinguishes nothing here either
  let mk : Bytes := truncMarker.dropLast
  let e' := if !e'.tr && e'.text.length ≥ mk.length && e'.text.drop (e'.text.length - mk.length) == mk then
      let pre := e'.text.take (e'.text.length - mk.length)
      if pre.isEmpty then { e' with text := [], tr := true }
      else if pre.getLast? == some 32 && pre.length ≥ 2 then { e' with text := pre.dropLast, tr := true }
      else e'
    else e'
  s!"{e.ttag} {Char.ofNat (levelCode e.lvl).toNat} {e'.fields} 1"

def colorField (color : Bool) (lvl : Nat) : String :=
  if color then "c=" ++ String.ofList ((colorCode lvl).map fun b => Char.ofNat b.toNat) else "c=-"

def ERec.llineC (e : ERec) (color : Bool) : String := e.lline ++ " " ++ colorField color e.lvl

def ERec.toRec (e : ERec) : Rec :=
  { level := e.lvl, ts := List.replicate 26 84, tid := asciiBytes (toString e.ttag), module := asciiBytes e.mod,
    func := e.func.map asciiBytes, text := e.text, trunc := e.tr, file := e.file.map asciiBytes,
    line := asciiBytes (toString e.line) }

def nameOk (s : String) : Bool :=
  s.length ≥ 1 && s.length ≤ 64 && s.all fun c => c.isAlphanum || c == '_' || c == '.'
def pathOk (s : String) : Bool :=
  s.length ≥ 1 && s.length ≤ 64 && !s.endsWith "/" && s.all fun c => c.isAlphanum || c == '_' || c == '.' || c == '/'

/-- a name token: plain, or `stem~N` = the stem extended to exactly N characters with its last character (N ≤ 1200) -/
def expandName (ok : String → Bool) (tok : String) : Option String :=
  match tok.splitOn "~" with
  | [t] => if ok t then some t else none
  | [stem, num] =>
    match num.toNat? with
    | some n =>
      if ok stem && num.length ≥ 1 && num.length ≤ 4 && num.all Char.isDigit && n ≥ stem.length && n ≤ 1200 then
        some (stem ++ String.ofList (List.replicate (n - stem.length) (stem.toList.getLast?.getD 'x')))
      else none
    | none => none
  | _ => none

/-- texts of the message kind `m`: they end like the truncation marker -/
def markerTexts : List String := ["(TRUNCATED)", "x (TRUNCATED)", "x(TRUNCATED)", "(TRUNCATED) (TRUNCATED)"]

def parseMsg (T : Nat) (w : String) : Option Msg :=
  match w.splitOn ":" with
  | [t, lv, md, fn, fl, ln, kd, len, seed] => do
    let t ← t.toNat?; let lv ← intOfString? lv; let ln ← intOfString? ln
    let len ← len.toNat?; let seed ← seed.toNat?
    let kd ← (match kd.toList with | [c] => if "psnfwoem".toList.contains c then some c else none | _ => none)
    if t ≥ T || len > (if kd == 'w' then 2147483647 else 200000) || seed > 1000000 || ln.natAbs > 1000000000 || lv.natAbs > 1000 then none else
    let md ← (if md == "-" then some none else (expandName nameOk md).map some)
    let fn ← (if fn == "-" then some none else (expandName nameOk fn).map some)
    let fl ← (if fl == "-" then some none else (expandName pathOk fl).map some)
    pure { t := t, level := lv, mod := md, func := fn, file := fl, line := ln, kind := kd, len := len, seed := seed }
  | _ => none

/-- the record LogPrintfFunc dispatches for a message (model parts a, clamp, Basename) -/
def expectRec (max : Nat) (ttag : Nat) (m : Msg) : ERec :=
  let body := if m.kind == 'w' || m.kind == 'o' || m.kind == 'e' then [] else
              if m.kind == 'm' then asciiBytes (markerTexts.getD (m.len % 4) "") else genText m.len m.seed
  let (text, tr, tags) : Bytes × Bool × List String :=
    match m.kind with
    | 'n' => ([], false, ["fmt-null"])
    | 's' => let r := putsText body max; (r.1, r.2, [if r.2 then "puts-trunc" else "puts-fit"])
    | 'w' | 'o' | 'e' =>
      -- the width family goes through the width-carrying loop `formatW` (uint32 buff_size, int result of vsnprintf)
      let L := if m.kind == 'w' then Nat.max m.len 1 else if m.kind == 'o' then 2147483647 + Nat.max m.len 1 else 7
      let fmt := asciiBytes (if m.kind == 'o' then "%*d%*d" else "ab%lcde")
      match formatW L (m.kind == 'e') max with
      | some (.done tl tr _, _) =>
        ((if tl == L then List.replicate (L - 1) 32 ++ [55] else List.replicate tl 32), tr,
         ["width-fmt"] ++ (if L ≥ 65535 && L ≤ 65537 then ["edge-2^16"] else []) ++ (if L ≥ 2147483646 then ["edge-2^31"] else []))
      | some (.fallback, _) => let r := putsText fmt max; (r.1, r.2, ["vsnprintf-failed"])
      | _ => ([], false, ["fmt-diverged"])
    | k =>
      let msg := if k == 'f' then asciiBytes (toString m.seed) ++ [124] ++ body else body
      match formatText msg max with
      | some (t, tr, rounds) =>
        (t, tr, [if tr then "fmt-trunc" else if rounds == 1 then "fmt-stack" else "fmt-exact"]
          ++ (if msg.length + 1 ≥ 2048 && msg.length ≤ 2050 then ["edge2048"] else [])
          ++ (if msg.length + 1 ≥ max && msg.length ≤ max + 1 then ["edge-max"] else [])
          ++ (if m.kind == 'm' then ["text=marker"] else []))
      | none => ([], false, ["fmt-diverged"])
  { ttag := ttag, lvl := clampLevel m.level, mod := m.mod.getD "???", func := m.func, file := m.file.map basename,
    line := m.line, text := text, tr := tr,
    tags := tags ++ (if m.level < 0 || m.level ≥ 8 then ["clamp"] else []) ++ (if max == 0 then ["max0"] else [])
      ++ (if (m.mod.getD "").length ≥ 990 || (m.func.getD "").length ≥ 1000 || ((m.file.map basename).getD "").length ≥ 1000 then ["name>=1KiB-piece"] else []) }

inductive SKind where | mem | file | stream      -- stream = sync/async stdout or syslog: one unbounded "file"
  deriving BEq

/-- a record dispatched to a file/stream sink: colour at dispatch time; `opt` = the filter was being
reconfigured concurrently and the record passes some but not all of the configurations in force -/
structure PRec where
  e : ERec
  color : Bool
  opt : Bool := false

structure SinkSt where
  kind : SKind
  enabled : Bool := true
  cfg : FilterCfg := {}
  fmax : Nat := 0
  color : Bool := false
  dirty : Bool := false             -- records dispatched since creation / the last `off`
  fd1 : Bool := false               -- writes to fd 1 (at most one such sink per case)
  pending : Array PRec := #[]       -- file/stream sink: everything dispatched to it so far
  aout : Bool := false              -- AsyncStdoutSink: write(2) on fd 1 from the back end
  fl : FileLen := {}                -- file sink: the model state (lengths) replayed from the recorded system calls
  fneed : Bool := false             -- file sink: need_reopen_ (a setter was called while a tail was cached)
  pipe : Bool := false              -- aoutp: fd 1 is a full non-blocking pipe until `off`
  reconf : Bool := false            -- file sink: setFilePath/Prefix/SyncEnable/MaxSize were called while it was in use
  tailKept : Bool := false          -- file sink: the last disable() ended with the kernel still refusing (a tail is retained in memory)

instance : Inhabited SinkSt := ⟨{ kind := .mem }⟩

structure TA where
  max : Nat := 102400
  sinks : Array SinkSt := #[]       -- sink k ≥ 1 is sinks[k-1]
  runIdx : Nat := 0
  tl : List String := []
  tags : List String := []
  err : Option String := none
  merr : Option String := none      -- model-internal divergence (reported as `reject M:` when nothing property-level fails)
  nops : Nat := 0
  nrec : Nat := 0

def TA.fail (a : TA) (msg : String) : TA := { a with err := some s!"op#{a.nops} {msg}" }
def TA.mfail (a : TA) (msg : String) : TA := if a.merr.isSome then a else { a with merr := some s!"op#{a.nops} {msg}" }

/-! ### replay of the recorded system calls (K lines) through the model -/

inductive KEv where
  | mk (ok : Bool)                      -- mkdir of the sink directory
  | op (ok : Bool)                      -- open(O_CREAT) of a new log file
  | wr (asked : Nat) (ans : WAns) (hardName : String)
  | cl
  | sy
  | offBegin
  | pl (ans : PAns)                     -- poll(fd 1, POLLOUT) of the async stdout sink
  | reopen                              -- setFilePath / setFilePrefix / setFileSyncEnable on a file sink
  | setMax (n : Nat)                    -- setFileMaxSize
  deriving Inhabited

def parseKEv (aout : Bool) (ws : List String) : Option KEv :=
  match ws with
  | ["d", r] => some (.mk (r == "ok"))
  | ["o", r] => some (.op (r == "ok"))
  | ["c", _] => some .cl
  | ["y", _] => some .sy
  | ["off-begin"] => some .offBegin
  | ["reopen"] => some .reopen
  | ["setmax", n] => n.toNat?.map .setMax
  | ["p", r, _] => some (.pl (if r == "ready" then .ready else if r == "0" then .timeout else if r == "-EINTR" then .eintr else .err))
  | ["w", a, r] => do
    let a ← a.toNat?
    if r.startsWith "-" then
      let nm := (r.drop 1).toString
      -- the file sink retries EINTR only; the stdout sink also waits out EAGAIN
      if nm == "EINTR" || (aout && nm == "EAGAIN") then some (.wr a .eintr nm) else some (.wr a .err nm)
    else (r.toNat?).map fun k => .wr a (.acc k) ""
  | _ => none

/-- consume the write calls of ONE write loop over `rem` bytes: every call must ask for exactly what is
left; returns (answers, remaining events) or an error -/
def takeLoop : Nat → Nat → List KEv → List WAns → Except String (List WAns × List KEv)
  | 0, _, evs, acc => .ok (acc.reverse, evs)
  | fuel + 1, rem, evs, acc =>
    if rem == 0 then .ok (acc.reverse, evs) else
    match evs with
    | .wr a ans _ :: rest =>
      if a != rem then .error s!"write asked for {a} bytes, the model's loop has {rem} left" else
      match ans with
      | .acc k => if k == 0 then .ok ((ans :: acc).reverse, rest) else takeLoop fuel (rem - k) rest (ans :: acc)
      | .eintr => takeLoop fuel rem rest (ans :: acc)
      | .err => .ok ((ans :: acc).reverse, rest)
    | _ => .error s!"the write loop stopped with {rem} bytes left although the kernel refused nothing"

/-- the write loop of the async stdout sink: like `takeLoop`, and every EAGAIN must be followed by exactly one `poll` (its answer
becomes part of the oracle); returns the answers of one `flush()` -/
def takeLoopS : Nat → Nat → List KEv → List SAns → Except String (List SAns × List KEv)
  | 0, _, evs, acc => .ok (acc.reverse, evs)
  | fuel + 1, rem, evs, acc =>
    if rem == 0 then .ok (acc.reverse, evs) else
    match evs with
    | .wr a ans nm :: rest =>
      if a != rem then .error s!"write asked for {a} bytes, the model's loop has {rem} left" else
      if nm == "EAGAIN" then
        match rest with
        | .pl p :: rest' => takeLoopS fuel rem rest' (.again p :: acc)
        | _ => .error "write() failed with EAGAIN: the model's loop waits in poll() before it writes again, the implementation did not"
      else
      match ans with
      | .acc k => if k == 0 then .ok ((SAns.acc 0 :: acc).reverse, rest) else takeLoopS fuel (rem - k) rest (.acc k :: acc)
      | .eintr => takeLoopS fuel rem rest (.eintr :: acc)
      | .err => .ok ((SAns.err :: acc).reverse, rest)
    | .pl _ :: _ => .error "poll() on fd 1 although the last write() did not fail with EAGAIN"
    | _ => .error s!"the write loop stopped with {rem} bytes left although the kernel refused nothing (after EAGAIN / EINTR from poll() the loop goes on)"

structure Replay where
  fl : FileLen
  need : Bool := false                  -- need_reopen_
  deferred : Bool := false              -- some reconfiguration found a cached tail behind an open file
  max : Nat := 0
  refusedAfterOff : Bool := false       -- some system call was refused after disable() began
  refused : Bool := false               -- some system call was refused at all
  sawOff : Bool := false

/-- walk the events of a file sink, one `flush()` at a time, through `flushRLen` / `reopenLen` -/
def replayFile (max : Nat) : Nat → Replay → List KEv → Except String Replay
  | 0, r, _ => .ok r
  | _, r, [] => .ok r
  | fuel + 1, r, ev :: evs =>
    let note (r : Replay) : Replay := { r with refused := true, refusedAfterOff := r.refusedAfterOff || r.sawOff }
    match ev with
    | .offBegin => replayFile max fuel { r with sawOff := true } evs
    | .sy => replayFile max fuel r evs
    | .pl _ => .error "poll() on a file sink"
    | .setMax n => replayFile n fuel { r with max := n } evs
    | .reopen =>
      -- closeLogFile(): a cached tail behind an open file defers the close to the flush() that writes the tail (need_reopen_);
      -- otherwise the open file (if any) is closed at once, whatever its size
      let r' := reopenLen { st := r.fl, need := r.need }
      if r.fl.cur.isSome && r'.st.cur.isNone then
        match evs with
        | .cl :: rest => replayFile max fuel { r with fl := r'.st, need := r'.need } rest
        | _ => .error "a reconfiguration with nothing cached closes the open log file in the model; the implementation did not close it"
      else replayFile max fuel { r with fl := r'.st, need := r'.need, deferred := r.deferred || r'.need } evs
    | .cl => .error "close() of the log file where the model keeps it open (unwritten tail — also at a reconfiguration — or below the limit)"
    | .mk ok =>
      if r.fl.cur.isSome then .error "mkdir while a log file is open" else
      if ok then replayFile max fuel r evs
      else replayFile max fuel (note { r with fl := (flushRLen max { st := r.fl, need := r.need } { dirOk := false }).st }) evs
    | .op ok =>
      if r.fl.cur.isSome then .error "open() of a new log file while the model still has one open" else
      if !ok then replayFile max fuel (note { r with fl := (flushRLen max { st := r.fl, need := r.need } { openOk := false }).st }) evs else
      -- the flush goes on with its write loop on the new file
      let evs := evs.dropWhile (fun e => match e with | .sy => true | _ => false)
      match evs with
      | .wr a _ _ :: _ =>
        if a < r.fl.cache then .error s!"first write of a flush asks for {a} bytes, fewer than the retained tail {r.fl.cache}" else
        match takeLoop (evs.length + 1) a evs [] with
        | .error e => .error e
        | .ok (answers, rest) =>
          let fr := flushRLen max { st := { r.fl with cache := a }, need := r.need } { writes := answers }
          let fl' := fr.st
          let r := if answers.any (fun x => !x.soft) then note { r with fl := fl', need := fr.need } else { r with fl := fl', need := fr.need }
          if fl'.cur.isNone then
            match rest with
            | .cl :: rest' => replayFile max fuel r rest'
            | _ => .error "the model's flush() closes the file here (batch complete; limit reached or a reconfiguration pending), the implementation did not"
          else replayFile max fuel r rest
      | _ => .error "open() of a new log file not followed by a write"
    | .wr a _ _ =>
      if r.fl.cur.isNone then .error "write() although the model has no log file open" else
      if a < r.fl.cache then .error s!"first write of a flush asks for {a} bytes, fewer than the retained tail {r.fl.cache}" else
      match takeLoop (evs.length + 2) a (ev :: evs) [] with
      | .error e => .error e
      | .ok (answers, rest) =>
        let fr := flushRLen max { st := { r.fl with cache := a }, need := r.need } { writes := answers }
        let fl' := fr.st
        let r' := if answers.any (fun x => !x.soft) then note { r with fl := fl', need := fr.need } else { r with fl := fl', need := fr.need }
        if fl'.cur.isNone then
          match rest with
          | .cl :: rest' => replayFile max fuel r' rest'
          | _ => .error "the model's flush() closes the file here (batch complete; limit reached or a reconfiguration pending), the implementation did not"
        else replayFile max fuel r' rest

/-- the async stdout sink: every flush is one write loop over a fresh batch (the cache is always cleared) -/
def replayStdout : Nat → Replay → List KEv → Except String Replay
  | 0, r, _ => .ok r
  | _, r, [] => .ok r
  | fuel + 1, r, ev :: evs =>
    match ev with
    | .offBegin => replayStdout fuel { r with sawOff := true } evs
    | .wr a _ _ =>
      match takeLoopS (2 * evs.length + 4) a (ev :: evs) [] with
      | .error e => .error e
      | .ok (answers, rest) =>
        -- stdoutLoop: what reached fd 1 / what `cache_.clear()` dropped; only a hard answer to write() may drop anything
        let res := stdoutLoop answers (List.replicate a 0)
        if !res.2.isEmpty && answers.all (·.soft) then .error "the model's loop drops nothing here" else
        replayStdout fuel (if !res.2.isEmpty then { r with refused := true, refusedAfterOff := r.refusedAfterOff || r.sawOff } else r) rest
    | .pl _ => .error "poll() on fd 1 outside a write loop"
    | _ => replayStdout fuel r evs


def expectLine (a : TA) (want : String) (what : String) : TA :=
  match a.tl with
  | l :: rest => if l == want then { a with tl := rest }
                 else a.fail s!"{what}: impl=[{l.take 160}] model=[{want.take 160}]"
  | [] => a.fail s!"{what}: impl=<missing> model=[{want.take 160}]"

def takeWhilePrefix (p : String) (l : List String) : List String × List String :=
  l.span (·.startsWith p)

def sinkOf (a : TA) (k : String) : Option (Nat × SinkSt) := do
  let k ← k.toNat?
  if k = 0 then none else
  let s ← a.sinks[k - 1]?
  pure (k, s)

def passes (s : SinkSt) (e : ERec) : Bool := s.enabled && filter s.cfg (Int.ofNat e.lvl) e.mod

/-- validate the global order of one run against the per-thread expectations -/
def matchGlobal (queues : Array (List ERec)) (base : Nat) (obs : List String) : Except String (List ERec) := do
  let mut q := queues
  let mut out : Array ERec := #[]
  for l in obs do
    let ttag := ((l.splitOn " ").headD "").toNat?.getD 1000000
    if ttag < base || ttag - base ≥ q.size then throw s!"record of an unknown thread: [{l.take 160}]"
    match q[ttag - base]! with
    | [] => throw s!"thread {ttag}: record delivered although all its records were already seen (DUPLICATE or corrupt): [{l.take 160}]"
    | e :: rest =>
      if e.rline != l then
        let later := rest.any (·.rline == l)
        throw (s!"thread {ttag}: " ++ (if later then "record OUT OF ORDER or an earlier one LOST" else "record CORRUPT") ++
               s!": impl=[{l.take 160}] model=[{e.rline.take 160}]")
      q := q.set! (ttag - base) rest
      out := out.push e
  for i in [0:q.size] do
    match q[i]! with
    | e :: _ => throw s!"thread {base + i}: record LOST: [{e.rline.take 160}]"
    | [] => pure ()
  return out.toList

def PRec.bytes (p : PRec) : Bytes := renderC p.color p.e.toRec
def hexMasked (p : PRec) : String := hexOfBytes p.bytes

/-- match the observed record lines against the pending ones, skipping optional ones that are absent;
returns the pending records that are present, or the index of the first observed line that does not fit -/
def matchOpt (prefixOk : Bool) : List String → List PRec → Nat → Except (Nat × String × String) (List PRec)
  | [], ps, i =>
    if prefixOk then .ok [] else
    match ps.find? (!·.opt) with
    | some p => .error (i, "<missing>", p.e.llineC p.color)
    | none => .ok []
  | o :: _, [], i => .error (i, o, "<missing>")
  | o :: os, p :: ps, i =>
    if p.e.llineC p.color == o then (matchOpt prefixOk os ps (i + 1)).map (p :: ·)
    else if p.opt then matchOpt prefixOk (o :: os) ps i
    else .error (i, o, p.e.llineC p.color)

/-- concurrent reconfiguration actions of `runc` -/
inductive CAct where
  | lvl (k : Nat) (md : Option String) (lv : Int)
  | unset (k : Nat) (md : String)
  | max (n : Nat)

def parseCAct (nsinks : Nat) (w : String) : Option CAct :=
  match w.splitOn "," with
  | ["lvl", k, md, lv] => do
    let k ← k.toNat?; let lv ← intOfString? lv
    if k = 0 || k > nsinks || lv.natAbs > 1000 then none else
    if md == "*" then some (.lvl k none lv) else if nameOk md then some (.lvl k (some md) lv) else none
  | ["unset", k, md] => do
    let k ← k.toNat?
    if k = 0 || k > nsinks || !nameOk md then none else some (.unset k md)
  | ["max", n] => do let n ← n.toNat?; if n ≤ 200000 then some (.max n) else none
  | _ => none

def stepOp (a : TA) (line : String) : TA :=
  if a.err.isSome then a else
  let a := { a with nops := a.nops + 1 }
  match words line with
  | ["max", n] =>
    match n.toNat? with
    | some n => if n ≤ 200000 then expectLine { a with max := n } "P max" "max" else expectLine a "bad-op" "malformed op"
    | none => expectLine a "bad-op" "malformed op"
  | ["sink", "rec"] =>
    let a := { a with sinks := a.sinks.push { kind := .mem } }
    expectLine a s!"P sink {a.sinks.size} rec" "sink"
  | ["sink", "file", fmax, bsz, bmin, bmax, ival] =>
    match fmax.toNat?, bsz.toNat?, bmin.toNat?, bmax.toNat?, ival.toNat? with
    | some fmax, some bsz, some bmin, some bmax, some ival =>
      if bsz = 0 || bmin = 0 || bmin > bmax || ival = 0 || bsz > 1000000 || bmax > 64 || ival > 1000 || a.sinks.size ≥ 6 then
        expectLine a "bad-op" "malformed op"
      else
        let a := { a with sinks := a.sinks.push { kind := .file, fmax := fmax } }
        expectLine a s!"P sink {a.sinks.size} file" "sink"
    | _, _, _, _, _ => expectLine a "bad-op" "malformed op"
  | "sink" :: kind :: cfgw =>
    let isSout := kind == "sout" && cfgw.isEmpty
    let isA := ((kind == "aout" || kind == "syslog") && cfgw.length == 4) || (kind == "aoutp" && cfgw.length == 5)
    -- (aoutp: nobody reads fd 1 until `off`, so the async pipe must be able to hold everything that is logged: >= 100000 bytes)
    let roomy := kind != "aoutp" || (match cfgw.map (·.toNat?.getD 0) with | [bsz, _, bmax, _, _] => bsz * bmax ≥ 100000 | _ => false)
    let pszOk := roomy && kind != "aoutp" || roomy && (match cfgw.getLast? with | some w => w.length ≤ 6 && (w.toNat?.map (fun n => n ≥ 4096 && n ≤ 65536)).getD false | none => false)
    let cfgw := if kind == "aoutp" then cfgw.take 4 else cfgw
    let nums := cfgw.map (·.toNat?.getD 0)
    let okCfg := pszOk && cfgw.all (fun w => w.toNat?.isSome && w.length ≤ 9) &&
      (match nums with
       | [bsz, bmin, bmax, ival] => !(bsz = 0 || bmin = 0 || bmin > bmax || ival = 0 || bsz > 1000000 || bmax > 64 || ival > 1000)
       | _ => true)
    let fd1 := kind != "syslog"
    if !(isSout || isA) || !okCfg || a.sinks.size ≥ 6 || (fd1 && a.sinks.any (·.fd1)) then expectLine a "bad-op" "malformed op" else
    let a := { a with sinks := a.sinks.push { kind := .stream, fd1 := fd1, aout := kind == "aout" || kind == "aoutp", pipe := kind == "aoutp" }, tags := a.tags ++ ["sink-" ++ kind] }
    expectLine a s!"P sink {a.sinks.size} {kind}" "sink"
  | ["color", k, v] =>
    match sinkOf a k with
    | some (k, s) =>
      if (v != "0" && v != "1") || (s.enabled && s.dirty) then expectLine a "bad-op" "malformed op" else
      expectLine { a with sinks := a.sinks.set! (k - 1) { s with color := v == "1" }, tags := a.tags ++ (if v == "1" then ["color-on"] else []) } "P color" "color"
    | none => expectLine a "bad-op" "malformed op"
  | "wfault" :: vs =>
    if vs.isEmpty || vs.length > 64 || !vs.all (fun w => w.length ≤ 6 && w.toNat?.isSome) then expectLine a "bad-op" "malformed op"
    else expectLine { a with tags := a.tags ++ ["wfault"] } "P wfault" "wfault"
  | "kfault" :: k :: ents =>
    let entOk (e : String) : Bool :=
      match e.splitOn "=" with
      | [l, r] =>
        let lc := l.toList
        (match lc with
         | c :: ds => "wocydpWOCYDP".toList.contains c && !ds.isEmpty && ds.length ≤ 4 && ds.all Char.isDigit &&
            (let kind := c.toLower
             if r.toList.head?.map Char.isDigit == some true then r.length ≤ 7 && r.toList.all Char.isDigit && (r.toNat?.getD 0) ≥ 1 && kind == 'w'
             else (r == "ZERO" && (kind == 'w' || kind == 'p')) || (r == "READY" && kind == 'p') ||
                  ["EINTR", "EAGAIN", "ENOSPC", "EIO", "EFBIG", "EDQUOT", "EPIPE", "EMFILE", "EACCES", "EEXIST", "EBADF", "ENOMEM", "EINVAL"].contains r)
         | [] => false)
      | _ => false
    match sinkOf a k with
    | some (_, s) =>
      if ents.isEmpty || ents.length > 64 || !(s.kind == .file || s.aout) || !ents.all entOk then expectLine a "bad-op" "malformed op"
      else expectLine { a with tags := a.tags ++ ["kfault"] ++ (if ents.any (fun e => e.startsWith "o" || e.startsWith "O" || e.startsWith "d" || e.startsWith "D") then ["kfault-open"] else []) } "P kfault" "kfault"
    | none => expectLine a "bad-op" "malformed op"
  | ["sig", k, n] =>
    match sinkOf a k with
    | some (_, s) =>
      if s.pipe && s.enabled && n.length ≤ 2 && (n.toNat?.map (fun v => v ≥ 1 && v ≤ 20)).getD false then
        expectLine { a with tags := a.tags ++ ["signal-sent"] } "P sig" "sig"
      else expectLine a "bad-op" "malformed op"
    | none => expectLine a "bad-op" "malformed op"
  | ["fcfg", k, what, v] =>
    match sinkOf a k with
    | some (k, s) =>
      let ok := s.kind == .file && ((what == "path" && (v == "same" || v == "new")) || (what == "prefix" && (v == "same" || v == "new"))
                 || (what == "sync" && (v == "0" || v == "1")) || (what == "max" && v.length ≤ 9 && v.toNat?.isSome))
      if !ok then expectLine a "bad-op" "malformed op" else
      expectLine { a with sinks := a.sinks.set! (k - 1) { s with reconf := true },
                          tags := a.tags ++ ["file-reconf", "fcfg-" ++ what ++ (if v == "same" then "-same" else "")] } "P fcfg" "fcfg"
    | none => expectLine a "bad-op" "malformed op"
  | ["settle", n] =>
    if n.length ≤ 3 && (n.toNat?.map (fun v => v ≥ 1 && v ≤ 200)).getD false then expectLine a "P settle" "settle" else expectLine a "bad-op" "malformed op"
  | ["reent"] =>
    if !a.sinks.isEmpty then expectLine a "bad-op" "malformed op" else
    -- the model: a thread inside Dispatch whose channel function logs makes no further step under any schedule
    let sys : RSys Nat Nat := { threads := fun u => if u = 0 then { cur := some [.call 1] } else {}, holder := some 0 }
    let stuck := (rsysRun (fun _ => [.emit 0]) sys [0, 0, 0, 0]).trace.isEmpty && (rsysRun (fun _ => [.emit 0]) sys [0, 0, 0, 0]).holder == some 0
    let want := if stuck then "M reent deadlock" else "M reent returned"
    (match a.tl with
     | l :: rest =>
       let a := { a with tl := rest, tags := a.tags ++ ["reentrant-channel"] }
       if l == want then a else if l.startsWith "M reent" then a.mfail s!"re-entrant channel function: impl=[{l}] model=[{want}]"
       else a.fail s!"reent: impl=[{l.take 160}] model=[{want}]"
     | [] => a.fail s!"reent: impl=<missing> model=[{want}]")
  | ["lvl", k, md, lv] =>
    match sinkOf a k, intOfString? lv with
    | some (k, s), some lv =>
      if md == "*" then
        expectLine { a with sinks := a.sinks.set! (k - 1) { s with cfg := s.cfg.setDefault lv }, tags := a.tags ++ ["lvl-default"] } "P lvl" "lvl"
      else if nameOk md then
        expectLine { a with sinks := a.sinks.set! (k - 1) { s with cfg := s.cfg.setModule md lv }, tags := a.tags ++ ["lvl-module"] } "P lvl" "lvl"
      else expectLine a "bad-op" "malformed op"
    | _, _ => expectLine a "bad-op" "malformed op"
  | ["unset", k, md] =>
    match sinkOf a k with
    | some (k, s) =>
      if nameOk md then
        expectLine { a with sinks := a.sinks.set! (k - 1) { s with cfg := s.cfg.unset md }, tags := a.tags ++ ["unset"] } "P unset" "unset"
      else expectLine a "bad-op" "malformed op"
    | none => expectLine a "bad-op" "malformed op"
  | ["on", k] =>
    match sinkOf a k with
    | some (k, s) =>
      expectLine { a with sinks := a.sinks.set! (k - 1) { s with enabled := true }, tags := a.tags ++ (if s.enabled then [] else ["re-enable"]) }
        s!"P on {k} {if s.enabled then 0 else 1}" "on"
    | none => expectLine a "bad-op" "malformed op"
  | ["off", k] =>
    match sinkOf a k with
    | none => expectLine a "bad-op" "malformed op"
    | some (k, s) =>
      let wasEnabled := s.enabled
      let s := { s with enabled := false, dirty := false, pipe := false }
      let a := { a with sinks := a.sinks.set! (k - 1) s }
      if s.kind == .mem then expectLine a s!"P off {k}" "off" else
      -- listing: K <k> <system call> … (recorded calls), F <k> <i> <size> <normalised size>, then per line L/W (or X for damage),
      -- I <faults injected>, then P off k files=n
      let (lst, rest) := a.tl.span (fun l => l.startsWith "F " || l.startsWith "L " || l.startsWith "W " || l.startsWith "X " || l.startsWith "I " || l.startsWith "K ")
      let a := { a with tl := rest }
      let fl := lst.filter (·.startsWith "F ")
      let sizes := fl.map fun l => ((words l).getD 3 "").toNat?.getD 0
      -- (0) the recorded system calls: the kernel's answers are the oracle, the calls must be an execution of the model (M-level)
      let kl := lst.filter (·.startsWith "K ")
      let evs : List KEv := kl.filterMap fun l => parseKEv s.aout ((words l).drop 2)
      let hardOf (e : KEv) : Bool := match e with | .mk ok => !ok | .op ok => !ok | .wr _ ans _ => !ans.soft | _ => false
      let anyRefused := evs.any hardOf
      let afterOff := (evs.dropWhile (fun e => match e with | .offBegin => false | _ => true))
      let refusedAfterOff := afterOff.any hardOf
      let (a, s) : TA × SinkSt :=
        if evs.length != kl.length then (a.mfail s!"sink {k}: unparsable K line", s) else
        if s.kind == .file then
          match replayFile s.fmax (evs.length + 1) { fl := s.fl, need := s.fneed, max := s.fmax } (evs.filter fun e => match e with | .offBegin => false | _ => true) with
          | .error e => (a.mfail s!"sink {k}: the recorded system calls are not an execution of the model's flush(): {e}", s)
          | .ok r =>
            let want := r.fl.closed ++ r.fl.cur.toList
            let a := if want != sizes then a.mfail s!"sink {k}: file sizes {sizes} differ from the model's {want} (replayed from the recorded system calls)" else a
            let a := if r.deferred then { a with tags := a.tags ++ ["reconf-with-tail"] } else a
            (a, { s with fl := r.fl, fneed := r.need, fmax := r.max })
        else if s.aout then
          match replayStdout (evs.length + 1) { fl := {} } (evs.filter fun e => match e with | .offBegin => false | _ => true) with
          | .error e => (a.mfail s!"sink {k}: the recorded write() calls on fd 1 are not an execution of the model's flush(): {e}", s)
          | .ok _ => (a, s)
        else (a, s)
      let a := { a with sinks := a.sinks.set! (k - 1) s }
      let ktags := (if anyRefused then ["kernel-refused"] else []) ++ (if refusedAfterOff then ["refused-at-disable"] else [])
        ++ (if evs.any (fun e => match e with | .wr _ (.acc _) _ => false | .wr _ .eintr _ => true | _ => false) then ["write-retried"] else [])
        ++ (if evs.any (fun e => match e with | .op ok => !ok | .mk ok => !ok | _ => false) then ["open-refused"] else [])
        ++ (if evs.any (fun e => match e with | .pl _ => true | _ => false) then ["poll-after-EAGAIN"] else [])
        ++ (if evs.any (fun e => match e with | .pl .eintr => true | _ => false) then ["poll-EINTR"] else [])
        ++ (if evs.any (fun e => match e with | .pl .err => true | .pl .timeout => true | _ => false) then ["poll-error/0"] else [])
        ++ (if evs.any (fun e => match e with | .wr a (.acc k) _ => k != 0 && k < a | _ => false) then ["short-write"] else [])
      -- a hard error on fd 1: the rest of that batch is dropped (C09_stdout_faults): nothing to compare record by record
      if s.aout && anyRefused then
        expectLine { a with tags := a.tags ++ ktags ++ ["stdout-hard-error"] } s!"P off {k} files={fl.length}" "off" else
      -- when the kernel was still refusing after disable() began, the cached tail is legitimately not on disk: the files hold a
      -- prefix of the records' bytes, possibly ending inside a record (C09_file_whole_records_faults: files ++ cache = records)
      -- (`off` on a sink that is already disabled makes no system call: the verdict of the disable() that did stands)
      let prefixOk := s.kind == .file && (refusedAfterOff || (!wasEnabled && s.tailKept))
      let s := { s with tailKept := prefixOk }
      let a := { a with sinks := a.sinks.set! (k - 1) s }
      let body := lst.filter (fun l => l.startsWith "L " || l.startsWith "X ")
      let xs := lst.filter (·.startsWith "X ")
      let tailPartial := prefixOk && xs.length == 1 && (match body.getLast? with | some l => l.startsWith "X " && (words l).getD 3 "" == "partial" | none => false)
      match (if tailPartial then none else xs.head?) with
      | some x => a.fail s!"sink {k}: damaged / partial / unparsable record in the output (record SPLIT, DUPLICATED in part, or corrupt): [{x.take 200}]"
      | none =>
        let ll := lst.filter (·.startsWith "L ")
        let wl := lst.filter (·.startsWith "W ")
        let injected := (lst.filter (·.startsWith "I ")).any (fun l => ((words l).getD 1 "0").toNat?.getD 0 > 0)
        let adjs := fl.map fun l => ((words l).getD 4 "").toNat?.getD 0
        let n := fl.length
        -- (1) the records, in creation order, are exactly the expected ones (optional ones may be absent)
        let obs := ll.map fun l => " ".intercalate ((words l).drop 3)
        match matchOpt prefixOk obs s.pending.toList 0 with
        | .error (i, o, w) =>
          a.fail (s!"sink {k}: record #{i} (in creation order) differs — LOST, DUPLICATED, reordered or damaged: " ++
                  s!"impl=[{o.take 160}] model=[{w.take 160}]" ++
                  (if o == "<missing>" && anyRefused then " (the kernel refused nothing after disable() began: everything logged before must be on disk)" else ""))
        | .ok present =>
        -- (2) byte-exact rendering of the short records
        let wantW := (present.filter (fun p => p.bytes.length ≤ 200)).map hexMasked
        let obsW := wl.map fun l => (words l).getD 3 ""
        if obsW != wantW then
          let i := ((obsW.zip wantW).takeWhile (fun p => p.1 == p.2)).length
          a.fail s!"sink {k}: rendered bytes of short record #{i} differ: impl=[{obsW.getD i "<missing>"}] model=[{wantW.getD i "<missing>"}]"
        else
        -- (3) rollover rule: every file but the last reached the limit; no empty file (unless the kernel refused the first write
        -- into a new file); files only if records
        -- (after a reconfiguration the files closed by it may be below the limit, and the limit itself may have changed: the sizes are
        -- then checked against the replayed model only)
        if !s.reconf && ((sizes.dropLast).any (· == 0) || (sizes.any (· == 0) && !anyRefused && !(s.fl.cur == some 0))) then a.fail s!"sink {k}: an empty log file exists" else
        if !s.reconf && (sizes.dropLast).any (· < s.fmax) then
          a.fail s!"file sink {k}: a file was rolled over below the limit {s.fmax}: sizes={sizes}" else
        if !prefixOk && !(sizes.any (· == 0)) && present.isEmpty != (n == 0) then a.fail s!"sink {k}: {n} files for {present.length} records" else
        if s.kind == .stream && n > 1 then a.fail s!"sink {k}: {n} streams" else
        let totalWant := (present.map fun p => p.bytes.length).foldl (· + ·) 0
        if !tailPartial && adjs.foldl (· + ·) 0 != totalWant then
          a.fail s!"sink {k}: total size {adjs.foldl (· + ·) 0} (thread ids normalised) differs from the rendered records' {totalWant}" else
        let tags := (if n ≥ 2 then ["rollover"] else []) ++ (if n ≥ 1 then ["out-nonempty"] else ["out-empty"])
          ++ (if s.kind == .file && n ≥ 1 then ["file-nonempty"] else [])
          ++ (if s.kind == .file && present.any (fun p => p.bytes.length > s.fmax) then ["limit<record"] else [])
          ++ (if present.any (·.color) then ["colored-record"] else [])
          ++ (if injected then ["wfault-hit"] else []) ++ ktags
          ++ (if prefixOk && present.length < (s.pending.toList.filter (!·.opt)).length then ["tail-retained"] else [])
        expectLine { a with tags := a.tags ++ tags } s!"P off {k} files={n}" "off"
  | op :: tw :: restw =>
    if op != "run" && op != "runc" && op != "runp" then expectLine a "bad-op" "malformed op" else
    -- runp <T> <usec> …: paced logging (each thread pauses 0.2–1.8 × usec between records); same expectations as run
    let paceOk := op != "runp" || (match restw.head? with | some w => w.length ≤ 4 && (w.toNat?.map (fun n => n ≥ 1 && n ≤ 5000)).getD false | none => false)
    let restw := if op == "runp" then restw.drop 1 else restw
    match (if paceOk then tw.toNat? else none) with
    | none => expectLine a "bad-op" "malformed op"
    | some T =>
      -- runc: <A> concurrent reconfiguration actions precede the message specs
      let nA := if op == "runc" then (restw.headD "").toNat?.getD 1000 else 0
      let restw := if op == "runc" then restw.drop 1 else restw
      let actsW := restw.take nA
      let specs := restw.drop nA
      if T = 0 || T > 8 || tw.length > 2 || specs.length > 400 || nA > 16 || actsW.length != nA then expectLine a "bad-op" "malformed op" else
      match specs.mapM (parseMsg T), actsW.mapM (parseCAct a.sinks.size) with
      | some msgs, some acts =>
        if acts.any (fun c => match c with | .max n => n != a.max | _ => false) then expectLine a "bad-op" "malformed op" else
        let base := a.runIdx * 8
        let queues : Array (List ERec) := (Array.range T).map fun t =>
          (msgs.filter (·.t == t)).map (expectRec a.max (base + t))
        let (rl, rest) := a.tl.span (·.startsWith "R ")
        let a := { a with tl := rest, runIdx := a.runIdx + 1 }
        let ofSink (k : Nat) : List String :=
          (rl.filter fun l => (words l).getD 1 "" == toString k).map fun l => " ".intercalate ((words l).drop 2)
        match matchGlobal queues base (ofSink 0) with
        | .error e => a.fail ("global order (unfiltered channel): " ++ e)
        | .ok G => Id.run do
          let active := (queues.toList.filter (!·.isEmpty)).length
          let recTags := (G.map (·.tags)).flatten.eraseDups
          let switches := ((G.zip (G.drop 1)).filter fun p => p.1.ttag != p.2.ttag).length
          let newTags := a.tags ++ recTags ++ (if active ≥ 2 then ["threads>=2"] else ["threads1"])
                                 ++ (if switches ≥ active && active ≥ 2 then ["interleaved"] else [])
                                 ++ (if nA > 0 then ["concurrent-reconf"] else []) ++ (if op == "runp" then ["paced"] else [])
          let mut a := { a with nrec := a.nrec + G.length, tags := newTags }
          for i in [0:a.sinks.size] do
            if a.err.isSome then break
            let s := a.sinks[i]!
            -- every filter configuration in force at some moment of the run
            let cfgs : List FilterCfg := acts.foldl (fun (acc : List FilterCfg) c =>
              let cur := acc.getLast?.getD s.cfg
              match c with
              | .lvl k md lv => if k == i + 1 then acc ++ [match md with | some m => cur.setModule m lv | none => cur.setDefault lv] else acc
              | .unset k md => if k == i + 1 then acc ++ [cur.unset md] else acc
              | .max _ => acc) [s.cfg]
            let must (e : ERec) : Bool := s.enabled && cfgs.all fun c => filter c (Int.ofNat e.lvl) e.mod
            let may (e : ERec) : Bool := s.enabled && cfgs.any fun c => filter c (Int.ofNat e.lvl) e.mod
            let sel := G.filter may
            if s.enabled && (G.filter must).length < G.length then a := { a with tags := a.tags ++ ["filter-drop"] }
            if s.enabled && !sel.isEmpty then a := { a with tags := a.tags ++ ["filter-pass"] }
            let s := { s with cfg := cfgs.getLast?.getD s.cfg, dirty := s.dirty || s.enabled }
            match s.kind with
            | .mem =>
              let obs := ofSink (i + 1)
              let pend := sel.map fun e => ({ e := e, color := false, opt := !must e } : PRec)
              -- reuse matchOpt on the in-memory line format
              let rec go : List String → List PRec → Nat → Option (Nat × String × String)
                | [], ps, j => (ps.find? (!·.opt)).map fun p => (j, "<missing>", p.e.rline)
                | o :: _, [], j => some (j, o, "<missing>")
                | o :: os, p :: ps, j =>
                  if p.e.rline == o then go os ps (j + 1) else if p.opt then go (o :: os) ps j else some (j, o, p.e.rline)
              match go obs pend 0 with
              | some (j, o, w) =>
                a := a.fail (s!"sink {i + 1}: record #{j} differs from the filtered global order (a call that passes must produce exactly one record, " ++
                             s!"one that does not none): impl=[{o.take 160}] model=[{w.take 160}]")
              | none => a := { a with sinks := a.sinks.set! i s }
            | _ =>
              let add := sel.map fun e => ({ e := e, color := s.color, opt := !must e } : PRec)
              a := { a with sinks := a.sinks.set! i { s with pending := s.pending ++ add.toArray } }
          return (if a.err.isSome then a else expectLine a s!"P run {G.length}" "run")
      | _, _ => expectLine a "bad-op" "malformed op"
  | _ => expectLine a "bad-op" "malformed op"

structure DS where
  ops : Array String := #[]
  tl : Array String := #[]

def finish (d : DS) : List String :=
  -- a sanitizer abort / crash / timeout of the implementation outranks whatever the cut-off output looks like
  match d.tl.toList.find? (·.startsWith "CRASH") with
  | some c => ["reject implementation " ++ c ++ " (after " ++ toString (d.tl.size - 1) ++ " output lines)"]
  | none =>
  let a : TA := d.ops.foldl stepOp ({ tl := d.tl.toList } : TA)
  let tagsLine := if a.tags.isEmpty then [] else ["B " ++ " ".intercalate a.tags.eraseDups]
  match a.err with
  | some e => tagsLine ++ ["reject " ++ e]
  | none =>
    match a.tl with
    | [] =>
      (match a.merr with
       | some e => tagsLine ++ ["reject M: " ++ e]
       | none => tagsLine ++ [s!"ok ops={a.nops} records={a.nrec}"])
    | l :: _ => tagsLine ++ ["reject unexpected extra implementation output: [" ++ (l.take 200).toString ++ "]"]

def stepLine (d : DS) (line : String) : DS × List String :=
  let t := line.trimAscii.toString
  if t.isEmpty then (d, [])
  else if t.startsWith "case " then ({}, [t])
  else if t == "end" then ({}, finish d)
  else if t.startsWith "T " then ({ d with tl := d.tl.push (t.drop 2).toString }, [])
  else ({ d with ops := d.ops.push t }, [])

def main : IO Unit := runDriver ({} : DS) stepLine
