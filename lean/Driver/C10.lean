/- C10 driver: trace acceptor.  Input per case: op lines, then the implementation's output lines
prefixed "T ", then "end".  For every pipe lifecycle (`init` … `cleanup`) it
 (1) decides the PROPERTY on the delivered stream with the abstract spec (`Spec.accept`: an
     interleaving of whole appends, per-thread order, nothing lost / duplicated), callbacks not
     overlapping, cleanup returned;
 (2) checks the observed block sequence with `blockRule` (TboxModel/C10/BlockRule.lean) — sound by
     theorem C10_observable_accepted: every complete model run passes it, so a rejected run is not a
     run of the model — and then rebuilds a model interleaving with `schedule` (Sched.lean; certified
     by C10_reconstruction_certified: its recorded steps ARE a model execution) that must deliver
     exactly the observed blocks: the run of the real code is then a run of the model;
 (3) M-class observables: live buffer allocations (peak, and at a quiescent `fillhold` point),
     outcome of an append racing with cleanup (`late`, documented only).
Prints `ok …`, `reject <reason>` (property level) or `reject M: <reason>` (model-internal observable: block
partition, buffer count, failed reconstruction — a broken correspondence, not by itself a property violation). -/
import TboxModel.Util
import TboxModel.C10.Model
import TboxModel.C10.Spec
import TboxModel.C10.BlockRule
import TboxModel.C10.Sched
open Tbox.Util Tbox.C10

/-! record format shared with props/C10/harness.cpp -/
def payloadByte (tid seq i : Nat) : UInt8 := UInt8.ofNat ((tid * 37 + seq * 11 + i * 7 + 3) % 251)

def recordBytes (tid seq len : Nat) : List UInt8 :=
  [UInt8.ofNat (0xA0 + tid), UInt8.ofNat (seq / 256), UInt8.ofNat (seq % 256), UInt8.ofNat (len / 256), UInt8.ofNat (len % 256)]
    ++ (List.range len).map (payloadByte tid seq)

/-- tail-recursive hex decoding -/
def hexToBytes (s : String) : Option (Array UInt8) :=
  if s == "-" then some #[] else
  let rec go (cs : List Char) (acc : Array UInt8) : Option (Array UInt8) :=
    match cs with
    | [] => some acc
    | [_] => none
    | a :: b :: rest =>
      match hexVal a, hexVal b with
      | some x, some y => go rest (acc.push (UInt8.ofNat (x * 16 + y)))
      | _, _ => none
  go s.toList #[]

inductive Tok where | app (len : Nat) (grouped : Bool) | zero

def parseTok (w : String) : Option Tok :=
  if w == "z" then some .zero
  else if w.startsWith "g" then
    match (w.drop 1).toString.toNat? with | some n => if n ≤ 20000 then some (.app n true) else none | none => none
  else match w.toNat? with | some n => if n ≤ 20000 then some (.app n false) else none | none => none

structure Live where
  cfg : Cfg
  nextSeq : Array Nat := Array.replicate 8 0
  prog : Array (List (List UInt8)) := Array.replicate 8 []      -- appended in this lifecycle, per thread, in order
  declared : Array (Option (List Tok)) := Array.replicate 8 none   -- producers declared for the next `run`
  nrec : Nat := 0
  echo : Option Nat := none     -- `echo` script active: payload length of the sink's nested appends (pseudo-producer 8)

structure TAcc where
  live : Option Live := none
  tl : List String := []
  tags : List String := []
  err : Option String := none
  nops : Nat := 0
  lifecycles : Nat := 0
  records : Nat := 0
  blocks : Nat := 0

def expectLine (a : TAcc) (want : String) (what : String) : TAcc :=
  match a.tl with
  | l :: rest => if l == want then { a with tl := rest }
                 else { a with err := some s!"op#{a.nops} {what}: impl=[{l.take 120}] expected=[{want}]" }
  | [] => { a with err := some s!"op#{a.nops} {what}: impl=<missing> expected=[{want}]" }

/-! ### diagnostics for a rejected stream -/

def diagnose (prog : Nat → List (List UInt8)) (stream : List UInt8) : String :=
  let rec go (g : Spec.Prog) (s : List UInt8) (off : Nat) : Nat → String
    | 0 => "?"
    | fuel + 1 =>
      match s with
      | [] =>
        let left := (List.range 9).filter fun p => !(Spec.dropEmpties (g p)).isEmpty
        match left with
        | [] => "?"
        | p :: _ => s!"LOST: {(Spec.dropEmpties (g p)).length} append(s) of thread {p} never delivered (stream ended at offset {off})"
      | b :: _ =>
        match Spec.tidOfByte b with
        | none => s!"offset {off}: byte {b.toNat} is not the start of any append (torn, duplicated or reordered data)"
        | some p =>
          match Spec.dropEmpties (g p) with
          | [] => s!"offset {off}: an append of thread {p} starts here but that thread has nothing pending (DUPLICATE or out of order)"
          | d :: ds =>
            if d.isPrefixOf s then go (Spec.Prog.set g p ds) (s.drop d.length) (off + d.length) fuel
            else
              let seq := (d.getD 1 0).toNat * 256 + (d.getD 2 0).toNat
              if s.isPrefixOf d then s!"LOST: the stream ends at offset {off + s.length} inside the append of thread {p} seq {seq} ({d.length} bytes)" else
              s!"offset {off}: next append of thread {p} (seq {seq}, {d.length} bytes) is NOT CONTIGUOUS / not next in its thread's order"
  go prog stream 0 (stream.length + 2)

def splitBlocks (stream : List UInt8) : List Nat → List (List UInt8)
  | [] => []
  | n :: ns => stream.take n :: splitBlocks (stream.drop n) ns

def prefixSums (l : List Nat) : List Nat := (l.foldl (fun (acc : List Nat × Nat) n => ((acc.2 + n) :: acc.1, acc.2 + n)) ([], 0)).1

/-- the `cleanup` of a live pipe: consume `P cleanup ok`, `K`, `S`, `P cb …` and judge -/
def judgeCleanup (a : TAcc) (lv : Live) : TAcc :=
  let a := expectLine a "P cleanup ok" "cleanup() did not return normally"
  if a.err.isSome then a else
  match a.tl with
  | kl :: sl :: cl :: il :: nl :: rest =>
    match words kl, words sl, words nl with
    | ["K", ks], ["S", hx], ["N", ns] =>
      -- nested appends made by the sink callback (all completed before cleanup began): block ordinals, in order
      let nested? : Option (List Nat) := if ns == "-" then some [] else (ns.splitOn ",").mapM (·.toNat?)
      match nested? with
      | none => { a with err := some s!"op#{a.nops} unparsable N line" }
      | some nested =>
      if nested.length > 0 && lv.echo.isNone then { a with err := some s!"op#{a.nops} N line reports nested appends but no echo script is active" } else
      let kv (w : String) (key : String) : Option Nat := if w.startsWith key then (w.drop key.length).toString.toNat? else none
      let (bp?, peak?) := match words il with
        | ["I", w1, w2] => (kv w1 "bp=", kv w2 "peak=")
        | _ => (none, none)
      match bp?, peak? with
      | none, _ | _, none => { a with err := some s!"op#{a.nops} expected the I line, got [{il.take 60}]" }
      | some bp, some peak =>
      let realBp := bp != 0
      -- M-class: buffers alive at once.  buff_num_ <= max (C10_buffers_bounded); the back end decrements
      -- buff_num_ before it deletes the buffer, so ONE more allocation may be alive transiently.
      if peak > lv.cfg.maxN + 1 || peak < lv.cfg.minN then
        { a with err := some s!"M: op#{a.nops} M-class: peak of live buffer allocations {peak} outside [{lv.cfg.minN}, buff_max_num {lv.cfg.maxN} + 1 in deletion] (C10_buffers_bounded)" } else
      let lens? : Option (List Nat) := if ks == "-" then some [] else (ks.splitOn ",").mapM (·.toNat?)
      match lens?, hexToBytes hx with
      | some lens, some arr =>
        let stream := arr.toList
        let a := { a with tl := rest }
        if cl != "P cb overlap=0" then { a with err := some s!"op#{a.nops} sink callbacks OVERLAPPED: [{cl}]" } else
        let nestedRecs : List (List UInt8) := (List.range nested.length).map fun j => recordBytes 8 j (lv.echo.getD 0)
        let prog : Nat → List (List UInt8) := fun p => if p == 8 then nestedRecs else lv.prog.getD p []
        -- (1) the property, decided by the abstract spec
        if !Spec.accept prog stream then
          { a with err := some s!"op#{a.nops} delivered stream is not an interleaving of the appends: {diagnose prog stream}" }
        else
        match Spec.parse (stream.length + 1) prog stream with
        | none => { a with err := some "internal: accept/parse disagree" }
        | some (order, _) =>
          -- (2) the run must be a run of the model
          if lens.foldl (· + ·) 0 != stream.length then
            { a with err := some s!"op#{a.nops} block lengths do not add up to the stream" } else
          if lens.any (· == 0) then { a with err := some s!"M: op#{a.nops} sink called with an EMPTY block" } else
          let blocks := splitBlocks stream lens
          if !blockRule lv.cfg.size (order.map (·.2)) blocks then
            let bnds := boundsOf (order.map (·.2))
            let ends := (prefixSums lens).reverse
            let bad := (List.zip lens ends).findIdx? (fun (n, e) => n == 0 || n > lv.cfg.size || (n != lv.cfg.size && !bnds.contains e))
            let k := bad.getD 0
            { a with err := some s!"M: op#{a.nops} block sequence is not a run of the model (blockRule, theorem C10_observable_accepted): block #{k} has {lens.getD k 0} bytes (buffer size {lv.cfg.size}) and ends at stream offset {ends.getD k 0}, which is not the end of an append — a partial block must end where an append ends" } else
          let maxE := lv.nrec + nested.length + 1
          let sch := schedule lv.cfg prog order (prefixSums lens) maxE
          match sch.err with
          | some e => { a with err := some s!"M: op#{a.nops} reconstruction failed on a run that satisfies the block rule (defect of the reconstruction, not shown of the implementation): {e}" }
          | none =>
            if sch.s.delivered != blocks then
              { a with err := some s!"M: op#{a.nops} reconstruction delivered other blocks than observed although the block rule holds (defect of the reconstruction, not shown of the implementation)" }
            else if !sch.s.joined || sch.s.late then { a with err := some "internal: model schedule did not end in a clean join" }
            else
              let nthreads := ((List.range 8).filter fun p => !(Spec.dropEmpties (prog p)).isEmpty).length
              let switches := (order.zip (order.drop 1)).filter (fun (x, y) => x.1 != y.1) |>.length
              let partials := (lens.dropLast.filter (· < lv.cfg.size)).length
              let spanning := order.any (fun pd => pd.2.length > lv.cfg.size)
              let small := order.any (fun pd => pd.2.length < lv.cfg.size)
              let exact := order.any (fun pd => pd.2.length == lv.cfg.size)
              let tags := (if nthreads > 1 then ["producers>1"] else ["producers<=1"])
                ++ (if switches > nthreads then ["interleaved"] else [])
                ++ (if partials > 0 then ["timed-flush"] else [])
                ++ (if spanning then ["append>buffer"] else [])
                ++ (if small then ["append<buffer"] else [])
                ++ (if exact then ["append=buffer"] else [])
                ++ (if sch.blockedSeen then ["model-backpressure"] else [])
                ++ (if realBp then ["real-backpressure"] else [])
                ++ (if nested.length > 0 then ["nested-append"] else if lv.echo.isSome then ["echo-idle"] else [])
                ++ (if lv.cfg.minN == lv.cfg.maxN then ["min=max"] else ["min<max"])
                ++ (if lv.cfg.size == 1 then ["size=1"] else [])
                ++ (if stream.isEmpty then ["empty-stream"] else [])
                ++ (if lens.getLast? != some lv.cfg.size && !lens.isEmpty then ["cleanup-flushed-partial"] else [])
              { a with tags := a.tags ++ tags, live := none, lifecycles := a.lifecycles + 1,
                       records := a.records + order.length, blocks := a.blocks + lens.length }
      | _, _ => { a with err := some s!"op#{a.nops} unparsable K/S lines" }
    | _, _, _ => { a with err := some s!"op#{a.nops} expected K, S … N lines after cleanup, got [{kl.take 60}]" }
  | _ => { a with err := some s!"op#{a.nops} implementation output ends inside cleanup" }

def inRange (w : String) (hi : Nat) : Option Nat :=
  match w.toNat? with | some n => if n ≤ hi then some n else none | none => none

def stepOp (a : TAcc) (line : String) : TAcc :=
  if a.err.isSome then a else
  let a := { a with nops := a.nops + 1 }
  let bad := expectLine a "bad-op" "malformed op"
  match words line with
  | ["init", w1, w2, w3, w4] =>
    match inRange w1 65536, inRange w2 64, inRange w3 64, inRange w4 1000, a.live with
    | some sz, some mn, some mx, some iv, none =>
      let cfg : Cfg := { size := sz, minN := mn, maxN := mx, interval := iv }
      if cfg.ok then expectLine { a with live := some { cfg := cfg } } "P init 1" "initialize"
      else expectLine { a with tags := a.tags ++ ["init-rejected"] } "P init 0" "initialize (bad config must be refused)"
    | _, _, _, _, _ => bad
  | ["perturb", w1, w2, w3] =>
    match inRange w1 1000000000, inRange w2 5000, inRange w3 5000 with
    | some _, some _, some _ => expectLine a "P perturb" "perturb"
    | _, _, _ => bad
  | ["echo", w1, w2, w3] =>
    -- the sink callback appends a record of w3 payload bytes (pseudo-producer 8) to the same pipe on every w2-th block
    -- (`every`) / on every block shorter than a buffer, i.e. from a timed flush (`partial`); `never` switches it off
    match inRange w2 1000, inRange w3 2000, a.live with
    | some n, some len, some lv =>
      if n < 1 || !(w1 == "every" || w1 == "partial" || w1 == "never") then bad
      else if lv.echo.isSome then bad
      else expectLine { a with live := some { lv with echo := if w1 == "never" then none else some len } } "P echo" "echo"
    | _, _, _ => bad
  | ["prod", w1, w2, w3] =>
    match inRange w1 7, inRange w2 5000, (w3.splitOn ",").mapM parseTok, a.live with
    | some tid, some _, some toks, some lv =>
      if (lv.declared.getD tid none).isSome || toks.length > 2000 then bad else
      expectLine { a with live := some { lv with declared := lv.declared.setIfInBounds tid (some toks) } } "P prod" "prod"
    | _, _, _, _ => bad
  | ["run"] =>
    match a.live with
    | some lv =>
      let lv' := (List.range 8).foldl (fun (lv : Live) tid =>
        match lv.declared.getD tid none with
        | none => lv
        | some toks =>
          let (seq, recs) := toks.foldl (fun (acc : Nat × List (List UInt8)) t =>
            match t with
            | .zero => (acc.1, [] :: acc.2)
            | .app len _ => (acc.1 + 1, recordBytes tid acc.1 len :: acc.2)) (lv.nextSeq.getD tid 0, [])
          { lv with nextSeq := lv.nextSeq.setIfInBounds tid seq,
                    prog := lv.prog.setIfInBounds tid (lv.prog.getD tid [] ++ recs.reverse),
                    declared := lv.declared.setIfInBounds tid none, nrec := lv.nrec + toks.length }) lv
      expectLine { a with live := some lv' } "P run" "run"
    | none => bad
  | ["fillhold", w1, w2] =>
    -- one producer appends one record while the sink is held inside a callback; M-class: live buffers at that quiescent point
    match inRange w1 7, inRange w2 20000, a.live with
    | some tid, some len, some lv =>
      if (lv.declared.getD tid none).isSome then bad else
      let seq := lv.nextSeq.getD tid 0
      let lv' := { lv with nextSeq := lv.nextSeq.setIfInBounds tid (seq + 1),
                           prog := lv.prog.setIfInBounds tid (lv.prog.getD tid [] ++ [recordBytes tid seq len]), nrec := lv.nrec + 1 }
      match a.tl with
      | ml :: rest =>
        match words ml with
        | ["M", "held", w3, w4] =>
          match (if w3.startsWith "live=" then (w3.drop 5).toString.toNat? else none), w4 with
          | some live, b =>
            let blocked := b == "blocked=1"
            if live > lv.cfg.maxN + (if blocked then 0 else 1) then
              { a with err := some s!"M: op#{a.nops} M-class: {live} buffers alive with the back end held in the sink, buff_max_num is {lv.cfg.maxN} (C10_buffers_bounded)" }
            -- a blocked producer does not imply live = max: after it blocked, the back end may still delete buffers
            -- (buff_num_ > min) without waking it; C10_buffers_bounded only gives min <= buff_num_ <= max there
            else if blocked && live < lv.cfg.minN then
              { a with err := some s!"M: op#{a.nops} M-class: producer blocked on back-pressure with {live} buffers alive, buff_min_num is {lv.cfg.minN}" }
            else expectLine { a with tl := rest, live := some lv', tags := a.tags ++ [if blocked then "fillhold-blocked" else "fillhold-free"] } "P fillhold" "fillhold"
          | none, _ => { a with err := some s!"op#{a.nops} unparsable M held line [{ml.take 60}]" }
        | _ => expectLine a "M held live=<n> blocked=<b>" "fillhold"
      | [] => expectLine a "M held live=<n> blocked=<b>" "fillhold"
    | _, _, _ => bad
  | ["late", w1, w2, w3] =>
    -- an append racing with cleanup(): outside the property statement; the outcome is documented (tag), never judged
    match inRange w1 4096, inRange w2 64, inRange w3 200, a.live with
    | some sz, some mx, some _, none =>
      if sz < 1 || mx < 1 then bad else
      match a.tl with
      | ml :: rest =>
        match words ml with
        | ["M", "late", w] => { a with tl := rest, tags := a.tags ++ ["late:" ++ (w.drop 8).toString] }
        | _ => expectLine a "M late outcome=<word>" "late"
      | [] => expectLine a "M late outcome=<word>" "late"
    | _, _, _, _ => bad
  | ["sleep", w1] =>
    match inRange w1 500 with
    | some _ => expectLine a "P sleep" "sleep"
    | none => bad
  | ["cleanup"] =>
    match a.live with
    | none => expectLine a "P cleanup noop" "cleanup of a pipe that is not initialised"
    | some lv => judgeCleanup a lv
  | _ => bad

structure DS where
  ops : Array String := #[]
  tl : Array String := #[]

def finish (d : DS) : List String :=
  let a : TAcc := d.ops.foldl stepOp ({ tl := d.tl.toList } : TAcc)
  let tagsLine := if a.tags.isEmpty then [] else ["B " ++ " ".intercalate a.tags.eraseDups]
  match a.err with
  | some e => tagsLine ++ ["reject " ++ e]
  | none =>
    match a.tl with
    | [] => tagsLine ++ [s!"ok ops={a.nops} lifecycles={a.lifecycles} appends={a.records} blocks={a.blocks}"]
    | l :: _ => tagsLine ++ ["reject unexpected extra implementation output: [" ++ (l.take 100).toString ++ "]"]

def stepLine (d : DS) (line : String) : DS × List String :=
  let t := line.trimAscii.toString
  if t.isEmpty then (d, [])
  else if t.startsWith "case " then ({}, [t])
  else if t == "end" then ({}, finish d)
  else if t.startsWith "T " then ({ d with tl := d.tl.push (t.drop 2).toString }, [])
  else ({ d with ops := d.ops.push t }, [])

def main : IO Unit := runDriver ({} : DS) stepLine
