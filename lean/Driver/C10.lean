/- C10 driver: trace acceptor.  Input per case: op lines, then the implementation's output lines
prefixed "T ", then "end".  For every pipe lifecycle (`init` … `cleanup`) it
 (1) decides the PROPERTY on the delivered stream with the abstract spec (`Spec.accept`: an
     interleaving of whole appends, per-thread order, nothing lost / duplicated), callbacks not
     overlapping, cleanup returned;
 (2) rebuilds an interleaving of MODEL steps that produces exactly the observed block sequence
     (every step checked with `valid`) — the run of the real code must be a run of the model.
Prints `ok …` or `reject <reason>`. -/
import TboxModel.Util
import TboxModel.C10.Model
import TboxModel.C10.Spec
open Tbox.Util Tbox.C10

/-! record format shared with props/C10/harness.cpp -/
def payloadByte (tid seq i : Nat) : UInt8 := UInt8.ofNat ((tid * 37 + seq * 11 + i * 7 + 3) % 251)

def recordBytes (tid seq len : Nat) : List UInt8 :=
  [UInt8.ofNat (0xA0 + tid), UInt8.ofNat (seq / 256), UInt8.ofNat (seq % 256), UInt8.ofNat (len / 256), UInt8.ofNat (len % 256)]
    ++ (List.range len).map (payloadByte tid seq)

/-- tail-recursive hex decoding -/
def hexToBytes (s : String) : Option (Array UInt8) :=
  if s == "-" then some #[] else
  let rec go (cs : List Char) (acc : Array UInt8) : Option (Array UInt8) :=
    match cs with
    | [] => some acc
    | [_] => none
    | a :: b :: rest =>
      match hexVal a, hexVal b with
      | some x, some y => go rest (acc.push (UInt8.ofNat (x * 16 + y)))
      | _, _ => none
  go s.toList #[]

inductive Tok where | app (len : Nat) (grouped : Bool) | zero

def parseTok (w : String) : Option Tok :=
  if w == "z" then some .zero
  else if w.startsWith "g" then
    match (w.drop 1).toString.toNat? with | some n => if n ≤ 20000 then some (.app n true) else none | none => none
  else match w.toNat? with | some n => if n ≤ 20000 then some (.app n false) else none | none => none

structure Live where
  cfg : Cfg
  nextSeq : Array Nat := Array.replicate 8 0
  prog : Array (List (List UInt8)) := Array.replicate 8 []      -- appended in this lifecycle, per thread, in order
  declared : Array (Option (List Tok)) := Array.replicate 8 none   -- producers declared for the next `run`
  nrec : Nat := 0

structure TAcc where
  live : Option Live := none
  tl : List String := []
  tags : List String := []
  err : Option String := none
  nops : Nat := 0
  lifecycles : Nat := 0
  records : Nat := 0
  blocks : Nat := 0

def expectLine (a : TAcc) (want : String) (what : String) : TAcc :=
  match a.tl with
  | l :: rest => if l == want then { a with tl := rest }
                 else { a with err := some s!"op#{a.nops} {what}: impl=[{l.take 120}] expected=[{want}]" }
  | [] => { a with err := some s!"op#{a.nops} {what}: impl=<missing> expected=[{want}]" }

/-! ### model schedule reconstruction -/

structure Sch where
  s : State
  n : Nat := 0
  err : Option String := none
  blockedSeen : Bool := false

def Sch.step (a : Sch) (st : Step) : Sch :=
  if a.err.isSome then a
  else if valid a.s st then { a with s := Tbox.C10.step a.s st, n := a.n + 1 }
  else { a with err := some s!"model step {repr st} is not enabled after {a.n} steps" }

/-- run the back-end thread alone until `p` holds -/
def Sch.backendUntil (a : Sch) (p : State → Bool) : Nat → Sch
  | 0 => if a.err.isSome || p a.s then a else { a with err := some "back end makes no progress in the model" }
  | fuel + 1 =>
    if a.err.isSome || p a.s then a else
    match beNext a.s with
    | some st => (a.step st).backendUntil p fuel
    | none => { a with err := some "back end has exited in the model" }

/-- one whole `append` of thread `p` (the head of its program) -/
def Sch.appendOne (a : Sch) (p : Nat) : Sch :=
  let a := a.step (.acquire p)
  let rec loop (a : Sch) : Nat → Sch
    | 0 => a
    | fuel + 1 =>
      if a.err.isSome then a else
      match a.s.owner with
      | none => a
      | some o =>
        if o.remain.isEmpty then a else
        let a := if a.s.curr.isNone then
                   let a := a.step .pTake
                   match a.s.owner with
                   | some o' => if o'.blocked then
                       ({ a with blockedSeen := true }.backendUntil (fun s => decide (0 < s.free)) (8 * (a.s.buffNum + 2))).step .pWake
                     else a
                   | none => a
                 else a
        loop (a.step .pWrite) fuel
  let fuel := match a.s.owner with | some o => o.remain.length + 2 | none => 0
  (loop a fuel).step .release

/-- appends of length 0 at the head of thread p's program -/
def Sch.flushEmpties (a : Sch) (p : Nat) : Nat → Sch
  | 0 => a
  | fuel + 1 =>
    if a.err.isSome then a else
    match a.s.prog p with
    | [] :: _ => (a.appendOne p).flushEmpties p fuel
    | _ => a

def schedule (cfg : Cfg) (prog : Nat → List (List UInt8)) (order : List (Nat × List UInt8))
    (bounds : List Nat) (maxEmpties : Nat) : Sch :=
  let a0 : Sch := { s := init cfg prog }
  let (a, _) := order.foldl (fun (acc : Sch × Nat) (pd : Nat × List UInt8) =>
      let (a, w) := acc
      let a := (a.flushEmpties pd.1 maxEmpties).appendOne pd.1
      let w := w + pd.2.length
      -- a block boundary here with a partial current buffer = the timed hand-over took it now
      let a := if a.s.curr.isSome && bounds.contains w then
                 a.backendUntil (fun s => s.curr.isNone) (8 * (a.s.buffNum + 3))
               else a
      (a, w)) (a0, 0)
  let a := (List.range 8).foldl (fun a p => a.flushEmpties p maxEmpties) a
  let a := a.step .cleanupSignal
  let a := a.backendUntil (fun s => s.bpc == .exited) (8 * (a.s.buffNum + 4))
  a.step .join

/-! ### diagnostics for a rejected stream -/

def diagnose (prog : Nat → List (List UInt8)) (stream : List UInt8) : String :=
  let rec go (g : Spec.Prog) (s : List UInt8) (off : Nat) : Nat → String
    | 0 => "?"
    | fuel + 1 =>
      match s with
      | [] =>
        let left := (List.range 8).filter fun p => !(Spec.dropEmpties (g p)).isEmpty
        match left with
        | [] => "?"
        | p :: _ => s!"LOST: {(Spec.dropEmpties (g p)).length} append(s) of thread {p} never delivered (stream ended at offset {off})"
      | b :: _ =>
        match Spec.tidOfByte b with
        | none => s!"offset {off}: byte {b.toNat} is not the start of any append (torn, duplicated or reordered data)"
        | some p =>
          match Spec.dropEmpties (g p) with
          | [] => s!"offset {off}: an append of thread {p} starts here but that thread has nothing pending (DUPLICATE or out of order)"
          | d :: ds =>
            if d.isPrefixOf s then go (Spec.Prog.set g p ds) (s.drop d.length) (off + d.length) fuel
            else
              let seq := (d.getD 1 0).toNat * 256 + (d.getD 2 0).toNat
              if s.isPrefixOf d then s!"LOST: the stream ends at offset {off + s.length} inside the append of thread {p} seq {seq} ({d.length} bytes)" else
              s!"offset {off}: next append of thread {p} (seq {seq}, {d.length} bytes) is NOT CONTIGUOUS / not next in its thread's order"
  go prog stream 0 (stream.length + 2)

def splitBlocks (stream : List UInt8) : List Nat → List (List UInt8)
  | [] => []
  | n :: ns => stream.take n :: splitBlocks (stream.drop n) ns

def prefixSums (l : List Nat) : List Nat := (l.foldl (fun (acc : List Nat × Nat) n => ((acc.2 + n) :: acc.1, acc.2 + n)) ([], 0)).1

/-- the `cleanup` of a live pipe: consume `P cleanup ok`, `K`, `S`, `P cb …` and judge -/
def judgeCleanup (a : TAcc) (lv : Live) : TAcc :=
  let a := expectLine a "P cleanup ok" "cleanup() did not return normally"
  if a.err.isSome then a else
  match a.tl with
  | kl :: sl :: cl :: il :: rest =>
    match words kl, words sl with
    | ["K", ks], ["S", hx] =>
      let realBp := il.startsWith "I bp=" && il != "I bp=0"
      if !il.startsWith "I bp=" then { a with err := some s!"op#{a.nops} expected the I line, got [{il.take 60}]" } else
      let lens? : Option (List Nat) := if ks == "-" then some [] else (ks.splitOn ",").mapM (·.toNat?)
      match lens?, hexToBytes hx with
      | some lens, some arr =>
        let stream := arr.toList
        let a := { a with tl := rest }
        if cl != "P cb overlap=0" then { a with err := some s!"op#{a.nops} sink callbacks OVERLAPPED: [{cl}]" } else
        let prog : Nat → List (List UInt8) := fun p => lv.prog.getD p []
        -- (1) the property, decided by the abstract spec
        if !Spec.accept prog stream then
          { a with err := some s!"op#{a.nops} delivered stream is not an interleaving of the appends: {diagnose prog stream}" }
        else
        match Spec.parse (stream.length + 1) prog stream with
        | none => { a with err := some "internal: accept/parse disagree" }
        | some (order, _) =>
          -- (2) the run must be a run of the model
          if lens.foldl (· + ·) 0 != stream.length then
            { a with err := some s!"op#{a.nops} block lengths do not add up to the stream" } else
          if lens.any (· == 0) then { a with err := some s!"op#{a.nops} sink called with an EMPTY block" } else
          let blocks := splitBlocks stream lens
          let maxE := lv.nrec + 1
          let sch := schedule lv.cfg prog order (prefixSums lens) maxE
          match sch.err with
          | some e => { a with err := some s!"op#{a.nops} no model interleaving reproduces the run: {e}" }
          | none =>
            if sch.s.delivered != blocks then
              let k := (List.zip sch.s.delivered blocks).takeWhile (fun (x, y) => x == y) |>.length
              { a with err := some s!"op#{a.nops} block sequence is not a run of the model: block #{k} has {(blocks.getD k []).length} bytes, model (size {lv.cfg.size}) hands over {(sch.s.delivered.getD k []).length} there (a partial block must end where an append ends)" }
            else if !sch.s.joined || sch.s.late then { a with err := some "internal: model schedule did not end in a clean join" }
            else
              let nthreads := ((List.range 8).filter fun p => !(Spec.dropEmpties (prog p)).isEmpty).length
              let switches := (order.zip (order.drop 1)).filter (fun (x, y) => x.1 != y.1) |>.length
              let partials := (lens.dropLast.filter (· < lv.cfg.size)).length
              let spanning := order.any (fun pd => pd.2.length > lv.cfg.size)
              let small := order.any (fun pd => pd.2.length < lv.cfg.size)
              let exact := order.any (fun pd => pd.2.length == lv.cfg.size)
              let tags := (if nthreads > 1 then ["producers>1"] else ["producers<=1"])
                ++ (if switches > nthreads then ["interleaved"] else [])
                ++ (if partials > 0 then ["timed-flush"] else [])
                ++ (if spanning then ["append>buffer"] else [])
                ++ (if small then ["append<buffer"] else [])
                ++ (if exact then ["append=buffer"] else [])
                ++ (if sch.blockedSeen then ["model-backpressure"] else [])
                ++ (if realBp then ["real-backpressure"] else [])
                ++ (if lv.cfg.minN == lv.cfg.maxN then ["min=max"] else ["min<max"])
                ++ (if lv.cfg.size == 1 then ["size=1"] else [])
                ++ (if stream.isEmpty then ["empty-stream"] else [])
                ++ (if lens.getLast? != some lv.cfg.size && !lens.isEmpty then ["cleanup-flushed-partial"] else [])
              { a with tags := a.tags ++ tags, live := none, lifecycles := a.lifecycles + 1,
                       records := a.records + order.length, blocks := a.blocks + lens.length }
      | _, _ => { a with err := some s!"op#{a.nops} unparsable K/S lines" }
    | _, _ => { a with err := some s!"op#{a.nops} expected K and S lines after cleanup, got [{kl.take 60}]" }
  | _ => { a with err := some s!"op#{a.nops} implementation output ends inside cleanup" }

def inRange (w : String) (hi : Nat) : Option Nat :=
  match w.toNat? with | some n => if n ≤ hi then some n else none | none => none

def stepOp (a : TAcc) (line : String) : TAcc :=
  if a.err.isSome then a else
  let a := { a with nops := a.nops + 1 }
  let bad := expectLine a "bad-op" "malformed op"
  match words line with
  | ["init", w1, w2, w3, w4] =>
    match inRange w1 65536, inRange w2 64, inRange w3 64, inRange w4 1000, a.live with
    | some sz, some mn, some mx, some iv, none =>
      let cfg : Cfg := { size := sz, minN := mn, maxN := mx, interval := iv }
      if cfg.ok then expectLine { a with live := some { cfg := cfg } } "P init 1" "initialize"
      else expectLine { a with tags := a.tags ++ ["init-rejected"] } "P init 0" "initialize (bad config must be refused)"
    | _, _, _, _, _ => bad
  | ["perturb", w1, w2, w3] =>
    match inRange w1 1000000000, inRange w2 5000, inRange w3 5000 with
    | some _, some _, some _ => expectLine a "P perturb" "perturb"
    | _, _, _ => bad
  | ["prod", w1, w2, w3] =>
    match inRange w1 7, inRange w2 5000, (w3.splitOn ",").mapM parseTok, a.live with
    | some tid, some _, some toks, some lv =>
      if (lv.declared.getD tid none).isSome || toks.length > 2000 then bad else
      expectLine { a with live := some { lv with declared := lv.declared.setIfInBounds tid (some toks) } } "P prod" "prod"
    | _, _, _, _ => bad
  | ["run"] =>
    match a.live with
    | some lv =>
      let lv' := (List.range 8).foldl (fun (lv : Live) tid =>
        match lv.declared.getD tid none with
        | none => lv
        | some toks =>
          let (seq, recs) := toks.foldl (fun (acc : Nat × List (List UInt8)) t =>
            match t with
            | .zero => (acc.1, [] :: acc.2)
            | .app len _ => (acc.1 + 1, recordBytes tid acc.1 len :: acc.2)) (lv.nextSeq.getD tid 0, [])
          { lv with nextSeq := lv.nextSeq.setIfInBounds tid seq,
                    prog := lv.prog.setIfInBounds tid (lv.prog.getD tid [] ++ recs.reverse),
                    declared := lv.declared.setIfInBounds tid none, nrec := lv.nrec + toks.length }) lv
      expectLine { a with live := some lv' } "P run" "run"
    | none => bad
  | ["sleep", w1] =>
    match inRange w1 500 with
    | some _ => expectLine a "P sleep" "sleep"
    | none => bad
  | ["cleanup"] =>
    match a.live with
    | none => expectLine a "P cleanup noop" "cleanup of a pipe that is not initialised"
    | some lv => judgeCleanup a lv
  | _ => bad

structure DS where
  ops : Array String := #[]
  tl : Array String := #[]

def finish (d : DS) : List String :=
  let a : TAcc := d.ops.foldl stepOp ({ tl := d.tl.toList } : TAcc)
  let tagsLine := if a.tags.isEmpty then [] else ["B " ++ " ".intercalate a.tags.eraseDups]
  match a.err with
  | some e => tagsLine ++ ["reject " ++ e]
  | none =>
    match a.tl with
    | [] => tagsLine ++ [s!"ok ops={a.nops} lifecycles={a.lifecycles} appends={a.records} blocks={a.blocks}"]
    | l :: _ => tagsLine ++ ["reject unexpected extra implementation output: [" ++ (l.take 100).toString ++ "]"]

def stepLine (d : DS) (line : String) : DS × List String :=
  let t := line.trimAscii.toString
  if t.isEmpty then (d, [])
  else if t.startsWith "case " then ({}, [t])
  else if t == "end" then ({}, finish d)
  else if t.startsWith "T " then ({ d with tl := d.tl.push (t.drop 2).toString }, [])
  else ({ d with ops := d.ops.push t }, [])

def main : IO Unit := runDriver ({} : DS) stepLine
