/- C10 driver: trace acceptor.  Input per case: op lines, then the implementation's output lines
prefixed "T ", then "end".  For every pipe lifecycle (`init` … `cleanup`) it
 (1) decides the PROPERTY on the delivered stream with the abstract spec (`Spec.accept`: an
     interleaving of whole appends, per-thread order, nothing lost / duplicated), callbacks not
     overlapping, cleanup returned;
 (2) checks the observed block sequence with `blockRule` (TboxModel/C10/BlockRule.lean) — sound by
     theorem C10_observable_accepted: every complete model run passes it, so a rejected run is not a
     run of the model — and then rebuilds a model interleaving with `schedule` (Sched.lean; certified
     by C10_reconstruction_certified: its recorded steps ARE a model execution) that must deliver
     exactly the observed blocks: the run of the real code is then a run of the model;
 (2c) round 6: replays the RECORDED interleaving step by step (`E` line: every mutex / condition-variable event of the pipe's
     threads, stamped inside the critical sections) with `replay` (TboxModel/C10/Replay.lean; `replay_certified`): each event is
     matched by an enabled model step, the model decides every branch and the thread's next event must agree; the execution
     must end joined, not late, with exactly the observed blocks and the observed acquisition order;
 (3) M-class observables: live buffer allocations (peak, and at a quiescent `fillhold` point),
     outcome of an append racing with cleanup (`late`, documented only).
Prints `ok …`, `reject <reason>` (property level) or `reject M: <reason>` (model-internal observable: block
partition, buffer count, failed reconstruction — a broken correspondence, not by itself a property violation). -/
import TboxModel.Util
import TboxModel.C10.Model
import TboxModel.C10.Spec
import TboxModel.C10.BlockRule
import TboxModel.C10.Sched
import TboxModel.C10.Replay
open Tbox.Util Tbox.C10

/-! record format shared with props/C10/harness.cpp -/
def payloadByte (tid seq i : Nat) : UInt8 := UInt8.ofNat ((tid * 37 + seq * 11 + i * 7 + 3) % 251)

def recordBytes (tid seq len : Nat) : List UInt8 :=
  [UInt8.ofNat (0xA0 + tid), UInt8.ofNat (seq / 256), UInt8.ofNat (seq % 256), UInt8.ofNat (len / 256), UInt8.ofNat (len % 256)]
    ++ (List.range len).map (payloadByte tid seq)

/-- tail-recursive hex decoding -/
def hexToBytes (s : String) : Option (Array UInt8) :=
  if s == "-" then some #[] else
  let rec go (cs : List Char) (acc : Array UInt8) : Option (Array UInt8) :=
    match cs with
    | [] => some acc
    | [_] => none
    | a :: b :: rest =>
      match hexVal a, hexVal b with
      | some x, some y => go rest (acc.push (UInt8.ofNat (x * 16 + y)))
      | _, _ => none
  go s.toList #[]

inductive Tok where | app (len : Nat) (grouped : Bool) | zero

def parseTok (w : String) : Option Tok :=
  if w == "z" then some .zero
  else if w.startsWith "g" then
    match (w.drop 1).toString.toNat? with | some n => if n ≤ 200000 then some (.app n true) else none | none => none
  else match w.toNat? with | some n => if n ≤ 200000 then some (.app n false) else none | none => none

/-- `E LC0 LR0 …` : the event log of one lifecycle; `E off` / `E overflow` / `E unknown-mutex` = no log -/
def parseEvents (line : String) : Option (Option (List Ev)) :=
  match words line with
  | "E" :: toks =>
    if toks == ["off"] || toks == ["overflow"] then some none
    else if toks == ["-"] then some (some [])
    else
      (toks.mapM fun (w : String) =>
        match w.toList with
        | [k, m, t] =>
          let tid? : Option Nat := if t == 'm' then some 10 else if t.isDigit then some (t.toNat - '0'.toNat) else none
          tid?.map fun tid => ({ k := k, m := m, t := tid } : Ev)
        | _ => none).map some
  | _ => none

structure Live where
  cfg : Cfg
  nextSeq : Array Nat := Array.replicate 8 0
  prog : Array (List (List UInt8)) := Array.replicate 8 []      -- appended in this lifecycle, per thread, in order
  declared : Array (Option (List Tok)) := Array.replicate 8 none   -- producers declared for the next `run`
  nrec : Nat := 0
  echoSame : Bool := false      -- `echo same`: the sink appends exactly the block it was given (first 3 bytes re-tagged)
  signals : Bool := false       -- real signals were delivered to the pipe's threads in this lifecycle
  echo : Option Nat := none     -- `echo` script active: payload length of the sink's nested appends (pseudo-producer 8)
  anyApp : Bool := false        -- something was appended in this lifecycle
  nocb : Bool := false          -- `unsetcb`: no sink callback installed — blocks are recycled without being handed to anyone
  compact : Bool := false       -- `compact` lifecycle: one append at a time, the harness compares the stream itself
  bigs : List (Nat × Nat × Nat) := []   -- compact: (tid, seq, payload length), newest first

structure TAcc where
  live : Option Live := none
  tl : List String := []
  tags : List String := []
  err : Option String := none
  nops : Nat := 0
  lifecycles : Nat := 0
  records : Nat := 0
  blocks : Nat := 0
  stranded : Nat := 0     -- buffers left in free_buffers_ by an initialize() that threw (Obj.stranded): the next lifecycle starts with them

def expectLine (a : TAcc) (want : String) (what : String) : TAcc :=
  match a.tl with
  | l :: rest => if l == want then { a with tl := rest }
                 else { a with err := some s!"op#{a.nops} {what}: impl=[{l.take 120}] expected=[{want}]" }
  | [] => { a with err := some s!"op#{a.nops} {what}: impl=<missing> expected=[{want}]" }

/-! ### diagnostics for a rejected stream -/

def diagnose (prog : Nat → List (List UInt8)) (stream : List UInt8) : String :=
  let rec go (g : Spec.Prog) (s : List UInt8) (off : Nat) : Nat → String
    | 0 => "?"
    | fuel + 1 =>
      match s with
      | [] =>
        let left := (List.range 9).filter fun p => !(Spec.dropEmpties (g p)).isEmpty
        match left with
        | [] => "?"
        | p :: _ => s!"LOST: {(Spec.dropEmpties (g p)).length} append(s) of thread {p} never delivered (stream ended at offset {off})"
      | b :: _ =>
        match Spec.tidOfByte b with
        | none => s!"offset {off}: byte {b.toNat} is not the start of any append (torn, duplicated or reordered data)"
        | some p =>
          match Spec.dropEmpties (g p) with
          | [] => s!"offset {off}: an append of thread {p} starts here but that thread has nothing pending (DUPLICATE or out of order)"
          | d :: ds =>
            if d.isPrefixOf s then go (Spec.Prog.set g p ds) (s.drop d.length) (off + d.length) fuel
            else
              let seq := (d.getD 1 0).toNat * 256 + (d.getD 2 0).toNat
              if s.isPrefixOf d then s!"LOST: the stream ends at offset {off + s.length} inside the append of thread {p} seq {seq} ({d.length} bytes)" else
              s!"offset {off}: next append of thread {p} (seq {seq}, {d.length} bytes) is NOT CONTIGUOUS / not next in its thread's order"
  go prog stream 0 (stream.length + 2)

def splitBlocks (stream : List UInt8) : List Nat → List (List UInt8)
  | [] => []
  | n :: ns => stream.take n :: splitBlocks (stream.drop n) ns

def prefixSums (l : List Nat) : List Nat := (l.foldl (fun (acc : List Nat × Nat) n => ((acc.2 + n) :: acc.1, acc.2 + n)) ([], 0)).1

/-- `A 0:3,2:1` / `Q …` lines: (thread, sequence number) pairs, `-` for none -/
def parsePairs (line : String) (key : String) : Option (List (Nat × Nat)) :=
  match words line with
  | [k, v] =>
    if k != key then none else
    if v == "-" then some [] else
    (v.splitOn ",").mapM fun t =>
      match t.splitOn ":" with
      | [x, y] => match x.toNat?, y.toNat? with | some p, some q => some (p, q) | _, _ => none
      | _ => none
  | _ => none

/-- block lengths, run-length encoded in compact lifecycles: `4096*4096,17` -/
def parseLens (ks : String) : Option (List (Nat × Nat)) :=
  if ks == "-" then some [] else
  (ks.splitOn ",").mapM fun t =>
    match t.splitOn "*" with
    | [x] => x.toNat?.map (·, 1)
    | [x, y] => match x.toNat?, y.toNat? with | some n, some c => if c ≥ 1 then some (n, c) else none | _, _ => none
    | _ => none

def seqOfRec (d : List UInt8) : Nat := (d.getD 1 0).toNat * 256 + (d.getD 2 0).toNat

/-- appends that reported `std::bad_alloc` to their caller (fault schedule `allocfail`): such an append has written a
prefix of its data (whole buffers) and the rest never entered the pipe.  The cut is not observable at the API, so it is
searched: the first assignment of cuts for which the abstract spec accepts the stream. -/
def findCuts (prog : Nat → List (List UInt8)) (stream : List UInt8) : List (Nat × Nat) → Option (Nat → List (List UInt8))
  | [] => if Spec.accept prog stream then some prog else none
  | (tid, sq) :: more =>
    match (prog tid).find? (fun d => !d.isEmpty && seqOfRec d == sq) with
    | none => none
    | some d =>
      let rec tryCut (c : Nat) (fuel : Nat) : Option (Nat → List (List UInt8)) :=
        match fuel with
        | 0 => none
        | fuel + 1 =>
          let prog' : Nat → List (List UInt8) := fun p =>
            if p == tid then (prog p).map (fun x => if x == d then d.take c else x) else prog p
          match findCuts prog' stream more with
          | some g => some g
          | none => if c == 0 then none else tryCut (c - 1) fuel
      tryCut (d.length - 1) d.length

/-- numeric twin of `blockRule` for compact lifecycles (block and append LENGTHS only; the byte comparison was made by the
harness): every block 1..size, a partial block ends where an append ends, the totals agree -/
def blockRuleN (size : Nat) (appendLens : List Nat) (blocks : List (Nat × Nat)) : Bool :=
  let bounds := 0 :: sums 0 appendLens
  let total := appendLens.foldl (· + ·) 0
  let rec go (off : Nat) : List (Nat × Nat) → Bool
    | [] => off == total
    | (n, c) :: rest =>
      decide (1 ≤ n) && decide (n ≤ size) &&
        (n == size || (c == 1 && bounds.contains (off + n)) ||
          (List.range c).all (fun i => bounds.contains (off + (i + 1) * n))) && go (off + n * c) rest
  go 0 blocks

def judgeCompact (a : TAcc) (lv : Live) (kl sl cl il al ql el : String) (rest : List String) : TAcc :=
  if el != "E off" then { a with err := some s!"op#{a.nops} a compact lifecycle carries no event log, got [{el.take 40}]" } else
  match words kl, words sl with
  | ["K", ks], ["S", "compact", tw, mw] =>
    match parseLens ks, (if tw.startsWith "total=" then (tw.drop 6).toString.toNat? else none), parsePairs al "A", parsePairs ql "Q" with
    | some blocks, some total, some aborted, some acqs =>
      let a := { a with tl := rest }
      let recs := lv.bigs.reverse
      let want := recs.foldl (fun acc r => acc + r.2.2 + 5) 0
      if cl != "P cb overlap=0" then { a with err := some s!"op#{a.nops} sink callbacks OVERLAPPED: [{cl}]" } else
      if !aborted.isEmpty then { a with err := some s!"op#{a.nops} an append reported bad_alloc although no allocation failure was scheduled" } else
      if mw != "match=1" then
        { a with err := some s!"op#{a.nops} delivered stream is not the appended records in order (compact comparison, {total} bytes delivered, {want} appended): LOST, duplicated or torn data" } else
      if total != want then { a with err := some s!"op#{a.nops} LOST: {total} bytes delivered, {want} appended" } else
      if blocks.any (fun b => b.1 == 0) then { a with err := some s!"M: op#{a.nops} sink called with an EMPTY block" } else
      if !blockRuleN lv.cfg.size (recs.map (fun r => r.2.2 + 5)) blocks then
        { a with err := some s!"M: op#{a.nops} block sequence is not a run of the model (blockRule on lengths): a block longer than a buffer, or a partial block that does not end where an append ends" } else
      if acqs != recs.map (fun r => (r.1, r.2.1)) then
        { a with err := some s!"M: op#{a.nops} acquisition order recorded at the producer mutex differs from the order of the appends" } else
      let _ := il
      let mx := recs.foldl (fun m r => max m (r.2.2 + 5)) 0
      let tags := ["compact"] ++ (if lv.cfg.size ≥ 65536 then ["size>=2^16"] else []) ++ (if lv.cfg.size ≥ 16777216 then ["size>=2^24"] else [])
        ++ (if lv.cfg.size ≥ 2147483648 then ["size>=2^31"] else [])
        ++ (if mx ≥ 16777216 then ["append>=2^24"] else []) ++ (if mx ≥ 2147483648 then ["append>=2^31"] else [])
        ++ (if mx ≥ 4294967296 then ["append>=2^32"] else [])
        ++ (if mx > lv.cfg.size then ["append>buffer"] else [])
      { a with tags := a.tags ++ tags, live := none, stranded := 0, lifecycles := a.lifecycles + 1, records := a.records + recs.length,
               blocks := a.blocks + blocks.foldl (fun n b => n + b.2) 0 }
    | _, _, _, _ => { a with err := some s!"op#{a.nops} unparsable K/S/A/Q lines of a compact lifecycle" }
  | _, _ => { a with err := some s!"op#{a.nops} expected K and S compact lines, got [{kl.take 60}] [{sl.take 60}]" }

/-- the end of a live pipe's lifecycle (`cleanup` or the destructor): consume `P cleanup ok`, `K`, `S`, `P cb …`, `I`, `N`, `A`, `Q` and judge -/
def judgeCleanup (a : TAcc) (lv : Live) (first : String) (what : String) : TAcc :=
  let a := expectLine a first what
  if a.err.isSome then a else
  match a.tl with
  | kl :: sl :: cl :: il :: nl :: al :: ql :: el :: rest =>
    if lv.compact then judgeCompact a lv kl sl cl il al ql el rest else
    match words kl, words sl, words nl, parsePairs al "A", parsePairs ql "Q", parseEvents el with
    | ["K", ks], ["S", hx], ["N", ns], some aborted, some acqs, some events =>
      -- nested appends made by the sink callback (all completed before cleanup began): block ordinals, in order
      let nested? : Option (List Nat) := if ns == "-" then some [] else (ns.splitOn ",").mapM (·.toNat?)
      match nested? with
      | none => { a with err := some s!"op#{a.nops} unparsable N line" }
      | some nested =>
      if nested.length > 0 && lv.echo.isNone then { a with err := some s!"op#{a.nops} N line reports nested appends but no echo script is active" } else
      let kv (w : String) (key : String) : Option Nat := if w.startsWith key then (w.drop key.length).toString.toNat? else none
      let (bp?, peak?, thr?) := match words il with
        | ["I", w1, w2, w3] => (kv w1 "bp=", kv w2 "peak=", kv w3 "threads=")
        | _ => (none, none, none)
      match bp?, peak?, thr? with
      | none, _, _ | _, none, _ | _, _, none => { a with err := some s!"op#{a.nops} expected the I line, got [{il.take 60}]" }
      | some bp, some peak, some thr =>
      let realBp := bp != 0
      -- M-class (OS-level effect): initialize() creates exactly the ONE back-end thread of the model
      if thr != 1 then
        { a with err := some s!"M: op#{a.nops} M-class: initialize() created {thr} threads, the model has one back-end thread (C10_callbacks_serial rests on it)" } else
      -- M-class: buffers alive at once.  buff_num_ <= max (C10_buffers_bounded); the back end decrements
      -- buff_num_ before it deletes the buffer, so ONE more allocation may be alive transiently.
      if peak > lv.cfg.maxN + 1 || peak < lv.cfg.minN then
        { a with err := some s!"M: op#{a.nops} M-class: peak of live buffer allocations {peak} outside [{lv.cfg.minN}, buff_max_num {lv.cfg.maxN} + 1 in deletion] (C10_buffers_bounded)" } else
      let lens? : Option (List Nat) := if ks == "-" then some [] else (ks.splitOn ",").mapM (·.toNat?)
      match lens?, hexToBytes hx with
      | some lens, some arr =>
        let stream := arr.toList
        let a := { a with tl := rest }
        if cl != "P cb overlap=0" then { a with err := some s!"op#{a.nops} sink callbacks OVERLAPPED: [{cl}]" } else
        if lv.nocb then
          -- no callback installed: nothing can have been handed to anyone; the lifecycle must still end (it did)
          if !stream.isEmpty || !lens.isEmpty then { a with err := some "internal: blocks recorded although the harness removed its callback" } else
          -- the recorded interleaving is still replayed (the model's `delivered` = what a sink would have been handed)
          let progN : Nat → List (List UInt8) := fun p => lv.prog.getD p []
          let rpErr : Option String := match events with
            | none => none
            | some evs =>
              let rp := replay (initOn a.stranded lv.cfg progN) evs
              match rp.err with
              | some _ => none   -- the reconstruction glue could not explain the log (its completeness is not proved): inconclusive, the schedule-based tie decides
              | none => if !rp.core.s.joined || rp.core.s.late then some "the replayed interleaving does not end in a clean join"
                        else if rp.core.s.delivered.flatten != (rp.core.s.acq.map (·.2)).flatten then some "internal: replayed stream differs from the appends"
                        else none
          match rpErr with
          | some e => { a with err := some s!"M: op#{a.nops} {e} (no callback installed)" }
          | none =>
          { a with tags := a.tags ++ ["no-callback"] ++ (if events.isSome then ["replayed"] else []), live := none, stranded := 0, lifecycles := a.lifecycles + 1 } else
        let blocks0 := splitBlocks stream lens
        let nestedRecs : List (List UInt8) :=
          if lv.echoSame then
            -- `echo same`: the j-th nested append is the block whose callback made it, with the first 3 bytes re-tagged
            (List.range nested.length).map fun j =>
              [UInt8.ofNat 0xA8, UInt8.ofNat (j / 256), UInt8.ofNat (j % 256)] ++ ((blocks0.getD (nested.getD j 0) []).drop 3)
          else (List.range nested.length).map fun j => recordBytes 8 j (lv.echo.getD 0)
        let prog0 : Nat → List (List UInt8) := fun p => if p == 8 then nestedRecs else lv.prog.getD p []
        -- (1) the property, decided by the abstract spec (an append that reported bad_alloc contributes the prefix it wrote)
        match findCuts prog0 stream aborted with
        | none =>
          let extra := if aborted.isEmpty then "" else s!" (with the {aborted.length} append(s) that reported bad_alloc cut at any point)"
          { a with err := some s!"op#{a.nops} delivered stream is not an interleaving of the appends{extra}: {diagnose prog0 stream}" }
        | some prog =>
        match Spec.parse (stream.length + 1) prog stream with
        | none => { a with err := some "internal: accept/parse disagree" }
        | some (order, _) =>
          -- (2) the run must be a run of the model
          if lens.foldl (· + ·) 0 != stream.length then
            { a with err := some s!"op#{a.nops} block lengths do not add up to the stream" } else
          if lens.any (· == 0) then { a with err := some s!"M: op#{a.nops} sink called with an EMPTY block" } else
          let blocks := blocks0
          if !blockRule lv.cfg.size (order.map (·.2)) blocks then
            let bnds := boundsOf (order.map (·.2))
            let ends := (prefixSums lens).reverse
            let bad := (List.zip lens ends).findIdx? (fun (n, e) => n == 0 || n > lv.cfg.size || (n != lv.cfg.size && !bnds.contains e))
            let k := bad.getD 0
            { a with err := some s!"M: op#{a.nops} block sequence is not a run of the model (blockRule, theorem C10_observable_accepted): block #{k} has {lens.getD k 0} bytes (buffer size {lv.cfg.size}) and ends at stream offset {ends.getD k 0}, which is not the end of an append — a partial block must end where an append ends" } else
          -- (2b) step-level: the order in which the appends obtained the producer mutex (global sequence numbers stamped at the
          -- interposed pthread_mutex_lock) is the order of the appends in the stream — the ghost `acq` of C10_stream, observed
          let orderIds := order.map (fun pd => (pd.1, seqOfRec pd.2))
          let acqsSeen := acqs.filter (fun x => orderIds.contains x)
          if aborted.isEmpty && acqsSeen != orderIds then
            let k := ((acqsSeen.zip orderIds).findIdx? (fun (x, y) => x != y)).getD (min acqsSeen.length orderIds.length)
            { a with err := some s!"M: op#{a.nops} acquisition order recorded at the producer mutex differs from the order of the appends in the stream at position {k} ({acqsSeen.length} stamped, {orderIds.length} in the stream) (C10_stream: the stream is the appends in acquisition order)" } else
          let maxE := lv.nrec + nested.length + 1
          -- with a recorded interleaving (E line) the replay below is the tie; the order/boundary-driven reconstruction
          -- `schedule` (round 3, heuristic placement of the back end's steps) remains the tie for lifecycles without a log
          let sch := if events.isSome then schedule lv.cfg (fun _ => []) [] [] 0 else schedule lv.cfg prog order (prefixSums lens) maxE
          let blocksS := if events.isSome then [] else blocks
          match sch.err with
          | some e => { a with err := some s!"M: op#{a.nops} reconstruction failed on a run that satisfies the block rule (defect of the reconstruction, not shown of the implementation): {e}" }
          | none =>
            if sch.s.delivered != blocksS then
              { a with err := some s!"M: op#{a.nops} reconstruction delivered other blocks than observed although the block rule holds (defect of the reconstruction, not shown of the implementation)" }
            else if !sch.s.joined || sch.s.late then { a with err := some "internal: model schedule did not end in a clean join" }
            else
              -- (2c) the recorded interleaving, step by step
              let rp? := events.map (fun evs => (evs.length, replay (initOn a.stranded lv.cfg prog0) evs))
              let rpErr : Option String := match rp? with
                | none => none
                | some (_, rp) =>
                  match rp.err with
                  | some _ => none   -- inconclusive reconstruction (glue incomplete, e.g. a try_lock failure window under load): the schedule-based tie above decides
                  | none =>
                    let s := rp.core.s
                    if s.delivered != blocks then some "the replayed interleaving delivers other blocks than the sink received"
                    else if !s.joined || s.late then some "the replayed interleaving does not end in a clean join"
                    else if aborted.isEmpty && (s.acq.filter (fun x => !x.2.isEmpty)) != order then
                      some "the replayed interleaving acquires the producer lock in another order than the appends appear in the stream"
                    else if aborted.length != (rp.core.rsteps.filter (· == XStep.allocFail)).length then
                      some s!"{aborted.length} append(s) reported bad_alloc, the replayed interleaving has {(rp.core.rsteps.filter (· == XStep.allocFail)).length} allocation failure(s)"
                    else if rp.noNotify > 0 then
                      some s!"{rp.noNotify} hand-over(s) / recycle(s) / stop signal(s) without a following notify (the waiting side is only woken by a time-out, or never)"
                    else none
              match rpErr with
              | some e => { a with err := some s!"M: op#{a.nops} {e} (C10_replay_certified: every recorded event must be an enabled model step)" }
              | none =>
              let rtags := match rp? with
                | none => ["replay-off"]
                | some (n, rp) => ["replayed"] ++ (if n ≥ 1000 then ["events>=1000"] else [])
                    ++ (if rp.spurious > 0 then ["spurious-wakeup"] else [])
                    ++ (if rp.windowFix > 0 then ["trylock-window"] else [])
                    ++ (if rp.blockedSeen then ["replayed-backpressure"] else [])
                    ++ (if rp.core.rsteps.any (fun x => x == XStep.base .bGrab) && rp.core.s.delivered.any (fun b => b.length < lv.cfg.size) then ["replayed-grab"] else [])
              let nthreads := ((List.range 8).filter fun p => !(Spec.dropEmpties (prog p)).isEmpty).length
              let switches := (order.zip (order.drop 1)).filter (fun (x, y) => x.1 != y.1) |>.length
              let partials := (lens.dropLast.filter (· < lv.cfg.size)).length
              let spanning := order.any (fun pd => pd.2.length > lv.cfg.size)
              let small := order.any (fun pd => pd.2.length < lv.cfg.size)
              let exact := order.any (fun pd => pd.2.length == lv.cfg.size)
              let tags := rtags ++ (if lv.echoSame && nested.length > 0 then ["echo-same"] else [])
                ++ (if lv.signals then ["signals"] else [])
                ++ (if nthreads > 1 then ["producers>1"] else ["producers<=1"])
                ++ (if switches > nthreads then ["interleaved"] else [])
                ++ (if partials > 0 then ["timed-flush"] else [])
                ++ (if spanning then ["append>buffer"] else [])
                ++ (if small then ["append<buffer"] else [])
                ++ (if exact then ["append=buffer"] else [])
                ++ (if sch.blockedSeen || (match rp? with | some (_, rp) => rp.blockedSeen | none => false) then ["model-backpressure"] else [])
                ++ (if realBp then ["real-backpressure"] else [])
                ++ (if nested.length > 0 then ["nested-append"] else if lv.echo.isSome then ["echo-idle"] else [])
                ++ (if lv.cfg.minN == lv.cfg.maxN then ["min=max"] else ["min<max"])
                ++ (if lv.cfg.size == 1 then ["size=1"] else [])
                ++ (if lv.cfg.size ≥ 65535 then ["size~2^16"] else [])
                ++ (if order.any (fun pd => pd.2.length ≥ 65536) then ["append>=2^16"] else [])
                ++ (if lv.cfg.interval ≥ 2147483648 then ["interval>=2^31"] else [])
                ++ (if stream.isEmpty then ["empty-stream"] else [])
                ++ (if !aborted.isEmpty then ["append-bad_alloc"] else [])
                ++ (if first == "P destroy ok" then ["destructor"] else [])
                ++ (if lens.getLast? != some lv.cfg.size && !lens.isEmpty then ["cleanup-flushed-partial"] else [])
                ++ (let bnds := boundsOf (order.map (·.2))
                    if (List.zip lens (prefixSums lens).reverse).any (fun (n, e) => n == lv.cfg.size && bnds.contains e) then ["exact-fill"] else [])
                ++ (if order.any (fun pd => pd.2.length == lv.cfg.size * lv.cfg.maxN) then ["append=size*max"] else [])
                ++ (if a.stranded > 0 then ["stranded-start"] else [])
              { a with tags := a.tags ++ tags, live := none, stranded := 0, lifecycles := a.lifecycles + 1,
                       records := a.records + order.length, blocks := a.blocks + lens.length }
      | _, _ => { a with err := some s!"op#{a.nops} unparsable K/S lines" }
    | _, _, _, _, _, _ => { a with err := some s!"op#{a.nops} expected K, S … N, A, Q, E lines after cleanup, got [{kl.take 60}] … [{el.take 40}]" }
  | _ => { a with err := some s!"op#{a.nops} implementation output ends inside cleanup" }

def inRange (w : String) (hi : Nat) : Option Nat :=
  if w.length > 18 then none else
  match w.toNat? with | some n => if n ≤ hi then some n else none | none => none

def maxSize : Nat := 8589934592
def maxInterval : Nat := 4294967297

def stepOp (a : TAcc) (line : String) : TAcc :=
  if a.err.isSome then a else
  let a := { a with nops := a.nops + 1 }
  let bad := expectLine a "bad-op" "malformed op"
  match words line with
  | ["init", w1, w2, w3, w4] =>
    match inRange w1 maxSize, inRange w2 64, inRange w3 64, inRange w4 maxInterval, a.live with
    | some sz, some mn, some mx, some iv, none =>
      let cfg : Cfg := { size := sz, minN := mn, maxN := mx, interval := iv }
      if cfg.ok then expectLine { a with live := some { cfg := cfg } } "P init 1" "initialize"
      else expectLine { a with tags := a.tags ++ ["init-rejected"] } "P init 0" "initialize (bad config must be refused)"
    | _, _, _, _, _ => bad
  | "initfail" :: kind :: more =>
    -- fault schedule for initialize(): thread creation fails / the k-th buffer allocation fails: the exception reaches the
    -- caller, no lifecycle starts (Api.initializeF)
    let args? : Option (Nat × List String) := match kind, more with
      | "thread", [w1, w2, w3, w4] => some (0, [w1, w2, w3, w4])
      | "alloc", [k, w1, w2, w3, w4] => (inRange k 64).map (·, [w1, w2, w3, w4])
      | _, _ => none
    match args?, a.live with
    | some (k, [w1, w2, w3, w4]), none =>
      match inRange w1 4096, inRange w2 64, inRange w3 64, inRange w4 1000 with
      | some sz, some mn, some mx, some iv =>
        if kind == "alloc" && (k < 1 || k > mn) then bad else
        let cfg : Cfg := { size := sz, minN := mn, maxN := mx, interval := iv }
        if cfg.ok then expectLine { a with tags := a.tags ++ ["init-threw-" ++ kind], stranded := a.stranded + (if kind == "alloc" then k - 1 else mn) } "P init threw" "initialize with a failing thread creation / allocation (the exception must reach the caller)"
        else expectLine { a with tags := a.tags ++ ["init-rejected"] } "P init 0" "initialize (bad config must be refused)"
      | _, _, _, _ => bad
    | _, _ => bad
  | ["reinit", w1, w2, w3, w4] =>
    -- initialize() on a pipe that is already running (Api.initialize, repaired): refused, the running lifecycle unaffected
    match inRange w1 4096, inRange w2 64, inRange w3 64, inRange w4 1000, a.live with
    | some _, some _, some _, some _, some _ =>
      expectLine { a with tags := a.tags ++ ["init-twice"] } "P reinit 0" "initialize() on a running pipe must be refused (C10_api_init_twice_refused)"
    | _, _, _, _, _ => bad
  | ["perturb", w1, w2, w3] =>
    match inRange w1 1000000000, inRange w2 5000, inRange w3 5000 with
    | some _, some _, some _ => expectLine a "P perturb" "perturb"
    | _, _, _ => bad
  | ["echo", w1, w2, w3] =>
    -- the sink callback appends a record of w3 payload bytes (pseudo-producer 8) to the same pipe on every w2-th block
    -- (`every`) / on every block shorter than a buffer, i.e. from a timed flush (`partial`); `never` switches it off
    match inRange w2 1000, inRange w3 2000, a.live with
    | some n, some len, some lv =>
      if n < 1 || !(w1 == "every" || w1 == "partial" || w1 == "never" || w1 == "same") then bad
      else if lv.echo.isSome then bad
      else expectLine { a with live := some { lv with echo := if w1 == "never" then none else some len, echoSame := w1 == "same" } } "P echo" "echo"
    | _, _, _ => bad
  | ["unsetcb"] =>
    match a.live with
    | some lv => if lv.anyApp then bad else expectLine { a with live := some { lv with nocb := true } } "P unsetcb" "unsetcb"
    | none => bad
  | ["setcb"] =>
    match a.live with
    | some lv => if lv.anyApp then bad else expectLine { a with live := some { lv with nocb := false } } "P setcb" "setcb"
    | none => bad
  | ["compact"] =>
    match a.live with
    | some lv => if lv.anyApp || lv.echo.isSome then bad else expectLine { a with live := some { lv with compact := true } } "P compact" "compact"
    | none => bad
  | ["allocfail", w1] =>
    match a.live, (w1.splitOn ",").mapM (fun t => inRange t 100000) with
    | some _, some ks => if ks.length > 8 || ks.any (· < 1) then bad else expectLine a "P allocfail" "allocfail"
    | _, _ => bad
  | ["prod", w1, w2, w3] =>
    match inRange w1 7, inRange w2 5000, (w3.splitOn ",").mapM parseTok, a.live with
    | some tid, some _, some toks, some lv =>
      if lv.compact || (lv.declared.getD tid none).isSome || toks.length > 2000 then bad else
      expectLine { a with live := some { lv with declared := lv.declared.setIfInBounds tid (some toks) } } "P prod" "prod"
    | _, _, _, _ => bad
  | ["run"] =>
    match a.live with
    | some lv =>
      if lv.compact then bad else
      let lv' := (List.range 8).foldl (fun (lv : Live) tid =>
        match lv.declared.getD tid none with
        | none => lv
        | some toks =>
          let (seq, recs) := toks.foldl (fun (acc : Nat × List (List UInt8)) t =>
            match t with
            | .zero => (acc.1, [] :: acc.2)
            | .app len _ => (acc.1 + 1, recordBytes tid acc.1 len :: acc.2)) (lv.nextSeq.getD tid 0, [])
          { lv with nextSeq := lv.nextSeq.setIfInBounds tid seq,
                    prog := lv.prog.setIfInBounds tid (lv.prog.getD tid [] ++ recs.reverse),
                    declared := lv.declared.setIfInBounds tid none, nrec := lv.nrec + toks.length, anyApp := true }) lv
      expectLine { a with live := some lv' } "P run" "run"
    | none => bad
  | ["big", w1, w2] =>
    match inRange w1 7, inRange w2 maxSize, a.live with
    | some tid, some len, some lv =>
      if !lv.compact then bad else
      let seq := lv.nextSeq.getD tid 0
      expectLine { a with live := some { lv with nextSeq := lv.nextSeq.setIfInBounds tid (seq + 1), bigs := (tid, seq, len) :: lv.bigs,
                                                  nrec := lv.nrec + 1, anyApp := true } } "P big" "big"
    | _, _, _ => bad
  | ["fillhold", w1, w2] =>
    -- one producer appends one record while the sink is held inside a callback; M-class: live buffers at that quiescent point
    match inRange w1 7, inRange w2 20000, a.live with
    | some tid, some len, some lv =>
      if lv.compact || (lv.declared.getD tid none).isSome then bad else
      let seq := lv.nextSeq.getD tid 0
      let lv' := { lv with nextSeq := lv.nextSeq.setIfInBounds tid (seq + 1), anyApp := true,
                           prog := lv.prog.setIfInBounds tid (lv.prog.getD tid [] ++ [recordBytes tid seq len]), nrec := lv.nrec + 1 }
      match a.tl with
      | ml :: rest =>
        match words ml with
        | ["M", "held", w3, w4] =>
          match (if w3.startsWith "live=" then (w3.drop 5).toString.toNat? else none), w4 with
          | some live, b =>
            let blocked := b == "blocked=1"
            if live > lv.cfg.maxN + (if blocked then 0 else 1) then
              { a with err := some s!"M: op#{a.nops} M-class: {live} buffers alive with the back end held in the sink, buff_max_num is {lv.cfg.maxN} (C10_buffers_bounded)" }
            -- a blocked producer does not imply live = max: after it blocked, the back end may still delete buffers
            -- (buff_num_ > min) without waking it; C10_buffers_bounded only gives min <= buff_num_ <= max there
            else if blocked && live < lv.cfg.minN then
              { a with err := some s!"M: op#{a.nops} M-class: producer blocked on back-pressure with {live} buffers alive, buff_min_num is {lv.cfg.minN}" }
            else expectLine { a with tl := rest, live := some lv', tags := a.tags ++ [if blocked then "fillhold-blocked" else "fillhold-free"] } "P fillhold" "fillhold"
          | none, _ => { a with err := some s!"op#{a.nops} unparsable M held line [{ml.take 60}]" }
        | _ => expectLine a "M held live=<n> blocked=<b>" "fillhold"
      | [] => expectLine a "M held live=<n> blocked=<b>" "fillhold"
    | _, _, _ => bad
  | ["late", w1, w2, w3] =>
    -- an append racing with cleanup(): outside the property statement; the outcome is documented (tag), never judged
    match inRange w1 4096, inRange w2 64, inRange w3 200, a.live with
    | some sz, some mx, some _, none =>
      if sz < 1 || mx < 1 then bad else
      match a.tl with
      | ml :: rest =>
        match words ml with
        | ["M", "late", w] => { a with tl := rest, tags := a.tags ++ ["late:" ++ (w.drop 8).toString] }
        | _ => expectLine a "M late outcome=<word>" "late"
      | [] => expectLine a "M late outcome=<word>" "late"
    | _, _, _, _ => bad
  | ["exp", kind, w1, w2, w3] =>
    -- documented experiments outside the statement (lockless appends without the lock, a throwing sink, a sink that calls
    -- cleanup() on its own pipe): the outcome is a tag, never judged
    match inRange w1 4096, inRange w2 64, inRange w3 200, a.live with
    | some sz, some mx, some _, none =>
      if sz < 1 || mx < 1 || !(kind == "lockless" || kind == "cbthrow" || kind == "cbcleanup") then bad else
      match a.tl with
      | ml :: rest =>
        match words ml with
        | ["M", "exp", k2, w] => if k2 != kind then expectLine a s!"M exp {kind} outcome=<word>" "exp" else
            { a with tl := rest, tags := a.tags ++ [s!"exp-{kind}:" ++ (w.drop 8).toString] }
        | _ => expectLine a s!"M exp {kind} outcome=<word>" "exp"
      | [] => expectLine a s!"M exp {kind} outcome=<word>" "exp"
    | _, _, _, _ => bad
  | ["sig", w1, w2] =>
    -- real signals (SIGUSR1, handled) to the back-end thread: must change nothing
    match inRange w1 200, inRange w2 5000, a.live with
    | some _, some _, some lv => expectLine { a with live := some { lv with signals := true } } "P sig" "sig"
    | _, _, _ => bad
  | ["sigrun", w1, w2] =>
    match inRange w1 200, inRange w2 5000, a.live with
    | some _, some _, some lv => expectLine { a with live := some { lv with signals := true } } "P sigrun" "sigrun"
    | _, _, _ => bad
  | ["sleep", w1] =>
    match inRange w1 500 with
    | some _ => expectLine a "P sleep" "sleep"
    | none => bad
  | ["cleanup"] =>
    match a.live with
    | none => expectLine a "P cleanup noop" "cleanup of a pipe that is not initialised"
    | some lv => judgeCleanup a lv "P cleanup ok" "cleanup() did not return normally"
  | ["destroy"] =>
    -- the destructor: `~Impl` calls cleanup() (Api.destroy) — the same judgement as an explicit cleanup
    match a.live with
    | none => expectLine { a with stranded := 0 } "P destroy noop" "destructor of a pipe that is not initialised"
    | some lv => judgeCleanup a lv "P destroy ok" "the destructor of a running pipe did not return normally"
  | _ => bad

structure DS where
  ops : Array String := #[]
  tl : Array String := #[]

def finish (d : DS) : List String :=
  let a : TAcc := d.ops.foldl stepOp ({ tl := d.tl.toList } : TAcc)
  let tagsLine := if a.tags.isEmpty then [] else ["B " ++ " ".intercalate a.tags.eraseDups]
  match a.err with
  | some e => tagsLine ++ ["reject " ++ e]
  | none =>
    match a.tl with
    | [] => tagsLine ++ [s!"ok ops={a.nops} lifecycles={a.lifecycles} appends={a.records} blocks={a.blocks}"]
    | l :: _ => tagsLine ++ ["reject unexpected extra implementation output: [" ++ (l.take 100).toString ++ "]"]

def stepLine (d : DS) (line : String) : DS × List String :=
  let t := line.trimAscii.toString
  if t.isEmpty then (d, [])
  else if t.startsWith "case " then ({}, [t])
  else if t == "end" then ({}, finish d)
  else if t.startsWith "T " then ({ d with tl := d.tl.push (t.drop 2).toString }, [])
  else ({ d with ops := d.ops.push t }, [])

def main : IO Unit := runDriver ({} : DS) stepLine
