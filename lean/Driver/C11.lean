/- C11 driver: op lines in, observable lines out (same format as props/C11/harness.cpp).
   `c11` runs the model of the repaired module.cpp, `c11 orig` the model of the code before
   patches/C11-01 (used only to validate the tie against an unpatched tree). -/
import TboxModel.Util
import TboxModel.C11.Model
open Tbox.Util Tbox.C11

def evStr : Ev → String
  | .init n ok => "i" ++ toString n ++ (if ok then "+" else "-")
  | .start n ok => "s" ++ toString n ++ (if ok then "+" else "-")
  | .stop n => "t" ++ toString n
  | .cleanup n => "c" ++ toString n

def trStr (tr : List Ev) : String := if tr.isEmpty then "-" else ",".intercalate (tr.map evStr)

def stStr : St → String | .none => "N" | .inited => "I" | .running => "R"

def statesStr (f : Forest) : String :=
  let l := f.states
  if l.isEmpty then "-" else ",".intercalate (l.map fun p => toString p.1 ++ ":" ++ stStr p.2)

def bool? : String → Option Bool | "0" => some false | "1" => some true | _ => none
def id? (w : String) : Option Nat := do
  let n ← w.toNat?
  if n < 1000 then some n else none

def line (ret : Bool) (tr : List Ev) (f : Forest) : String :=
  "P ret=" ++ (if ret then "1" else "0") ++ " tr=" ++ trStr tr ++ " st=" ++ statesStr f

def isCleanup : Ev → Bool | .cleanup _ => true | _ => false
def isStop : Ev → Bool | .stop _ => true | _ => false
def isFail : Ev → Bool | .init _ false => true | .start _ false => true | _ => false

def sizeTag (m : Mod) : String :=
  let n := m.ids.length
  if n ≤ 1 then "n1" else if n ≤ 3 then "n2-3" else if n ≤ 6 then "n4-6" else "n7+"

def upTag (what : String) (roll : Ev → Bool) (ret : Bool) (tr : List Ev) : String :=
  if ret then (if tr.any isFail then what ++ "-ok-optfail" else what ++ "-ok")
  else if tr.isEmpty then what ++ "-gated"
  else if tr.any roll then (if (tr.filter roll).length ≥ 2 then what ++ "-rollback-deep" else what ++ "-rollback")
  else what ++ "-fail-own"

def replaceRoot (f : Forest) (n : Nat) (m : Mod) : Forest := f.map fun x => if x.id == n then m else x

def stepOp (rb : Bool) (f : Forest) (ws : List String) : Option (Forest × List String) :=
  match ws with
  | ["new", n, nm, c, i, s] => do
      let n ← id? n; let nm ← bool? nm; let c ← bool? c; let i ← bool? i; let s ← bool? s
      if (f.find n).isSome then none
      else
        let f' := f ++ [Mod.node ⟨n, nm, c, i, s, .none⟩ .nil]
        pure (f', ["B new", line true [] f'])
  | ["add", p, c, r] => do
      let p ← id? p; let c ← id? c; let r ← bool? r
      let (f', ok) ← f.add p c r
      let tag := if ok then "add-ok"
        else if (f.root? c).isNone then "add-fail-hasparent"
        else if ((f.find p).map fun m => m.info.st != .none) == some true then "add-fail-state"
        else "add-fail-dupname"
      pure (f', ["B " ++ tag, line ok [] f'])
  | ["set", n, c, i, s] => do
      let n ← id? n; let c ← bool? c; let i ← bool? i; let s ← bool? s
      if (f.find n).isNone then none
      else
        let f' := f.map (Mod.setFlags n c i s)
        pure (f', ["B set", line true [] f'])
  | ["main", a, b, n] => do
      -- Main() with the Apps tree = root n (a base Module(""): unnamed, hooks succeed and are not
      -- user hooks, so its own events are not observable)
      let a ← bool? a; let b ← bool? b; let n ← id? n
      let t ← f.root? n
      if t.info.named || !t.info.initOk || !t.info.startOk then none
      else
        let tr := (mainTrace rb a b t).filter fun e => e.id != n
        let f' := f.filter fun x => x.id != n
        pure (f', ["B main-" ++ (match mainCalls rb a b t with
                      | [] => "ctx-init-fail" | [_] => (if (initM rb t).2.1 then "ctx-start-fail" else "apps-init-fail")
                      | [_, _] => "apps-start-fail" | _ => "run"),
                   line true tr f'])
  | [op, n] => do
      let n ← id? n
      let t ← f.root? n
      match op with
      | "init" =>
          let r := initM rb t
          let f' := replaceRoot f n r.1
          pure (f', ["B " ++ upTag "init" isCleanup r.2.1 r.2.2 ++ " " ++ sizeTag t, line r.2.1 r.2.2 f'])
      | "start" =>
          let r := start rb t
          let f' := replaceRoot f n r.1
          pure (f', ["B " ++ upTag "start" isStop r.2.1 r.2.2, line r.2.1 r.2.2 f'])
      | "stop" =>
          let r := stop true t
          let f' := replaceRoot f n r.1
          pure (f', ["B " ++ (if r.2.isEmpty then "stop-noop" else "stop-some"), line true r.2 f'])
      | "cleanup" =>
          let r := cleanup true t
          let f' := replaceRoot f n r.1
          pure (f', ["B " ++ (if r.2.isEmpty then "cleanup-noop" else if r.2.any isStop then "cleanup-with-stop" else "cleanup-only"),
                     line true r.2 f'])
      | "destroy" =>
          let tr := destroy t
          let f' := f.filter fun x => x.id != n
          pure (f', ["B " ++ (if tr.isEmpty then (if t.allNone then "destroy-clean" else "destroy-silent-skip") else "destroy-emits"),
                     line true tr f'])
      | _ => none
  | _ => none

/-- driver state: the forest, and whether branch tags (`B` lines) are switched off for this case -/
abbrev DState := Forest × Bool

def stepLine (rb : Bool) (st : DState) (ln : String) : DState × List String :=
  let ws := words ln
  match ws with
  | [] => (st, [])
  | "case" :: _ => (([], false), [ln.trimAscii.toString])
  | ["quiet"] => ((st.1, true), ["P quiet"])
  | _ =>
    match stepOp rb st.1 ws with
    | none => (st, ["bad-op"])
    | some r => ((r.1, st.2), if st.2 then r.2.filter (fun l => !l.startsWith "B ") else r.2)

def main (args : List String) : IO Unit :=
  runDriver (([], false) : DState) (stepLine (!(args.contains "orig")))
