/- C11 driver: op lines in, observable lines out (same format as props/C11/harness.cpp).
   `c11` runs the model of the repaired module.cpp, `c11 orig` the model of the code before
   patches/C11-01 (used only to validate the tie against an unpatched tree); `nofx` = run_in_backend.cpp
   before patches/C11-06 (the default is the repaired file, in /repo since 6f7372e); `nocatch` = module.cpp before
   patches/C11-07 (no roll-back when an exception leaves a child's initialize()/start()). -/
import TboxModel.Util
import TboxModel.C11.Model
import TboxModel.C11.Arena
import TboxModel.C11.Vars
import TboxModel.C11.Backend
import TboxModel.C11.Names
open Tbox.Util Tbox.C11

def evStr : Ev → String
  | .init n ok => "i" ++ toString n ++ (if ok then "+" else "-")
  | .start n ok => "s" ++ toString n ++ (if ok then "+" else "-")
  | .stop n => "t" ++ toString n
  | .cleanup n => "c" ++ toString n

def trStr (tr : List Ev) : String := if tr.isEmpty then "-" else ",".intercalate (tr.map evStr)

def stStr : St → String | .none => "N" | .inited => "I" | .running => "R"

def statesStr (f : Forest) : String :=
  let l := f.states
  if l.isEmpty then "-" else ",".intercalate (l.map fun p => toString p.1 ++ ":" ++ stStr p.2)

def bool? : String → Option Bool | "0" => some false | "1" => some true | _ => none
def id? (w : String) : Option Nat := do
  let n ← w.toNat?
  if n < 1000 then some n else none

def line (ret : Bool) (tr : List Ev) (f : Forest) : String :=
  "P ret=" ++ (if ret then "1" else "0") ++ " tr=" ++ trStr tr ++ " st=" ++ statesStr f

def isCleanup : Ev → Bool | .cleanup _ => true | _ => false
def isStop : Ev → Bool | .stop _ => true | _ => false
def isFail : Ev → Bool | .init _ false => true | .start _ false => true | _ => false

def sizeTag (m : Mod) : String :=
  let n := m.ids.length
  if n ≤ 1 then "n1" else if n ≤ 3 then "n2-3" else if n ≤ 6 then "n4-6" else "n7+"

def upTag (what : String) (roll : Ev → Bool) (ret : Bool) (tr : List Ev) : String :=
  if ret then (if tr.any isFail then what ++ "-ok-optfail" else what ++ "-ok")
  else if tr.isEmpty then what ++ "-gated"
  else if tr.any roll then (if (tr.filter roll).length ≥ 2 then what ++ "-rollback-deep" else what ++ "-rollback")
  else what ++ "-fail-own"

def replaceRoot (f : Forest) (n : Nat) (m : Mod) : Forest := f.map fun x => if x.id == n then m else x

def stepOp (rb : Bool) (f : Forest) (ws : List String) : Option (Forest × List String) :=
  match ws with
  | ["new", n, nm, c, i, s] => do
      let n ← id? n; let nm ← bool? nm; let c ← bool? c; let i ← bool? i; let s ← bool? s
      if (f.find n).isSome then none
      else
        let f' := f ++ [Mod.node ⟨n, nm, c, i, s, .none⟩ .nil]
        pure (f', ["B new", line true [] f'])
  | ["add", p, c, r] => do
      let p ← id? p; let c ← id? c; let r ← bool? r
      let (f', ok) ← f.add p c r
      let tag := if ok then "add-ok"
        else if (f.root? c).isNone then "add-fail-hasparent"
        else if ((f.find p).map fun m => m.info.st != .none) == some true then "add-fail-state"
        else if ((f.root? c).map fun cr => cr.ids.contains p) == some true then "add-fail-cycle"
        else "add-fail-dupname"
      pure (f', ["B " ++ tag, line ok [] f'])
  | ["set", n, c, i, s] => do
      let n ← id? n; let c ← bool? c; let i ← bool? i; let s ← bool? s
      if (f.find n).isNone then none
      else
        let f' := f.map (Mod.setFlags n c i s)
        pure (f', ["B set", line true [] f'])
  | ["main", a, b, n] => do
      -- Main() with the Apps tree = root n (a base Module(""): unnamed, hooks succeed and are not
      -- user hooks, so its own events are not observable)
      let a ← bool? a; let b ← bool? b; let n ← id? n
      let t ← f.root? n
      if t.info.named || !t.info.initOk || !t.info.startOk then none
      else
        let tr := (mainTrace rb a b t).filter fun e => e.id != n
        let f' := f.filter fun x => x.id != n
        pure (f', ["B main-" ++ (match mainCalls rb a b t with
                      | [] => "ctx-init-fail" | [_] => (if (initM rb t).2.1 then "ctx-start-fail" else "apps-init-fail")
                      | [_, _] => "apps-start-fail" | _ => "run"),
                   line true tr f', "M after-main blocked=0 term=dfl errsig=0"])
  | [op, n] => do
      let n ← id? n
      let t ← f.root? n
      match op with
      | "init" =>
          let r := initM rb t
          let f' := replaceRoot f n r.1
          pure (f', ["B " ++ upTag "init" isCleanup r.2.1 r.2.2 ++ " " ++ sizeTag t, line r.2.1 r.2.2 f'])
      | "start" =>
          let r := start rb t
          let f' := replaceRoot f n r.1
          pure (f', ["B " ++ upTag "start" isStop r.2.1 r.2.2, line r.2.1 r.2.2 f'])
      | "stop" =>
          let r := stop true t
          let f' := replaceRoot f n r.1
          pure (f', ["B " ++ (if r.2.isEmpty then "stop-noop" else "stop-some"), line true r.2 f'])
      | "cleanup" =>
          let r := cleanup true t
          let f' := replaceRoot f n r.1
          pure (f', ["B " ++ (if r.2.isEmpty then "cleanup-noop" else if r.2.any isStop then "cleanup-with-stop" else "cleanup-only"),
                     line true r.2 f'])
      | "destroy" =>
          let tr := destroy t
          let f' := f.filter fun x => x.id != n
          pure (f', ["B " ++ (if tr.isEmpty then (if t.allNone then "destroy-clean" else "destroy-silent-skip") else "destroy-emits"),
                     line true tr f'])
      | _ => none
  | _ => none

/-! ### arena side (hook scripts) -/
open Tbox.C11.Arena in
structure AState where
  σ : Arena.Store := {}
  ids : List Nat := []

namespace AState
open Tbox.C11.Arena

def statesStr (a : AState) : String :=
  let l := (a.ids.filter fun n => (a.σ n).alive).mergeSort (· ≤ ·)
  if l.isEmpty then "-" else ",".intercalate (l.map fun n => toString n ++ ":" ++ stStr (a.σ n).st)

def resLine (a : AState) (r : Res) : List String :=
  let a' : AState := { a with σ := r.σ }
  (if r.oof then ["M fuel-exhausted"] else []) ++
  ["P ret=" ++ (if r.thrown then "X" else if r.ret then "1" else "0") ++ " tr=" ++ trStr r.tr ++ " st=" ++ a'.statesStr]

def api? : String → Option Api
  | "init" => some .init | "start" => some .start | "stop" => some .stop | "cleanup" => some .cleanup | _ => none

def apiC? : Char → Option Api
  | 'i' => some .init | 's' => some .start | 't' => some .stop | 'c' => some .cleanup | _ => none

def hook? : String → Option Hook
  | "i" => some .onInit | "s" => some .onStart | "t" => some .onStop | "c" => some .onCleanup | _ => none

/-- `c<api>:<target>` | `a:<parent>:<child>:<req>` | `x` -/
def act? (w : String) : Option Act :=
  if w == "x" then some .throw
  else match w.splitOn ":" with
    | [h, t] => do
        match h.toList with
        | ['c', k] => pure (.call (← id? t) (← apiC? k))
        | _ => none
    | ["a", p, c, r] => do pure (.add (← id? p) (← id? c) (← bool? r))
    | _ => none

def acts? : List String → Option (List Act)
  | [] => some []
  | w :: ws => do pure ((← act? w) :: (← acts? ws))

def step (g x : Bool) (a : AState) (ws : List String) : Option (AState × List String × Bool) :=
  match ws with
  | ["new", n, nm, c, i, s] => do
      let n ← id? n; let nm ← bool? nm; let c ← bool? c; let i ← bool? i; let s ← bool? s
      if (a.σ n).alive then none
      else
        let a' : AState := { σ := a.σ.set n { alive := true, named := nm, cfg := c, initOk := i, startOk := s }, ids := a.ids ++ [n] }
        pure (a', a'.resLine (Res.ok a'.σ true []), false)
  | ["add", p, c, r] => do
      let p ← id? p; let c ← id? c; let r ← bool? r
      let (σ', ok) ← addOp a.σ p c r
      pure ({ a with σ := σ' }, resLine { a with σ := σ' } (Res.ok σ' ok []), false)
  | ["set", n, c, i, s] => do
      let n ← id? n; let c ← bool? c; let i ← bool? i; let s ← bool? s
      if !(a.σ n).alive then none
      else
        let x := a.σ.get n
        let σ' := a.σ.set n { x with cfg := c, initOk := i, startOk := s }
        pure ({ a with σ := σ' }, resLine a (Res.ok σ' true []), false)
  | "hook" :: n :: h :: rest => do
      let n ← id? n; let h ← hook? h; let acts ← acts? rest
      if !(a.σ n).alive then none
      else
        let σ' := a.σ.set n ((a.σ n).setSlot h acts)
        pure ({ a with σ := σ' }, resLine a (Res.ok σ' true []), false)
  | [op, n] => do
      let n ← id? n
      if !(a.σ n).alive || (a.σ n).hasParent then none
      else if op == "fillinit" then
        -- js = {}; root.fillDefaultConfig(js); root.initialize(js)
        let σ1 := fillAll 1000 a.σ n
        let r := aCall g x fuel0 σ1 n .init true
        -- the filled object lives for this call only: the modules' own cfg flags are what later `init` ops use
        let σ2 := a.ids.foldl (fun acc k => let x := acc.get k; acc.set k { x with cfg := (a.σ.get k).cfg }) r.σ
        pure ({ a with σ := σ2 }, resLine a { r with σ := σ2 }, false)
      else if op == "destroy" then
        let r := aDestroy g x fuel0 a.σ n
        pure ({ a with σ := r.σ }, resLine a r, false)
      else
        let ap ← api? op
        let r := aCall g x fuel0 a.σ n ap true
        let r' := aCall (!g) x fuel0 a.σ n ap true
        let differs := r.tr != r'.tr || r.ret != r'.ret || r.thrown != r'.thrown
        let r2 := aCall g (!x) fuel0 a.σ n ap true
        let differsX := r.tr != r2.tr || r.ret != r2.ret || r.thrown != r2.thrown
        pure ({ a with σ := r.σ }, (if differsX then ["B catch-matters"] else []) ++ (if r.td then ["B teardown-throw"] else []) ++ resLine a r, differs)
  | _ => none
end AState

/-! ### util::Variables ops -/
namespace VOps
open Tbox.C11.Vars

def ext (a : AState) (k : Nat) : Option (Option Nat) :=
  if k < 1000 then some (if (a.σ.get k).alive && (a.σ.get k).hasParent then some (a.σ.get k).parent else none) else none

/-- `v<k>` = stand-alone object k (must exist), `m<id>` = the `vars()` of a live module -/
def target? (a : AState) (v : VStore) (w : String) : Option (Nat × Bool) :=
  match w.toList with
  | 'v' :: r => do
      let k ← (String.ofList r).toNat?
      if k < 16 && v.l.any (fun p => p.1 == 2000 + k) then some (2000 + k, true) else none
  | 'm' :: r => do
      let k ← id? (String.ofList r)
      if (a.σ.get k).alive then some (k, false) else none
  | _ => none

def name? (w : String) : Option String := if w.length ≥ 1 && w.length ≤ 3 && w.toList.all Char.isLower then some w else none

def vline (ret : Bool) (val : Option Int) : List String :=
  ["P ret=" ++ (if ret then "1" else "0") ++ " val=" ++ (match val with | some x => toString x | none => "-")]

def step (a : AState) (v : VStore) (ws : List String) : Option (VStore × List String) :=
  match ws with
  | ["vnew", k] => do
      let k ← k.toNat?
      if k < 16 && !(v.l.any fun p => p.1 == 2000 + k) then pure (v.set (2000 + k) {}, vline true none) else none
  | ["vpar", x, y] => do
      let (kx, sx) ← target? a v x
      if !sx then none
      else if y == "-" then pure ((setParent v (ext a) kx none).1, vline true none)
      else
        let (ky, sy) ← target? a v y
        if !sy then none
        else let r := setParent v (ext a) kx (some ky); pure (r.1, vline r.2 none)
  | ["vdef", x, n, val] => do
      let (k, _) ← target? a v x; let n ← name? n; let val ← intOfString? val
      let r := define v k n val; pure (r.1, vline r.2 none)
  | ["vundef", x, n] => do
      let (k, _) ← target? a v x; let n ← name? n
      let r := undefine v k n; pure (r.1, vline r.2 none)
  | ["vhas", x, n, l] => do
      let (k, _) ← target? a v x; let n ← name? n; let l ← bool? l
      pure (v, vline (findDef v (ext a) fuelV k n l).isSome none)
  | ["vget", x, n, l] => do
      let (k, _) ← target? a v x; let n ← name? n; let l ← bool? l
      let r := findDef v (ext a) fuelV k n l
      pure (v, vline r.isSome (r.map (·.2)))
  | ["vset", x, n, val, l] => do
      let (k, _) ← target? a v x; let n ← name? n; let val ← intOfString? val; let l ← bool? l
      let r := setVar v (ext a) k n val l; pure (r.1, vline r.2 none)
  | ["vcopy", x, y] => do
      let (kx, sx) ← target? a v x; let (ky, sy) ← target? a v y
      if !sx || !sy then none else pure (copy v (ext a) kx ky, vline true none)
  | ["vswap", x, y] => do
      let (kx, sx) ← target? a v x; let (ky, sy) ← target? a v y
      if !sx || !sy then none else pure (swap v (ext a) kx ky, vline true none)
  | _ => none
end VOps


/-! ### names, addAs and the configuration object (`k…` ops, TboxModel/C11/Names.lean) -/
namespace KOps
open Tbox.C11.Names

structure KState where
  σ : KStore := {}
  ids : List Nat := []
  cfg : J := .null

def nameTokens : List String := ["-", "#", "a", "b", "c", "children", "required", "vars"]
def name? (w : String) : Option Nat := nameTokens.idxOf? w
def path? (w : String) : Option (List Nat) := (w.splitOn "/").mapM name?
def names? : List String → Option (List Nat) := fun ws => ws.mapM name?

def kevStr : KEv → String
  | .init n m => "i" ++ toString n ++ "+" ++ (match m with | some v => toString v | none => "?")
  | .cleanup n => "c" ++ toString n

def alive (k : KState) : List Nat := (k.ids.filter fun n => (k.σ.get n).alive).mergeSort (· ≤ ·)

def stStr (k : KState) : String :=
  let l := alive k
  if l.isEmpty then "-" else ",".intercalate (l.map fun n => toString n ++ ":" ++ (if (k.σ.get n).st then "I" else "N"))

def nmStr (k : KState) : String :=
  let l := alive k
  if l.isEmpty then "-" else ",".intercalate (l.map fun n => toString n ++ ":" ++ nameTokens.getD (k.σ.get n).name "?")

def trStr (tr : List KEv) : String := if tr.isEmpty then "-" else ",".intercalate (tr.map kevStr)

def rline (k : KState) (ret : String) (tr : List KEv) : String :=
  "P ret=" ++ ret ++ " tr=" ++ trStr tr ++ " st=" ++ stStr k ++ " nm=" ++ nmStr k

def b01 (b : Bool) : String := if b then "1" else "0"

def isRoot (k : KState) (n : Nat) : Bool := (k.σ.get n).alive && !(k.σ.get n).hasParent

def step (k : KState) (ws : List String) : Option (KState × List String) :=
  match ws with
  | ["knew", n, nm] => do
      let n ← id? n; let nm ← name? nm
      if (k.σ.get n).alive then none
      else
        let k' : KState := { k with σ := k.σ.set n { alive := true, name := nm }, ids := k.ids ++ [n] }
        pure (k', ["B knew", rline k' "1" []])
  | "kwr" :: n :: keys => do
      let n ← id? n; let keys ← names? keys
      if !(k.σ.get n).alive || keys.contains 0 then none
      else
        let k' : KState := { k with σ := k.σ.set n { k.σ.get n with writes := keys } }
        pure (k', ["B kwr", rline k' "1" []])
  | ["kadd", p, c, r] => do
      let p ← id? p; let c ← id? c; let r ← bool? r
      if !(k.σ.get p).alive || !(k.σ.get c).alive then none
      else
        let res := addK k.σ p c r
        let k' : KState := { k with σ := res.1 }
        pure (k', ["B kadd-" ++ (if res.2 then "ok" else if dupName k.σ (k.σ.get p).kids (k.σ.get c).name then "dup" else "refused"),
                   rline k' (b01 res.2) []])
  | ["kaddas", p, c, nm, r] => do
      let p ← id? p; let c ← id? c; let nm ← name? nm; let r ← bool? r
      if !(k.σ.get p).alive || !(k.σ.get c).alive then none
      else
        let res := addAsK k.σ p c nm r
        let k' : KState := { k with σ := res.1 }
        pure (k', ["B kaddas-" ++ (if res.2 then "ok" else if dupName k.σ (k.σ.get p).kids nm then "dup" else "refused"),
                   rline k' (b01 res.2) []])
  | ["knull", p, nm, r] => do
      let p ← id? p; let _ ← name? nm; let _ ← bool? r
      if !(k.σ.get p).alive then none
      else match addAsNull true k.σ with
        | some res => pure ({ k with σ := res.1 }, ["B knull", rline k (b01 res.2) []])
        | none => none
  | ["kcfg"] => pure ({ k with cfg := .null }, ["B kcfg", "P cfg"])
  | ["kput", path, v] => do
      let path ← path?  path
      let v ← (match v with | "n" => some (J.num 7) | "o" => some (J.obj []) | "z" => some J.null | _ => none)
      if path.contains 0 then none
      else match putPath k.cfg path v with
        | some j => pure ({ k with cfg := j }, ["B kput", "P ret=1"])
        | none => pure ({ k with cfg := .null }, ["B kput-throws", "P ret=X"])
  | ["kdel", path] => do
      let path ← path? path
      if path.contains 0 then none
      else pure ({ k with cfg := delPath k.cfg path }, ["B kdel", "P ret=1"])
  | [op, n] => do
      let n ← id? n
      if !isRoot k n then none
      else match op with
        | "kfill" =>
          match fill fuelK k.σ n k.cfg with
          | some j => pure ({ k with cfg := j }, ["B kfill", "P ret=1"])
          | none => pure ({ k with cfg := .null }, ["B kfill-throws", "P ret=X"])
        | "kinit" =>
          let r := kInit fuelK k.σ n k.cfg
          let k' : KState := { k with σ := r.1 }
          let ms := r.2.2.filterMap fun e => match e with | .init m (some v) => some (m, v) | _ => none
          let shared := ms.any fun a => ms.any fun b => a.1 != b.1 && a.2 == b.2
          let foreign := r.2.2.any fun e => match e with | .init m v => v != some m && (k.σ.get m).name != 0 | _ => false
          pure (k', ["B kinit-" ++ (if r.2.1 then "ok" else if r.2.2.isEmpty then "gated" else "rollback") ++
                       (if shared then " kshared" else "") ++ (if foreign then " kforeign" else ""),
                     rline k' (b01 r.2.1) r.2.2])
        | "kcleanup" =>
          let r := kCleanup fuelK k.σ n
          let k' : KState := { k with σ := r.1 }
          pure (k', ["B kcleanup", rline k' "1" r.2])
        | "kdestroy" =>
          let r := kDestroy fuelK k.σ n
          let k' : KState := { k with σ := r.1 }
          pure (k', ["B kdestroy" ++ (if r.2.isEmpty then "" else " kdestroy-emits"), rline k' "1" r.2])
        | "kjson" => pure (k, ["B kjson", "P json=" ++ jsonStr fuelK k.σ n])
        | _ => none
  | _ => none
end KOps

/-- driver state: the forest (tree model; dropped once a hook script is installed), the arena,
whether branch tags are switched off, whether the case is scripted -/
structure DState where
  f : Forest := []
  quiet : Bool := false
  a : AState := {}
  scripted : Bool := false
  v : Vars.VStore := {}
  b : Option Backend.Rt := none          -- `_runtime` of run_in_backend.cpp
  dead : Bool := false                   -- the process died in an earlier Start()/Stop()
  sig : Option (Nat × Nat) := none       -- `raise <hook> <id>`: stop signal raised from inside that hook during Main()
  k : KOps.KState := {}                  -- the names world (`k…` ops)


/-! ### run_in_backend.cpp (`bstart` / `bstop`) and a stop signal during Main() (`raise`) -/

def filt (n : Nat) (tr : List Ev) : List Ev := tr.filter fun e => e.id != n

def hookNo? : String → Option Nat
  | "i" => some 0 | "s" => some 1 | "t" => some 2 | "c" => some 3 | _ => none

/-- the Apps root of a scenario: a base `Module("")` (unnamed, its own hooks are the empty base hooks) -/
def appsRoot? (f : Forest) (n : Nat) : Option Mod := do
  let t ← f.root? n
  if t.info.named || !t.info.initOk || !t.info.startOk then none else some t

def bLine (o : Backend.Out) (n : Nat) (rt : Option Backend.Rt) : List String :=
  if o.crash then ["P bcrash"]
  else ["P bret=" ++ (if o.ret then "1" else "0") ++ " tr=" ++ trStr (filt n o.tr), "M runtime=" ++ (if rt.isSome then "1" else "0")]

def stepProc (fx rb : Bool) (st : DState) (ws : List String) : Option (DState × List String) :=
  match ws with
  | ["bstart", a, p, ci, cs, n] => do
      let a ← bool? a; let p ← bool? p; let ci ← bool? ci; let cs ← bool? cs; let n ← id? n
      let t ← appsRoot? st.f n
      if st.dead then pure (st, ["P dead"])
      else
        let i : Backend.StartIn := ⟨t, a, p, ci, cs⟩
        let r := Backend.startB fx rb st.b i
        let tag := if st.b.isSome then "again" else if !a then "args-fail" else if !p then "pid-fail"
          else match Backend.startCalls rb i with
            | [] => "ctx-init-fail" | [_] => (if (initM rb t).2.1 then "ctx-start-fail" else "apps-init-fail")
            | _ => (if r.2.ret then "run" else "apps-start-fail")
        pure ({ st with b := r.1, dead := r.2.crash }, ["B bstart-" ++ tag] ++ bLine r.2 n r.1)
  | ["bstop", n] => do
      let n ← id? n
      let _ ← appsRoot? st.f n
      if st.dead then pure (st, ["P dead"])
      else
        let r := Backend.stopB st.b
        pure ({ st with b := r.1, dead := r.2.crash },
              ["B bstop-" ++ (if st.b.isNone then "noop" else if r.2.crash then "crash" else "run")] ++ bLine r.2 n r.1)
  | ["arg", _] => pure (st, ["P arg"])       -- configuration of the context: no effect on the hooks
  | ["raise", h, k] => do
      let h ← hookNo? h; let k ← id? k
      if (st.f.find k).isNone then none
      else pure ({ st with sig := some (h, k) }, ["P raise"])
  | ["main", a, b, n] => do
      let (h, k) ← st.sig
      let a ← bool? a; let b ← bool? b; let n ← id? n
      let t ← appsRoot? st.f n
      if k == n then none
      else
        let full := mainTrace rb a b t
        let idx := Backend.hookIdx h k full
        let r := Backend.mainSig rb a b t idx
        let phase := if idx ≥ full.length then "sig-none"
          else match Backend.upLen rb a b t with
            | some u => if idx < u then "sig-startup" else "sig-shutdown"
            | none => "sig-failpath"
        pure ({ st with f := st.f.filter fun x => x.id != n, sig := none },
              ["B main-" ++ phase, "P ret=" ++ (if r.2 then "K" else "1") ++ " tr=" ++ trStr (filt n r.1) ++ " st=-"] ++
                (if r.2 then [] else ["M after-main blocked=0 term=dfl errsig=0"]))
  | _ => none

def stepLine (fx rb g x : Bool) (st0 : DState) (ln : String) : DState × List String :=
  let ws := words ln
  -- a new module starts with an empty vars() object
  let st : DState := match ws with
    | "new" :: n :: _ => (match id? n with | some k => { st0 with v := st0.v.set k {} } | none => st0)
    | _ => st0
  match ws with
  | [] => (st, [])
  | "case" :: _ => ({}, [ln.trimAscii.toString])
  | ["quiet"] => ({ st with quiet := true }, ["P quiet"])
  | _ =>
    if ws.head? == some "bstart" || ws.head? == some "bstop" || ws.head? == some "raise" || ws.head? == some "arg" ||
        (ws.head? == some "main" && st.sig.isSome) then
      match stepProc fx rb st ws with
      | none => (st, ["bad-op"])
      | some r => r
    else if (ws.head?.map (·.startsWith "k")) == some true then
      match KOps.step st.k ws with
      | none => (st, ["bad-op"])
      | some (k', ls) => ({ st with k := k' }, if st.quiet then ls.filter (fun l => !l.startsWith "B ") else ls)
    else if ws.head? == some "json" then
      -- `root->toJson(js)`: rendered from the arena (kept in step with the tree model in unscripted cases)
      match ws with
      | [_, n] =>
        match id? n with
        | some n =>
          if st.quiet || !(st.a.σ n).alive || (st.a.σ n).hasParent then (st, ["bad-op"])
          else (st, ["B json", "P json=" ++ (Arena.toMod 1000 st.a.σ n).jsonStr (fun k => (st.v.get k).map.length)])
        | none => (st, ["bad-op"])
      | _ => (st, ["bad-op"])
    else if !st.quiet && (ws.head?.map (·.startsWith "v")) == some true then
      match VOps.step st.a st.v ws with
      | none => (st, ["bad-op"])
      | some (v', ls) => ({ st with v := v' }, ["B vars"] ++ ls)
    else if st.quiet then
      -- exhaustive small-scope runs: tree model only, no tags
      match stepOp rb st.f ws with
      | none => (st, ["bad-op"])
      | some r => ({ st with f := r.1 }, r.2.filter (fun l => !l.startsWith "B "))
    else if st.scripted || ws.head? == some "hook" || ws.head? == some "fillinit" then
      match AState.step g x st.a ws with
      | none => (st, ["bad-op"])
      | some (a', ls, differs) =>
        ({ st with a := a', scripted := true },
         ["B scripted" ++ (if differs then " guard-matters" else "") ++
            (if ls.any (fun l => l.startsWith "P ret=X") then " thrown" else "")] ++ ls)
    else
      let ar := AState.step g x st.a ws
      match stepOp rb st.f ws with
      | none => (st, (if ar.isSome && ws.head? != some "main" then ["M MODEL-MISMATCH tree=bad-op arena accepts"] else []) ++ ["bad-op"])
      | some r =>
        if ws.head? == some "main" then ({ st with f := r.1, scripted := false, a := st.a }, r.2)   -- (arena has no Main(); case ends here)
        else
          match ar with
          | none => ({ st with f := r.1 }, ["M MODEL-MISMATCH arena=bad-op"] ++ r.2)
          | some (a', ls, _) =>
            let tl := r.2.filter (fun l => l.startsWith "P ")
            let al := ls.filter (fun l => l.startsWith "P ")
            ({ st with f := r.1, a := a' },
             (if tl == al then [] else ["M MODEL-MISMATCH tree=" ++ " | ".intercalate tl ++ " arena=" ++ " | ".intercalate al]) ++ r.2)

def main (args : List String) : IO Unit :=
  runDriver ({} : DState) (stepLine (!(args.contains "nofx")) (!(args.contains "orig")) (!(args.contains "noguard"))
    (!(args.contains "nocatch")))
