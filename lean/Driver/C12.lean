/- C12 driver: op lines in, observable lines out (same format as props/C12/harness.cpp). -/
import TboxModel.Util
import TboxModel.C12.Pipeline
import TboxModel.C12.Multi
import TboxModel.C12.Url
open Tbox.Util Tbox.C12

def cfg : Cfg := Cfg.fixed

def showKVs (m : List (Bytes × Bytes)) : String :=
  if m.isEmpty then "-" else ",".intercalate (m.map fun (k, v) => hexOfBytes k ++ ":" ++ hexOfBytes v)

def showReq (r : Req) : String :=
  "m=" ++ methodStr r.method ++ " path=" ++ hexOfBytes r.url.path ++ " params=" ++ showKVs r.url.params ++
  " query=" ++ showKVs r.url.query ++ " frag=" ++ hexOfBytes r.url.frag ++ " ver=" ++ verStr r.ver ++
  " hdr=" ++ showKVs r.headers ++ " body=" ++ hexOfBytes r.body ++ " str=" ++ hexOfBytes r.render ++
  " rt=" ++ (if parseUrlPath (urlPathToString r.url) == some r.url then "1" else "0")

def showPath (u : UrlPath) : String :=
  "path=" ++ hexOfBytes u.path ++ " params=" ++ showKVs u.params ++ " query=" ++ showKVs u.query ++ " frag=" ++ hexOfBytes u.frag

def showHost (h : UrlHost) : String :=
  "user=" ++ hexOfBytes h.user ++ " pw=" ++ hexOfBytes h.password ++ " host=" ++ hexOfBytes h.host ++ " port=" ++ toString h.port

def pathTags (u : UrlPath) : String :=
  "B " ++ (if u.wf then "url-wf" else "url-nwf") ++ (if u.params.isEmpty then "" else " url-params") ++
    (if u.query.isEmpty then "" else " url-query") ++ (if u.frag.isEmpty then "" else " url-frag")

/-- `mkpath` / `mkurl`: print a path value and read the text back -/
def backPath (u : UrlPath) : String :=
  "str=" ++ hexOfBytes (urlPathToString u) ++ " back=" ++
    (match parseUrlPath (urlPathToString u) with
     | none => "0"
     | some v => "1 " ++ showPath v ++ " rt=" ++ (if v == u then "1" else "0"))

def methodNames : List String := ["kUnset", "kGet", "kHead", "kPut", "kPost", "kTrace", "kOptions", "kDelete"]
def verNames : List String := ["kUnset", "k1_0", "k1_1", "k2_0"]

def showSt : St → String
  | .init => "init" | .startLine => "startline" | .heads => "heads" | .all => "all" | .fail => "fail"

/-- the server with its connections and the connection the following op lines are about (`on <k>`) -/
structure Sv where
  m : MServer
  cur : Nat
  /-- (connection, request index): a NEW client connects while the first handler of that request runs (script prefix `q`) -/
  hq : List (Nat × Nat) := []
  /-- what the clients waiting in the listen backlog have already sent (one entry per waiting client, in connect order) -/
  pdata : List Bytes := []

/-- the current connection's record, with the (global) queue of write answers in front of it -/
def Sv.view (v : Sv) : Server :=
  match v.m.clients[v.cur]? with
  | some cl => { cl.srv with wq := v.m.wq }
  | none => {}

/-- a modelled event of the current connection -/
def Sv.apply (v : Sv) (op : SrvOp) : Sv := { v with m := v.m.step (.on v.cur op) }

/-- driver-only manipulation of the current connection's record (spec mode of `chalfS`) -/
def Sv.lift (v : Sv) (s' : Server) : Sv :=
  { v with m := ({ v.m.setSrv v.cur { s' with wq := [] } with wq := s'.wq }).sync v.cur }

inductive Mode
  | fresh
  | parser (c : Conn)
  | server (v : Sv)

/-- what the OTHER connections see during an op (bytes at their clients: never; end of stream: when the server was stopped)
and the system calls on the server side of every connection (close when a connection is torn down; nothing else) -/
def crossLinesG (all : Bool) (v v' : Sv) (threw : Bool) : List String :=
  if threw && !all then ["M sys -"] else
  let idx := List.range v'.m.clients.length
  let valid (m : MServer) (d : Nat) : Bool := ((m.clients[d]?).map (·.srv.pipe.valid)).getD false
  let bytes (m : MServer) (d : Nat) : Bytes := ((m.clients[d]?).map (·.srv.pipe.peerBytes)).getD []
  let xs := idx.flatMap fun d =>
    if d == v.cur && !all then [] else
    let newly := (bytes v'.m d).drop (bytes v.m d).length
    (if newly.isEmpty then [] else ["P xout " ++ toString d ++ " " ++ hexOfBytes newly]) ++
    (if valid v.m d && !valid v'.m d && !threw then ["P xeof " ++ toString d] else [])
  -- `TcpServer::stop()` walks the cabinet cell by cell: the sockets are closed in the order of their cabinet positions
  let pos (d : Nat) : Nat := ((v'.m.clients[d]?).map (·.tok.pos)).getD 0
  let closing := if threw then [] else
    (idx.filter fun d => (valid v.m d || d ≥ v.m.clients.length) && !valid v'.m d).mergeSort (fun a b => if all || !v'.hq.isEmpty then a ≤ b else pos a ≤ pos b)
  let sys := (idx.filter (· ≥ v.m.clients.length)).map (fun d => "c" ++ toString d ++ ":setfl+nonblock") ++
    closing.map (fun d => "c" ++ toString d ++ ":close")
  xs ++ ["M sys " ++ (if sys.isEmpty then "-" else ",".intercalate sys)]

def crossLines (v v' : Sv) (threw : Bool) : List String := crossLinesG false v v' threw

def evTags (evs : List Ev) : List String :=
  evs.map fun e => match e with
    | .parsed _ st => "parse-" ++ showSt st
    | .req _ last d => (if d then "req-declared" else "req-undeclared") ++ (if last then " req-last" else "")

/-- parser-level `feed` -/
def doFeed (c : Conn) (seg : Bytes) : Conn × List String :=
  if c.dead then (c, ["B dead", "P dead"]) else
  let o := recv cfg (fun _ => false) c seg
  let plines := o.evs.filterMap fun e => match e with
    | .req r _ _ => some ("P req " ++ showReq r)
    | _ => none
  let calls := o.evs.filterMap fun e => match e with
    | .parsed n st => some (toString n ++ ":" ++ showSt st)
    | _ => none
  let tail := match o.status with
    | .threw => ["P exception"]
    | .hang => ["P hang"]
    | .ok => (if o.conn.dead then ["P fail"] else []) ++
             ["M calls=" ++ (if calls.isEmpty then "-" else ",".intercalate calls) ++ " end=" ++ showSt o.conn.ps.st ++
              " pending=" ++ toString o.conn.buf.length]
  (o.conn, ["B " ++ " ".intercalate (evTags o.evs ++ (if seg.isEmpty then ["empty-seg"] else []))] ++ plines ++ tail)

def pipeTags (before after : Pipe) : List String :=
  let w := after.written.length - before.written.length
  (if w = 1 then ["wrote-1"] else if w > 1 then ["wrote-flush"] else []) ++
  (if after.resBuff.length > before.resBuff.length then ["parked"] else []) ++
  (if before.valid && !after.valid then ["disconnected"] else []) ++
  (if !before.valid then ["on-invalid"] else []) ++
  (if after.closeIndex.isSome && before.closeIndex.isNone then ["close-marked"] else []) ++
  (if after.pastClose && w > 0 then ["wrote-closing"] else [])

def fnv (bs : Bytes) : UInt32 := bs.foldl (fun h b => (h ^^^ b.toUInt32) * 16777619) 2166136261

def hex32 (v : UInt32) : String :=
  String.ofList ((List.range 8).map fun i => hexDigit ((v.toNat / 16 ^ (7 - i)) % 16))

/-- bytes the client received during the op (what the kernel delivered); large outputs as
length + FNV-1a digest -/
def showOut (before after : Pipe) : List String :=
  let newly := after.peerBytes.drop before.peerBytes.length
  [if newly.length > 4096 then "P out len=" ++ toString newly.length ++ " fnv=" ++ hex32 (fnv newly)
   else "P out " ++ hexOfBytes newly] ++ (if before.valid && !after.valid then ["P eof"] else [])

def parseKVs? (w : String) : Option (List (Bytes × Bytes)) :=
  if w == "-" then some [] else
  (w.splitOn ",").foldlM (init := []) fun m item =>
    match item.splitOn ":" with
    | [k, v] => match bytesOfHex k, bytesOfHex v with
      | some k, some v => some (mapInsert k v m)
      | _, _ => none
    | _ => none

/-- a handler completes request i; in spec mode (after `chalfS`) the server closes once nothing is outstanding -/
def doDone (tag : String) (v : Sv) (i : Nat) (r : Respond) : Option (Sv × List String) :=
  let s := v.view
  if !s.outstanding.contains i then none else
  let v1 := v.apply (.done i r)
  let s' := v1.view
  let v2 := if s.halfSpec && s'.outstanding.isEmpty && s'.pipe.valid then v1.lift (s'.emit [.drop]) else v1
  let s'' := v2.view
  some (v2, ["B " ++ tag ++ " " ++ " ".intercalate (pipeTags s.pipe s''.pipe ++ (if s.pipe.wbroken then ["after-write-error"] else []) ++
                 (if s''.pipe.wbroken && !s.pipe.wbroken then
                    (if s''.pipe.written.length > s.pipe.written.length + 1 then ["epipe-mid-batch"] else ["epipe-in-commit"]) else []) ++
                 (if s''.stuck && !s.stuck then ["send-buffer-stuck"] else []) ++
                 (if s''.wq.length < s.wq.length then ["wq-used"] else []) ++
                 (if v.m.clients.length > 1 then ["multi-done"] else []) ++
                 (if v.m.clients.length > 1 && !s.pipe.valid then ["multi-late-commit"] else []) ++
                 (if !s.pipe.valid && v.m.clients.any (fun cl => cl.srv.pipe.valid && cl.tok.pos == ((v.m.clients[v.cur]?).map (·.tok.pos)).getD 0)
                    then ["stale-token-slot-reused"] else []))]
               ++ showOut s.pipe s''.pipe)

def deliveredLines (ds : List Delivered) : List String :=
  ds.flatMap fun d => ("P req " ++ toString d.idx ++ " " ++ showReq d.req) ::
    d.calls.map fun l => "P call " ++ toString d.idx ++ " " ++ toString l

def scriptTags (s : Server) (ds : List Delivered) : List String :=
  ds.flatMap fun d =>
    let sc := (s.scripts.lookup d.idx).getD defaultScript
    let acts := sc.flatten
    (if d.calls.length > 1 then ["h-next"] else []) ++
    (if (d.calls.filter (· == 1)).length > 1 || (d.calls.filter (· == 2)).length > 1 then ["h-next-twice"] else []) ++
    (if acts.contains .throw then ["h-throw"] else []) ++ (if acts.contains .stop then ["h-stop"] else []) ++
    (if acts.contains .cleanup then ["h-cleanup"] else []) ++
    (if acts.contains .keep && acts.any (fun a => match a with | .body _ => true | _ => false) then ["h-keep-and-body"] else [])

/-- a client connects (from inside a handler, or while the server is stopped): accepted in one of the next loop passes
when the server is running, left in the listen backlog when it is stopped, refused after `cleanup()` -/
def Sv.arrive (v : Sv) (data : Bytes) : Sv :=
  if v.m.poisoned then v else
  if v.m.state == .running then { v with m := v.m.step .conn }
  else if v.m.state == .inited then { v with m := v.m.step .connq, pdata := v.pdata ++ [data] }
  else v

/-- the clients that connected from inside handlers during this op: the listening socket is looked at in the passes AFTER the
one that ran the handlers, so a `stop()` later in the same pass leaves all of them in the backlog -/
def Sv.arrivals (v : Sv) (nq : Nat) : Sv × List String :=
  let v' := (List.range nq).foldl (fun a _ => a.arrive []) v
  (v', if nq > 0 then ["P hconn " ++ toString v'.m.clients.length ++ " " ++ toString v'.m.pending] else [])

/-- returns the state BEFORE the handler-time connects are taken into account, the lines up to and the lines after the
`P hconn` line, and the number of such connects -/
def doSeg0 (v : Sv) (seg : Bytes) (multi : Bool) : Sv × List String × List String × Nat :=
  let s := v.view
  let (_, ds, st) := s.seg cfg seg
  let nq := (ds.filter fun d => v.hq.contains (v.cur, d.idx)).length
  let v' := v.apply (.seg seg)
  let s' := v'.view
  let stl := match st with | .threw => ["P exception"] | .hang => ["P hang"] | .ok => []
  let others := (v.m.clients.filter (·.srv.pipe.valid)).length
  (v', ["B " ++ " ".intercalate (ds.map (fun _ => "req-srv") ++ scriptTags s ds ++ pipeTags s.pipe s'.pipe ++
          (if s.conn.closed && s.pipe.valid then ["seg-after-close"] else []) ++
          (if s'.pipe.wbroken && !s.pipe.wbroken then ["epipe-in-seg"] else []) ++
          (if v.m.clients.length > 1 then ["multi-seg"] else []) ++
          (if v.m.clients.length > 1 && !s.conn.buf.isEmpty then ["multi-seg-resumes"] else []) ++
          (if (MServer.segStops s seg).isSome && others > 1 then ["multi-handler-stop"] else []) ++
          (if nq > 0 then ["h-connect"] ++ (if (MServer.segStops s seg) == some false then ["h-connect-queued"] else []) ++
             (if (MServer.segStops s seg) == some true then ["h-connect-lost"] else []) else []))] ++
       (if multi then (deliveredLines ds).flatMap (fun l => if l.startsWith "P req " then ["P xreq " ++ toString v.cur, l] else [l])
        else deliveredLines ds) ++ stl,
       -- after an exception the loop is not run again: a pending close of the socket is not seen by the client
       (if multi then [] else (showOut s.pipe s'.pipe).filter (fun l => !(st == .threw && l == "P eof"))), nq)

def doSeg (v : Sv) (seg : Bytes) : Sv × List String :=
  let (v1, pre, post, nq) := doSeg0 v seg false
  let (v2, hl) := v1.arrivals nq
  (v2, pre ++ hl ++ post)

/-- several connections have a segment waiting when the loop makes its next pass; the engine reports them in the order of
`items` (oracle: the order of the events `epoll_wait` returns). A handler that throws ends the pass; one that stops the server
leaves the remaining connections torn down before their segment is read. -/
def multiSeg (v : Sv) (items : List (Nat × Bytes)) : Sv × List String × Bool :=
  let cur0 := v.cur
  let (v0, ls, rd, threw, nq) := items.foldl (fun (acc : Sv × List String × List Nat × Bool × Nat) (it : Nat × Bytes) =>
    let (a, ls, rd, threw, nq) := acc
    if threw || it.2.isEmpty then acc else
    let a1 : Sv := { a with cur := it.1 }
    if a1.view.halfSpec then acc else
    let live := a1.view.pipe.valid
    let (a2, l2, _, n2) := doSeg0 a1 it.2 true
    ({ a2 with cur := cur0 }, ls ++ l2, if live then rd ++ [it.1] else rd, l2.contains "P exception", nq + n2)) (v, [], [], false, 0)
  let (v', hl) := v0.arrivals nq
  let tags := (ls.filter (·.startsWith "B ")).map (fun l => (l.drop 2).toString)
  let ps := ls.filter (fun l => !l.startsWith "B ")
  (v', ["B " ++ " ".intercalate tags] ++ ps ++ hl ++ ["M rd " ++ (if rd.isEmpty then "-" else ",".intercalate (rd.map fun c => "c" ++ toString c))], threw)

def parseItems (spec : String) : Option (List (Nat × Bytes)) :=
  (spec.splitOn ",").mapM fun it =>
    match it.splitOn ":" with
    | [c, h] => match c.toNat?, bytesOfHex h with
      | some c, some b => if b.isEmpty then none else some (c, b)
      | _, _ => none
    | _ => none

def parseAct (w : String) : Option HAct :=
  if w == "n" then some .next else if w == "k" then some .keep else if w == "t" then some .throw
  else if w == "s" then some .stop else if w == "c" then some .cleanup
  else if w.startsWith "b" then (bytesOfHex (w.drop 1).toString).map HAct.body
  else none

def parseScript (spec : String) : Option HScript :=
  let levels := spec.splitOn "/"
  if levels.length > nLevels then none else
  levels.mapM fun lv => if lv == "-" then some [] else (lv.splitOn ".").mapM parseAct

def poisonOps : List String :=
  ["seg", "done", "doneN", "doneR", "rel", "cclose", "dclose", "dcloseN", "cdone", "chalf", "chalfS", "wfail", "sstop", "sclean", "wq", "rseg",
   "conn", "connd", "sstart", "mseg", "msegr"]

/-- `p` pass, `a` EAGAIN, `e` EPIPE, `s<n>` short count -/
def parseWAns (w : String) : Option WAns :=
  if w == "p" then some .pass else if w == "a" then some .again else if w == "e" then some .epipe
  else if w.startsWith "s" then (w.drop 1).toString.toNat?.map WAns.short
  else none

def wqTags (q : List WAns) : String :=
  " ".intercalate (q.map fun a => match a with
    | .pass => "wq-pass" | .short _ => "wq-short" | .again => "wq-again" | .epipe => "wq-epipe")

/-- `mseg` / `msegr` (the clients send in the listed / in the opposite order; the engine reports the listed order) -/
def doMseg (op spec : String) (m : Mode) : Mode × List String :=
    match parseItems spec, m with
    | some items, .server v =>
      let cs := items.map (·.1)
      if items.length > 8 || cs.eraseDups.length != cs.length || cs.any (· ≥ v.m.clients.length) || !v.m.wq.isEmpty then (m, ["bad-op"]) else
      let (v', ls, threw) := multiSeg v items
      let far : Sv → Sv := fun a => { a with cur := 1000000 }
      let live := (items.filter fun it => ((v.m.clients[it.1]?).map (·.srv.pipe.valid)).getD false).length
      (.server v', (match ls with
                    | b :: rest => (b ++ " " ++ op ++ (if live ≥ 2 then " same-pass-" ++ toString (min live 4) else "") ++
                                     (if op == "msegr" && live ≥ 2 then " same-pass-reordered" else "")) :: rest
                    | [] => []) ++ crossLinesG true (far v) (far v') threw)
    | _, _ => (m, ["bad-op"])

/-- ops about the current connection: refused while there is none (server created without a client, `srvq`) -/
def curOps : List String :=
  ["seg", "done", "doneN", "doneR", "rel", "cclose", "dclose", "dcloseN", "cdone", "chalf", "chalfS", "wfail", "rseg", "sync", "script"]

def stepLine0 (m : Mode) (line : String) : Mode × List String :=
  let ws := words line
  let poisoned := match m with | .server v => v.m.poisoned | _ => false
  if poisoned && (match ws with | w :: _ => poisonOps.contains w | [] => false) then (m, ["P poisoned"]) else
  let noCur := match m with | .server v => v.cur ≥ v.m.clients.length | _ => false
  if noCur && (match ws with | w :: _ => curOps.contains w | [] => false) then (m, ["bad-op"]) else
  match ws with
  | [] => (m, [])
  | "case" :: _ => (.fresh, [line.trimAscii.toString])
  | ["feed", h] =>
    match bytesOfHex h, m with
    | some b, .fresh => let (c, ls) := doFeed {} b; (.parser c, ls)
    | some b, .parser c => let (c', ls) := doFeed c b; (.parser c', ls)
    | _, _ => (m, ["bad-op"])
  | ["method", h] =>
    match bytesOfHex h with
    | some b => (m, ["P method " ++ stdLookup stdMethods b])
    | none => (m, ["bad-op"])
  | ["version", h] =>
    match bytesOfHex h with
    | some b => (m, ["P version " ++ stdLookup stdVersions b])
    | none => (m, ["bad-op"])
  | ["srv"] =>
    match m with
    | .fresh => (.server ⟨({} : MServer).step .conn, 0, [], []⟩, ["P srv"])
    | _ => (m, ["bad-op"])
  | ["srv", k] =>
    -- the first k accept() calls of the listener fail (EMFILE, ECONNABORTED …): the connection is accepted in a later pass
    match k.toNat?, m with
    | some k, .fresh => if k ≥ 1 && k ≤ 5 then (.server ⟨({} : MServer).step .conn, 0, [], []⟩, ["B accept-errors", "P srv"]) else (m, ["bad-op"])
    | _, _ => (m, ["bad-op"])
  | ["conn"] =>
    -- one more client connects (accepted at once while the server is running; refused to try otherwise)
    match m with
    | .server v =>
      if v.m.state == .none then (m, ["B conn-refused", "P conn refused"]) else
      if v.m.clients.length + v.m.pending ≥ 8 then (m, ["bad-op"]) else
      if v.m.state == .inited then
        if v.m.pending ≥ 4 then (m, ["bad-op"]) else
        (.server (v.arrive []), ["B conn-queued" ++ (if v.m.clients.isEmpty then " conn-before-start" else ""),
                                  "P conn " ++ toString (v.m.clients.length + v.m.pending) ++ " queued"])
      else
      let m' := v.m.step .conn
      let reused := match m'.clients.getLast? with
        | some cl => v.m.clients.any (fun o => o.tok.pos == cl.tok.pos)
        | none => false
      (.server { v with m := m' }, ["B conn" ++ (if reused then " slot-reused" else "") ++
          (if (v.m.clients.filter (·.srv.pipe.valid)).length ≥ 1 then " conn-beside-live" else ""), "P conn " ++ toString v.m.clients.length])
    | _ => (m, ["bad-op"])
  | ["connd", h] =>
    -- a client connects while the server is stopped and sends at once: the bytes wait in the kernel until it is accepted
    match bytesOfHex h, m with
    | some b, .server v =>
      if b.isEmpty || v.m.state != .inited || v.m.pending ≥ 4 || v.m.clients.length + v.m.pending ≥ 8 then (m, ["bad-op"]) else
      (.server (v.arrive b), ["B conn-queued conn-queued-data" ++ (if v.m.clients.isEmpty then " conn-before-start" else ""),
                               "P conn " ++ toString (v.m.clients.length + v.m.pending) ++ " queued"])
    | _, _ => (m, ["bad-op"])
  | ["srvq"] =>
    -- the server is initialised (listening socket bound) but not started; no client yet
    match m with
    | .fresh => (.server ⟨{ state := .inited }, 0, [], []⟩, ["B srvq", "P srvq"])
    | _ => (m, ["bad-op"])
  | ["mseg", spec] => doMseg "mseg" spec m
  | ["msegr", spec] => doMseg "msegr" spec m
  | ["on", k] =>
    match k.toNat?, m with
    | some k, .server v => if k < v.m.clients.length then (.server { v with cur := k }, ["P on " ++ toString k]) else (m, ["bad-op"])
    | _, _ => (m, ["bad-op"])
  | ["sstart"] =>
    match m with
    | .server v =>
      let ok := v.m.state == .inited
      let n0 := v.m.clients.length
      let v1 : Sv := { v with m := v.m.step .start, pdata := if ok then [] else v.pdata }
      -- the clients of the backlog are accepted (one per loop pass, in connect order); what they had sent already is read in
      -- the pass after the last accept, in connection order
      let items := if ok then (List.range v.pdata.length).filterMap (fun j =>
                     let b := v.pdata.getD j []; if b.isEmpty then none else some (n0 + j, b)) else []
      let (v2, ls, threw) := multiSeg v1 items
      let far : Sv → Sv := fun a => { a with cur := 1000000 }
      (.server v2, ["B sstart" ++ (if ok then " restarted" else "") ++ (if ok && v.m.pending > 0 then " backlog-accepted-" ++ toString (min v.m.pending 3) else "") ++
                       (if !items.isEmpty then " backlog-data-read" else "") ++
                       (if ok && v.m.pending > 0 && !v.m.clients.isEmpty then " backlog-beside-old" else ""),
                    "P sstart " ++ (if ok then "1" else "0")] ++ (if items.isEmpty then [] else ls) ++ crossLinesG true (far v) (far v2) threw)
    | _ => (m, ["bad-op"])
  | ["wq", spec] =>
    match (spec.splitOn ",").mapM parseWAns, m with
    | some q, .server v =>
      if q.length > 8 then (m, ["bad-op"]) else
      (.server { v with m := v.m.step (.wq q) }, ["B wq " ++ wqTags q ++ (if v.view.outstanding.length > 1 then " wq-batch" else ""), "P wq"])
    | _, _ => (m, ["bad-op"])
  | ["rseg", h] =>
    -- the client sends a segment, the server's readv fails with ECONNRESET: torn down, the segment is never parsed
    match bytesOfHex h, m with
    | some b, .server v =>
      let s := v.view
      if b.isEmpty || s.cclosed then (m, ["bad-op"]) else
      if s.halfSpec then (m, ["B seg-after-half-close", "P out -"]) else
      let v' := v.apply .rerr
      (.server v', ["B rseg " ++ (if s.pipe.valid then "read-error-live" else "read-error-after-drop") ++
          (if s.outstanding.isEmpty then "" else " read-error-outstanding")] ++ showOut s.pipe v'.view.pipe)
    | _, _ => (m, ["bad-op"])
  | ["sync", i, h] =>
    match i.toNat?, bytesOfHex h, m with
    | some i, some b, .server v =>
      if (v.view.scripts.lookup i).isSome then (m, ["bad-op"])
      else (.server (v.apply (.script i [[.body b]])), ["P sync"])
    | _, _, _ => (m, ["bad-op"])
  | ["script", i, spec0] =>
    -- a leading `q` (first action of the first handler): a new client connects while that handler runs
    let hasQ := spec0 == "q" || spec0.startsWith "q." || spec0.startsWith "q/"
    let spec := if !hasQ then spec0 else if spec0.startsWith "q." then (spec0.drop 2).toString else "-" ++ (spec0.drop 1).toString
    match i.toNat?, parseScript spec, m with
    | some i, some sc, .server v =>
      if (v.view.scripts.lookup i).isSome then (m, ["bad-op"])
      else (.server { v.apply (.script i sc) with hq := if hasQ then (v.cur, i) :: v.hq else v.hq }, ["P script"])
    | _, _, _ => (m, ["bad-op"])
  | ["seg", h] =>
    match bytesOfHex h, m with
    | some b, .server v =>
      if b.isEmpty then (m, ["bad-op"]) else
      if v.view.halfSpec then (m, ["B seg-after-half-close", "P out -"]) else
      let (v', ls) := doSeg v b; (.server v', ls)
    | _, _ => (m, ["bad-op"])
  | ["doneN", i, n, b] =>
    match i.toNat?, n.toNat?, b.toNat?, m with
    | some i, some n, some b, .server v =>
      if n > 2000000 || b > 255 then (m, ["bad-op"]) else
      match doDone "doneN" v i { status := 200, body := List.replicate n (UInt8.ofNat b) } with
      | none => (m, ["bad-op"])
      | some (v', ls) => (.server v', ls)
    | _, _, _, _ => (m, ["bad-op"])
  | ["done", i, h] =>
    match i.toNat?, bytesOfHex h, m with
    | some i, some b, .server v =>
      match doDone "done" v i { status := 200, body := b } with
      | none => (m, ["bad-op"])
      | some (v', ls) => (.server v', ls)
    | _, _, _ => (m, ["bad-op"])
  | ["doneR", i, code, kvs, h] =>
    match i.toNat?, code.toNat?, parseKVs? kvs, bytesOfHex h, m with
    | some i, some code, some hdrs, some b, .server v =>
      if code > 999 then (m, ["bad-op"]) else
      match doDone "doneR" v i { status := code, headers := hdrs, body := b } with
      | none => (m, ["bad-op"])
      | some (v', ls) => (.server v', ls)
    | _, _, _, _, _ => (m, ["bad-op"])
  | ["rel", i] =>
    match i.toNat?, m with
    | some i, .server v =>
      match doDone "rel-untouched" v i ((v.view.keptResp.lookup i).getD {}) with
      | none => (m, ["bad-op"])
      | some (v', ls) => (.server v', ls)
    | _, _ => (m, ["bad-op"])
  | ["cclose"] =>
    match m with
    | .server v =>
      let s := v.view
      if s.cclosed then (m, ["bad-op"]) else
      (.server (v.apply (.cclose none false)), ["B cclose " ++ (if s.pipe.valid then "peer-close-live" else "peer-close-after-drop") ++
          (if s.outstanding.isEmpty then "" else " peer-close-outstanding") ++
          (if (v.m.clients.filter (·.srv.pipe.valid)).length > 1 then " multi-peer-close" else ""), "P closed"])
    | _ => (m, ["bad-op"])
  | ["dclose", i, h] =>
    match i.toNat?, bytesOfHex h, m with
    | some i, some b, .server v =>
      if v.view.cclosed || !v.view.outstanding.contains i then (m, ["bad-op"]) else
      (.server (v.apply (.cclose (some (i, { status := 200, body := b })) false)), ["B dclose same-pass-commit-and-peer-close", "P closed"])
    | _, _, _ => (m, ["bad-op"])
  | ["dcloseN", i, n, b] =>
    match i.toNat?, n.toNat?, b.toNat?, m with
    | some i, some n, some b, .server v =>
      if n > 2000000 || b > 255 then (m, ["bad-op"]) else
      if v.view.cclosed || !v.view.outstanding.contains i then (m, ["bad-op"]) else
      (.server (v.apply (.cclose (some (i, { status := 200, body := List.replicate n (UInt8.ofNat b) })) false)),
        ["B dcloseN peer-close-with-unsent-bytes", "P closed"])
    | _, _, _, _ => (m, ["bad-op"])
  | ["cdone", i, h] =>
    match i.toNat?, bytesOfHex h, m with
    | some i, some b, .server v =>
      if v.view.cclosed || !v.view.outstanding.contains i then (m, ["bad-op"]) else
      (.server (v.apply (.cclose (some (i, { status := 200, body := b })) true)), ["B cdone commit-after-peer-close-epipe", "P closed"])
    | _, _, _ => (m, ["bad-op"])
  | ["chalf"] =>
    match m with
    | .server v =>
      let s := v.view
      if s.cclosed then (m, ["bad-op"]) else
      let v' := v.apply .chalf
      (.server v', ["B chalf " ++ (if s.pipe.valid then (if s.outstanding.isEmpty then "half-close-idle" else "half-close-outstanding") else "half-close-after-drop")]
                     ++ showOut s.pipe v'.view.pipe)
    | _ => (m, ["bad-op"])
  | ["chalfS"] =>
    -- what the PROPERTY asks for: outstanding responses are still written, then the server closes
    match m with
    | .server v =>
      let s := v.view
      if s.cclosed then (m, ["bad-op"]) else
      let s1 : Server := { s with halfSpec := true, conn := { s.conn with dead := true, buf := [] } }
      let s2 := if s1.outstanding.isEmpty && s1.pipe.valid then s1.emit [.drop] else s1
      (.server (v.lift s2), ["B chalfS"] ++ showOut s.pipe s2.pipe)
    | _ => (m, ["bad-op"])
  | ["wfail"] =>
    match m with
    | .server v => (.server (v.apply .wfail), ["B wfail", "P wfail"])
    | _ => (m, ["bad-op"])
  | [op] =>
    -- the application stops / cleans up the server outside any handler (contexts may still be held)
    match m with
    | .server v =>
      if op == "sstop" || op == "sclean" then
        let s := v.view
        let v' : Sv := { v with m := v.m.step (.stop (op == "sclean")) }
        let live := (v.m.clients.filter (·.srv.pipe.valid)).length
        (.server v', ["B " ++ op ++ (if s.pipe.valid then " h-stop-outside" else " stop-after-drop") ++
            (if s.outstanding.isEmpty then "" else " stop-outstanding") ++ (if live > 1 then " multi-stop" else "")] ++ showOut s.pipe v'.view.pipe)
      else (m, ["bad-op"])
    | _ => (m, ["bad-op"])
  | ["upath", h] =>
    match bytesOfHex h with
    | some b =>
      (m, match parseUrlPath b with
          | none => ["B upath-rejected", "P upath 0"]
          | some u => [pathTags u, "P upath 1 " ++ showPath u ++ " str=" ++ hexOfBytes (urlPathToString u) ++
              " rt=" ++ (if parseUrlPath (urlPathToString u) == some u then "1" else "0")])
    | none => (m, ["bad-op"])
  | ["uhost", h] =>
    match bytesOfHex h with
    | some b =>
      (m, match stringToUrlHost b with
          | none => ["B uhost-rejected", "P uhost 0"]
          | some u => ["B " ++ (if u.wf then "host-wf" else "host-nwf"),
              "P uhost 1 " ++ showHost u ++ " str=" ++ hexOfBytes (urlHostToString u)])
    | none => (m, ["bad-op"])
  | ["url", h] =>
    match bytesOfHex h with
    | some b =>
      (m, match stringToUrl b with
          | .threw => ["P exception"]
          | .fail => ["B url-rejected", "P url 0"]
          | .ok u => ["B " ++ (if u.wf then "absurl-wf" else "absurl-nwf"),
              "P url 1 scheme=" ++ hexOfBytes u.scheme ++ " " ++ showHost u.host ++ " " ++ showPath u.path ++
              " str=" ++ hexOfBytes (urlToString u) ++ " rt=" ++ (if stringToUrl (urlToString u) == .ok u then "1" else "0")])
    | none => (m, ["bad-op"])
  | ["mkpath", p, ps, qs, f] =>
    match bytesOfHex p, parseKVs? ps, parseKVs? qs, bytesOfHex f with
    | some p, some ps, some qs, some f =>
      let u : UrlPath := ⟨p, ps, qs, f⟩
      (m, [pathTags u, "P mkpath " ++ backPath u])
    | _, _, _, _ => (m, ["bad-op"])
  | ["mkurl", sc, us, pw, ho, po, p, ps, qs, f] =>
    match bytesOfHex sc, bytesOfHex us, bytesOfHex pw, bytesOfHex ho, po.toNat?, bytesOfHex p, parseKVs? ps, parseKVs? qs, bytesOfHex f with
    | some sc, some us, some pw, some ho, some po, some p, some ps, some qs, some f =>
      if po > 65535 then (m, ["bad-op"]) else
      let u : Url := ⟨sc, ⟨us, pw, ho, po⟩, ⟨p, ps, qs, f⟩⟩
      (m, ["B " ++ (if u.wf then "absurl-wf" else "absurl-nwf"),
           "P mkurl str=" ++ hexOfBytes (urlToString u) ++ " back=" ++
           (match stringToUrl (urlToString u) with
            | .threw => "exception"
            | .fail => "0"
            | .ok v => "1 scheme=" ++ hexOfBytes v.scheme ++ " " ++ showHost v.host ++ " " ++ showPath v.path ++
                " rt=" ++ (if v == u then "1" else "0"))])
    | _, _, _, _, _, _, _, _, _ => (m, ["bad-op"])
  | ["enc", md, h] =>
    match bytesOfHex h with
    | some b => if md == "0" || md == "1" then (m, ["P enc " ++ hexOfBytes (urlEncode (md == "1") b)]) else (m, ["bad-op"])
    | none => (m, ["bad-op"])
  | ["dec", h] =>
    match bytesOfHex h with
    | some b => (m, [match urlDecode b with | none => "P dec throws" | some d => "P dec " ++ hexOfBytes d])
    | none => (m, ["bad-op"])
  | ["mkreq", me, p, ps, qs, f, ve, hs, bo] =>
    match bytesOfHex p, parseKVs? ps, parseKVs? qs, bytesOfHex f, parseKVs? hs, bytesOfHex bo with
    | some p, some ps, some qs, some f, some hs, some bo =>
      if !methodNames.contains me || !verNames.contains ve then (m, ["bad-op"]) else
      let r : Req := ⟨me, ⟨p, ps, qs, f⟩, ve, hs, bo⟩
      (m, ["B mkreq", "P mkreq str=" ++ hexOfBytes r.render,
           match parse cfg PState.init r.render with
           | .threw => "P exception"
           | .hang => "P hang"
           | .ok ps rest => "P reparse consumed=" ++ toString (r.render.length - rest.length) ++ " st=" ++ showSt ps.st ++
               (if ps.st == .all then " " ++ showReq ps.req ++ " same=" ++
                 (if ps.req == { r with headers := mapInsert (ascii "Content-Length") (decimal bo.length) hs } then "1" else "0") else "")])
    | _, _, _, _, _, _ => (m, ["bad-op"])
  | ["mkres", ve, code, hs, bo] =>
    match code.toNat?, parseKVs? hs, bytesOfHex bo with
    | some code, some hs, some bo =>
      if !verNames.contains ve || code > 999 then (m, ["bad-op"]) else
      (m, ["B mkres", "P mkres " ++ hexOfBytes (Respond.mk ve code hs bo).render])
    | _, _, _ => (m, ["bad-op"])
  | _ => (m, ["bad-op"])

/-- ops that only switch the connection the following lines are about, or are answered without touching the server -/
def quietOps : List String := ["on", "case", "mseg", "msegr", "sstart", "feed", "method", "version", "upath", "uhost", "url", "mkpath", "mkurl", "enc", "dec", "mkreq", "mkres"]

def stepLine (m : Mode) (line : String) : Mode × List String :=
  let (m', ls) := stepLine0 m line
  let op := (words line).headD ""
  if ls == ["bad-op"] || ls == ["P poisoned"] || ls.isEmpty || quietOps.contains op then (m', ls) else
  match m, m' with
  | .server v, .server v' => (m', ls ++ crossLines v v' (ls.contains "P exception"))
  | .fresh, .server v' => (m', ls ++ crossLines ⟨{}, 0, [], []⟩ v' false)
  | _, _ => (m', ls)

def main : IO Unit := runDriver Mode.fresh stepLine
