/- C12 driver: op lines in, observable lines out (same format as props/C12/harness.cpp). -/
import TboxModel.Util
import TboxModel.C12.Pipeline
import TboxModel.C12.Url
open Tbox.Util Tbox.C12

def cfg : Cfg := Cfg.fixed

def showKVs (m : List (Bytes × Bytes)) : String :=
  if m.isEmpty then "-" else ",".intercalate (m.map fun (k, v) => hexOfBytes k ++ ":" ++ hexOfBytes v)

def showReq (r : Req) : String :=
  "m=" ++ methodStr r.method ++ " path=" ++ hexOfBytes r.url.path ++ " params=" ++ showKVs r.url.params ++
  " query=" ++ showKVs r.url.query ++ " frag=" ++ hexOfBytes r.url.frag ++ " ver=" ++ verStr r.ver ++
  " hdr=" ++ showKVs r.headers ++ " body=" ++ hexOfBytes r.body ++ " str=" ++ hexOfBytes r.render ++
  " rt=" ++ (if parseUrlPath (urlPathToString r.url) == some r.url then "1" else "0")

def showPath (u : UrlPath) : String :=
  "path=" ++ hexOfBytes u.path ++ " params=" ++ showKVs u.params ++ " query=" ++ showKVs u.query ++ " frag=" ++ hexOfBytes u.frag

def showHost (h : UrlHost) : String :=
  "user=" ++ hexOfBytes h.user ++ " pw=" ++ hexOfBytes h.password ++ " host=" ++ hexOfBytes h.host ++ " port=" ++ toString h.port

def pathTags (u : UrlPath) : String :=
  "B " ++ (if u.wf then "url-wf" else "url-nwf") ++ (if u.params.isEmpty then "" else " url-params") ++
    (if u.query.isEmpty then "" else " url-query") ++ (if u.frag.isEmpty then "" else " url-frag")

/-- `mkpath` / `mkurl`: print a path value and read the text back -/
def backPath (u : UrlPath) : String :=
  "str=" ++ hexOfBytes (urlPathToString u) ++ " back=" ++
    (match parseUrlPath (urlPathToString u) with
     | none => "0"
     | some v => "1 " ++ showPath v ++ " rt=" ++ (if v == u then "1" else "0"))

def methodNames : List String := ["kUnset", "kGet", "kHead", "kPut", "kPost", "kTrace", "kOptions", "kDelete"]
def verNames : List String := ["kUnset", "k1_0", "k1_1", "k2_0"]

def showSt : St → String
  | .init => "init" | .startLine => "startline" | .heads => "heads" | .all => "all" | .fail => "fail"

inductive Mode
  | fresh
  | parser (c : Conn)
  | server (s : Server)

def evTags (evs : List Ev) : List String :=
  evs.map fun e => match e with
    | .parsed _ st => "parse-" ++ showSt st
    | .req _ last d => (if d then "req-declared" else "req-undeclared") ++ (if last then " req-last" else "")

/-- parser-level `feed` -/
def doFeed (c : Conn) (seg : Bytes) : Conn × List String :=
  if c.dead then (c, ["B dead", "P dead"]) else
  let o := recv cfg (fun _ => false) c seg
  let plines := o.evs.filterMap fun e => match e with
    | .req r _ _ => some ("P req " ++ showReq r)
    | _ => none
  let calls := o.evs.filterMap fun e => match e with
    | .parsed n st => some (toString n ++ ":" ++ showSt st)
    | _ => none
  let tail := match o.status with
    | .threw => ["P exception"]
    | .hang => ["P hang"]
    | .ok => (if o.conn.dead then ["P fail"] else []) ++
             ["M calls=" ++ (if calls.isEmpty then "-" else ",".intercalate calls) ++ " end=" ++ showSt o.conn.ps.st ++
              " pending=" ++ toString o.conn.buf.length]
  (o.conn, ["B " ++ " ".intercalate (evTags o.evs ++ (if seg.isEmpty then ["empty-seg"] else []))] ++ plines ++ tail)

def pipeTags (before after : Pipe) : List String :=
  let w := after.written.length - before.written.length
  (if w = 1 then ["wrote-1"] else if w > 1 then ["wrote-flush"] else []) ++
  (if after.resBuff.length > before.resBuff.length then ["parked"] else []) ++
  (if before.valid && !after.valid then ["disconnected"] else []) ++
  (if !before.valid then ["on-invalid"] else []) ++
  (if after.closeIndex.isSome && before.closeIndex.isNone then ["close-marked"] else []) ++
  (if after.pastClose && w > 0 then ["wrote-closing"] else [])

def fnv (bs : Bytes) : UInt32 := bs.foldl (fun h b => (h ^^^ b.toUInt32) * 16777619) 2166136261

def hex32 (v : UInt32) : String :=
  String.ofList ((List.range 8).map fun i => hexDigit ((v.toNat / 16 ^ (7 - i)) % 16))

/-- bytes the client received during the op (what the kernel delivered); large outputs as
length + FNV-1a digest -/
def showOut (before after : Pipe) : List String :=
  let newly := after.peerBytes.drop before.peerBytes.length
  [if newly.length > 4096 then "P out len=" ++ toString newly.length ++ " fnv=" ++ hex32 (fnv newly)
   else "P out " ++ hexOfBytes newly] ++ (if before.valid && !after.valid then ["P eof"] else []) ++
  ["M shutdown -"]   -- the server never shuts a connection down half-way (harness: shutdown() calls on the server side)

def parseKVs? (w : String) : Option (List (Bytes × Bytes)) :=
  if w == "-" then some [] else
  (w.splitOn ",").foldlM (init := []) fun m item =>
    match item.splitOn ":" with
    | [k, v] => match bytesOfHex k, bytesOfHex v with
      | some k, some v => some (mapInsert k v m)
      | _, _ => none
    | _ => none

/-- a handler completes request i; in spec mode (after `chalfS`) the server closes once nothing is outstanding -/
def doDone (tag : String) (s : Server) (i : Nat) (r : Respond) : Option (Server × List String) :=
  match s.done i r with
  | none => none
  | some s' =>
    let s'' := if s.halfSpec && s'.outstanding.isEmpty && s'.pipe.valid then s'.emit [.drop] else s'
    some (s'', ["B " ++ tag ++ " " ++ " ".intercalate (pipeTags s.pipe s''.pipe ++ (if s.pipe.wbroken then ["after-write-error"] else []) ++
                 (if s''.pipe.wbroken && !s.pipe.wbroken then
                    (if s''.pipe.written.length > s.pipe.written.length + 1 then ["epipe-mid-batch"] else ["epipe-in-commit"]) else []) ++
                 (if s''.stuck && !s.stuck then ["send-buffer-stuck"] else []) ++
                 (if s''.wq.length < s.wq.length then ["wq-used"] else []))]
               ++ showOut s.pipe s''.pipe)

def deliveredLines (ds : List Delivered) : List String :=
  ds.flatMap fun d => ("P req " ++ toString d.idx ++ " " ++ showReq d.req) ::
    d.calls.map fun l => "P call " ++ toString d.idx ++ " " ++ toString l

def scriptTags (s : Server) (ds : List Delivered) : List String :=
  ds.flatMap fun d =>
    let sc := (s.scripts.lookup d.idx).getD defaultScript
    let acts := sc.flatten
    (if d.calls.length > 1 then ["h-next"] else []) ++
    (if (d.calls.filter (· == 1)).length > 1 || (d.calls.filter (· == 2)).length > 1 then ["h-next-twice"] else []) ++
    (if acts.contains .throw then ["h-throw"] else []) ++ (if acts.contains .stop then ["h-stop"] else []) ++
    (if acts.contains .cleanup then ["h-cleanup"] else []) ++
    (if acts.contains .keep && acts.any (fun a => match a with | .body _ => true | _ => false) then ["h-keep-and-body"] else [])

def doSeg (s : Server) (seg : Bytes) : Server × List String :=
  let (s', ds, st) := s.seg cfg seg
  let stl := match st with | .threw => ["P exception"] | .hang => ["P hang"] | .ok => []
  (s', ["B " ++ " ".intercalate (ds.map (fun _ => "req-srv") ++ scriptTags s ds ++ pipeTags s.pipe s'.pipe ++
          (if s.conn.closed && s.pipe.valid then ["seg-after-close"] else []) ++
          (if s'.pipe.wbroken && !s.pipe.wbroken then ["epipe-in-seg"] else []))] ++
       deliveredLines ds ++ stl ++
       -- after an exception the loop is not run again: a pending close of the socket is not seen by the client
       (showOut s.pipe s'.pipe).filter (fun l => !(st == .threw && l == "P eof")))

def parseAct (w : String) : Option HAct :=
  if w == "n" then some .next else if w == "k" then some .keep else if w == "t" then some .throw
  else if w == "s" then some .stop else if w == "c" then some .cleanup
  else if w.startsWith "b" then (bytesOfHex (w.drop 1).toString).map HAct.body
  else none

def parseScript (spec : String) : Option HScript :=
  let levels := spec.splitOn "/"
  if levels.length > nLevels then none else
  levels.mapM fun lv => if lv == "-" then some [] else (lv.splitOn ".").mapM parseAct

def poisonOps : List String :=
  ["seg", "done", "doneN", "doneR", "rel", "cclose", "dclose", "dcloseN", "cdone", "chalf", "chalfS", "wfail", "sstop", "sclean", "wq", "rseg"]

/-- `p` pass, `a` EAGAIN, `e` EPIPE, `s<n>` short count -/
def parseWAns (w : String) : Option WAns :=
  if w == "p" then some .pass else if w == "a" then some .again else if w == "e" then some .epipe
  else if w.startsWith "s" then (w.drop 1).toString.toNat?.map WAns.short
  else none

def wqTags (q : List WAns) : String :=
  " ".intercalate (q.map fun a => match a with
    | .pass => "wq-pass" | .short _ => "wq-short" | .again => "wq-again" | .epipe => "wq-epipe")

def stepLine (m : Mode) (line : String) : Mode × List String :=
  let ws := words line
  let poisoned := match m with | .server s => s.poisoned | _ => false
  if poisoned && (match ws with | w :: _ => poisonOps.contains w | [] => false) then (m, ["P poisoned"]) else
  match ws with
  | [] => (m, [])
  | "case" :: _ => (.fresh, [line.trimAscii.toString])
  | ["feed", h] =>
    match bytesOfHex h, m with
    | some b, .fresh => let (c, ls) := doFeed {} b; (.parser c, ls)
    | some b, .parser c => let (c', ls) := doFeed c b; (.parser c', ls)
    | _, _ => (m, ["bad-op"])
  | ["method", h] =>
    match bytesOfHex h with
    | some b => (m, ["P method " ++ stdLookup stdMethods b])
    | none => (m, ["bad-op"])
  | ["version", h] =>
    match bytesOfHex h with
    | some b => (m, ["P version " ++ stdLookup stdVersions b])
    | none => (m, ["bad-op"])
  | ["srv"] =>
    match m with
    | .fresh => (.server {}, ["P srv"])
    | _ => (m, ["bad-op"])
  | ["srv", k] =>
    -- the first k accept() calls of the listener fail (EMFILE, ECONNABORTED …): the connection is accepted in a later pass
    match k.toNat?, m with
    | some k, .fresh => if k ≥ 1 && k ≤ 5 then (.server {}, ["B accept-errors", "P srv"]) else (m, ["bad-op"])
    | _, _ => (m, ["bad-op"])
  | ["wq", spec] =>
    match (spec.splitOn ",").mapM parseWAns, m with
    | some q, .server s =>
      if q.length > 8 then (m, ["bad-op"]) else
      (.server (s.setWq q), ["B wq " ++ wqTags q ++ (if s.outstanding.length > 1 then " wq-batch" else ""), "P wq"])
    | _, _ => (m, ["bad-op"])
  | ["rseg", h] =>
    -- the client sends a segment, the server's readv fails with ECONNRESET: torn down, the segment is never parsed
    match bytesOfHex h, m with
    | some b, .server s =>
      if b.isEmpty || s.cclosed then (m, ["bad-op"]) else
      if s.halfSpec then (m, ["B seg-after-half-close", "P out -", "M shutdown -"]) else
      let s' := s.rerr
      (.server s', ["B rseg " ++ (if s.pipe.valid then "read-error-live" else "read-error-after-drop") ++
          (if s.outstanding.isEmpty then "" else " read-error-outstanding")] ++ showOut s.pipe s'.pipe)
    | _, _ => (m, ["bad-op"])
  | ["sync", i, h] =>
    match i.toNat?, bytesOfHex h, m with
    | some i, some b, .server s =>
      if (s.scripts.lookup i).isSome then (m, ["bad-op"])
      else (.server { s with scripts := (i, [[.body b]]) :: s.scripts }, ["P sync"])
    | _, _, _ => (m, ["bad-op"])
  | ["script", i, spec] =>
    match i.toNat?, parseScript spec, m with
    | some i, some sc, .server s =>
      if (s.scripts.lookup i).isSome then (m, ["bad-op"])
      else (.server { s with scripts := (i, sc) :: s.scripts }, ["P script"])
    | _, _, _ => (m, ["bad-op"])
  | ["seg", h] =>
    match bytesOfHex h, m with
    | some b, .server s =>
      if b.isEmpty then (m, ["bad-op"]) else
      if s.halfSpec then (m, ["B seg-after-half-close", "P out -", "M shutdown -"]) else
      let (s', ls) := doSeg s b; (.server s', ls)
    | _, _ => (m, ["bad-op"])
  | ["doneN", i, n, b] =>
    match i.toNat?, n.toNat?, b.toNat?, m with
    | some i, some n, some b, .server s =>
      if n > 2000000 || b > 255 then (m, ["bad-op"]) else
      match doDone "doneN" s i { status := 200, body := List.replicate n (UInt8.ofNat b) } with
      | none => (m, ["bad-op"])
      | some (s', ls) => (.server s', ls)
    | _, _, _, _ => (m, ["bad-op"])
  | ["done", i, h] =>
    match i.toNat?, bytesOfHex h, m with
    | some i, some b, .server s =>
      match doDone "done" s i { status := 200, body := b } with
      | none => (m, ["bad-op"])
      | some (s', ls) => (.server s', ls)
    | _, _, _ => (m, ["bad-op"])
  | ["doneR", i, code, kvs, h] =>
    match i.toNat?, code.toNat?, parseKVs? kvs, bytesOfHex h, m with
    | some i, some code, some hdrs, some b, .server s =>
      if code > 999 then (m, ["bad-op"]) else
      match doDone "doneR" s i { status := code, headers := hdrs, body := b } with
      | none => (m, ["bad-op"])
      | some (s', ls) => (.server s', ls)
    | _, _, _, _, _ => (m, ["bad-op"])
  | ["rel", i] =>
    match i.toNat?, m with
    | some i, .server s =>
      match doDone "rel-untouched" s i ((s.keptResp.lookup i).getD {}) with
      | none => (m, ["bad-op"])
      | some (s', ls) => (.server s', ls)
    | _, _ => (m, ["bad-op"])
  | ["cclose"] =>
    match m with
    | .server s =>
      match s.cclose none false with
      | none => (m, ["bad-op"])
      | some s' => (.server s', ["B cclose " ++ (if s.pipe.valid then "peer-close-live" else "peer-close-after-drop") ++
                                  (if s.outstanding.isEmpty then "" else " peer-close-outstanding"), "P closed"])
    | _ => (m, ["bad-op"])
  | ["dclose", i, h] =>
    match i.toNat?, bytesOfHex h, m with
    | some i, some b, .server s =>
      match s.cclose (some (i, { status := 200, body := b })) false with
      | none => (m, ["bad-op"])
      | some s' => (.server s', ["B dclose same-pass-commit-and-peer-close", "P closed"])
    | _, _, _ => (m, ["bad-op"])
  | ["dcloseN", i, n, b] =>
    match i.toNat?, n.toNat?, b.toNat?, m with
    | some i, some n, some b, .server s =>
      if n > 2000000 || b > 255 then (m, ["bad-op"]) else
      match s.cclose (some (i, { status := 200, body := List.replicate n (UInt8.ofNat b) })) false with
      | none => (m, ["bad-op"])
      | some s' => (.server s', ["B dcloseN peer-close-with-unsent-bytes", "P closed"])
    | _, _, _, _ => (m, ["bad-op"])
  | ["cdone", i, h] =>
    match i.toNat?, bytesOfHex h, m with
    | some i, some b, .server s =>
      match s.cclose (some (i, { status := 200, body := b })) true with
      | none => (m, ["bad-op"])
      | some s' => (.server s', ["B cdone commit-after-peer-close-epipe", "P closed"])
    | _, _, _ => (m, ["bad-op"])
  | ["chalf"] =>
    match m with
    | .server s =>
      match s.chalf with
      | none => (m, ["bad-op"])
      | some s' => (.server s', ["B chalf " ++ (if s.pipe.valid then (if s.outstanding.isEmpty then "half-close-idle" else "half-close-outstanding") else "half-close-after-drop")]
                     ++ showOut s.pipe s'.pipe)
    | _ => (m, ["bad-op"])
  | ["chalfS"] =>
    -- what the PROPERTY asks for: outstanding responses are still written, then the server closes
    match m with
    | .server s =>
      if s.cclosed then (m, ["bad-op"]) else
      let s1 : Server := { s with halfSpec := true, conn := { s.conn with dead := true, buf := [] } }
      let s2 := if s1.outstanding.isEmpty && s1.pipe.valid then s1.emit [.drop] else s1
      (.server s2, ["B chalfS"] ++ showOut s.pipe s2.pipe)
    | _ => (m, ["bad-op"])
  | ["wfail"] =>
    match m with
    | .server s => (.server s.wfail, ["B wfail", "P wfail"])
    | _ => (m, ["bad-op"])
  | [op] =>
    -- the application stops / cleans up the server outside any handler (contexts may still be held)
    match m with
    | .server s =>
      if op == "sstop" || op == "sclean" then
        let s' := s.sstop
        (.server s', ["B " ++ op ++ (if s.pipe.valid then " h-stop-outside" else " stop-after-drop") ++
            (if s.outstanding.isEmpty then "" else " stop-outstanding")] ++ showOut s.pipe s'.pipe)
      else (m, ["bad-op"])
    | _ => (m, ["bad-op"])
  | ["upath", h] =>
    match bytesOfHex h with
    | some b =>
      (m, match parseUrlPath b with
          | none => ["B upath-rejected", "P upath 0"]
          | some u => [pathTags u, "P upath 1 " ++ showPath u ++ " str=" ++ hexOfBytes (urlPathToString u) ++
              " rt=" ++ (if parseUrlPath (urlPathToString u) == some u then "1" else "0")])
    | none => (m, ["bad-op"])
  | ["uhost", h] =>
    match bytesOfHex h with
    | some b =>
      (m, match stringToUrlHost b with
          | none => ["B uhost-rejected", "P uhost 0"]
          | some u => ["B " ++ (if u.wf then "host-wf" else "host-nwf"),
              "P uhost 1 " ++ showHost u ++ " str=" ++ hexOfBytes (urlHostToString u)])
    | none => (m, ["bad-op"])
  | ["url", h] =>
    match bytesOfHex h with
    | some b =>
      (m, match stringToUrl b with
          | .threw => ["P exception"]
          | .fail => ["B url-rejected", "P url 0"]
          | .ok u => ["B " ++ (if u.wf then "absurl-wf" else "absurl-nwf"),
              "P url 1 scheme=" ++ hexOfBytes u.scheme ++ " " ++ showHost u.host ++ " " ++ showPath u.path ++
              " str=" ++ hexOfBytes (urlToString u) ++ " rt=" ++ (if stringToUrl (urlToString u) == .ok u then "1" else "0")])
    | none => (m, ["bad-op"])
  | ["mkpath", p, ps, qs, f] =>
    match bytesOfHex p, parseKVs? ps, parseKVs? qs, bytesOfHex f with
    | some p, some ps, some qs, some f =>
      let u : UrlPath := ⟨p, ps, qs, f⟩
      (m, [pathTags u, "P mkpath " ++ backPath u])
    | _, _, _, _ => (m, ["bad-op"])
  | ["mkurl", sc, us, pw, ho, po, p, ps, qs, f] =>
    match bytesOfHex sc, bytesOfHex us, bytesOfHex pw, bytesOfHex ho, po.toNat?, bytesOfHex p, parseKVs? ps, parseKVs? qs, bytesOfHex f with
    | some sc, some us, some pw, some ho, some po, some p, some ps, some qs, some f =>
      if po > 65535 then (m, ["bad-op"]) else
      let u : Url := ⟨sc, ⟨us, pw, ho, po⟩, ⟨p, ps, qs, f⟩⟩
      (m, ["B " ++ (if u.wf then "absurl-wf" else "absurl-nwf"),
           "P mkurl str=" ++ hexOfBytes (urlToString u) ++ " back=" ++
           (match stringToUrl (urlToString u) with
            | .threw => "exception"
            | .fail => "0"
            | .ok v => "1 scheme=" ++ hexOfBytes v.scheme ++ " " ++ showHost v.host ++ " " ++ showPath v.path ++
                " rt=" ++ (if v == u then "1" else "0"))])
    | _, _, _, _, _, _, _, _, _ => (m, ["bad-op"])
  | ["enc", md, h] =>
    match bytesOfHex h with
    | some b => if md == "0" || md == "1" then (m, ["P enc " ++ hexOfBytes (urlEncode (md == "1") b)]) else (m, ["bad-op"])
    | none => (m, ["bad-op"])
  | ["dec", h] =>
    match bytesOfHex h with
    | some b => (m, [match urlDecode b with | none => "P dec throws" | some d => "P dec " ++ hexOfBytes d])
    | none => (m, ["bad-op"])
  | ["mkreq", me, p, ps, qs, f, ve, hs, bo] =>
    match bytesOfHex p, parseKVs? ps, parseKVs? qs, bytesOfHex f, parseKVs? hs, bytesOfHex bo with
    | some p, some ps, some qs, some f, some hs, some bo =>
      if !methodNames.contains me || !verNames.contains ve then (m, ["bad-op"]) else
      let r : Req := ⟨me, ⟨p, ps, qs, f⟩, ve, hs, bo⟩
      (m, ["B mkreq", "P mkreq str=" ++ hexOfBytes r.render,
           match parse cfg PState.init r.render with
           | .threw => "P exception"
           | .hang => "P hang"
           | .ok ps rest => "P reparse consumed=" ++ toString (r.render.length - rest.length) ++ " st=" ++ showSt ps.st ++
               (if ps.st == .all then " " ++ showReq ps.req ++ " same=" ++
                 (if ps.req == { r with headers := mapInsert (ascii "Content-Length") (decimal bo.length) hs } then "1" else "0") else "")])
    | _, _, _, _, _, _ => (m, ["bad-op"])
  | ["mkres", ve, code, hs, bo] =>
    match code.toNat?, parseKVs? hs, bytesOfHex bo with
    | some code, some hs, some bo =>
      if !verNames.contains ve || code > 999 then (m, ["bad-op"]) else
      (m, ["B mkres", "P mkres " ++ hexOfBytes (Respond.mk ve code hs bo).render])
    | _, _, _ => (m, ["bad-op"])
  | _ => (m, ["bad-op"])

def main : IO Unit := runDriver Mode.fresh stepLine
