/- C12 driver: op lines in, observable lines out (same format as props/C12/harness.cpp). -/
import TboxModel.Util
import TboxModel.C12.Pipeline
import TboxModel.C12.Multi
import TboxModel.C12.Url
open Tbox.Util Tbox.C12

def cfg : Cfg := Cfg.fixed

def showKVs (m : List (Bytes × Bytes)) : String :=
  if m.isEmpty then "-" else ",".intercalate (m.map fun (k, v) => hexOfBytes k ++ ":" ++ hexOfBytes v)

def showReq (r : Req) : String :=
  "m=" ++ methodStr r.method ++ " path=" ++ hexOfBytes r.url.path ++ " params=" ++ showKVs r.url.params ++
  " query=" ++ showKVs r.url.query ++ " frag=" ++ hexOfBytes r.url.frag ++ " ver=" ++ verStr r.ver ++
  " hdr=" ++ showKVs r.headers ++ " body=" ++ hexOfBytes r.body ++ " str=" ++ hexOfBytes r.render ++
  " rt=" ++ (if parseUrlPath (urlPathToString r.url) == some r.url then "1" else "0")

def showPath (u : UrlPath) : String :=
  "path=" ++ hexOfBytes u.path ++ " params=" ++ showKVs u.params ++ " query=" ++ showKVs u.query ++ " frag=" ++ hexOfBytes u.frag

def showHost (h : UrlHost) : String :=
  "user=" ++ hexOfBytes h.user ++ " pw=" ++ hexOfBytes h.password ++ " host=" ++ hexOfBytes h.host ++ " port=" ++ toString h.port

def pathTags (u : UrlPath) : String :=
  "B " ++ (if u.wf then "url-wf" else "url-nwf") ++ (if u.params.isEmpty then "" else " url-params") ++
    (if u.query.isEmpty then "" else " url-query") ++ (if u.frag.isEmpty then "" else " url-frag")

/-- `mkpath` / `mkurl`: print a path value and read the text back -/
def backPath (u : UrlPath) : String :=
  "str=" ++ hexOfBytes (urlPathToString u) ++ " back=" ++
    (match parseUrlPath (urlPathToString u) with
     | none => "0"
     | some v => "1 " ++ showPath v ++ " rt=" ++ (if v == u then "1" else "0"))

def methodNames : List String := ["kUnset", "kGet", "kHead", "kPut", "kPost", "kTrace", "kOptions", "kDelete"]
def verNames : List String := ["kUnset", "k1_0", "k1_1", "k2_0"]

def showSt : St → String
  | .init => "init" | .startLine => "startline" | .heads => "heads" | .all => "all" | .fail => "fail"

/-- the server with its connections and the connection the following op lines are about (`on <k>`) -/
structure Sv where
  m : MServer
  cur : Nat

/-- the current connection's record, with the (global) queue of write answers in front of it -/
def Sv.view (v : Sv) : Server :=
  match v.m.clients[v.cur]? with
  | some cl => { cl.srv with wq := v.m.wq }
  | none => {}

/-- a modelled event of the current connection -/
def Sv.apply (v : Sv) (op : SrvOp) : Sv := { v with m := v.m.step (.on v.cur op) }

/-- driver-only manipulation of the current connection's record (spec mode of `chalfS`) -/
def Sv.lift (v : Sv) (s' : Server) : Sv :=
  { v with m := ({ v.m.setSrv v.cur { s' with wq := [] } with wq := s'.wq }).sync v.cur }

inductive Mode
  | fresh
  | parser (c : Conn)
  | server (v : Sv)

/-- what the OTHER connections see during an op (bytes at their clients: never; end of stream: when the server was stopped)
and the system calls on the server side of every connection (close when a connection is torn down; nothing else) -/
def crossLines (v v' : Sv) (threw : Bool) : List String :=
  if threw then ["M sys -"] else
  let idx := List.range v'.m.clients.length
  let valid (m : MServer) (d : Nat) : Bool := ((m.clients[d]?).map (·.srv.pipe.valid)).getD false
  let bytes (m : MServer) (d : Nat) : Bytes := ((m.clients[d]?).map (·.srv.pipe.peerBytes)).getD []
  let xs := idx.flatMap fun d =>
    if d == v.cur then [] else
    let newly := (bytes v'.m d).drop (bytes v.m d).length
    (if newly.isEmpty then [] else ["P xout " ++ toString d ++ " " ++ hexOfBytes newly]) ++
    (if valid v.m d && !valid v'.m d then ["P xeof " ++ toString d] else [])
  -- `TcpServer::stop()` walks the cabinet cell by cell: the sockets are closed in the order of their cabinet positions
  let pos (d : Nat) : Nat := ((v'.m.clients[d]?).map (·.tok.pos)).getD 0
  let closing := (idx.filter fun d => (valid v.m d || d ≥ v.m.clients.length) && !valid v'.m d).mergeSort (fun a b => pos a ≤ pos b)
  let sys := (idx.filter (· ≥ v.m.clients.length)).map (fun d => "c" ++ toString d ++ ":setfl+nonblock") ++
    closing.map (fun d => "c" ++ toString d ++ ":close")
  xs ++ ["M sys " ++ (if sys.isEmpty then "-" else ",".intercalate sys)]

def evTags (evs : List Ev) : List String :=
  evs.map fun e => match e with
    | .parsed _ st => "parse-" ++ showSt st
    | .req _ last d => (if d then "req-declared" else "req-undeclared") ++ (if last then " req-last" else "")

/-- parser-level `feed` -/
def doFeed (c : Conn) (seg : Bytes) : Conn × List String :=
  if c.dead then (c, ["B dead", "P dead"]) else
  let o := recv cfg (fun _ => false) c seg
  let plines := o.evs.filterMap fun e => match e with
    | .req r _ _ => some ("P req " ++ showReq r)
    | _ => none
  let calls := o.evs.filterMap fun e => match e with
    | .parsed n st => some (toString n ++ ":" ++ showSt st)
    | _ => none
  let tail := match o.status with
    | .threw => ["P exception"]
    | .hang => ["P hang"]
    | .ok => (if o.conn.dead then ["P fail"] else []) ++
             ["M calls=" ++ (if calls.isEmpty then "-" else ",".intercalate calls) ++ " end=" ++ showSt o.conn.ps.st ++
              " pending=" ++ toString o.conn.buf.length]
  (o.conn, ["B " ++ " ".intercalate (evTags o.evs ++ (if seg.isEmpty then ["empty-seg"] else []))] ++ plines ++ tail)

def pipeTags (before after : Pipe) : List String :=
  let w := after.written.length - before.written.length
  (if w = 1 then ["wrote-1"] else if w > 1 then ["wrote-flush"] else []) ++
  (if after.resBuff.length > before.resBuff.length then ["parked"] else []) ++
  (if before.valid && !after.valid then ["disconnected"] else []) ++
  (if !before.valid then ["on-invalid"] else []) ++
  (if after.closeIndex.isSome && before.closeIndex.isNone then ["close-marked"] else []) ++
  (if after.pastClose && w > 0 then ["wrote-closing"] else [])

def fnv (bs : Bytes) : UInt32 := bs.foldl (fun h b => (h ^^^ b.toUInt32) * 16777619) 2166136261

def hex32 (v : UInt32) : String :=
  String.ofList ((List.range 8).map fun i => hexDigit ((v.toNat / 16 ^ (7 - i)) % 16))

/-- bytes the client received during the op (what the kernel delivered); large outputs as
length + FNV-1a digest -/
def showOut (before after : Pipe) : List String :=
  let newly := after.peerBytes.drop before.peerBytes.length
  [if newly.length > 4096 then "P out len=" ++ toString newly.length ++ " fnv=" ++ hex32 (fnv newly)
   else "P out " ++ hexOfBytes newly] ++ (if before.valid && !after.valid then ["P eof"] else [])

def parseKVs? (w : String) : Option (List (Bytes × Bytes)) :=
  if w == "-" then some [] else
  (w.splitOn ",").foldlM (init := []) fun m item =>
    match item.splitOn ":" with
    | [k, v] => match bytesOfHex k, bytesOfHex v with
      | some k, some v => some (mapInsert k v m)
      | _, _ => none
    | _ => none

/-- a handler completes request i; in spec mode (after `chalfS`) the server closes once nothing is outstanding -/
def doDone (tag : String) (v : Sv) (i : Nat) (r : Respond) : Option (Sv × List String) :=
  let s := v.view
  if !s.outstanding.contains i then none else
  let v1 := v.apply (.done i r)
  let s' := v1.view
  let v2 := if s.halfSpec && s'.outstanding.isEmpty && s'.pipe.valid then v1.lift (s'.emit [.drop]) else v1
  let s'' := v2.view
  some (v2, ["B " ++ tag ++ " " ++ " ".intercalate (pipeTags s.pipe s''.pipe ++ (if s.pipe.wbroken then ["after-write-error"] else []) ++
                 (if s''.pipe.wbroken && !s.pipe.wbroken then
                    (if s''.pipe.written.length > s.pipe.written.length + 1 then ["epipe-mid-batch"] else ["epipe-in-commit"]) else []) ++
                 (if s''.stuck && !s.stuck then ["send-buffer-stuck"] else []) ++
                 (if s''.wq.length < s.wq.length then ["wq-used"] else []) ++
                 (if v.m.clients.length > 1 then ["multi-done"] else []) ++
                 (if v.m.clients.length > 1 && !s.pipe.valid then ["multi-late-commit"] else []) ++
                 (if !s.pipe.valid && v.m.clients.any (fun cl => cl.srv.pipe.valid && cl.tok.pos == ((v.m.clients[v.cur]?).map (·.tok.pos)).getD 0)
                    then ["stale-token-slot-reused"] else []))]
               ++ showOut s.pipe s''.pipe)

def deliveredLines (ds : List Delivered) : List String :=
  ds.flatMap fun d => ("P req " ++ toString d.idx ++ " " ++ showReq d.req) ::
    d.calls.map fun l => "P call " ++ toString d.idx ++ " " ++ toString l

def scriptTags (s : Server) (ds : List Delivered) : List String :=
  ds.flatMap fun d =>
    let sc := (s.scripts.lookup d.idx).getD defaultScript
    let acts := sc.flatten
    (if d.calls.length > 1 then ["h-next"] else []) ++
    (if (d.calls.filter (· == 1)).length > 1 || (d.calls.filter (· == 2)).length > 1 then ["h-next-twice"] else []) ++
    (if acts.contains .throw then ["h-throw"] else []) ++ (if acts.contains .stop then ["h-stop"] else []) ++
    (if acts.contains .cleanup then ["h-cleanup"] else []) ++
    (if acts.contains .keep && acts.any (fun a => match a with | .body _ => true | _ => false) then ["h-keep-and-body"] else [])

def doSeg (v : Sv) (seg : Bytes) : Sv × List String :=
  let s := v.view
  let (_, ds, st) := s.seg cfg seg
  let v' := v.apply (.seg seg)
  let s' := v'.view
  let stl := match st with | .threw => ["P exception"] | .hang => ["P hang"] | .ok => []
  let others := (v.m.clients.filter (·.srv.pipe.valid)).length
  (v', ["B " ++ " ".intercalate (ds.map (fun _ => "req-srv") ++ scriptTags s ds ++ pipeTags s.pipe s'.pipe ++
          (if s.conn.closed && s.pipe.valid then ["seg-after-close"] else []) ++
          (if s'.pipe.wbroken && !s.pipe.wbroken then ["epipe-in-seg"] else []) ++
          (if v.m.clients.length > 1 then ["multi-seg"] else []) ++
          (if v.m.clients.length > 1 && !s.conn.buf.isEmpty then ["multi-seg-resumes"] else []) ++
          (if (MServer.segStops s seg).isSome && others > 1 then ["multi-handler-stop"] else []))] ++
       deliveredLines ds ++ stl ++
       -- after an exception the loop is not run again: a pending close of the socket is not seen by the client
       (showOut s.pipe s'.pipe).filter (fun l => !(st == .threw && l == "P eof")))

def parseAct (w : String) : Option HAct :=
  if w == "n" then some .next else if w == "k" then some .keep else if w == "t" then some .throw
  else if w == "s" then some .stop else if w == "c" then some .cleanup
  else if w.startsWith "b" then (bytesOfHex (w.drop 1).toString).map HAct.body
  else none

def parseScript (spec : String) : Option HScript :=
  let levels := spec.splitOn "/"
  if levels.length > nLevels then none else
  levels.mapM fun lv => if lv == "-" then some [] else (lv.splitOn ".").mapM parseAct

def poisonOps : List String :=
  ["seg", "done", "doneN", "doneR", "rel", "cclose", "dclose", "dcloseN", "cdone", "chalf", "chalfS", "wfail", "sstop", "sclean", "wq", "rseg",
   "conn", "sstart"]

/-- `p` pass, `a` EAGAIN, `e` EPIPE, `s<n>` short count -/
def parseWAns (w : String) : Option WAns :=
  if w == "p" then some .pass else if w == "a" then some .again else if w == "e" then some .epipe
  else if w.startsWith "s" then (w.drop 1).toString.toNat?.map WAns.short
  else none

def wqTags (q : List WAns) : String :=
  " ".intercalate (q.map fun a => match a with
    | .pass => "wq-pass" | .short _ => "wq-short" | .again => "wq-again" | .epipe => "wq-epipe")

def stepLine0 (m : Mode) (line : String) : Mode × List String :=
  let ws := words line
  let poisoned := match m with | .server v => v.m.poisoned | _ => false
  if poisoned && (match ws with | w :: _ => poisonOps.contains w | [] => false) then (m, ["P poisoned"]) else
  match ws with
  | [] => (m, [])
  | "case" :: _ => (.fresh, [line.trimAscii.toString])
  | ["feed", h] =>
    match bytesOfHex h, m with
    | some b, .fresh => let (c, ls) := doFeed {} b; (.parser c, ls)
    | some b, .parser c => let (c', ls) := doFeed c b; (.parser c', ls)
    | _, _ => (m, ["bad-op"])
  | ["method", h] =>
    match bytesOfHex h with
    | some b => (m, ["P method " ++ stdLookup stdMethods b])
    | none => (m, ["bad-op"])
  | ["version", h] =>
    match bytesOfHex h with
    | some b => (m, ["P version " ++ stdLookup stdVersions b])
    | none => (m, ["bad-op"])
  | ["srv"] =>
    match m with
    | .fresh => (.server ⟨({} : MServer).step .conn, 0⟩, ["P srv"])
    | _ => (m, ["bad-op"])
  | ["srv", k] =>
    -- the first k accept() calls of the listener fail (EMFILE, ECONNABORTED …): the connection is accepted in a later pass
    match k.toNat?, m with
    | some k, .fresh => if k ≥ 1 && k ≤ 5 then (.server ⟨({} : MServer).step .conn, 0⟩, ["B accept-errors", "P srv"]) else (m, ["bad-op"])
    | _, _ => (m, ["bad-op"])
  | ["conn"] =>
    -- one more client connects (accepted at once while the server is running; refused to try otherwise)
    match m with
    | .server v =>
      if v.m.state != .running || v.m.clients.length ≥ 8 then (m, ["bad-op"]) else
      let m' := v.m.step .conn
      let reused := match m'.clients.getLast? with
        | some cl => v.m.clients.any (fun o => o.tok.pos == cl.tok.pos)
        | none => false
      (.server { v with m := m' }, ["B conn" ++ (if reused then " slot-reused" else "") ++
          (if (v.m.clients.filter (·.srv.pipe.valid)).length ≥ 1 then " conn-beside-live" else ""), "P conn " ++ toString v.m.clients.length])
    | _ => (m, ["bad-op"])
  | ["on", k] =>
    match k.toNat?, m with
    | some k, .server v => if k < v.m.clients.length then (.server { v with cur := k }, ["P on " ++ toString k]) else (m, ["bad-op"])
    | _, _ => (m, ["bad-op"])
  | ["sstart"] =>
    match m with
    | .server v =>
      let m' := v.m.step .start
      (.server { v with m := m' }, ["B sstart" ++ (if v.m.state == .inited then " restarted" else ""),
                                     "P sstart " ++ (if v.m.state == .inited then "1" else "0")])
    | _ => (m, ["bad-op"])
  | ["wq", spec] =>
    match (spec.splitOn ",").mapM parseWAns, m with
    | some q, .server v =>
      if q.length > 8 then (m, ["bad-op"]) else
      (.server { v with m := v.m.step (.wq q) }, ["B wq " ++ wqTags q ++ (if v.view.outstanding.length > 1 then " wq-batch" else ""), "P wq"])
    | _, _ => (m, ["bad-op"])
  | ["rseg", h] =>
    -- the client sends a segment, the server's readv fails with ECONNRESET: torn down, the segment is never parsed
    match bytesOfHex h, m with
    | some b, .server v =>
      let s := v.view
      if b.isEmpty || s.cclosed then (m, ["bad-op"]) else
      if s.halfSpec then (m, ["B seg-after-half-close", "P out -"]) else
      let v' := v.apply .rerr
      (.server v', ["B rseg " ++ (if s.pipe.valid then "read-error-live" else "read-error-after-drop") ++
          (if s.outstanding.isEmpty then "" else " read-error-outstanding")] ++ showOut s.pipe v'.view.pipe)
    | _, _ => (m, ["bad-op"])
  | ["sync", i, h] =>
    match i.toNat?, bytesOfHex h, m with
    | some i, some b, .server v =>
      if (v.view.scripts.lookup i).isSome then (m, ["bad-op"])
      else (.server (v.apply (.script i [[.body b]])), ["P sync"])
    | _, _, _ => (m, ["bad-op"])
  | ["script", i, spec] =>
    match i.toNat?, parseScript spec, m with
    | some i, some sc, .server v =>
      if (v.view.scripts.lookup i).isSome then (m, ["bad-op"])
      else (.server (v.apply (.script i sc)), ["P script"])
    | _, _, _ => (m, ["bad-op"])
  | ["seg", h] =>
    match bytesOfHex h, m with
    | some b, .server v =>
      if b.isEmpty then (m, ["bad-op"]) else
      if v.view.halfSpec then (m, ["B seg-after-half-close", "P out -"]) else
      let (v', ls) := doSeg v b; (.server v', ls)
    | _, _ => (m, ["bad-op"])
  | ["doneN", i, n, b] =>
    match i.toNat?, n.toNat?, b.toNat?, m with
    | some i, some n, some b, .server v =>
      if n > 2000000 || b > 255 then (m, ["bad-op"]) else
      match doDone "doneN" v i { status := 200, body := List.replicate n (UInt8.ofNat b) } with
      | none => (m, ["bad-op"])
      | some (v', ls) => (.server v', ls)
    | _, _, _, _ => (m, ["bad-op"])
  | ["done", i, h] =>
    match i.toNat?, bytesOfHex h, m with
    | some i, some b, .server v =>
      match doDone "done" v i { status := 200, body := b } with
      | none => (m, ["bad-op"])
      | some (v', ls) => (.server v', ls)
    | _, _, _ => (m, ["bad-op"])
  | ["doneR", i, code, kvs, h] =>
    match i.toNat?, code.toNat?, parseKVs? kvs, bytesOfHex h, m with
    | some i, some code, some hdrs, some b, .server v =>
      if code > 999 then (m, ["bad-op"]) else
      match doDone "doneR" v i { status := code, headers := hdrs, body := b } with
      | none => (m, ["bad-op"])
      | some (v', ls) => (.server v', ls)
    | _, _, _, _, _ => (m, ["bad-op"])
  | ["rel", i] =>
    match i.toNat?, m with
    | some i, .server v =>
      match doDone "rel-untouched" v i ((v.view.keptResp.lookup i).getD {}) with
      | none => (m, ["bad-op"])
      | some (v', ls) => (.server v', ls)
    | _, _ => (m, ["bad-op"])
  | ["cclose"] =>
    match m with
    | .server v =>
      let s := v.view
      if s.cclosed then (m, ["bad-op"]) else
      (.server (v.apply (.cclose none false)), ["B cclose " ++ (if s.pipe.valid then "peer-close-live" else "peer-close-after-drop") ++
          (if s.outstanding.isEmpty then "" else " peer-close-outstanding") ++
          (if (v.m.clients.filter (·.srv.pipe.valid)).length > 1 then " multi-peer-close" else ""), "P closed"])
    | _ => (m, ["bad-op"])
  | ["dclose", i, h] =>
    match i.toNat?, bytesOfHex h, m with
    | some i, some b, .server v =>
      if v.view.cclosed || !v.view.outstanding.contains i then (m, ["bad-op"]) else
      (.server (v.apply (.cclose (some (i, { status := 200, body := b })) false)), ["B dclose same-pass-commit-and-peer-close", "P closed"])
    | _, _, _ => (m, ["bad-op"])
  | ["dcloseN", i, n, b] =>
    match i.toNat?, n.toNat?, b.toNat?, m with
    | some i, some n, some b, .server v =>
      if n > 2000000 || b > 255 then (m, ["bad-op"]) else
      if v.view.cclosed || !v.view.outstanding.contains i then (m, ["bad-op"]) else
      (.server (v.apply (.cclose (some (i, { status := 200, body := List.replicate n (UInt8.ofNat b) })) false)),
        ["B dcloseN peer-close-with-unsent-bytes", "P closed"])
    | _, _, _, _ => (m, ["bad-op"])
  | ["cdone", i, h] =>
    match i.toNat?, bytesOfHex h, m with
    | some i, some b, .server v =>
      if v.view.cclosed || !v.view.outstanding.contains i then (m, ["bad-op"]) else
      (.server (v.apply (.cclose (some (i, { status := 200, body := b })) true)), ["B cdone commit-after-peer-close-epipe", "P closed"])
    | _, _, _ => (m, ["bad-op"])
  | ["chalf"] =>
    match m with
    | .server v =>
      let s := v.view
      if s.cclosed then (m, ["bad-op"]) else
      let v' := v.apply .chalf
      (.server v', ["B chalf " ++ (if s.pipe.valid then (if s.outstanding.isEmpty then "half-close-idle" else "half-close-outstanding") else "half-close-after-drop")]
                     ++ showOut s.pipe v'.view.pipe)
    | _ => (m, ["bad-op"])
  | ["chalfS"] =>
    -- what the PROPERTY asks for: outstanding responses are still written, then the server closes
    match m with
    | .server v =>
      let s := v.view
      if s.cclosed then (m, ["bad-op"]) else
      let s1 : Server := { s with halfSpec := true, conn := { s.conn with dead := true, buf := [] } }
      let s2 := if s1.outstanding.isEmpty && s1.pipe.valid then s1.emit [.drop] else s1
      (.server (v.lift s2), ["B chalfS"] ++ showOut s.pipe s2.pipe)
    | _ => (m, ["bad-op"])
  | ["wfail"] =>
    match m with
    | .server v => (.server (v.apply .wfail), ["B wfail", "P wfail"])
    | _ => (m, ["bad-op"])
  | [op] =>
    -- the application stops / cleans up the server outside any handler (contexts may still be held)
    match m with
    | .server v =>
      if op == "sstop" || op == "sclean" then
        let s := v.view
        let v' : Sv := { v with m := v.m.step (.stop (op == "sclean")) }
        let live := (v.m.clients.filter (·.srv.pipe.valid)).length
        (.server v', ["B " ++ op ++ (if s.pipe.valid then " h-stop-outside" else " stop-after-drop") ++
            (if s.outstanding.isEmpty then "" else " stop-outstanding") ++ (if live > 1 then " multi-stop" else "")] ++ showOut s.pipe v'.view.pipe)
      else (m, ["bad-op"])
    | _ => (m, ["bad-op"])
  | ["upath", h] =>
    match bytesOfHex h with
    | some b =>
      (m, match parseUrlPath b with
          | none => ["B upath-rejected", "P upath 0"]
          | some u => [pathTags u, "P upath 1 " ++ showPath u ++ " str=" ++ hexOfBytes (urlPathToString u) ++
              " rt=" ++ (if parseUrlPath (urlPathToString u) == some u then "1" else "0")])
    | none => (m, ["bad-op"])
  | ["uhost", h] =>
    match bytesOfHex h with
    | some b =>
      (m, match stringToUrlHost b with
          | none => ["B uhost-rejected", "P uhost 0"]
          | some u => ["B " ++ (if u.wf then "host-wf" else "host-nwf"),
              "P uhost 1 " ++ showHost u ++ " str=" ++ hexOfBytes (urlHostToString u)])
    | none => (m, ["bad-op"])
  | ["url", h] =>
    match bytesOfHex h with
    | some b =>
      (m, match stringToUrl b with
          | .threw => ["P exception"]
          | .fail => ["B url-rejected", "P url 0"]
          | .ok u => ["B " ++ (if u.wf then "absurl-wf" else "absurl-nwf"),
              "P url 1 scheme=" ++ hexOfBytes u.scheme ++ " " ++ showHost u.host ++ " " ++ showPath u.path ++
              " str=" ++ hexOfBytes (urlToString u) ++ " rt=" ++ (if stringToUrl (urlToString u) == .ok u then "1" else "0")])
    | none => (m, ["bad-op"])
  | ["mkpath", p, ps, qs, f] =>
    match bytesOfHex p, parseKVs? ps, parseKVs? qs, bytesOfHex f with
    | some p, some ps, some qs, some f =>
      let u : UrlPath := ⟨p, ps, qs, f⟩
      (m, [pathTags u, "P mkpath " ++ backPath u])
    | _, _, _, _ => (m, ["bad-op"])
  | ["mkurl", sc, us, pw, ho, po, p, ps, qs, f] =>
    match bytesOfHex sc, bytesOfHex us, bytesOfHex pw, bytesOfHex ho, po.toNat?, bytesOfHex p, parseKVs? ps, parseKVs? qs, bytesOfHex f with
    | some sc, some us, some pw, some ho, some po, some p, some ps, some qs, some f =>
      if po > 65535 then (m, ["bad-op"]) else
      let u : Url := ⟨sc, ⟨us, pw, ho, po⟩, ⟨p, ps, qs, f⟩⟩
      (m, ["B " ++ (if u.wf then "absurl-wf" else "absurl-nwf"),
           "P mkurl str=" ++ hexOfBytes (urlToString u) ++ " back=" ++
           (match stringToUrl (urlToString u) with
            | .threw => "exception"
            | .fail => "0"
            | .ok v => "1 scheme=" ++ hexOfBytes v.scheme ++ " " ++ showHost v.host ++ " " ++ showPath v.path ++
                " rt=" ++ (if v == u then "1" else "0"))])
    | _, _, _, _, _, _, _, _, _ => (m, ["bad-op"])
  | ["enc", md, h] =>
    match bytesOfHex h with
    | some b => if md == "0" || md == "1" then (m, ["P enc " ++ hexOfBytes (urlEncode (md == "1") b)]) else (m, ["bad-op"])
    | none => (m, ["bad-op"])
  | ["dec", h] =>
    match bytesOfHex h with
    | some b => (m, [match urlDecode b with | none => "P dec throws" | some d => "P dec " ++ hexOfBytes d])
    | none => (m, ["bad-op"])
  | ["mkreq", me, p, ps, qs, f, ve, hs, bo] =>
    match bytesOfHex p, parseKVs? ps, parseKVs? qs, bytesOfHex f, parseKVs? hs, bytesOfHex bo with
    | some p, some ps, some qs, some f, some hs, some bo =>
      if !methodNames.contains me || !verNames.contains ve then (m, ["bad-op"]) else
      let r : Req := ⟨me, ⟨p, ps, qs, f⟩, ve, hs, bo⟩
      (m, ["B mkreq", "P mkreq str=" ++ hexOfBytes r.render,
           match parse cfg PState.init r.render with
           | .threw => "P exception"
           | .hang => "P hang"
           | .ok ps rest => "P reparse consumed=" ++ toString (r.render.length - rest.length) ++ " st=" ++ showSt ps.st ++
               (if ps.st == .all then " " ++ showReq ps.req ++ " same=" ++
                 (if ps.req == { r with headers := mapInsert (ascii "Content-Length") (decimal bo.length) hs } then "1" else "0") else "")])
    | _, _, _, _, _, _ => (m, ["bad-op"])
  | ["mkres", ve, code, hs, bo] =>
    match code.toNat?, parseKVs? hs, bytesOfHex bo with
    | some code, some hs, some bo =>
      if !verNames.contains ve || code > 999 then (m, ["bad-op"]) else
      (m, ["B mkres", "P mkres " ++ hexOfBytes (Respond.mk ve code hs bo).render])
    | _, _, _ => (m, ["bad-op"])
  | _ => (m, ["bad-op"])

/-- ops that only switch the connection the following lines are about, or are answered without touching the server -/
def quietOps : List String := ["on", "case", "feed", "method", "version", "upath", "uhost", "url", "mkpath", "mkurl", "enc", "dec", "mkreq", "mkres"]

def stepLine (m : Mode) (line : String) : Mode × List String :=
  let (m', ls) := stepLine0 m line
  let op := (words line).headD ""
  if ls == ["bad-op"] || ls == ["P poisoned"] || ls.isEmpty || quietOps.contains op then (m', ls) else
  match m, m' with
  | .server v, .server v' => (m', ls ++ crossLines v v' (ls.contains "P exception"))
  | .fresh, .server v' => (m', ls ++ crossLines ⟨{}, 0⟩ v' false)
  | _, _ => (m', ls)

def main : IO Unit := runDriver Mode.fresh stepLine
