/- C13 driver: op lines in, observable lines out (same format as props/C13/harness.cpp).
   `c13` models the repaired code (Cfg.fixed); `c13 legacy` the code as found. -/
import TboxModel.Util
import TboxModel.C13.Model
open Tbox.Util Tbox.C13

def frontOp? (name : String) (ws : List String) : Option FrontOp :=
  match name, ws with
  | "conn", [] => some .conn
  | "recv", [d] => do pure (.recv (← bytesOfHex d))
  | "disc", [] => some .disc
  | "end", [] => some .endS
  | "send", [] => some .send
  | _, _ => none

def parseOp (ws : List String) : Option Op :=
  match ws with
  | ["open", n] => do pure (.openS (← n.toNat?))
  | ["recv", d] => do pure (.recv (← bytesOfHex d))
  | ["pass"] => some .pass
  | ["opt", n] => do pure (.opt (← n.toNat?))
  | ["winsz", a, b] => do pure (.winsz (← a.toNat?) (← b.toNat?))
  | ["close"] => some .close
  | ["mkdir"] => some .mkdir
  | ["mkfunc"] => some .mkfunc
  | ["mount", p, c, n] => do pure (.mount (← p.toNat?) (← c.toNat?) (← bytesOfHex n))
  | ["umount", p, n] => do pure (.umount (← p.toNat?) (← bytesOfHex n))
  | ["rmnode", i] => do pure (.rmnode (← i.toNat?))
  | op :: rest =>
    if op.startsWith "t" then (frontOp? (op.drop 1).toString rest).map (.front true)
    else if op.startsWith "r" then (frontOp? (op.drop 1).toString rest).map (.front false)
    else none
  | _ => none

def badName : Bad → String
  | .useAfterFree => "use-after-free" | .emptyBack => "back-of-empty-history" | .uncaughtRange => "uncaught-out_of_range"
  | .negOverflow => "negation-overflow" | .index => "index-out-of-range" | .cursor => "cursor-out-of-range"
  | .recursion => "recursion" | .overread => "read-past-received" | .mapAt => "map-at-absent-key"

/-- events → printed lines: adjacent sends are merged (as the recording connection does), ghost
events are dropped, tags are collected into one `B` line -/
def render (evs : List Ev) : List String :=
  let flush (tx : Str) (acc : List String) : List String :=
    if tx.isEmpty then acc else ("P tx " ++ hexOfBytes tx) :: acc
  let rec go (evs : List Ev) (tx : Str) (acc : List String) (tags : List String) : List String × List String :=
    match evs with
    | [] => ((flush tx acc).reverse, tags.reverse)
    | .tx _ bs :: r => go r (tx ++ bs) acc tags
    | .probe id args :: r =>
      go r [] (("P probe " ++ toString id ++ " " ++ toString args.length ++
        String.join (args.map fun a => " " ++ hexOfBytes a)) :: flush tx acc) tags
    | .endSess :: r => go r [] ("P end" :: flush tx acc) tags
    | .bad b :: r => go r [] (("P BAD " ++ badName b) :: flush tx acc) tags
    | .tel (.str bs) :: r => go r [] (("P str " ++ hexOfBytes bs) :: flush tx acc) tags
    | .tel (.setopt o) :: r => go r [] (("P setopt " ++ toString o) :: flush tx acc) tags
    | .tel (.win a b) :: r => go r [] (("P win " ++ toString a ++ " " ++ toString b) :: flush tx acc) tags
    | .line s :: r => go r [] (((if s.startsWith "rest=" then "M " else "P ") ++ s) :: flush tx acc) tags
    | .tag t :: r => go r tx acc (t :: tags)
    | _ :: r => go r tx acc tags
  let (ls, tags) := go evs [] [] []
  (if tags.isEmpty then [] else ["B " ++ " ".intercalate tags]) ++ ls

def stepLine (cfg : Cfg) (w : World) (line : String) : World × List String :=
  let ws := words line
  match ws with
  | [] => (w, [])
  | "case" :: _ => ({}, [line.trimAscii.toString])
  | _ =>
    match parseOp ws with
    | none => (w, ["bad-op"])
    | some op =>
      match step cfg w op with
      | none => (w, ["bad-op"])
      | some (w', evs) => (w', render evs)

def main (args : List String) : IO Unit :=
  runDriver ({} : World) (stepLine (if args.contains "legacy" then Cfg.legacy else Cfg.fixed))
