/- C13 driver: op lines in, observable lines out (same format as props/C13/harness.cpp).
   `c13` models the repaired code (Cfg.fixed); `c13 legacy` the code as found. -/
import TboxModel.Util
import TboxModel.C13.Model
import TboxModel.C13.Spec
open Tbox.Util Tbox.C13

def frontOp? (name : String) (ws : List String) : Option FrontOp :=
  match name, ws with
  | "conn", [] => some .conn
  | "recv", [d] => do pure (.recv (← bytesOfHex d))
  | "disc", [] => some .disc
  | "end", [] => some .endS
  | "send", [] => some .send
  | _, _ => none

/-- `s:<hex>` send, `f:<hex>` feed, `e` end session, `d` delete the session, `r:`/`m:`/`u:` change the node tree -/
def act? (t : String) : Option Act :=
  if t == "e" then some .endS
  else if t == "d" then some .del
  else if t.startsWith "s:" then (bytesOfHex (t.drop 2).toString).map .send
  else if t.startsWith "f:" then (bytesOfHex (t.drop 2).toString).map .feed
  else
    -- handlers that change the node tree: `r:<i>` deleteNode, `m:<p>:<c>:<hex>` mountNode, `u:<p>:<hex>` umountNode
    match t.splitOn ":" with
    | ["r", i] => do pure (.rm (← i.toNat?))
    | ["m", p, c, n] => do pure (.mnt (← p.toNat?) (← c.toNat?) (← bytesOfHex n))
    | ["u", p, n] => do pure (.umnt (← p.toNat?) (← bytesOfHex n))
    | _ => none

/-- the kernel's answers of one read event: `-`, or comma separated chunk sizes, optionally ended by a letter:
`a` EAGAIN, `z` end of file, `r` ECONNRESET, `i` EINTR (transient like EAGAIN: the connection stays, fix 1c1abc6), `o` EIO -/
def answers? (a : String) : Option (List Nat × Nat) :=
  if a == "-" then some ([], 0)
  else
    let items := a.splitOn ","
    let termOf (t : String) : Option Nat :=
      if t == "a" then some 1 else if t == "z" then some 2 else if t == "r" then some 3 else if t == "i" then some 4
      else if t == "o" then some 5 else none
    match items.getLast? with
    | none => none
    | some l =>
      match termOf l with
      | some t => (items.dropLast.mapM String.toNat?).map fun cs => (cs, t)
      | none => (items.mapM String.toNat?).map fun cs => (cs, 0)

def parseOp (ws : List String) : Option Op :=
  match ws with
  | ["sel", k] => do pure (.sel (← k.toNat?))
  | ["depth", n] => do pure (.depth (← n.toNat?))
  | "mkfunc" :: acts => do
      if acts.length > 6 then none else pure (.mkfunc (← acts.mapM act?))
  | ["open", n] => do pure (.openS (← n.toNat?))
  | ["recv", d] => do pure (.recv (← bytesOfHex d))
  | ["pass"] => some .pass
  | ["teardown"] => some .teardown
  | ["passdown"] => some .passdown
  | ["opt", n] => do pure (.opt (← n.toNat?))
  | ["winsz", a, b] => do pure (.winsz (← a.toNat?) (← b.toNat?))
  | ["close"] => some .close
  | ["xconn", k] => do pure (.xconn (← k.toNat?))
  | ["xrecv", k, d] => do pure (.xrecv (← k.toNat?) (← bytesOfHex d))
  | ["xdisc", k] => do pure (.xdisc (← k.toNat?))
  | ["sstart"] => some .sstart
  | ["srecv", d] => do pure (.srecv (← bytesOfHex d))
  | ["sstop"] => some .sstop
  | ["mkdir"] => some .mkdir
  | ["mount", p, c, n] => do pure (.mount (← p.toNat?) (← c.toNat?) (← bytesOfHex n))
  | ["umount", p, n] => do pure (.umount (← p.toNat?) (← bytesOfHex n))
  | ["rmnode", i] => do pure (.rmnode (← i.toNat?))
  | ["split", d] => do pure (.split (← bytesOfHex d))
  | ["wfault", k, m] => do pure (.wfault (← k.toNat?) (← m.toNat?))
  | ["xclose", k] => do pure (.xclose (← k.toNat?))
  | ["xsock", k, d, a] => do
      let r ← answers? a
      pure (.xsock (← k.toNat?) (← bytesOfHex d) r.1 r.2)
  | ["xconnf", k, e] => do pure (.xconnf (← k.toNat?) (← e.toNat?))
  | ["ssplit", sp, d] => do pure (.ssplit (← bytesOfHex sp) (← bytesOfHex d))
  | ["hexstr", d, n, u, dl] => do
      let u ← u.toNat?
      if u > 1 then none else pure (.hexstr (← bytesOfHex d) (← n.toNat?) (u == 1) (← bytesOfHex dl))
  | op :: rest =>
    if op.startsWith "t" then (frontOp? (op.drop 1).toString rest).map (.front true)
    else if op.startsWith "r" then (frontOp? (op.drop 1).toString rest).map (.front false)
    else none
  | _ => none

def badName : Bad → String
  | .useAfterFree => "use-after-free" | .emptyBack => "back-of-empty-history" | .uncaughtRange => "uncaught-out_of_range"
  | .negOverflow => "negation-overflow" | .index => "index-out-of-range" | .cursor => "cursor-out-of-range"
  | .recursion => "recursion" | .overread => "read-past-received" | .mapAt => "map-at-absent-key"

/-- is `pat` a contiguous part of `s`? (outcome tags are read off the bytes sent) -/
def hasSub (pat s : Str) : Bool :=
  match s with
  | [] => pat.isEmpty
  | _ :: t => pat.isPrefixOf s || hasSub pat t

def bytesOf (t : String) : Str := t.toUTF8.toList

/-- outcome tags read off what was sent: which branches of the built-in commands were taken -/
def outcomeTags (tx : Str) : List String :=
  [("(R)\r\n", "tree-cycle"), ("(X)\r\n", "child-deleted"), ("' node has been deleted.", "node-deleted"),
   (" node has been deleted.", "tree-node-deleted"), ("' not directory.", "cd-func"), (" is function.", "ls-func"),
   (" is a function.", "tree-func"), ("Error: cannot access '", "no-access"), ("' not found.", "cmd-not-found"),
   ("|   ", "tree-depth2"), ("/\r\n", "ls-dir-child")].filterMap fun (p : String × String) =>
    if hasSub (bytesOf p.1) tx then some p.2 else none

structure RAcc where
  lines : Array (List String) := Array.replicate 9 []     -- per slot (8 = the op itself), reversed
  pend : Array Str := Array.replicate 9 []
  cur : Nat := 8
  tags : List String := []
  allTx : Str := []
  txs : Array Str := Array.replicate 9 []                 -- per slot: everything sent to it during this op
  sys : Array (List String) := Array.replicate 9 []       -- per slot: system call tokens, reversed

/-- sessions on the recording connection (slots 0-3) share group 0, chronologically -/
def grp (k : Nat) : Nat := if k < 4 then 0 else k

def RAcc.flush (a : RAcc) (k : Nat) : RAcc :=
  let tx := a.pend.getD k []
  if tx.isEmpty then a
  else
    let l := (if k = 8 then "P tx " else "P tx " ++ toString k ++ " ") ++ hexOfBytes tx
    { a with lines := a.lines.setIfInBounds (grp k) (l :: a.lines.getD (grp k) []), pend := a.pend.setIfInBounds k [] }

def RAcc.switch (a : RAcc) (k : Nat) : RAcc :=
  let a := if k < 4 then (List.range 4).foldl (fun a j => if j = k then a else a.flush j) a else a
  { a with cur := k }

def RAcc.put (a : RAcc) (l : String) : RAcc :=
  let a := a.flush a.cur
  { a with lines := a.lines.setIfInBounds (grp a.cur) (l :: a.lines.getD (grp a.cur) []) }

/-- events → printed lines, grouped by session slot (as the harness groups them); within a slot
adjacent sends are merged, ghost events are dropped, tags are collected into one `B` line -/
abbrev Screens := Array ScrW

def scrLine (k : Nat) (r : ScrW) : String :=
  "P scr " ++ toString k ++ " " ++ toString r.up ++ " " ++ toString r.col ++ " " ++ hexOfBytes (stripBlanks r.row)

def render (scr : Screens) (evs : List Ev) : Screens × List String :=
  let a := evs.foldl (fun (a : RAcc) (e : Ev) =>
    match e with
    | .slot k => a.switch (min k 8)
    | .tx _ bs => { a with pend := a.pend.setIfInBounds a.cur (a.pend.getD a.cur [] ++ bs), allTx := a.allTx ++ bs,
                           txs := a.txs.setIfInBounds a.cur (a.txs.getD a.cur [] ++ bs) }
    | .sysc k tok => { a with sys := a.sys.setIfInBounds (min k 8) (tok :: a.sys.getD (min k 8) []) }
    | .probe id args => a.put ("P probe " ++ toString id ++ " " ++ toString args.length ++
        String.join (args.map fun x => " " ++ hexOfBytes x))
    | .endSess => a.put ("P end " ++ toString a.cur)
    | .closed => a.put ("P closed " ++ toString a.cur)
    | .bad b => a.put ("P BAD " ++ badName b)
    | .tel (.str bs) => a.put ("P str " ++ hexOfBytes bs)
    | .tel (.setopt o) => a.put ("P setopt " ++ toString o)
    | .tel (.win x y) => a.put ("P win " ++ toString x ++ " " ++ toString y)
    | .tel (.reply _) => a
    | .split none => a.put "P split fail"
    | .split (some args) => a.put ("P split ok " ++ toString args.length ++ String.join (args.map fun x => " " ++ hexOfBytes x))
    | .line s => a.put ((if s.startsWith "rest=" then "M " else "P ") ++ s)
    | .tag t => { a with tags := t :: a.tags }
    | _ => a) ({} : RAcc)
  let a := (List.range 9).foldl (fun a k => a.flush k) a
  let tags := a.tags.reverse ++ outcomeTags a.allTx
  -- the client's screen: every slot that was sent something in this op shows its current row and cursor
  let scr' : Screens := (List.range 8).foldl (fun (sc : Screens) k =>
    let tx := a.txs.getD k []
    if tx.isEmpty then sc else sc.setIfInBounds k ((sc.getD k {}).feed tx)) scr
  let extra (g : Nat) : List String :=
    let ks := if g = 0 then [0, 1, 2, 3] else if g < 4 then [] else [g]
    (ks.filterMap fun k => if k < 8 && !(a.txs.getD k []).isEmpty then some (scrLine k (scr'.getD k {})) else none) ++
    (ks.filterMap fun k => if (a.sys.getD k []).isEmpty then none else some ("M sys " ++ toString k ++ " " ++ " ".intercalate (a.sys.getD k []).reverse))
  (scr', (if tags.isEmpty then [] else ["B " ++ " ".intercalate tags]) ++
    ((List.range 9).map fun g => (a.lines.getD g []).reverse ++ extra g).flatten)

structure DSt where
  w : World := {}
  scr : Screens := Array.replicate 8 {}

/-- the editor state of the session an input op was for (M line: internal) -/
def edLine (w : World) (op : Op) : List String :=
  let k? : Option Nat := match op with
    | .recv _ => some w.cur | .xrecv k _ => some k | .xsock k _ _ _ => some k | .srecv _ => some 7 | _ => none
  match k? with
  | none => []
  | some k =>
    match (w.slot k).sess with
    | none => []
    | some s => ["M ed " ++ toString k ++ " " ++ toString s.cursor ++ " " ++ toString s.hidx ++ " " ++ hexOfBytes s.line]

def stepLine (cfg : Cfg) (d : DSt) (line : String) : DSt × List String :=
  let ws := words line
  match ws with
  | [] => (d, [])
  | "case" :: _ => ({}, [line.trimAscii.toString])
  | ["scrw", n] =>
    match n.toNat? with
    | some v => if 4 ≤ v ∧ v ≤ 1000 then ({ d with scr := d.scr.map fun r => { r with w := v } }, ["P scrw"]) else (d, ["bad-op"])
    | none => (d, ["bad-op"])
  | _ =>
    match parseOp ws with
    | none => (d, ["bad-op"])
    | some op =>
      match step cfg d.w op with
      | none => (d, ["bad-op"])
      | some (w', evs) =>
        let r := render d.scr evs
        ({ w := w', scr := r.1 }, r.2 ++ edLine w' op)

def main (args : List String) : IO Unit :=
  runDriver ({} : DSt) (stepLine (if args.contains "legacy" then Cfg.legacy else Cfg.fixed))
