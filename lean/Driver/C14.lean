/- C14 driver (trace acceptor): receives the ops of a case, then the implementation's lines
prefixed `T `, then `end`; replays the ops on the model and prints `ok` / `reject <reason>`
per op.  The JSON parser is an oracle: for a frame the model delimits, the implementation's
answer (`r=<n>` parsed / `r=-1` parse error, plus the callbacks it made) is accepted but must
be a function of the frame text within the case, and texts written by the real encoder must
parse.  Everything else (frame boundaries, return values, connection state, the Rpc event
trace) is predicted by the model. -/
import TboxModel.Util
import TboxModel.C14.Model
open Tbox.Util Tbox.C14

inductive Kind where
  | H (magic : UInt16)
  | R
  | P

def Kind.dec : Kind → List Byte → Frame
  | .H m => decodeHeader m
  | .R => decodeRaw
  | .P => decodePacket

def Kind.isPacket : Kind → Bool
  | .P => true
  | _ => false

structure Oracle where
  seen  : List (List Byte × Bool × List String) := []
  valid : List (List Byte) := []

def Oracle.record (o : Oracle) (t : List Byte) (ok : Bool) (cbs : List String) : Except String Oracle :=
  if !ok && o.valid.contains t then .error "a text written by the encoder (or the deep-array text) failed to parse"
  else match o.seen.find? (fun e => e.1 == t) with
    | some (_, ok', cbs') =>
        if ok' == ok && cbs' == cbs then .ok o
        else .error s!"same frame text decoded differently: before parsed={ok'} callbacks={cbs'} now parsed={ok} callbacks={cbs}"
    | none => .ok { o with seen := (t, ok, cbs) :: o.seen }

structure FState where
  streams : List (Option (Kind × Conn)) := [none, none, none, none]
  sent    : List (List Byte) := []
  oracle  : Oracle := {}

inductive CaseSt where
  | fresh
  | framing (f : FState)
  | rpc (kind : Kind) (r : Rpc) (defs : Bool) (tx : Bool)     -- defs: definition lines are still accepted; tx: send callback installed
  | world (w : World) (defs : Bool)

def expectTok (ts : List String) (want : String) : Except String (List String) :=
  match ts with
  | t :: rest => if t = want then .ok rest else .error s!"expected {want} got {t}"
  | [] => .error s!"expected {want} got <end-of-line>"

def takeCbs (ts : List String) : List String × List String :=
  ts.span (fun t => !(t.startsWith "r=") && t != "seg")

def needTag (k : Kind) (buf : List Byte) : String :=
  match k with
  | .H _ => if buf.length < 6 then "hdr-need-header" else
      (match buf with
       | _ :: _ :: b2 :: b3 :: b4 :: b5 :: _ =>
          if (be32dec b2 b3 b4 b5).toNat ≥ 0x7fffffff then "hdr-need-body-extreme-len" else "hdr-need-body"
       | _ => "hdr-need-body")
  | .R => if buf.length < 2 then "raw-short" else if findEndPos buf < 0 then "raw-unbalanced" else "raw-need"
  | .P => "pkt-short"

/-- the receive loop on one segment, consulting the implementation's tokens for the parse oracle -/
partial def attempts (k : Kind) (buf : List Byte) (ts : List String) (o : Oracle) (tags : List String)
    (carry : Bool) (nth : Nat) : Except String (Conn × List String × Oracle × List String) :=
  match k.dec buf with
  | .needMore => do
      let ts ← expectTok ts "r=0"
      pure (if k.isPacket then some [] else some buf, ts, o, needTag k buf :: tags)
  | .err c => do
      let ts ← expectTok ts s!"r={c}"
      pure (none, ts, o, (match k with | .R => "raw-unbalanced-err" | _ => "hdr-magic-bad") :: tags)
  | .throws => .error "model: an exception leaves onRecvData"
  | .frame t n =>
      match ts with
      | [] => .error s!"expected r={n} or r=-1, got <end-of-line>"
      | tok :: rest =>
        let (cbs, rest') := takeCbs rest
        let tags := (if carry && nth == 0 then ["resumed-frame"] else []) ++
                    (if nth == 1 then ["multi-frame"] else []) ++ tags
        if tok = s!"r={n}" then do
          let o ← o.record t true cbs
          let tags := (if cbs.isEmpty then "parse-ok-nocb" else "parse-ok-cb") :: tags
          if k.isPacket then pure (some [], rest', o, tags)
          else if 0 < n ∧ n ≤ buf.length then attempts k (buf.drop n) rest' o tags false (nth + 1)
          else .error "model: stuck"
        else if tok = "r=-1" then do
          if !cbs.isEmpty then throw "callbacks although the parse failed"
          let o ← o.record t false []
          pure (if k.isPacket then some [] else none, rest', o, "parse-fail" :: tags)
        else .error s!"frame of {n} bytes: expected r={n} or r=-1, got {tok}"

def acceptSegs (k : Kind) (c : Conn) (segs : List (List Byte)) (ts : List String) (o : Oracle)
    (tags : List String) : Except String (Conn × Oracle × List String) :=
  match segs with
  | [] => if ts.isEmpty then .ok (c, o, tags) else .error s!"unexpected extra output {ts}"
  | seg :: segs =>
    match c with
    | none => if ts.isEmpty then .ok (none, o, tags) else .error s!"output after the connection was given up: {ts}"
    | some buf => do
      let ts ← expectTok ts "seg"
      let (c', ts', o', tags') ← attempts k (buf ++ seg) ts o tags (!buf.isEmpty) 0
      acceptSegs k c' segs ts' o' tags'

def slot? (w : String) : Option Nat := do
  let i ← w.toNat?
  if i < 4 then some i else none

def splitAt (bs : List Byte) (cuts : List Nat) (off : Nat := 0) : List (List Byte) :=
  match cuts with
  | [] => [bs]
  | c :: cs => bs.take (c - off) :: splitAt (bs.drop (c - off)) cs c

def parseCuts (w : String) (len : Nat) : Option (List Nat) :=
  if w == "-" then some [] else do
    let cs ← (w.splitOn ",").mapM (fun s => s.toNat?)
    let rec okc : List Nat → Nat → Bool
      | [], _ => true
      | c :: cs, prev => prev < c && c < len && okc cs c
    if okc cs 0 then some cs else none

def deepObj : List Byte := "{\"jsonrpc\":\"2.0\",\"method\":\"m\"}".toUTF8.toList

def frameFor (k : Kind) (text : List Byte) : List Byte :=
  match k with
  | .H m => encodeHeader m text
  | _ => text

def feedOp (f : FState) (s : Nat) (segs : List (List Byte)) (impl : List String) :
    Except String (FState × List String) :=
  match f.streams.getD s none with
  | none => .error "model: stream not open"
  | some (k, c) =>
    match impl with
    | "P" :: "feed" :: ts =>
      if c.isNone then
        if ts == ["dead"] then .ok (f, ["dead-conn"]) else .error s!"expected 'P feed dead', got {ts}"
      else do
        let (c', o', tags) ← acceptSegs k c segs ts f.oracle []
        pure ({ f with streams := f.streams.set s (some (k, c')), oracle := o' }, tags)
    | _ => .error s!"expected a 'P feed' line, got {impl}"

/-- a JSON integer literal: optional '-', digits, no leading zero, not "-0", at most 25 digits -/
def jsonInt? (w : String) : Option Int :=
  let neg := w.startsWith "-"
  let ds := (if neg then (w.drop 1).toString else w).toList
  if ds.isEmpty || ds.length > 25 || !ds.all Char.isDigit then none
  else if ds.length > 1 && ds.head! == '0' then none
  else
    let v : Nat := ds.foldl (fun a c => a * 10 + (c.toNat - 48)) 0
    if neg && v == 0 then none else some (if neg then -(v : Int) else (v : Int))

def int32? (w : String) : Option Int := do
  let v ← intOfString? w
  if -2147483648 ≤ v ∧ v < 2147483648 then some v else none

/-! ### JSON value descriptions (same grammar as the harness)
  n t f | d D | i<int literal> | s<hex of printable ASCII> | [v,v,…] | {<hexkey>:v,…} -/

def lowerHex (c : Char) : Bool := c.isDigit || ('a' ≤ c && c ≤ 'f')

def printableStr? (hexs : List Char) : Option String := do
  let bs ← bytesOfHexChars hexs
  if bs.all (fun b => 0x20 ≤ b && b ≤ 0x7e) then some (String.ofList (bs.map (fun b => Char.ofNat b.toNat))) else none

mutual
partial def descValue (cs : List Char) (depth : Nat) : Option (J × List Char) :=
  if depth > 16 then none else
  match cs with
  | 'n' :: r => some (.null, r)
  | 't' :: r => some (.bool true, r)
  | 'f' :: r => some (.bool false, r)
  | 'd' :: r => some (.float, r)
  | 'D' :: r => some (.float, r)
  | 'i' :: r =>
      let (neg, r1) := match r with | '-' :: q => (true, q) | q => (false, q)
      let ds := r1.takeWhile Char.isDigit
      let rest := r1.dropWhile Char.isDigit
      (jsonInt? (String.ofList ((if neg then ['-'] else []) ++ ds))).map (fun v => (.int v, rest))
  | 's' :: r => do
      let h := r.takeWhile lowerHex
      let t ← printableStr? h
      some (.str t, r.dropWhile lowerHex)
  | '[' :: ']' :: r => some (.arr [], r)
  | '[' :: r => descItems r depth []
  | '{' :: '}' :: r => some (.obj [], r)
  | '{' :: r => descFields r depth []
  | _ => none
partial def descItems (cs : List Char) (depth : Nat) (acc : List J) : Option (J × List Char) := do
  let (v, r) ← descValue cs (depth + 1)
  match r with
  | ',' :: r' => descItems r' depth (acc ++ [v])
  | ']' :: r' => some (.arr (acc ++ [v]), r')
  | _ => none
partial def descFields (cs : List Char) (depth : Nat) (acc : List (String × J)) : Option (J × List Char) := do
  let h := cs.takeWhile lowerHex
  let k ← printableStr? h
  if acc.any (fun f => f.1 == k) then none else
  match cs.dropWhile lowerHex with
  | ':' :: r => do
      let (v, r2) ← descValue r (depth + 1)
      match r2 with
      | ',' :: r' => descFields r' depth (acc ++ [(k, v)])
      | '}' :: r' => some (.obj (acc ++ [(k, v)]), r')
      | _ => none
  | _ => none
end

def desc? (w : String) : Option J :=
  if w.length > 4000 then none else
  match descValue w.toList 0 with
  | some (j, []) => some j
  | _ => none

def hexOfStr (t : String) : String := if t.isEmpty then "" else hexOfBytes t.toUTF8.toList

def insertField (f : String × J) : List (String × J) → List (String × J)
  | [] => [f]
  | g :: gs => if f.1 < g.1 then f :: g :: gs else g :: insertField f gs

/-- canonical rendering, as the harness renders the parsed nlohmann value: keys sorted, integers
beyond 64 bit are floats -/
partial def canonJ : J → String
  | .null => "n"
  | .bool b => if b then "t" else "f"
  | .int v => if inI64U64 v then s!"i{v}" else "d"
  | .float => "d"
  | .str t => "s" ++ hexOfStr t
  | .arr items => "[" ++ ",".intercalate (items.map canonJ) ++ "]"
  | .obj fields => "{" ++ ",".intercalate ((fields.foldl (fun acc f => insertField f acc) []).map (fun f => hexOfStr f.1 ++ ":" ++ canonJ f.2)) ++ "}"

def showRMsg : RMsg → String
  | .request id m p => s!"q:{id}:{if m.isEmpty then "-" else hexOfStr m}:{canonJ p}"
  | .response id c r => s!"s:{id}:{c}:{canonJ r}"

def showGVal : GVal → String
  | .b v => if v then "t" else "f"
  | .u v => toString v
  | .i v => toString v
  | .d _ => "d"
  | .s v => "s" ++ hexOfStr v

def gkind? : String → Option (GKind × GVal × String)
  | "b" => some (.b, .b true, "t")
  | "u" => some (.u, .u 7, "7")
  | "i" => some (.i, .i (-7), "-7")
  | "d" => some (.d, .d none, "old")
  | "s" => some (.s, .s "old", "s6f6c64")
  | _ => none

def key? (w : String) : Option String :=
  if w == "-" then some "" else if w.isEmpty || !w.toList.all lowerHex then none else printableStr? w.toList

/-- one framing op against the implementation's line (as words). `none` = ill-typed op. -/
def framingOp (f : FState) (ws : List String) (impl : List String) :
    Option (Except String (FState × List String)) :=
  let opened (s : Nat) : Option Unit := if (f.streams.getD s none).isSome then some () else none
  match ws with
  | ["open", s, "H", m] => do
      let s ← slot? s; let m ← m.toNat?
      if m < 65536 then
        some (if impl == ["P", "open"] then .ok ({ f with streams := f.streams.set s (some (.H (UInt16.ofNat m), some [])) }, ["open"])
              else .error s!"expected 'P open' got {impl}")
      else none
  | ["open", s, "R"] => do
      let s ← slot? s
      some (if impl == ["P", "open"] then .ok ({ f with streams := f.streams.set s (some (.R, some [])) }, ["open"])
            else .error s!"expected 'P open' got {impl}")
  | ["open", s, "P"] => do
      let s ← slot? s
      some (if impl == ["P", "open"] then .ok ({ f with streams := f.streams.set s (some (.P, some [])) }, ["open"])
            else .error s!"expected 'P open' got {impl}")
  | "sendq" :: s :: id :: m :: p :: [] => do
      let s ← slot? s; let _ ← int32? id; let _ ← bytesOfHex m; let _ ← bytesOfHex p; opened s
      some (sendOp f s impl)
  | "sendr" :: s :: id :: p :: [] => do
      let s ← slot? s; let _ ← int32? id; let _ ← bytesOfHex p; opened s
      some (sendOp f s impl)
  | "sende" :: s :: id :: code :: [] => do
      let s ← slot? s; let _ ← int32? id; let _ ← int32? code; opened s
      some (sendOp f s impl)
  | ["feed", s, d] => do
      let s ← slot? s; let d ← bytesOfHex d; opened s
      some (feedOp f s [d] impl)
  | ["feedsent", s, k, cuts] => do
      let s ← slot? s; opened s
      let ks ← (k.splitOn "+").mapM (fun t => t.toNat?)
      let parts ← ks.mapM (fun i => f.sent[i]?)
      let bytes := parts.flatten
      let cs ← parseCuts cuts bytes.length
      some (feedOp f s (splitAt bytes cs) impl)
  | ["deep", s, n] => do
      let s ← slot? s; let n ← n.toNat?; opened s
      if n > 2000000 then none else
      match f.streams.getD s none with
      | none => some (.error "model: stream not open")
      | some (k, _) =>
        let text := List.replicate n cLsq ++ deepObj ++ List.replicate n cRsq
        let f' := { f with oracle := { f.oracle with valid := text :: f.oracle.valid } }
        some ((feedOp f' s [frameFor k text] impl).map (fun (g, t) => (g, "deep" :: t)))
  | ["lensweep", s, lo, hi] => do
      let s ← slot? s; let lo ← lo.toNat?; let hi ← hi.toNat?; opened s
      if lo > hi || hi > 20000000 || hi - lo > 100000 then none else
      let want := s!"P lensweep n={3 * (hi - lo + 1)} bad=-"
      -- `C14_header_roundtrip` / `C14_raw_roundtrip` / `C14_packet_roundtrip` are uniform in the length
      some (if " ".intercalate impl == want then .ok (f, ["lensweep"]) else .error s!"expected '{want}' got '{" ".intercalate impl}'")
  | ["pj", s, d] => do
      let s ← slot? s; opened s
      let j ← desc? d
      match j with
      | .arr _ | .obj _ =>
        let want := "P pj ok" ++ String.join ((recvJson j).map (fun r => " " ++ showRMsg r))
        let msgs := recvJson j
        let tags := ["pj"] ++ (if msgs.isEmpty then ["pj-ignored"] else []) ++ (if msgs.length ≥ 2 then ["pj-batch"] else []) ++
          (if msgs.any (fun r => match r with | .request .. => true | _ => false) then ["pj-request"] else []) ++
          (if msgs.any (fun r => match r with | .response .. => true | _ => false) then ["pj-response"] else [])
        some (if " ".intercalate impl == want then .ok (f, tags) else .error s!"expected '{want}' got '{" ".intercalate impl}'")
      | _ => none
  | ["gf", k, d, key] => do
      let (gk, old, _) ← gkind? k; let j ← desc? d; let key ← key? key
      let (r, v) := getField gk j key old
      let shown := if r then showGVal v else (match gk with | .d => "old" | _ => showGVal v)
      let want := s!"P gf {if r then 1 else 0} {shown}"
      some (if " ".intercalate impl == want then .ok (f, [if r then "gf-hit" else "gf-miss"]) else .error s!"expected '{want}' got '{" ".intercalate impl}'")
  | ["hf", k, d, key] => do
      let c ← (if k.length == 1 then k.toList.head? else none)
      if !("oabnfius".toList.contains c) then none else
      let j ← desc? d; let key ← key? key
      let want := s!"P hf {if hasField c j key then 1 else 0}"
      some (if " ".intercalate impl == want then .ok (f, ["hf"]) else .error s!"expected '{want}' got '{" ".intercalate impl}'")
  | _ => none
where
  sendOp (f : FState) (s : Nat) (impl : List String) : Except String (FState × List String) :=
    match f.streams.getD s none with
    | none => .error "model: stream not open"
    | some (k, _) =>
      match impl with
      | ["P", "send", hx, rt] =>
        match bytesOfHex hx with
        | none => .error "bad hex in send line"
        | some bytes =>
          let text := match k with | .H _ => bytes.drop 6 | _ => bytes
          if rt != "rt=1" then .error s!"the encoder's output did not decode to an equal JSON value ({rt})"
          else if frameFor k text != bytes then .error "encoder output is not magic+length+text"
          else if text.length < 2 then .error "encoder wrote a text shorter than 2 bytes"
          else if k.dec bytes != .frame text bytes.length then
            .error "model does not delimit the encoder's output as exactly one frame"
          else .ok ({ f with sent := f.sent ++ [bytes],
                             oracle := { f.oracle with valid := text :: f.oracle.valid } }, ["send"])
      | _ => .error s!"expected 'P send <hex> rt=1' got {impl}"

/-! ### Rpc / world cases: callback scripts -/

def digits? (w : String) (maxv : Nat) (maxLen : Nat := 9) : Option Nat :=
  let cs := w.toList
  if cs.isEmpty || cs.length > maxLen || !cs.all Char.isDigit then none
  else
    let v : Nat := cs.foldl (fun a c => a * 10 + (c.toNat - 48)) 0
    if v ≤ maxv then some v else none

def split2 (w : String) (sep : Char) : Option (String × String) :=
  match w.splitOn (String.singleton sep) with
  | [x, y] => some (x, y)
  | _ => none

/-- one act token -/
def act? (w : String) : Option Act :=
  if w == "x" then some .cleanup
  else
    let body := (w.drop 1).toString
    match w.toList.head? with
    | some 'q' => do let (c, m) ← split2 body '.'; let c ← digits? c 99; let m ← digits? m 7; some (.request c m)
    | some 'n' => do let m ← digits? body 7; some (.notify m)
    | some 'r' => do let (i, c) ← split2 body ':'; let i ← int32? i; let c ← int32? c; some (.respond i c)
    | some 'c' => do let c ← int32? body; some (.respondCur c)
    | some 'i' => do let (i, c) ← split2 body ':'; let i ← jsonInt? i; let c ← int32? c; some (.inject i c)
    | some 'v' => do
        let (m, h) ← split2 body ':'
        let m ← digits? m 7
        if h == "-" then some (.setService m none) else do let h ← digits? h 99; some (.setService m (some h))
    | _ => none

def ret? (w : String) : Option Ret :=
  if w == "as" then some .async
  else if w.startsWith "s" && w.length > 1 then (int32? (w.drop 1).toString).map .sync
  else none

/-- a definition line: the extended program -/
def defLine? (p : Prog) (ws : List String) : Option Prog :=
  match ws with
  | "cb" :: acts => do
      let as ← acts.mapM act?
      if p.cbs.length < 16 then some { p with cbs := p.cbs ++ [as] } else none
  | "hd" :: r :: acts => do
      let r ← ret? r
      let as ← acts.mapM act?
      if p.hs.length < 16 then some { p with hs := p.hs ++ [{ acts := as, ret := r }] } else none
  | _ => none

def showEvs (es : List REv) : String :=
  if es.isEmpty then "-" else " ".intercalate (es.map fun
    | .sent id m => s!"s{id}:{m}"
    | .fired t c => s!"f{t}:{c}"
    | .called id h => s!"c{id}:{h}"
    | .answered id c => s!"a{id}:{c}"
    | .overflow => "overflow"
    | .misuse => "misuse")

/-- an API op / arriving frame at one Rpc object (everything but `adv`) -/
def peerOp? (ws : List String) : Option Op :=
  match ws with
  | ["req", c, m] => do let c ← digits? c 99; let m ← digits? m 7; some (.request c m)
  | ["note", m] => do let m ← digits? m 7; some (.notify m)
  | ["rsp", id, code] => do let id ← jsonInt? id; let code ← int32? code; some (.response id code)
  | ["inreq", id, m] => do let id ← int32? id; let m ← digits? m 7; some (.inRequest id m)
  | ["srsp", id, code] => do let id ← int32? id; let code ← int32? code; some (.apiRespond id code)
  | ["svc", m, h] => do
      let m ← digits? m 7
      if h == "-" then some (.setService m none) else do let h ← digits? h 99; some (.setService m (some h))
  | ["cleanup"] => some .cleanup
  | _ => none

def isFired : REv → Bool | .fired .. => true | _ => false
def isSent : REv → Bool | .sent .. => true | _ => false
def isAnswered : REv → Bool | .answered .. => true | _ => false
def isCalled : REv → Bool | .called .. => true | _ => false
def isTimeout : REv → Bool | .fired _ c => c == kRequestTimeout | _ => false

/-- distribution tags of one step of one object -/
def opTags (pre : String) (r : Rpc) (op : Option Op) (r' : Rpc) (evs : List REv) : List String :=
  let nfired := (evs.filter isFired).length
  let t : List String :=
    (match op with
     | some (.request ..) => ["req"]
     | some (.notify _) => ["notify"]
     | some (.response id _) =>
         [if nfired > 0 then "rsp-hit" else if (respIdG true id).isNone then "rsp-id-beyond-int"
          else if (0 < id ∧ id ≤ (r.idAlloc : Int)) then "rsp-late-or-dup" else "rsp-unknown"]
     | some (.inRequest id _) =>
         [if r.dead then "inreq-dead" else if evs.any isCalled then (if id == 0 then "inreq-notification" else "inreq-served")
          else "inreq-method-not-found"]
     | some (.apiRespond id _) => [if id == 0 then "srsp-id0" else if r.srv.tobe.contains id then "srsp-awaited" else "srsp-unawaited"]
     | some (.setService ..) => ["svc"]
     | some .cleanup => ["top-cleanup"]
     | _ => []) ++
    (if evs.any isTimeout then ["timeout-fired"] else []) ++
    (if evs.contains .misuse then ["misuse"] else []) ++
    -- a completion callback ran inside another callback (an injected response hit)
    (if nfired ≥ 2 && !(match op with | none => true | some .tick => true | _ => false) then ["nested-fire"] else []) ++
    (if nfired ≥ 1 && (match op with | some (.inRequest ..) => true | _ => false) then ["nested-fire"] else []) ++
    (if (match op with | some (.request ..) => false | some (.notify _) => false | _ => true) && evs.any isSent
      then ["cb-request"] else []) ++
    (if (match op with | some (.apiRespond ..) => false | some (.inRequest ..) => false | _ => true) && evs.any isAnswered
      then ["cb-respond"] else []) ++
    (if (match op with | some .cleanup => false | _ => true) && !r.dead && r'.dead then ["cb-cleanup"] else []) ++
    (if (match op with | some (.setService ..) => false | some .cleanup => false | _ => true) && !r'.dead && r.services != r'.services
      then ["svc-changed-in-cb"] else []) ++
    (if !r.pending.isEmpty && r'.pending.isEmpty && !r'.dead then ["all-completed"] else []) ++
    (if r.timerOn && !r'.timerOn then ["timer-disabled"] else []) ++
    (if r.srv.tobe.length > r'.srv.tobe.length && (match op with | none => true | _ => false) then ["respond-timeout"] else [])
  t.map (pre ++ ·)

def checkOverflow (evs : List REv) : Except String Unit :=
  if evs.contains .overflow then .error "model: nesting budget exhausted" else .ok ()

def msMax : Nat := 5000000000

def onWire : REv → Bool
  | .sent .. => true
  | .answered .. => true
  | _ => false

def rpcOp (k : Kind) (r : Rpc) (defs : Bool) (tx : Bool) (ws : List String) (impl : String) :
    Option (Except String (CaseSt × List String)) :=
  let finish (r' : Rpc) (evs : List REv) (tags : List String) (tx' : Bool := tx) : Except String (CaseSt × List String) := do
    checkOverflow evs
    -- transport down (no send callback): the protos drop what the Rpc asks them to send; everything else happens
    let seen := if tx then evs else evs.filter (fun e => !onWire e)
    let want := "P ev " ++ showEvs seen
    let tags := tags ++ (if !tx && evs.any onWire then ["tx-off-dropped"] else []) ++
      (if !tx && evs.any isTimeout then ["tx-off-timeout"] else [])
    if impl.trimAscii.toString = want then .ok (.rpc k r' false tx', tags) else .error s!"expected '{want}' got '{impl.trimAscii.toString}'"
  match (if defs then defLine? r.prog ws else none) with
  | some p =>
      some (if impl.trimAscii.toString = "P def" then .ok (.rpc k { r with prog := p } true tx, ["def"])
            else .error s!"expected 'P def' got '{impl.trimAscii.toString}'")
  | none =>
    match ws with
    | ["adv", ms] => do
        let ms ← digits? ms msMax 10
        let (r', evs) := r.advanceAll ms
        let tags := opTags "" r none r' evs ++
          (if evs.any isTimeout then [] else (if r.timerOn then ["adv-no-timeout"] else ["adv-timer-off"])) ++
          (if ms ≥ 2147483648 then ["adv-beyond-2^31"] else [])
        some (finish r' evs tags)
    | ["jump", v] => do
        let v ← digits? v kIntMax 10
        let tags := ["jump"] ++ (if v < r.idAlloc then ["jump-back"] else []) ++ (if v + 2 ≥ kIntMax then ["jump-intmax"] else [])
        some (finish (r.jump v) [] tags)
    | ["rspb", ids, code] => do
        -- one frame carrying a batch array of responses (duplicate ids allowed): dispatched one by one, in order
        let code ← int32? code
        let ids ← (ids.splitOn ",").mapM jsonInt?
        if ids.isEmpty || ids.length > 8 then none else
        let (r', evs) := ids.foldl (fun (acc : Rpc × List REv) id => let x := acc.1.respond id code; (x.1, acc.2 ++ x.2)) (r, [])
        let dupl := ids.any (fun i => (ids.filter (· == i)).length ≥ 2)
        some (finish r' evs (opTags "" r none r' evs ++ ["rsp-batch"] ++ (if dupl then ["rsp-batch-dup-id"] else [])))
    | ["tx", "on"] => some (finish r [] ["tx-on"] true)
    | ["tx", "off"] => some (finish r [] ["tx-off"] false)
    | ["reqsync", c, m, code] => do
        let c ← digits? c 99; let m ← digits? m 7; let code ← int32? code
        -- the transport answers the request from inside the send callback: the response arrives below request()
        -- (its id is the one being allocated by that very call)
        let (r1, e1) := step r (.request c m)
        let answered := tx && e1.any isSent
        let (r2, e2) := if answered then r1.respond (r1.idAlloc : Int) code else (r1, [])
        some (finish r2 (e1 ++ e2) (opTags "" r (some (.request c m)) r2 (e1 ++ e2) ++ (if answered then ["reqsync"] else [])))
    | _ => do
        let op ← peerOp? ws
        let (r', evs) := step r op
        let sentReq := match op with | .request .. => evs.any isSent | _ => false
        let wrapped := sentReq && r'.idAlloc ≤ r.idAlloc
        let skipped := sentReq && r'.idAlloc != (if r.idAlloc < kIntMax then r.idAlloc + 1 else 1)
        let wide := evs.any (fun e => match e with | .sent id _ => id + 2 ≥ kIntMax | _ => false)
        some (finish r' evs (opTags "" r (some op) r' evs ++ (if wrapped then ["id-wrapped"] else []) ++
          (if skipped then ["id-skip-pending"] else []) ++ (if wide then ["id-near-intmax"] else [])))

def queue? : String → Option Bool
  | "ab" => some true
  | "ba" => some false
  | _ => none

def worldOp (w : World) (defs : Bool) (ws : List String) (impl : String) : Option (Except String (CaseSt × List String)) :=
  let finish (w' : World) (aevs bevs : List REv) (tags : List String) : Except String (CaseSt × List String) := do
    checkOverflow aevs; checkOverflow bevs
    let want := "P ev " ++ showEvs aevs ++ " | " ++ showEvs bevs
    if impl.trimAscii.toString = want then .ok (.world w' false, tags)
    else .error s!"expected '{want}' got '{impl.trimAscii.toString}'"
  let doStep (op : WOp) (tags : List String) : Option (Except String (CaseSt × List String)) :=
    let (w', aevs, bevs) := w.step op
    let peerOf (onB : Bool) : Option Op :=
      match op with
      | .api b o => if b == onB then some o else none
      | .deliver toB i => if toB == onB then ((if toB then w.ab[i]? else w.ba[i]?).map Msg.op) else none
      | _ => none
    let ta := match peerOf false with | some o => opTags "w-" w.a (some o) w'.a aevs | none => []
    let tb := match peerOf true with | some o => opTags "w-" w.b (some o) w'.b bevs | none => []
    some (finish w' aevs bevs (tags ++ ta ++ tb))
  match (if defs then defLine? w.a.prog ws else none) with
  | some p =>
      some (if impl.trimAscii.toString = "P def" then
              .ok (.world { w with a := { w.a with prog := p }, b := { w.b with prog := p } } true, ["def"])
            else .error s!"expected 'P def' got '{impl.trimAscii.toString}'")
  | none =>
    match ws with
    | "a" :: rest => do let op ← peerOp? rest; doStep (.api false op) []
    | "b" :: rest => do let op ← peerOp? rest; doStep (.api true op) []
    | ["dlv", q, i] => do
        let q ← queue? q; let i ← digits? i 999999999
        let n := (if q then w.ab else w.ba).length
        doStep (.deliver q i) [if i < n then (if i == 0 then "w-dlv" else "w-dlv-reordered") else "w-dlv-none"]
    | ["drop", q, i] => do let q ← queue? q; let i ← digits? i 999999999; doStep (.drop q i) ["w-drop"]
    | ["dup", q, i] => do let q ← queue? q; let i ← digits? i 999999999; doStep (.dup q i) ["w-dup"]
    | ["adv", ms] => do
        let ms ← digits? ms msMax 10
        let (w', aevs, bevs) := w.advance ms
        some (finish w' aevs bevs (["w-adv"] ++ opTags "w-" w.a none w'.a aevs ++ opTags "w-" w.b none w'.b bevs))
    | _ => none

structure DSt where
  ops  : List String := []     -- reversed
  impl : List String := []     -- reversed

def processCase (ops impl : List String) : List String :=
  let rec go (st : CaseSt) (ops impl : List String) (fuel : Nat) : List String :=
    match fuel, ops with
    | 0, _ => []
    | _, [] => (match impl with
        | [] => []
        | l :: _ => if l.startsWith "CRASH" then ["reject implementation crashed: " ++ l] else ["reject extra implementation output: " ++ l])
    | fuel + 1, op :: ops' =>
      match impl with
      | [] => ["reject missing implementation output for op: " ++ op]
      | il :: impl' =>
        if il.startsWith "CRASH" then ["reject implementation crashed: " ++ il] else
        let ws := words op
        let iw := words il
        let res : Option (Except String (CaseSt × List String)) :=
          match st, ws with
          | .fresh, ["rpc", k, n] =>
              let mk (kd : Kind) (n : Nat) : Option (Except String (CaseSt × List String)) :=
                if 1 ≤ n ∧ n ≤ 512 then
                  some (if iw == ["P", "rpc"] then Except.ok (CaseSt.rpc kd (Rpc.init n) true true, ["rpc-open"] ++ (if n > 8 then ["rpc-many-slots"] else []))
                        else Except.error s!"expected 'P rpc' got {il}")
                else none
              let refused (t : Int) : Option (Except String (CaseSt × List String)) :=
                -- initialize(proto, timeout_sec < 1) returns false: the object stays uninitialised, the case stays fresh
                if -512 ≤ t ∧ (Rpc.initialize t).isNone then
                  some (if iw == ["P", "rpc", "init=0"] then Except.ok (CaseSt.fresh, ["rpc-init-refused"])
                        else Except.error s!"expected 'P rpc init=0' got {il}")
                else none
              (match k, n.toNat?, intOfString? n with
               | "H", some n, _ => if n = 0 then refused 0 else mk (.H 0x3e5a) n
               | "R", some n, _ => if n = 0 then refused 0 else mk .R n
               | "P", some n, _ => if n = 0 then refused 0 else mk .P n
               | "H", none, some t => refused t
               | "R", none, some t => refused t
               | "P", none, some t => refused t
               | _, _, _ => none)
          | .fresh, ["world", _k, nc, ns] =>
              (match nc.toNat?, ns.toNat? with
               | some nc, some ns =>
                 if 1 ≤ nc ∧ nc ≤ 8 ∧ 1 ≤ ns ∧ ns ≤ 8 ∧ (_k == "H" || _k == "R" || _k == "P") then
                   some (if iw == ["P", "world"] then Except.ok (CaseSt.world { a := Rpc.init nc, b := Rpc.init ns } true, ["world-open"])
                         else Except.error s!"expected 'P world' got {il}")
                 else none
               | _, _ => none)
          | .fresh, ["rpcsweep", k, lo, hi] =>
              (match lo.toNat?, hi.toNat? with
               | some lo, some hi =>
                 if (k == "H" || k == "R" || k == "P") && lo ≤ hi && hi ≤ 2000000 && hi - lo ≤ 100000 then
                   -- every request (any size) answered by the echo service completes exactly once with the echoed value
                   let want := s!"P rpcsweep n={hi + 40 - lo + 1} bad=-"
                   some (if il.trimAscii.toString == want then Except.ok (CaseSt.framing {}, ["rpcsweep"])
                         else Except.error s!"expected '{want}' got '{il}'")
                 else none
               | _, _ => none)
          | .fresh, _ => (framingOp {} ws iw).map (·.map fun (f, t) => (.framing f, t))
          | .framing f, _ => (framingOp f ws iw).map (·.map fun (f, t) => (.framing f, t))
          | .rpc k r d tx, _ => rpcOp k r d tx ws il
          | .world w d, _ => worldOp w d ws il
        match res with
        | none =>
            if iw == ["bad-op"] then "ok bad-op" :: go st ops' impl' fuel
            else ["reject ill-typed op '" ++ op ++ "' answered with: " ++ il]
        | some (.error e) => ["reject " ++ e ++ " | op: " ++ (op.take 120).toString]
        | some (.ok (st', tags)) =>
            ("B " ++ " ".intercalate tags) :: "ok" :: go st' ops' impl' fuel
  go .fresh ops impl (ops.length + 1)

def stepLine (s : DSt) (line : String) : DSt × List String :=
  let l := line.trimAscii.toString
  if l.isEmpty then (s, [])
  else if l.startsWith "case " then ({}, [l])
  else if l.startsWith "T " then ({ s with impl := (l.drop 2).toString :: s.impl }, [])
  else if l == "T" then ({ s with impl := "" :: s.impl }, [])
  else if l == "end" then ({}, processCase s.ops.reverse s.impl.reverse)
  else ({ s with ops := l :: s.ops }, [])

def main : IO Unit := runDriver ({} : DSt) stepLine
