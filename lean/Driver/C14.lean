/- C14 driver (trace acceptor): receives the ops of a case, then the implementation's lines
prefixed `T `, then `end`; replays the ops on the model and prints `ok` / `reject <reason>`
per op.  The JSON parser is an oracle: for a frame the model delimits, the implementation's
answer (`r=<n>` parsed / `r=-1` parse error, plus the callbacks it made) is accepted but must
be a function of the frame text within the case, and texts written by the real encoder must
parse.  Everything else (frame boundaries, return values, connection state, the Rpc event
trace) is predicted by the model. -/
import TboxModel.Util
import TboxModel.C14.Model
open Tbox.Util Tbox.C14

inductive Kind where
  | H (magic : UInt16)
  | R
  | P

def Kind.dec : Kind → List Byte → Frame
  | .H m => decodeHeader m
  | .R => decodeRaw
  | .P => decodePacket

def Kind.isPacket : Kind → Bool
  | .P => true
  | _ => false

structure Oracle where
  seen  : List (List Byte × Bool × List String) := []
  valid : List (List Byte) := []

def Oracle.record (o : Oracle) (t : List Byte) (ok : Bool) (cbs : List String) : Except String Oracle :=
  if !ok && o.valid.contains t then .error "a text written by the encoder (or the deep-array text) failed to parse"
  else match o.seen.find? (fun e => e.1 == t) with
    | some (_, ok', cbs') =>
        if ok' == ok && cbs' == cbs then .ok o
        else .error s!"same frame text decoded differently: before parsed={ok'} callbacks={cbs'} now parsed={ok} callbacks={cbs}"
    | none => .ok { o with seen := (t, ok, cbs) :: o.seen }

structure FState where
  streams : List (Option (Kind × Conn)) := [none, none, none, none]
  sent    : List (List Byte) := []
  oracle  : Oracle := {}

inductive CaseSt where
  | fresh
  | framing (f : FState)
  | rpc (kind : Kind) (r : Rpc)
  | world (w : World)

def expectTok (ts : List String) (want : String) : Except String (List String) :=
  match ts with
  | t :: rest => if t = want then .ok rest else .error s!"expected {want} got {t}"
  | [] => .error s!"expected {want} got <end-of-line>"

def takeCbs (ts : List String) : List String × List String :=
  ts.span (fun t => !(t.startsWith "r=") && t != "seg")

def needTag (k : Kind) (buf : List Byte) : String :=
  match k with
  | .H _ => if buf.length < 6 then "hdr-need-header" else
      (match buf with
       | _ :: _ :: b2 :: b3 :: b4 :: b5 :: _ =>
          if (be32dec b2 b3 b4 b5).toNat ≥ 0x7fffffff then "hdr-need-body-extreme-len" else "hdr-need-body"
       | _ => "hdr-need-body")
  | .R => if buf.length < 2 then "raw-short" else if findEndPos buf < 0 then "raw-unbalanced" else "raw-need"
  | .P => "pkt-short"

/-- the receive loop on one segment, consulting the implementation's tokens for the parse oracle -/
partial def attempts (k : Kind) (buf : List Byte) (ts : List String) (o : Oracle) (tags : List String)
    (carry : Bool) (nth : Nat) : Except String (Conn × List String × Oracle × List String) :=
  match k.dec buf with
  | .needMore => do
      let ts ← expectTok ts "r=0"
      pure (if k.isPacket then some [] else some buf, ts, o, needTag k buf :: tags)
  | .err c => do
      let ts ← expectTok ts s!"r={c}"
      pure (none, ts, o, (match k with | .R => "raw-unbalanced-err" | _ => "hdr-magic-bad") :: tags)
  | .throws => .error "model: an exception leaves onRecvData"
  | .frame t n =>
      match ts with
      | [] => .error s!"expected r={n} or r=-1, got <end-of-line>"
      | tok :: rest =>
        let (cbs, rest') := takeCbs rest
        let tags := (if carry && nth == 0 then ["resumed-frame"] else []) ++
                    (if nth == 1 then ["multi-frame"] else []) ++ tags
        if tok = s!"r={n}" then do
          let o ← o.record t true cbs
          let tags := (if cbs.isEmpty then "parse-ok-nocb" else "parse-ok-cb") :: tags
          if k.isPacket then pure (some [], rest', o, tags)
          else if 0 < n ∧ n ≤ buf.length then attempts k (buf.drop n) rest' o tags false (nth + 1)
          else .error "model: stuck"
        else if tok = "r=-1" then do
          if !cbs.isEmpty then throw "callbacks although the parse failed"
          let o ← o.record t false []
          pure (if k.isPacket then some [] else none, rest', o, "parse-fail" :: tags)
        else .error s!"frame of {n} bytes: expected r={n} or r=-1, got {tok}"

def acceptSegs (k : Kind) (c : Conn) (segs : List (List Byte)) (ts : List String) (o : Oracle)
    (tags : List String) : Except String (Conn × Oracle × List String) :=
  match segs with
  | [] => if ts.isEmpty then .ok (c, o, tags) else .error s!"unexpected extra output {ts}"
  | seg :: segs =>
    match c with
    | none => if ts.isEmpty then .ok (none, o, tags) else .error s!"output after the connection was given up: {ts}"
    | some buf => do
      let ts ← expectTok ts "seg"
      let (c', ts', o', tags') ← attempts k (buf ++ seg) ts o tags (!buf.isEmpty) 0
      acceptSegs k c' segs ts' o' tags'

def slot? (w : String) : Option Nat := do
  let i ← w.toNat?
  if i < 4 then some i else none

def splitAt (bs : List Byte) (cuts : List Nat) (off : Nat := 0) : List (List Byte) :=
  match cuts with
  | [] => [bs]
  | c :: cs => bs.take (c - off) :: splitAt (bs.drop (c - off)) cs c

def parseCuts (w : String) (len : Nat) : Option (List Nat) :=
  if w == "-" then some [] else do
    let cs ← (w.splitOn ",").mapM (fun s => s.toNat?)
    let rec okc : List Nat → Nat → Bool
      | [], _ => true
      | c :: cs, prev => prev < c && c < len && okc cs c
    if okc cs 0 then some cs else none

def deepObj : List Byte := "{\"jsonrpc\":\"2.0\",\"method\":\"m\"}".toUTF8.toList

def frameFor (k : Kind) (text : List Byte) : List Byte :=
  match k with
  | .H m => encodeHeader m text
  | _ => text

def feedOp (f : FState) (s : Nat) (segs : List (List Byte)) (impl : List String) :
    Except String (FState × List String) :=
  match f.streams.getD s none with
  | none => .error "model: stream not open"
  | some (k, c) =>
    match impl with
    | "P" :: "feed" :: ts =>
      if c.isNone then
        if ts == ["dead"] then .ok (f, ["dead-conn"]) else .error s!"expected 'P feed dead', got {ts}"
      else do
        let (c', o', tags) ← acceptSegs k c segs ts f.oracle []
        pure ({ f with streams := f.streams.set s (some (k, c')), oracle := o' }, tags)
    | _ => .error s!"expected a 'P feed' line, got {impl}"

/-- a JSON integer literal: optional '-', digits, no leading zero, not "-0", at most 25 digits -/
def jsonInt? (w : String) : Option Int :=
  let neg := w.startsWith "-"
  let ds := (if neg then (w.drop 1).toString else w).toList
  if ds.isEmpty || ds.length > 25 || !ds.all Char.isDigit then none
  else if ds.length > 1 && ds.head! == '0' then none
  else
    let v : Nat := ds.foldl (fun a c => a * 10 + (c.toNat - 48)) 0
    if neg && v == 0 then none else some (if neg then -(v : Int) else (v : Int))

def int32? (w : String) : Option Int := do
  let v ← intOfString? w
  if -2147483648 ≤ v ∧ v < 2147483648 then some v else none

/-- one framing op against the implementation's line (as words). `none` = ill-typed op. -/
def framingOp (f : FState) (ws : List String) (impl : List String) :
    Option (Except String (FState × List String)) :=
  let opened (s : Nat) : Option Unit := if (f.streams.getD s none).isSome then some () else none
  match ws with
  | ["open", s, "H", m] => do
      let s ← slot? s; let m ← m.toNat?
      if m < 65536 then
        some (if impl == ["P", "open"] then .ok ({ f with streams := f.streams.set s (some (.H (UInt16.ofNat m), some [])) }, ["open"])
              else .error s!"expected 'P open' got {impl}")
      else none
  | ["open", s, "R"] => do
      let s ← slot? s
      some (if impl == ["P", "open"] then .ok ({ f with streams := f.streams.set s (some (.R, some [])) }, ["open"])
            else .error s!"expected 'P open' got {impl}")
  | ["open", s, "P"] => do
      let s ← slot? s
      some (if impl == ["P", "open"] then .ok ({ f with streams := f.streams.set s (some (.P, some [])) }, ["open"])
            else .error s!"expected 'P open' got {impl}")
  | "sendq" :: s :: id :: m :: p :: [] => do
      let s ← slot? s; let _ ← int32? id; let _ ← bytesOfHex m; let _ ← bytesOfHex p; opened s
      some (sendOp f s impl)
  | "sendr" :: s :: id :: p :: [] => do
      let s ← slot? s; let _ ← int32? id; let _ ← bytesOfHex p; opened s
      some (sendOp f s impl)
  | "sende" :: s :: id :: code :: [] => do
      let s ← slot? s; let _ ← int32? id; let _ ← int32? code; opened s
      some (sendOp f s impl)
  | ["feed", s, d] => do
      let s ← slot? s; let d ← bytesOfHex d; opened s
      some (feedOp f s [d] impl)
  | ["feedsent", s, k, cuts] => do
      let s ← slot? s; opened s
      let ks ← (k.splitOn "+").mapM (fun t => t.toNat?)
      let parts ← ks.mapM (fun i => f.sent[i]?)
      let bytes := parts.flatten
      let cs ← parseCuts cuts bytes.length
      some (feedOp f s (splitAt bytes cs) impl)
  | ["deep", s, n] => do
      let s ← slot? s; let n ← n.toNat?; opened s
      if n > 2000000 then none else
      match f.streams.getD s none with
      | none => some (.error "model: stream not open")
      | some (k, _) =>
        let text := List.replicate n cLsq ++ deepObj ++ List.replicate n cRsq
        let f' := { f with oracle := { f.oracle with valid := text :: f.oracle.valid } }
        some ((feedOp f' s [frameFor k text] impl).map (fun (g, t) => (g, "deep" :: t)))
  | _ => none
where
  sendOp (f : FState) (s : Nat) (impl : List String) : Except String (FState × List String) :=
    match f.streams.getD s none with
    | none => .error "model: stream not open"
    | some (k, _) =>
      match impl with
      | ["P", "send", hx, rt] =>
        match bytesOfHex hx with
        | none => .error "bad hex in send line"
        | some bytes =>
          let text := match k with | .H _ => bytes.drop 6 | _ => bytes
          if rt != "rt=1" then .error s!"the encoder's output did not decode to an equal JSON value ({rt})"
          else if frameFor k text != bytes then .error "encoder output is not magic+length+text"
          else if text.length < 2 then .error "encoder wrote a text shorter than 2 bytes"
          else if k.dec bytes != .frame text bytes.length then
            .error "model does not delimit the encoder's output as exactly one frame"
          else .ok ({ f with sent := f.sent ++ [bytes],
                             oracle := { f.oracle with valid := text :: f.oracle.valid } }, ["send"])
      | _ => .error s!"expected 'P send <hex> rt=1' got {impl}"

def showEvs (es : List REv) : String :=
  if es.isEmpty then "-" else " ".intercalate (es.map fun
    | .sent id => s!"s{id}"
    | .fired t c => s!"f{t}:{c}")

def rpcTags (r : Rpc) (op : Op) (evs : List REv) : List String :=
  let fired := evs.any (fun | .fired .. => true | _ => false)
  let chained := evs.any (fun | .fired .. => false | _ => true) && fired
  (match op with
   | .request c => [if c then "req-chain" else "req"]
   | .notify => ["notify"]
   | .response id _ => [if fired then "rsp-hit" else if (respIdG true id).isNone then "rsp-id-beyond-int"
                         else if (0 < id ∧ id ≤ (r.idAlloc : Int)) then "rsp-late-or-dup" else "rsp-unknown"]
   | .tick => []) ++ (if chained then ["chained-request"] else [])

def rpcOp (k : Kind) (r : Rpc) (ws : List String) (impl : String) :
    Option (Except String (CaseSt × List String)) :=
  let finish (r' : Rpc) (evs : List REv) (tags : List String) : Except String (CaseSt × List String) :=
    let want := "P ev " ++ showEvs evs
    if impl.trimAscii.toString = want then .ok (.rpc k r', tags) else .error s!"expected '{want}' got '{impl.trimAscii.toString}'"
  match ws with
  | ["req", c] =>
      if c == "0" || c == "1" then
        let (r', evs) := step r (.request (c == "1"))
        some (finish r' evs (rpcTags r (.request (c == "1")) evs))
      else none
  | ["note"] => let (r', evs) := step r .notify; some (finish r' evs ["notify"])
  | ["rsp", id, code] => do
      let id ← jsonInt? id; let code ← int32? code
      let (r', evs) := step r (.response id code)
      some (finish r' evs (rpcTags r (.response id code) evs))
  | ["adv", ms] => do
      let ms ← ms.toNat?
      if ms > 100000 then none else
      let (r', evs) := r.advance ms
      let timeouts := evs.filter (fun | .fired _ c => c == kRequestTimeout | _ => false)
      let tags := (if timeouts.isEmpty then (if r.timerOn then ["adv-no-timeout"] else ["adv-timer-off"]) else ["timeout-fired"]) ++
                  (if !r.pending.isEmpty && r'.pending.isEmpty then ["all-completed"] else []) ++
                  (if r.timerOn && !r'.timerOn then ["timer-disabled"] else []) ++
                  (if evs.any (fun | .sent _ => true | _ => false) then ["chained-request"] else [])
      some (finish r' evs tags)
  | _ => none

def svcTok : Service → String
  | .sync 0 => "s0"
  | .sync 5 => "s5"
  | .sync c => s!"s?{c}"
  | .async => "as"
  | .unknown => "no"

def svc? : String → Option Service
  | "s0" => some (.sync 0)
  | "s5" => some (.sync 5)
  | "as" => some .async
  | "no" => some .unknown
  | _ => none

def showWEvs (svc : Service) (es : List REv) : String :=
  if es.isEmpty then "-" else " ".intercalate (es.map fun
    | .sent id => s!"s{id}:{svcTok svc}"
    | .fired t c => s!"f{t}:{c}")

def showSEvs (es : List SEv) : String :=
  if es.isEmpty then "-" else " ".intercalate (es.map fun
    | .called id => s!"c{id}"
    | .sent id c => s!"r{id}:{c}")

def queue? : String → Option Bool
  | "cs" => some true
  | "sc" => some false
  | _ => none

def worldOp (w : World) (ws : List String) (impl : String) : Option (Except String (CaseSt × List String)) :=
  let finish (w' : World) (svc : Service) (cevs : List REv) (sevs : List SEv) (tags : List String) :
      Except String (CaseSt × List String) :=
    let want := "P ev " ++ showWEvs svc cevs ++ " | " ++ showSEvs sevs
    if impl.trimAscii.toString = want then .ok (.world w', tags)
    else .error s!"expected '{want}' got '{impl.trimAscii.toString}'"
  let stepTags (op : WOp) (cevs : List REv) (sevs : List SEv) : List String :=
    (match op with
     | .request c _ => [if c then "w-req-chain" else "w-req"]
     | .notify _ => ["w-notify"]
     | .deliver true i => [if i < w.c2s.length then (if i == 0 then "w-dlv-req" else "w-dlv-req-reordered") else "w-dlv-none"]
     | .deliver false i => [if i < w.s2c.length then (if cevs.isEmpty then "w-dlv-rsp-ignored" else "w-dlv-rsp-hit") else "w-dlv-none"]
     | .drop _ _ => ["w-drop"]
     | .dup _ _ => ["w-dup"]
     | .srespond id _ => [if sevs.isEmpty then "w-srsp-id0" else if w.v.tobe.contains id then "w-srsp-awaited" else "w-srsp-unawaited"]
     | _ => []) ++
    (if sevs.any (fun | .sent _ c => c == kMethodNotFound | _ => false) then ["w-method-not-found"] else []) ++
    (if sevs.any (fun | .called 0 => true | _ => false) then ["w-notification-served"] else [])
  let doStep (op : WOp) (svc : Service) : Option (Except String (CaseSt × List String)) :=
    let (w', cevs, sevs) := w.step op
    some (finish w' svc cevs sevs (stepTags op cevs sevs))
  match ws with
  | ["req", c, m] => do
      let svc ← svc? m
      if c == "0" || c == "1" then doStep (.request (c == "1") svc) svc else none
  | ["note", m] => do let svc ← svc? m; doStep (.notify svc) svc
  | ["dlv", q, i] => do let q ← queue? q; let i ← i.toNat?; doStep (.deliver q i) chainSvc
  | ["drop", q, i] => do let q ← queue? q; let i ← i.toNat?; doStep (.drop q i) chainSvc
  | ["dup", q, i] => do let q ← queue? q; let i ← i.toNat?; doStep (.dup q i) chainSvc
  | ["srsp", id, code] => do
      let id ← int32? id; let code ← int32? code
      doStep (.srespond id code) chainSvc
  | ["adv", ms] => do
      let ms ← ms.toNat?
      if ms > 100000 then none else
      let (w', cevs) := w.advance ms
      let tags := (if cevs.any (fun | .fired _ c => c == kRequestTimeout | _ => false) then ["w-timeout-fired"] else ["w-adv"]) ++
                  (if w.v.tobe.length > w'.v.tobe.length then ["w-respond-timeout"] else [])
      some (finish w' chainSvc cevs [] tags)
  | _ => none

structure DSt where
  ops  : List String := []     -- reversed
  impl : List String := []     -- reversed

def processCase (ops impl : List String) : List String :=
  let rec go (st : CaseSt) (ops impl : List String) (fuel : Nat) : List String :=
    match fuel, ops with
    | 0, _ => []
    | _, [] => (match impl with
        | [] => []
        | l :: _ => if l.startsWith "CRASH" then ["reject implementation crashed: " ++ l] else ["reject extra implementation output: " ++ l])
    | fuel + 1, op :: ops' =>
      match impl with
      | [] => ["reject missing implementation output for op: " ++ op]
      | il :: impl' =>
        if il.startsWith "CRASH" then ["reject implementation crashed: " ++ il] else
        let ws := words op
        let iw := words il
        let res : Option (Except String (CaseSt × List String)) :=
          match st, ws with
          | .fresh, ["rpc", k, n] =>
              let mk (kd : Kind) (n : Nat) : Option (Except String (CaseSt × List String)) :=
                if 1 ≤ n ∧ n ≤ 8 then
                  some (if iw == ["P", "rpc"] then Except.ok (CaseSt.rpc kd (Rpc.init n), ["rpc-open"])
                        else Except.error s!"expected 'P rpc' got {il}")
                else none
              (match k, n.toNat? with
               | "H", some n => mk (.H 0x3e5a) n
               | "R", some n => mk .R n
               | "P", some n => mk .P n
               | _, _ => none)
          | .fresh, ["world", _k, nc, ns] =>
              (match nc.toNat?, ns.toNat? with
               | some nc, some ns =>
                 if 1 ≤ nc ∧ nc ≤ 8 ∧ 1 ≤ ns ∧ ns ≤ 8 ∧ (_k == "H" || _k == "R" || _k == "P") then
                   some (if iw == ["P", "world"] then Except.ok (CaseSt.world { c := Rpc.init nc, v := Srv.init ns }, ["world-open"])
                         else Except.error s!"expected 'P world' got {il}")
                 else none
               | _, _ => none)
          | .fresh, _ => (framingOp {} ws iw).map (·.map fun (f, t) => (.framing f, t))
          | .framing f, _ => (framingOp f ws iw).map (·.map fun (f, t) => (.framing f, t))
          | .rpc k r, _ => rpcOp k r ws il
          | .world w, _ => worldOp w ws il
        match res with
        | none =>
            if iw == ["bad-op"] then "ok bad-op" :: go st ops' impl' fuel
            else ["reject ill-typed op '" ++ op ++ "' answered with: " ++ il]
        | some (.error e) => ["reject " ++ e ++ " | op: " ++ (op.take 120).toString]
        | some (.ok (st', tags)) =>
            ("B " ++ " ".intercalate tags) :: "ok" :: go st' ops' impl' fuel
  go .fresh ops impl (ops.length + 1)

def stepLine (s : DSt) (line : String) : DSt × List String :=
  let l := line.trimAscii.toString
  if l.isEmpty then (s, [])
  else if l.startsWith "case " then ({}, [l])
  else if l.startsWith "T " then ({ s with impl := (l.drop 2).toString :: s.impl }, [])
  else if l == "T" then ({ s with impl := "" :: s.impl }, [])
  else if l == "end" then ({}, processCase s.ops.reverse s.impl.reverse)
  else ({ s with ops := l :: s.ops }, [])

def main : IO Unit := runDriver ({} : DSt) stepLine
