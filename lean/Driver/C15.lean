/- C15 driver: op lines in, observable lines out (same format as props/C15/harness.cpp).
`c15`       — the model of the repaired tree (Model.lean)
`c15 orig`  — reply parsing as in the unpatched tree (Orig.lean), for replaying the findings
The state is the clock/lifetime layer's (`Clock.lean`): `tick` = `adv 1000`, `adv <ms>`, `destroy <n>`. -/
import TboxModel.Util
import TboxModel.C15.Model
import TboxModel.C15.Clock
import TboxModel.C15.Orig
open Tbox.Util Tbox.C15

def statusStr : Status → String
  | .success => "success" | .domainError => "domain-error" | .allDnsFail => "all-dns-fail"
  | .timeout => "timeout" | .fail => "fail"

def listStr (xs : List String) : String := if xs.isEmpty then "-" else ",".intercalate xs

def small? (w : String) (bound : Nat) : Option Nat := do
  let n ← w.toNat?
  if n < bound then some n else none

def actStr : Act → String
  | .lookup sid => "L" ++ toString sid
  | .cancel id => "C" ++ toString id
  | .cancelSelf => "S"
  | .servers n => "V" ++ toString n
  | .running id => "R" ++ toString id
  | .runningSelf => "Q"

/-- the name the harness asks for when the op names none: "verif.example.com" -/
def defaultName : List Byte := "verif.example.com".toUTF8.toList

/-- the query datagram as seen by the interposed `sendto` -/
def queryStr (id : Nat) (name : List Byte) : String := "P q " ++ hexOfBytes (encodeQuery id name)

/-- the callback line followed by one line per API call of its script (a `request()` made by the script is
preceded by the query it sent) -/
def eventStrs (e : Event) : List String :=
  ("P cb " ++ toString e.serial ++ " " ++ statusStr e.result.status ++
   " a=" ++ listStr (e.result.a.map fun r => toString r.ttl ++ ":" ++ hexOfBytes r.ip) ++
   " c=" ++ listStr (e.result.c.map fun r => toString r.ttl ++ ":" ++ hexOfBytes r.name)) ::
  e.acts.flatMap fun (a, ret) =>
    (match a with
     | .lookup _ => if ret ≠ 0 then [queryStr ret defaultName] else []
     | _ => []) ++
    ["P act " ++ toString e.serial ++ " " ++ actStr a ++ " ret=" ++ toString ret]

def parseAct (w : String) : Option Act :=
  if w == "S" then some .cancelSelf
  else if w == "Q" then some .runningSelf
  else if w.startsWith "V" then (small? ((w.drop 1).toString) 4).map .servers
  else if w.startsWith "R" then (small? ((w.drop 1).toString) 65536).map .running
  else if w.startsWith "L" then (small? ((w.drop 1).toString) 64).map .lookup
  else if w.startsWith "C" then (small? ((w.drop 1).toString) 65536).map .cancel
  else none

def parseActs (w : String) : Option (List Act) :=
  if w == "-" then some [] else (w.splitOn ",").mapM parseAct

/-- `lookup` without a script number: a callback that makes no API call -/
def noScript : Nat := 1000000

def parseNats (w : String) : Option (List Nat) :=
  if w == "-" then some [] else (w.splitOn ",").mapM fun t => small? t 4096

def parseKAns (w : String) : Option KAns :=
  if w.isEmpty then none
  else if w == "Z" then some (.data [])
  else if w.startsWith "E" then (small? ((w.drop 1).toString) 4096).map .err
  else if w == "-" then none
  else (bytesOfHex w).map .data

def parseOp (ws : List String) : Option Op :=
  match ws with
  | ["lookupn", h, sid, send] => do
      let name ← bytesOfHex h
      let sid ← (if sid == "-" then some noScript else small? sid 64)
      pure (.lookupN name sid (← parseNats send))
  | ["sock", as] => do pure (.sock (← (as.splitOn ",").mapM parseKAns))
  | ["recva", k, h] => do pure (.recvAt (← small? k 8) (← bytesOfHex h))
  | ["servers", n] => do pure (.servers (← small? n 4))
  | ["lookup"] => some (.lookup noScript)
  | ["lookup", sid] => do pure (.lookup (← small? sid 64))
  | ["defscript", acts] => do pure (.defScript (← parseActs acts))
  | ["cancel", i] => do pure (.cancel (← small? i 65536))
  | ["running", i] => do pure (.running (← small? i 65536))
  | ["recv", h] => do pure (.recv (← bytesOfHex h))
  | ["net", h] => do pure (.net (← bytesOfHex h))
  | ["tick"] => some .tick
  | _ => none

def cap (n : Nat) : String := toString (min n 3)

/-- branch tags of one `recv` (distribution statistics / non-triviality only) -/
def recvTags (st : St) (d : List Byte) : String :=
  if st.reqs.isEmpty then "recv-idle" else
  let known := fun id => (find st.reqs id).isSome
  match parseReply d known with
  | .bad p =>
      (if d.length < 4 then "short" else if d.length < 12 then "short-header" else "malformed") ++
      (if p.jumps ≥ maxHops then " hop-limit" else "") ++ (if p.jumps > 0 then " ptr" else "")
  | .uninit _ => "UNINIT"
  | .diverge _ => "DIVERGE"
  | .ok .ignore _ => if known (beNat (slice d 0 2)) then "not-response" else "unknown-id"
  | .ok (.answer _ a c) p =>
      "answer a" ++ cap a.length ++ " c" ++ cap c.length ++ (if p.jumps > 0 then " ptr" else "") ++
      (if p.jumps > 1 then " ptr-chain" else "") ++ (if p.pos < d.length then " trailing" else "")
  | .ok (.rcode id rc) _ =>
      if rc = 3 then "rcode3" else if rc = 1 then "rcode1" else
      match find st.reqs id with
      | some r => if r.responseCount + 1 < st.servers then "srvfail-wait" else "srvfail-all"
      | none => "rcode-unknown"

def opTags (st : St) : Op → String
  | .servers n => "servers" ++ toString n
  | .lookup sid => (if st.servers = 0 ∨ st.reqs.length ≥ 65535 then "lookup-refused" else if st.reqs.isEmpty then "lookup-first" else "lookup-more") ++
      (if (st.scripts.getD sid []).isEmpty then "" else " lookup-scripted")
  | .defScript _ => "defscript"
  | .cancel id => if (find st.reqs id).isSome then "cancel-hit" else "cancel-miss"
  | .running _ => "running"
  | .recv d => recvTags st d
  | .net d => "net " ++ (if d.length > 4096 then "net-truncated " else "") ++ recvTags st (d.take 4096)
  | .lookupN name sid send =>
      (if st.servers = 0 ∨ st.reqs.length ≥ 65535 then "lookup-refused" else "lookupn") ++
      (if (st.scripts.getD sid []).isEmpty then "" else " lookup-scripted") ++
      (if send.any (· ≠ 0) then " send-fault" else "") ++
      (if (send.take st.servers).all (· ≠ 0) ∧ st.servers > 0 ∧ send.length ≥ st.servers then " send-all-fail" else "") ++
      (if (splitDot name).any (fun l => l.length > 63) then " label-long" else "") ++
      (if (splitDot name).any (fun l => l.length ≥ 256) then " label-wrap" else "") ++
      (if (splitDot name).any (fun l => l.isEmpty) then " label-empty" else "") ++
      (if (appendDomain name).length > 255 then " name-long" else "") ++
      (if (encodeQuery 0 name).length > 65507 then " emsgsize" else "")
  | .sock as => "sock" ++ (if as.any (fun a => match a with | .err _ => true | _ => false) then " recv-fault" else "") ++
      (if as.length > 1 then " sock-multi" else "") ++ " " ++
      (match as.getLast? with | some (.data d) => recvTags (sockRun st as.dropLast).1 (d.take 4096) | _ => "")
  | .recvAt k d => "recva" ++ toString k ++ " " ++ recvTags st d
  | .tick => if st.valueNumber = 0 then "tick-idle" else if st.r1.isEmpty then "tick-empty"
             else if st.r1.any (fun t => match find st.reqs t.1 with | some r => r.serial != t.2 | none => false) then "tick-expire tick-stale-token"
             else "tick-expire"

def actTag (st : Status) : Act × Nat → String
  | (.lookup _, ret) => "act-lookup-in-" ++ statusStr st ++ (if ret = 0 then " act-lookup-refused" else "")
  | (.cancel _, ret) => if ret = 1 then "act-cancel-hit" else "act-cancel-miss"
  | (.cancelSelf, _) => "act-cancel-self"
  | (.servers n, _) => "act-servers" ++ toString n
  | (.running _, ret) => if ret = 1 then "act-running-yes" else "act-running-no"
  | (.runningSelf, _) => "act-running-self"

def eventTags (es : List Event) : String :=
  " ".intercalate (es.map fun e => " ".intercalate (("cb-" ++ statusStr e.result.status) :: e.acts.map (actTag e.result.status)))

/-- `churn n`: n times (request(); cancel(returned id)) — moves the id counter cheaply -/
def churnLoop : Nat → St → Nat → St × Nat
  | 0, st, last => (st, last)
  | n + 1, st, _ =>
    let (s1, id) := lookup st noScript
    let (s2, _) := cancel s1 id
    churnLoop n s2 id

/-- `burst n`: n lookups without script -/
def burstLoop : Nat → St → Nat → St × Nat
  | 0, st, last => (st, last)
  | n + 1, st, _ =>
    let (s1, id) := lookup st noScript
    burstLoop n s1 id

/-- a top-level `request()` that was accepted: the query bytes (`P`) and what the interposed `sendto` saw and
answered, one call per configured server (`M`: a rewrite may legitimately batch or reorder the sends) -/
def sendStrs (st : St) (op : Op) (ret : Nat) : List String :=
  let go := fun (name : List Byte) (send : List Nat) =>
    if ret = 0 then [] else
    let q := encodeQuery ret name
    [queryStr ret name,
     "M sendto n=" ++ toString st.servers ++ " len=" ++ toString q.length ++ " rets=" ++
       listStr ((List.range st.servers).map fun i => toString (sendRet q.length (send.getD i 0)))]
  match op with
  | .lookup _ => go defaultName []
  | .lookupN name _ send => go name send
  | _ => []

structure DSt where
  orig : Bool
  c : CSt

/-- `M udp=`: the loop watches the client's socket iff something is outstanding (`addRequest`: `udp_.enable()` on the
first entry, `deleteRequest`: `udp_.disable()` with the last) -/
def udpStr (c : CSt) : String := "M udp=" ++ (if c.st.reqs.isEmpty then "0" else "1")

/-- branch tags of a clock advance -/
def advTags (c : CSt) (ms : Nat) (c' : CSt) : String :=
  let k := c'.st.now - c.st.now
  "adv" ++ (if ms < 1000 then " adv-sub" else "") ++ (if ms % 1000 ≠ 0 then " adv-odd" else "") ++
  (if ms ≥ 2147483648 then " adv-2^31" else "") ++ (if ms ≥ 4294967296 then " adv-2^32" else "") ++
  (if ms ≥ 3600000 then " adv-hours" else "") ++
  (if c.st.valueNumber = 0 then " adv-idle" else if k = 0 then " adv-nofire" else if k = 1 then " adv-fire1"
   else if k ≤ 5 then " adv-catchup" else " adv-catchup-long") ++
  (if c.st.valueNumber > 0 ∧ c'.st.valueNumber > 0 ∧ c'.deadline ≠ c.deadline + 1000 * k then " adv-rearmed" else "") ++
  (if c.st.valueNumber > 0 ∧ c'.st.valueNumber = 0 then " adv-drained" else "")

def stepLine (s : DSt) (line : String) : DSt × List String :=
  let ws := words line
  let st := s.c.st
  match ws with
  | [] => (s, [])
  | "case" :: _ => ({ s with c := cinit }, [line.trimAscii.toString])
  | ["touch", w] => if w == "on" || w == "off" then (s, ["P ret=0", udpStr s.c]) else (s, ["bad-op"])
  | ["churn", w] =>
      match w.toNat? with
      | some n => if 1 ≤ n ∧ n ≤ 70000 then
                    let (st', last) := churnLoop n st 0
                    let c' := rearm s.c st'
                    ({ s with c := c' }, ["B churn" ++ (if st'.alloc < st.alloc then " id-wrap" else ""), "P ret=" ++ toString last, udpStr c'])
                  else (s, ["bad-op"])
      | none => (s, ["bad-op"])
  | ["burst", w] =>
      match w.toNat? with
      | some n => if 1 ≤ n ∧ n ≤ 70000 then
                    let (st', last) := burstLoop n st 0
                    let c' := rearm s.c st'
                    ({ s with c := c' }, ["B burst", "P ret=" ++ toString last, udpStr c'])
                  else (s, ["bad-op"])
      | none => (s, ["bad-op"])
  | ["adv", w] =>
      match w.toNat? with
      | some ms => if ms < 17179869184 ∧ !s.orig then
                     let (c', o) := cstep s.c (.advance ms)
                     ({ s with c := c' }, ["B " ++ advTags s.c ms c' ++ " " ++ eventTags o.events, "P ret=0"] ++ o.events.flatMap eventStrs ++ [udpStr c'])
                   else (s, ["bad-op"])
      | none => (s, ["bad-op"])
  | ["destroy", w] =>
      match small? w 4 with
      | some n => if s.orig then (s, ["bad-op"]) else
                  let (c', _) := cstep s.c (.destroy n)
                  ({ s with c := c' }, ["B destroy" ++ (if st.reqs.isEmpty then " destroy-idle" else " destroy-pending") ++
                                         (if st.valueNumber > 0 then " destroy-armed" else "") ++ (if n = 0 then " ctor1" else ""),
                                        "P ret=0", "M released=1", udpStr c'])
      | none => (s, ["bad-op"])
  | _ =>
    match parseOp ws with
    | none => (s, ["bad-op"])
    | some op =>
      if s.orig then
        match op with
        | .recv d =>
            match Orig.onRecv st d with
            | .inl what => (s, ["B orig", "P ret=0", "P " ++ what, udpStr s.c])
            | .inr (st', es) => ({ s with c := rearm s.c st' }, ["B orig", "P ret=0"] ++ es.flatMap eventStrs ++ [udpStr (rearm s.c st')])
        | _ =>
            let (c', o) := cstep s.c (.base op)
            ({ s with c := c' }, ["P ret=" ++ toString o.ret] ++ o.events.flatMap eventStrs ++ [udpStr c'])
      else
        let (c', o) := cstep s.c (.base op)
        ({ s with c := c' },
         ["B " ++ opTags st op ++ " " ++ eventTags o.events, "P ret=" ++ toString o.ret] ++ sendStrs st op o.ret ++
         o.events.flatMap eventStrs ++ [udpStr c'])

def main (args : List String) : IO Unit :=
  runDriver { orig := args.contains "orig", c := cinit } stepLine
