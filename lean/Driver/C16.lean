/- C16 driver: machine definitions and call sequences in, trace/result/snapshot lines out
(same format as props/C16/harness.cpp).  Uses the model with the stop() repair (`fix = true`). -/
import TboxModel.Util
import TboxModel.C16.Model
open Tbox.Util Tbox.C16

/-- deepest nesting the protocol accepts (levels of sub-machines below the root) -/
def maxDepth : Nat := 3

/-- strict decimal: optional '-', 1..9 digits -/
def int? (s : String) : Option Int :=
  let cs := s.toList
  let (neg, ds) := match cs with
    | '-' :: r => (true, r)
    | r => (false, r)
  if ds.isEmpty || ds.length > 9 || !ds.all Char.isDigit then none
  else
    let v : Nat := ds.foldl (fun a c => a * 10 + (c.toNat - 48)) 0
    some (if neg then - (Int.ofNat v) else Int.ofNat v)

def nat? (s : String) : Option Nat := do
  let i ← int? s
  if i < 0 || s.startsWith "-" then none else some i.toNat

def sop? (t : String) : Option SOp :=
  match t with
  | "o" => some .obs
  | "s" => some (.call .start)
  | "x" => some (.call .stop)
  | "r" => some (.call .restart)
  | _ => if t.startsWith "e" then (int? (t.drop 1).toString).map (fun e => .call (.run e)) else none

/-- "." = empty script; else comma separated ops -/
def script? (s : String) : Option Script :=
  if s == "." then some [] else (s.splitOn ",").mapM sop?

/-- "-" = nullptr -/
def probe? (s : String) : Option (Option Script) :=
  if s == "-" then some none else (script? s).map some

def intList? (s : String) : Option (List Int) :=
  if s == "" then some [] else (s.splitOn "|").mapM int?

/-- "-" | "G<ev>|<ev>…/<script>" -/
def guard? (s : String) : Option (Option Guard) :=
  if s == "-" then some none
  else if s.startsWith "G" then
    match (s.drop 1).toString.splitOn "/" with
    | [evs, sc] => do
        let l ← intList? evs
        let sc ← script? sc
        pure (some { trueOn := l, script := sc })
    | _ => none
  else none

def pair? (s : String) : Option (String × Int) :=
  match s.splitOn ">" with
  | [a, b] => (int? b).map (fun v => (a, v))
  | _ => none

/-- "<e>><t>|…|*><d>" (the default entry is mandatory and last) -/
def table? (s : String) : Option (List (Int × Int) × Int) := do
  let ps ← (s.splitOn "|").mapM pair?
  match ps.reverse with
  | ("*", d) :: rest =>
      let tbl ← rest.reverse.mapM (fun p => (int? p.1).map (fun e => (e, p.2)))
      pure (tbl, d)
  | _ => none

abbrev Raw := MachOf Unit Nat

def StateDef.withSub {A B : Type} (s : StateDef A) (x : Option B) : StateDef B :=
  { id := s.id, enter := s.enter, exit := s.exit, routes := s.routes, events := s.events, dflt := s.dflt, sub := x }

/-- flat pool → tree of depth ≤ n (fails when nested deeper) -/
def conv : (n : Nat) → List Raw → Nat → Option (Mach n)
  | 0, pool, k => do
      let r ← pool[k]?
      let sts ← r.states.mapM (fun s => match s.sub with
        | none => some (StateDef.withSub s (none : Option Empty))
        | some _ => none)
      pure ({ init := r.init, states := sts, cb := r.cb, rt := {} } : MachOf Rt Empty)
  | n + 1, pool, k => do
      let r ← pool[k]?
      let sts ← r.states.mapM (fun s => match s.sub with
        | none => some (StateDef.withSub s (none : Option (Mach n)))
        | some j => (conv n pool j).map (fun x => StateDef.withSub s (some x)))
      pure ({ init := r.init, states := sts, cb := r.cb, rt := {} } : MachOf Rt (Mach n))

structure DS where
  pool : List Raw := []
  consumed : List Nat := []
  cur : Option Nat := none
  root : Option (Mach maxDepth) := none

def b01 (b : Bool) : String := if b then "1" else "0"

def viewStr (v : View) : String :=
  s!"{v.curr},{v.last},{v.next},{b01 v.running},{b01 v.term}"

def pathStr (p : List StateId) : String :=
  if p.isEmpty then "/" else String.join (p.map fun s => "/" ++ toString s)

def callStr : Call → String
  | .start => "start" | .stop => "stop" | .restart => "restart" | .run e => s!"run:{e}"

/-- printed events: callbacks that exist, and what their bodies did -/
def evStr (ev : Ev) : Option String :=
  let p := "P T " ++ pathStr ev.path ++ " "
  match ev.kind with
  | .enter s e true => some (p ++ s!"enter {s} {e}")
  | .exit s e true => some (p ++ s!"exit {s} {e}")
  | .action s (some i) e true => some (p ++ s!"act {s} {i} {e}")
  | .action s none e true => some (p ++ s!"act {s} h {e}")
  | .guard s i e r => some (p ++ s!"guard {s} {i} {e} {b01 r}")
  | .handler s (some k) e r => some (p ++ s!"hdl {s} {k} {e} {r}")
  | .handler s none e r => some (p ++ s!"hdl {s} * {e} {r}")
  | .notify a b e true => some (p ++ s!"chg {a} {b} {e}")
  | .obs v => some (p ++ "obs " ++ viewStr v)
  | .call c r v w => some (p ++ s!"call {callStr c} {b01 r} {viewStr v} {viewStr w}")
  | .unmodelled => some (p ++ "UNMODELLED")
  | _ => none

section
variable {Sub : Type}
def snapLevel (subSnap : List StateId → Sub → List String) (path : List StateId) (m : MachOf Rt Sub) : List String :=
  (pathStr path ++ ":" ++ viewStr m.rt.view) ::
    m.states.flatMap (fun s => match s.sub with
      | some x => subSnap (path ++ [s.id]) x
      | none => [])
end

def snap : (n : Nat) → List StateId → Mach n → List String
  | 0 => snapLevel (fun _ x => x.elim)
  | n + 1 => snapLevel (snap n)

def snapLine (m : Mach maxDepth) : String := "P S " ++ " ".intercalate (snap maxDepth [] m)

def evTag (ev : Ev) : List String :=
  let d := s!"depth{ev.path.length}"
  match ev.kind with
  | .enter s _ has => [d, if s == 0 then (if has then "enter-user0" else "enter-term") else "enter"]
  | .exit .. => ["exit"]
  | .action _ (some _) _ has => [if has then "route-action" else "route-noaction"]
  | .action _ none _ _ => ["handler-go"]
  | .guard _ i _ r => [if r then "guard-true" else "guard-false", if i > 0 then "guard-later-route" else "guard-first-route"]
  | .handler _ k _ r => [if k.isSome then "hdl-specific" else "hdl-default", if r == -1 then "hdl-stay" else "hdl-target"]
  | .notify a b _ _ => [if a == b then "self-transition" else "chg"]
  | .obs v => [if v.curr == -1 then "obs-in-action" else if v.next != -1 then "obs-in-exit" else "obs"]
  | .call .. => ["reentrant-call"]
  | .unmodelled => ["UNMODELLED"]

def callTags (c : Call) (before : View) (res : Bool) (tr : Trace) : List String :=
  let deepExit := tr.any (fun ev => ev.path.length > 0 && match ev.kind with | .exit .. => true | _ => false)
  let c1 := match c with
    | .start => [if res then "start-ok" else if before.running then "start-again" else "start-fail"]
    | .stop => [if !before.running then "stop-idle" else if deepExit then "stop-active-sub" else "stop"]
    | .restart => [if before.running then "restart-running" else "restart-idle", if deepExit then "stop-active-sub" else "restart"]
    | .run _ => [if !before.running then "run-idle" else if res then "run-true" else "run-false",
                 if deepExit && before.running then "sub-terminated-or-left" else "run"]
  (c1 ++ tr.flatMap evTag).eraseDups

def newRaw : Raw := { init := -1, states := [], cb := none, rt := () }

def setAt (l : List Raw) (k : Nat) (r : Raw) : List Raw := l.set k r

/-- one definition line on the machine under construction `k` -/
def defLine (s : DS) (k : Nat) (r : Raw) (ws : List String) : Option (DS × List String) :=
  let put (r' : Raw) : DS := { s with pool := setAt s.pool k r' }
  match ws with
  | ["st", sid, en, ex] => do
      let sid ← int? sid; let en ← probe? en; let ex ← probe? ex
      if sid < 0 then none else
      let (r', ok) := Build.newState r sid en ex
      pure (put r', ["P st " ++ b01 ok])
  | ["rt", src, ev, dst, g, a] => do
      let src ← int? src; let ev ← int? ev; let dst ← int? dst; let g ← guard? g; let a ← probe? a
      let (r', ok) := Build.addRoute r src { ev := ev, to := dst, guard := g, action := a }
      pure (put r', ["P rt " ++ b01 ok])
  | ["ev", sid, ev, tbl, sc] => do
      let sid ← int? sid; let ev ← int? ev; let (tbl, d) ← table? tbl; let sc ← script? sc
      let (r', ok) := Build.addEvent r sid ev { tbl := tbl, dflt := d, script := sc }
      pure (put r', ["P ev " ++ b01 ok])
  | ["init", sid] => do
      let sid ← int? sid
      pure (put (Build.setInitState r sid), ["P init"])
  | ["cb", sc] => do
      let sc ← script? sc
      pure (put (Build.setStateChangedCallback r sc), ["P cb"])
  | ["sub", sid, j] => do
      let sid ← int? sid; let j ← nat? j
      if j ≥ s.pool.length || j == k || s.consumed.contains j then none else
      let (r', ok) := Build.setSubStateMachine r sid j
      let s' := put r'
      pure ({ s' with consumed := if ok then j :: s.consumed else s.consumed }, ["P sub " ++ b01 ok])
  | ["end"] => pure ({ s with cur := none }, [s!"P end {k}"])
  | _ => none

def callLine (m : Mach maxDepth) (c : Call) : Mach maxDepth × List String :=
  let before := m.rt.view
  let r := applyCall true maxDepth m c
  let res := match c with | .stop => "-" | _ => b01 r.2.1
  (r.1, ["B " ++ " ".intercalate (callTags c before r.2.1 r.2.2)] ++ r.2.2.filterMap evStr ++ ["P R " ++ res, snapLine r.1])

def parseCall (ws : List String) : Option Call :=
  match ws with
  | ["start"] => some .start
  | ["stop"] => some .stop
  | ["restart"] => some .restart
  | ["run", e] => (int? e).map .run
  | _ => none

def stepLine (s : DS) (line : String) : DS × List String :=
  let ws := words line
  match ws with
  | [] => (s, [])
  | "case" :: _ => ({}, [line.trimAscii.toString])
  | _ =>
    match s.root with
    | some m =>
      match parseCall ws with
      | some c => let (m', out) := callLine m c; ({ s with root := some m' }, out)
      | none => (s, ["bad-op"])
    | none =>
      match s.cur with
      | some k =>
        match s.pool[k]? with
        | none => (s, ["bad-op"])
        | some r =>
          match defLine s k r ws with
          | some (s', out) => (s', out)
          | none => (s, ["bad-op"])
      | none =>
        match ws with
        | ["mach"] =>
            let k := s.pool.length
            ({ s with pool := s.pool ++ [newRaw], cur := some k }, [s!"P mach {k}"])
        | ["go", k] =>
            match nat? k with
            | none => (s, ["bad-op"])
            | some k =>
              if k ≥ s.pool.length || s.consumed.contains k then (s, ["bad-op"])
              else match conv maxDepth s.pool k with
                | none => (s, ["bad-op"])
                | some m => ({ s with root := some m }, ["P go", snapLine m])
        | _ => (s, ["bad-op"])

def main : IO Unit := runDriver ({} : DS) stepLine
