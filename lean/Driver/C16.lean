/- C16 driver: machine definitions and call sequences in, trace/result/snapshot lines out
(same format as props/C16/harness.cpp).

Two models run side by side:
* the ARENA model (`TboxModel/C16/Arena.lean`) executes every case (any machine may be the target
  of a script call or of a top-level call, a machine may be attached to several states,
  definition calls after `go`, any nesting depth);
* the TREE model (`TboxModel/C16/Model.lean`) executes the cases inside the domain of
  `C16_arena_conforms` (`hier`, ArenaTreeDefs.lean): every machine attached at most once, script
  targets = own machine or an ancestor, no definition call in a script; calls addressed to the
  root, no definition call after `go`, depth ≤ `maxDepth`.
  On those cases both answers must agree; a disagreement prints `M MODEL-MISMATCH` (the harness
  never prints it, so the check flags it).
Both use the code with patches C16-01 and C16-02.

`json [@k]` (after `go`) prints `toJson()` of machine `k` (default: the root) as one canonical line
`P J …` (`TboxModel/C16/Json.lean`) followed by the snapshot line; refused (`bad-op`) when an attachment
cycle is reachable from `k` (`toJson` recurses without bound there).

`tpl <definition call>` (before `go`, outside `mach … end`) appends one definition call to the case's
table (`TboxModel/C16/ArenaDef.lean`); the script op `d<i>[@k]` performs entry `i` on machine `k`
(default: the owner of the callback) WHILE THE MACHINES RUN and prints `call[@k] def<i> <ret> <view> <view>`.
The arena side runs `dCall tpl`; cases with a `d` op are outside the tree fragment. -/
import TboxModel.Util
import TboxModel.C16.Arena
import TboxModel.C16.Json
import TboxModel.C16.Model
import TboxModel.C16.ArenaDef
import TboxModel.C16.ArenaTreeDefs
open Tbox.Util Tbox.C16

/-- deepest nesting the tree model is instantiated at by the driver (the theorems hold for all depths) -/
def maxDepth : Nat := 8

/-- strict decimal: optional '-', 1..10 digits, value in the range of a C++ `int`
[-2147483648, 2147483647] (`StateID`/`EventID` are `int`) -/
def int? (s : String) : Option Int :=
  let cs := s.toList
  let (neg, ds) := match cs with
    | '-' :: r => (true, r)
    | r => (false, r)
  if ds.isEmpty || ds.length > 10 || !ds.all Char.isDigit then none
  else
    let v : Nat := ds.foldl (fun a c => a * 10 + (c.toNat - 48)) 0
    let i : Int := if neg then - (Int.ofNat v) else Int.ofNat v
    if i < -2147483648 || i > 2147483647 then none else some i

def nat? (s : String) : Option Nat := do
  let i ← int? s
  if i < 0 || s.startsWith "-" then none else some i.toNat

/-- "<id>" | "<id>:<tag>" -/
def event? (s : String) : Option Event :=
  match s.splitOn ":" with
  | [a] => (int? a).map fun i => { id := i, extra := 0 }
  | [a, b] => do let i ← int? a; let t ← nat? b; pure { id := i, extra := t }
  | _ => none

def sop? (t0 : String) : Option SOp := do
  let (t, tgt) ← match t0.splitOn "@" with
    | [a] => some (a, none)
    | [a, b] => (nat? b).map fun k => (a, some k)
    | _ => none
  match t with
  | "o" => some (.obs tgt)
  | "s" => some (.call tgt .start)
  | "x" => some (.call tgt .stop)
  | "r" => some (.call tgt .restart)
  | _ =>
    if t.startsWith "e" then (event? (t.drop 1).toString).map (fun e => .call tgt (.run e))
    else if t.startsWith "d" then (nat? (t.drop 1).toString).map (fun i => .call tgt (.defn i))
    else none

/-- "." = empty script; else comma separated ops -/
def script? (s : String) : Option Script :=
  if s == "." then some [] else (s.splitOn ",").mapM sop?

/-- "-" = nullptr -/
def probe? (s : String) : Option (Option Script) :=
  if s == "-" then some none else (script? s).map some

def intList? (s : String) : Option (List Int) :=
  if s == "" then some [] else (s.splitOn "|").mapM int?

/-- "-" | "G<ev>|<ev>…/<script>" -/
def guard? (s : String) : Option (Option Guard) :=
  if s == "-" then some none
  else if s.startsWith "G" then
    match (s.drop 1).toString.splitOn "/" with
    | [evs, sc] => do
        let l ← intList? evs
        let sc ← script? sc
        pure (some { trueOn := l, script := sc })
    | _ => none
  else none

def pair? (s : String) : Option (String × Int) :=
  match s.splitOn ">" with
  | [a, b] => (int? b).map (fun v => (a, v))
  | _ => none

/-- "<e>><t>|…|*><d>" (the default entry is mandatory and last) -/
def table? (s : String) : Option (List (Int × Int) × Int) := do
  let ps ← (s.splitOn "|").mapM pair?
  match ps.reverse with
  | ("*", d) :: rest =>
      let tbl ← rest.reverse.mapM (fun p => (int? p.1).map (fun e => (e, p.2)))
      pure (tbl, d)
  | _ => none

def scriptMax (sc : Script) : Option Nat :=
  sc.foldl (fun acc op =>
    let t := match op with | .obs t => t | .call t _ => t
    match acc, t with
    | some a, some b => some (max a b)
    | none, some b => some b
    | a, none => a) none

/-- largest index of a definition-table entry a script refers to -/
def scriptMaxD (sc : Script) : Option Nat :=
  sc.foldl (fun acc op =>
    match op with
    | .call _ (.defn i) => (match acc with | some a => some (max a i) | none => some i)
    | _ => acc) none

def maxOpt (a b : Option Nat) : Option Nat :=
  match a, b with
  | some x, some y => some (max x y)
  | some x, none => some x
  | none, y => y

def optScriptMax (p : Option Script) : Option Nat := p.bind scriptMax
def optScriptMaxD (p : Option Script) : Option Nat := p.bind scriptMaxD

/-! ### tree model plumbing: `conv`, `hier` (the domain of `C16_arena_conforms`), `treeNodes`, `midOf`, `viewsOf` are library
definitions (TboxModel/C16/ArenaTreeDefs.lean): the run-time comparison of the two models is made exactly on the stores the
refinement theorem speaks about -/

structure DS where
  g : Arena := []
  cur : Option Nat := none
  root : Option Nat := none
  maxT : Option Nat := none
  /-- the table of definition calls (`tpl` lines), the largest entry a script refers to, the largest
  machine index a `sub` entry attaches -/
  tpl : Tpl := []
  maxD : Option Nat := none
  maxJ : Option Nat := none
  tree : Option (Mach maxDepth) := none

def b01 (b : Bool) : String := if b then "1" else "0"

def viewStr (v : View) : String :=
  s!"{v.curr},{v.last},{v.next},{b01 v.running},{b01 v.term}"

def evS (e : Event) : String := if e.extra == 0 then toString e.id else s!"{e.id}:{e.extra}"

def callStr : Call → String
  | .start => "start" | .stop => "stop" | .restart => "restart" | .run e => "run:" ++ evS e
  | .defn i => s!"def{i}"

def tgtS (t : Option Nat) : String := match t with | none => "" | some k => s!"@{k}"

/-- printed events: callbacks that exist, and what their bodies did -/
def kindStr (k : Kind) : Option String :=
  match k with
  | .enter s e true => some s!"enter {s} {evS e}"
  | .exit s e true => some s!"exit {s} {evS e}"
  | .action s (some i) e true => some s!"act {s} {i} {evS e}"
  | .action s none e true => some s!"act {s} h {evS e}"
  | .guard s i e r => some s!"guard {s} {i} {evS e} {b01 r}"
  | .handler s (some k) e r => some s!"hdl {s} {k} {evS e} {r}"
  | .handler s none e r => some s!"hdl {s} * {evS e} {r}"
  | .notify a b e true => some s!"chg {a} {b} {evS e}"
  | .obs t v => some ("obs" ++ tgtS t ++ " " ++ viewStr v)
  | .call t c r v w => some s!"call{tgtS t} {callStr c} {b01 r} {viewStr v} {viewStr w}"
  | .unmodelled => some "UNMODELLED"
  | .foreign t => some s!"FOREIGN {t}"
  | _ => none

def aevStr (ev : AEv) : Option String := (kindStr ev.kind).map fun s => s!"P T {ev.mid} " ++ s

def snapLine (g : Arena) : String :=
  "P S " ++ " ".intercalate ((List.range g.length).map fun k => s!"{k}:" ++ viewStr (g.view k))

/-! tree side: events carry the path from the root; print them with the machine index -/
def treeTrace (m : Mach maxDepth) (tr : Trace) : List String :=
  tr.filterMap fun ev => (kindStr ev.kind).map fun s => s!"P T {(midOf maxDepth m ev.path).getD 999999} " ++ s

/-- the tree's machines show the same observers as the arena's -/
def treeSnapOk (m : Mach maxDepth) (g : Arena) : Bool :=
  (viewsOf maxDepth m).all fun (k, v) => g.view k == v

def depthOf (g : Arena) (root k : Nat) : Nat :=
  match treeNodes (g.length + 1) g root [] with
  | some nodes => match nodes.find? (·.1 == k) with | some (_, anc) => anc.length | none => 9
  | none => 9

def defKind : DefOp → String
  | .newState .. => "st" | .addRoute .. => "rt" | .addEvent .. => "ev" | .setInit _ => "init" | .setSub .. => "sub" | .setCb _ => "cb"

def evTag (tpl : Tpl) (depth : Nat → Nat) (ev : AEv) : List String :=
  let d := s!"depth{depth ev.mid}"
  let x := fun (e : Event) => if e.extra != 0 then ["extra"] else []
  match ev.kind with
  | .enter s e has => [d, if s == 0 then (if has then "enter-user0" else "enter-term") else "enter"] ++ x e
  | .exit .. => ["exit"]
  | .action _ (some _) _ has => [if has then "route-action" else "route-noaction"]
  | .action _ none _ _ => ["handler-go"]
  | .guard _ i _ r => [if r then "guard-true" else "guard-false", if i > 0 then "guard-later-route" else "guard-first-route"]
  | .handler _ k _ r => [if k.isSome then "hdl-specific" else "hdl-default",
                         if r == -1 then "hdl-stay" else if r < 0 then "hdl-stay-below-minus-1" else "hdl-target"]
  | .notify a b _ _ => [if a == b then "self-transition" else "chg"]
  | .obs t v => [if t.isSome then "obs-other" else if v.curr == -1 then "obs-in-action" else if v.next != -1 then "obs-in-exit" else "obs"]
  | .call t (.defn i) r v _ =>
      let kd := match tpl[i]? with | some d => defKind d | none => "none"
      [s!"defcb-{kd}", if t.isNone || t == some ev.mid then "defcb-self" else "defcb-other",
       if v.running then "defcb-on-running" else "defcb-on-stopped", if r then "defcb-true" else "defcb-false"]
  | .call t _ r v w =>
      [if t.isNone || t == some ev.mid then "call-self" else if depth (t.getD 0) < depth ev.mid then "call-up" else "call-down-or-side",
       if r || v != w then "call-accepted" else "call-no-effect"]
  | .unmodelled => ["UNMODELLED"]
  | .foreign _ => ["FOREIGN"]

def callTags (tpl : Tpl) (depth : Nat → Nat) (c : Call) (direct : Bool) (before : View) (res : Bool) (tr : ATrace) : List String :=
  let deepExit := tr.any (fun ev => depth ev.mid > 0 && match ev.kind with | .exit .. => true | _ => false)
  let c1 := match c with
    | .start => [if res then "start-ok" else if before.running then "start-again" else "start-fail"]
    | .stop => [if !before.running then "stop-idle" else if deepExit then "stop-active-sub" else "stop"]
    | .restart => [if before.running then "restart-running" else "restart-idle", if deepExit then "stop-active-sub" else "restart"]
    | .run _ => [if !before.running then "run-idle" else if res then "run-true" else "run-false",
                 if deepExit && before.running then "sub-terminated-or-left" else "run"]
    | .defn _ => ["defn"]
  ((if direct then ["direct-sub-call"] else []) ++ c1 ++ tr.flatMap (evTag tpl depth)).eraseDups

def newRec (k : Nat) : ARec := { mid := k, init := -1, states := [], cb := none, rt := {} }

/-- machine `dst` reachable from `src` through sub-machine attachments (or equal) -/
def reaches : Nat → Arena → Nat → Nat → Bool
  | 0, _, _, _ => true
  | f + 1, g, src, dst =>
    src == dst || ((g.get src).states.filterMap (·.sub)).any (fun j => reaches f g j dst)

/-- a definition call as data, the largest script target and the largest table entry its scripts name -/
def defOp? (ws : List String) : Option (DefOp × Option Nat × Option Nat) :=
  match ws with
  | ["st", sid, en, ex] => do
      let sid ← int? sid; let en ← probe? en; let ex ← probe? ex
      pure (.newState sid en ex, maxOpt (optScriptMax en) (optScriptMax ex), maxOpt (optScriptMaxD en) (optScriptMaxD ex))
  | ["rt", src, ev, dst, g, a] => do
      let src ← int? src; let ev ← int? ev; let dst ← int? dst; let gd ← guard? g; let a ← probe? a
      pure (.addRoute src { ev := ev, to := dst, guard := gd, action := a },
            maxOpt ((gd.map (·.script)).bind scriptMax) (optScriptMax a), maxOpt ((gd.map (·.script)).bind scriptMaxD) (optScriptMaxD a))
  | ["ev", sid, ev, tbl, sc] => do
      let sid ← int? sid; let ev ← int? ev; let (tbl, d) ← table? tbl; let sc ← script? sc
      pure (.addEvent sid ev { tbl := tbl, dflt := d, script := sc }, scriptMax sc, scriptMaxD sc)
  | ["init", sid] => do let sid ← int? sid; pure (.setInit sid, none, none)
  | ["cb", sc] => do let sc ← script? sc; pure (.setCb sc, scriptMax sc, scriptMaxD sc)
  | ["sub", sid, j] => do let sid ← int? sid; let j ← nat? j; pure (.setSub sid j, none, none)
  | _ => none

/-- an attachment cycle is reachable from machine `k` (`path` = the machines on the way down) -/
def cyclicFrom : Nat → Arena → List Nat → Nat → Bool
  | 0, _, _, _ => true
  | f + 1, g, path, k =>
    path.contains k || ((g.get k).states.filterMap (·.sub)).any (fun j => cyclicFrom f g (k :: path) j)

/-- one definition call on machine `k`; answers "<kind> <ret>" -/
def defCall (s : DS) (k : Nat) (late : Bool) (ws : List String) : Option (DS × String) :=
  let okT (m : Option Nat) : Bool := !late || (match m with | some t => t < s.g.length | none => true)
  let okD (ws : List String) : Bool := !late || (match defOp? ws with | some (_, _, some d) => d < s.tpl.length | _ => true)
  let noteD (s' : DS) : DS := match defOp? ws with | some (_, _, md) => { s' with maxD := maxOpt s'.maxD md } | none => s'
  if !okD ws then none else
  (fun (r : Option (DS × String)) => r.map (fun p => (noteD p.1, p.2))) <|
  match ws with
  | ["st", sid, en, ex] => do
      let sid ← int? sid; let en ← probe? en; let ex ← probe? ex
      let mt := maxOpt (optScriptMax en) (optScriptMax ex)
      if !okT mt then none else
      let (g', ok) := Def.guarded s.g k (fun r => Build.newState r sid en ex)
      pure ({ s with g := g', maxT := maxOpt s.maxT mt }, "st " ++ b01 ok)
  | ["rt", src, ev, dst, g, a] => do
      let src ← int? src; let ev ← int? ev; let dst ← int? dst; let gd ← guard? g; let a ← probe? a
      let mt := maxOpt ((gd.map (·.script)).bind scriptMax) (optScriptMax a)
      if !okT mt then none else
      let (g', ok) := Def.guarded s.g k (fun r => Build.addRoute r src { ev := ev, to := dst, guard := gd, action := a })
      pure ({ s with g := g', maxT := maxOpt s.maxT mt }, "rt " ++ b01 ok)
  | ["ev", sid, ev, tbl, sc] => do
      let sid ← int? sid; let ev ← int? ev; let (tbl, d) ← table? tbl; let sc ← script? sc
      let mt := scriptMax sc
      if !okT mt then none else
      let (g', ok) := Def.guarded s.g k (fun r => Build.addEvent r sid ev { tbl := tbl, dflt := d, script := sc })
      pure ({ s with g := g', maxT := maxOpt s.maxT mt }, "ev " ++ b01 ok)
  | ["init", sid] => do
      let sid ← int? sid
      pure ({ s with g := Def.always s.g k (fun r => Build.setInitState r sid) }, "init")
  | ["cb", sc] => do
      let sc ← script? sc
      let mt := scriptMax sc
      if !okT mt then none else
      pure ({ s with g := Def.always s.g k (fun r => Build.setStateChangedCallback r sc), maxT := maxOpt s.maxT mt }, "cb")
  | ["sub", sid, j] => do
      let sid ← int? sid; let j ← nat? j
      if j ≥ s.g.length || s.cur == some j || reaches (s.g.length + 1) s.g j k then none else
      let (g', ok) := Def.guarded s.g k (fun r => Build.setSubStateMachine r sid j)
      pure ({ s with g := g' }, "sub " ++ b01 ok)
  | _ => none

def parseCall (ws : List String) : Option Call :=
  match ws with
  | ["start"] => some .start
  | ["stop"] => some .stop
  | ["restart"] => some .restart
  | ["run", e] => (event? e).map .run
  | _ => none

/-- trailing "@k" (the word has at least 2 characters and the line at least 2 words) -/
def splitTarget (ws : List String) : Option (List String × Option Nat) :=
  match ws.getLast? with
  | some w =>
    if ws.length ≥ 2 && w.length ≥ 2 && w.startsWith "@" then
      (nat? (w.drop 1).toString).map fun k => (ws.dropLast, some k)
    else some (ws, none)
  | none => some (ws, none)

def callLine (s : DS) (root : Nat) (k : Nat) (c : Call) : DS × List String :=
  let before := s.g.view k
  let r := dCall s.tpl (fuelFor s.g) s.g k c
  let res := match c with | .stop => "-" | _ => b01 r.2.1
  let lines := r.2.2.filterMap aevStr
  let depth := depthOf s.g root
  let tagLine := "B " ++ " ".intercalate (callTags s.tpl depth c (k != root) before r.2.1 r.2.2)
  -- the tree model, when the case is still inside its fragment
  let (tree', extra) : Option (Mach maxDepth) × List String :=
    match s.tree with
    | some m =>
      if k != root then (none, ["B arena-only"]) else
      let t := applyCall maxDepth m c
      let tl := treeTrace t.1 t.2.2
      if tl == lines && t.2.1 == r.2.1 && treeSnapOk t.1 r.1 then (some t.1, ["B tree-model"])
      else (none, ["M MODEL-MISMATCH tree=" ++ " | ".intercalate tl])
    | none => (none, ["B arena-only"])
  ({ s with g := r.1, tree := tree' }, [tagLine] ++ extra ++ lines ++ ["P R " ++ res, snapLine r.1])

def stepLine (s : DS) (line : String) : DS × List String :=
  let ws := words line
  match ws with
  | [] => (s, [])
  | "case" :: _ => ({}, [line.trimAscii.toString])
  | _ =>
    match s.root with
    | some root =>
      match ws with
      | "def" :: k :: rest =>
        match nat? k with
        | none => (s, ["bad-op"])
        | some k =>
          if k ≥ s.g.length || rest.isEmpty then (s, ["bad-op"]) else
          match defCall s k true rest with
          | some (s', out) => ({ s' with tree := none }, ["P def " ++ out, snapLine s'.g])
          | none => (s, ["bad-op"])
      | _ =>
        match splitTarget ws with
        | none => (s, ["bad-op"])
        | some (ws', tgt) =>
          let k := tgt.getD root
          if k ≥ s.g.length then (s, ["bad-op"]) else
          match ws' with
          | ["json"] =>
            -- `toJson()` recurses without bound on an attachment cycle (a `sub` entry of the table may have closed one)
            if cyclicFrom (s.g.length + 1) s.g [] k then (s, ["bad-op"]) else
            -- `toJson()` is const: same arena, and the snapshot line shows it
            (s, [s!"B json{if k != root then "-sub" else ""}", "P J " ++ aJson (s.g.length + 1) s.g k, snapLine s.g])
          | _ =>
          match parseCall ws' with
          | some c => callLine s root k c
          | none => (s, ["bad-op"])
    | none =>
      match s.cur with
      | some k =>
        match ws with
        | ["end"] => ({ s with cur := none }, [s!"P end {k}"])
        | _ =>
          match defCall s k false ws with
          | some (s', out) => (s', ["P " ++ out])
          | none => (s, ["bad-op"])
      | none =>
        match ws with
        | ["mach"] =>
            let k := s.g.length
            ({ s with g := s.g ++ [newRec k], cur := some k }, [s!"P mach {k}"])
        | "tpl" :: rest =>
            match defOp? rest with
            | some (d, mt, md) =>
                let mj := match d with | .setSub _ j => some j | _ => none
                ({ s with tpl := s.tpl ++ [d], maxT := maxOpt s.maxT mt, maxD := maxOpt s.maxD md, maxJ := maxOpt s.maxJ mj },
                 [s!"P tpl {s.tpl.length}"])
            | none => (s, ["bad-op"])
        | ["go", k] =>
            match nat? k with
            | none => (s, ["bad-op"])
            | some k =>
              let lt (m : Option Nat) (n : Nat) : Bool := match m with | some t => t < n | none => true
              let tOk := lt s.maxT s.g.length && lt s.maxJ s.g.length && lt s.maxD s.tpl.length
              if k ≥ s.g.length || !tOk then (s, ["bad-op"])
              else
                let tree := if hier s.g k then conv maxDepth s.g k else none
                ({ s with root := some k, tree := tree }, ["P go", snapLine s.g])
        | _ => (s, ["bad-op"])

def main : IO Unit := runDriver ({} : DS) stepLine
