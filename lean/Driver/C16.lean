/- C16 driver: machine definitions and call sequences in, trace/result/snapshot lines out
(same format as props/C16/harness.cpp).

Two models run side by side:
* the ARENA model (`TboxModel/C16/Arena.lean`) executes every case (any machine may be the target
  of a script call or of a top-level call, a machine may be attached to several states,
  definition calls after `go`, any nesting depth);
* the TREE model (`TboxModel/C16/Model.lean`, the one the theorems are about) executes the cases
  inside its fragment: every machine attached at most once, script targets = own machine or an
  ancestor, calls addressed to the root, no definition call after `go`, depth ≤ `maxDepth`.
  On those cases both answers must agree; a disagreement prints `M MODEL-MISMATCH` (the harness
  never prints it, so the check flags it).
Both use the code with patches C16-01 and C16-02.

`json [@k]` (after `go`) prints `toJson()` of machine `k` (default: the root) as one canonical line
`P J …` (`TboxModel/C16/Json.lean`) followed by the snapshot line. -/
import TboxModel.Util
import TboxModel.C16.Arena
import TboxModel.C16.Json
import TboxModel.C16.Model
open Tbox.Util Tbox.C16

/-- deepest nesting the tree model is instantiated at by the driver (the theorems hold for all depths) -/
def maxDepth : Nat := 8

/-- strict decimal: optional '-', 1..10 digits, value in the range of a C++ `int`
[-2147483648, 2147483647] (`StateID`/`EventID` are `int`) -/
def int? (s : String) : Option Int :=
  let cs := s.toList
  let (neg, ds) := match cs with
    | '-' :: r => (true, r)
    | r => (false, r)
  if ds.isEmpty || ds.length > 10 || !ds.all Char.isDigit then none
  else
    let v : Nat := ds.foldl (fun a c => a * 10 + (c.toNat - 48)) 0
    let i : Int := if neg then - (Int.ofNat v) else Int.ofNat v
    if i < -2147483648 || i > 2147483647 then none else some i

def nat? (s : String) : Option Nat := do
  let i ← int? s
  if i < 0 || s.startsWith "-" then none else some i.toNat

/-- "<id>" | "<id>:<tag>" -/
def event? (s : String) : Option Event :=
  match s.splitOn ":" with
  | [a] => (int? a).map fun i => { id := i, extra := 0 }
  | [a, b] => do let i ← int? a; let t ← nat? b; pure { id := i, extra := t }
  | _ => none

def sop? (t0 : String) : Option SOp := do
  let (t, tgt) ← match t0.splitOn "@" with
    | [a] => some (a, none)
    | [a, b] => (nat? b).map fun k => (a, some k)
    | _ => none
  match t with
  | "o" => some (.obs tgt)
  | "s" => some (.call tgt .start)
  | "x" => some (.call tgt .stop)
  | "r" => some (.call tgt .restart)
  | _ => if t.startsWith "e" then (event? (t.drop 1).toString).map (fun e => .call tgt (.run e)) else none

/-- "." = empty script; else comma separated ops -/
def script? (s : String) : Option Script :=
  if s == "." then some [] else (s.splitOn ",").mapM sop?

/-- "-" = nullptr -/
def probe? (s : String) : Option (Option Script) :=
  if s == "-" then some none else (script? s).map some

def intList? (s : String) : Option (List Int) :=
  if s == "" then some [] else (s.splitOn "|").mapM int?

/-- "-" | "G<ev>|<ev>…/<script>" -/
def guard? (s : String) : Option (Option Guard) :=
  if s == "-" then some none
  else if s.startsWith "G" then
    match (s.drop 1).toString.splitOn "/" with
    | [evs, sc] => do
        let l ← intList? evs
        let sc ← script? sc
        pure (some { trueOn := l, script := sc })
    | _ => none
  else none

def pair? (s : String) : Option (String × Int) :=
  match s.splitOn ">" with
  | [a, b] => (int? b).map (fun v => (a, v))
  | _ => none

/-- "<e>><t>|…|*><d>" (the default entry is mandatory and last) -/
def table? (s : String) : Option (List (Int × Int) × Int) := do
  let ps ← (s.splitOn "|").mapM pair?
  match ps.reverse with
  | ("*", d) :: rest =>
      let tbl ← rest.reverse.mapM (fun p => (int? p.1).map (fun e => (e, p.2)))
      pure (tbl, d)
  | _ => none

def scriptMax (sc : Script) : Option Nat :=
  sc.foldl (fun acc op =>
    let t := match op with | .obs t => t | .call t _ => t
    match acc, t with
    | some a, some b => some (max a b)
    | none, some b => some b
    | a, none => a) none

def maxOpt (a b : Option Nat) : Option Nat :=
  match a, b with
  | some x, some y => some (max x y)
  | some x, none => some x
  | none, y => y

def optScriptMax (p : Option Script) : Option Nat := p.bind scriptMax

/-! ### tree model plumbing -/

def StateDef.withSub {A B : Type} (s : StateDef A) (x : Option B) : StateDef B :=
  { id := s.id, enter := s.enter, exit := s.exit, routes := s.routes, events := s.events, dflt := s.dflt, sub := x }

/-- arena → tree of depth ≤ n below machine `k` (fails when nested deeper) -/
def conv : (n : Nat) → Arena → Nat → Option (Mach n)
  | 0, g, k => do
      let r ← g[k]?
      let sts ← r.states.mapM (fun s => match s.sub with
        | none => some (StateDef.withSub s (none : Option Empty))
        | some _ => none)
      pure ({ mid := k, init := r.init, states := sts, cb := r.cb, rt := r.rt } : MachOf Rt Empty)
  | n + 1, g, k => do
      let r ← g[k]?
      let sts ← r.states.mapM (fun s => match s.sub with
        | none => some (StateDef.withSub s (none : Option (Mach n)))
        | some j => (conv n g j).map (fun x => StateDef.withSub s (some x)))
      pure ({ mid := k, init := r.init, states := sts, cb := r.cb, rt := r.rt } : MachOf Rt (Mach n))

/-- machines below `k` (with `k`), each with the list of its ancestors; `none` if a machine is met twice -/
def treeNodes : Nat → Arena → Nat → List Nat → Option (List (Nat × List Nat))
  | 0, _, _, _ => none
  | f + 1, g, k, anc => do
      let r ← g[k]?
      let subs := r.states.filterMap (·.sub)
      let below ← subs.mapM (fun j => treeNodes f g j (k :: anc))
      pure ((k, anc) :: below.flatten)

def allScripts (r : ARec) : List Script :=
  r.cb.toList ++ r.states.flatMap (fun s =>
    s.enter.toList ++ s.exit.toList ++
    s.routes.flatMap (fun rt => (rt.guard.map (·.script)).toList ++ rt.action.toList) ++
    s.events.map (fun p => p.2.script) ++ (s.dflt.map (·.script)).toList)

/-- the case is inside the tree model's fragment -/
def inFragment (g : Arena) (root : Nat) : Bool :=
  match treeNodes (g.length + 1) g root [] with
  | none => false
  | some nodes =>
    let ids := nodes.map (·.1)
    ids.eraseDups.length == ids.length &&
    nodes.all (fun (k, anc) =>
      (allScripts (g.get k)).all (fun sc => sc.all (fun op =>
        let t := match op with | .obs t => t | .call t _ => t
        match t with
        | none => true
        | some j => j == k || anc.contains j)))

structure DS where
  g : Arena := []
  cur : Option Nat := none
  root : Option Nat := none
  maxT : Option Nat := none
  tree : Option (Mach maxDepth) := none

def b01 (b : Bool) : String := if b then "1" else "0"

def viewStr (v : View) : String :=
  s!"{v.curr},{v.last},{v.next},{b01 v.running},{b01 v.term}"

def evS (e : Event) : String := if e.extra == 0 then toString e.id else s!"{e.id}:{e.extra}"

def callStr : Call → String
  | .start => "start" | .stop => "stop" | .restart => "restart" | .run e => "run:" ++ evS e

def tgtS (t : Option Nat) : String := match t with | none => "" | some k => s!"@{k}"

/-- printed events: callbacks that exist, and what their bodies did -/
def kindStr (k : Kind) : Option String :=
  match k with
  | .enter s e true => some s!"enter {s} {evS e}"
  | .exit s e true => some s!"exit {s} {evS e}"
  | .action s (some i) e true => some s!"act {s} {i} {evS e}"
  | .action s none e true => some s!"act {s} h {evS e}"
  | .guard s i e r => some s!"guard {s} {i} {evS e} {b01 r}"
  | .handler s (some k) e r => some s!"hdl {s} {k} {evS e} {r}"
  | .handler s none e r => some s!"hdl {s} * {evS e} {r}"
  | .notify a b e true => some s!"chg {a} {b} {evS e}"
  | .obs t v => some ("obs" ++ tgtS t ++ " " ++ viewStr v)
  | .call t c r v w => some s!"call{tgtS t} {callStr c} {b01 r} {viewStr v} {viewStr w}"
  | .unmodelled => some "UNMODELLED"
  | .foreign t => some s!"FOREIGN {t}"
  | _ => none

def aevStr (ev : AEv) : Option String := (kindStr ev.kind).map fun s => s!"P T {ev.mid} " ++ s

def snapLine (g : Arena) : String :=
  "P S " ++ " ".intercalate ((List.range g.length).map fun k => s!"{k}:" ++ viewStr (g.view k))

/-! tree side: events carry the path from the root; print them with the machine index -/
section
variable {Sub : Type}
def midLevel (subMid : Sub → List StateId → Option Nat) (m : MachOf Rt Sub) : List StateId → Option Nat
  | [] => some m.mid
  | s :: rest => match (m.findState s).bind (·.sub) with
    | some x => subMid x rest
    | none => none
def viewsLevel (subViews : Sub → List (Nat × View)) (m : MachOf Rt Sub) : List (Nat × View) :=
  (m.mid, m.rt.view) :: m.states.flatMap (fun s => match s.sub with | some x => subViews x | none => [])
end

def midOf : (n : Nat) → Mach n → List StateId → Option Nat
  | 0 => midLevel (fun x _ => x.elim)
  | n + 1 => midLevel (midOf n)

def viewsOf : (n : Nat) → Mach n → List (Nat × View)
  | 0 => viewsLevel (fun x => x.elim)
  | n + 1 => viewsLevel (viewsOf n)

def treeTrace (m : Mach maxDepth) (tr : Trace) : List String :=
  tr.filterMap fun ev => (kindStr ev.kind).map fun s => s!"P T {(midOf maxDepth m ev.path).getD 999999} " ++ s

/-- the tree's machines show the same observers as the arena's -/
def treeSnapOk (m : Mach maxDepth) (g : Arena) : Bool :=
  (viewsOf maxDepth m).all fun (k, v) => g.view k == v

def depthOf (g : Arena) (root k : Nat) : Nat :=
  match treeNodes (g.length + 1) g root [] with
  | some nodes => match nodes.find? (·.1 == k) with | some (_, anc) => anc.length | none => 9
  | none => 9

def evTag (depth : Nat → Nat) (ev : AEv) : List String :=
  let d := s!"depth{depth ev.mid}"
  let x := fun (e : Event) => if e.extra != 0 then ["extra"] else []
  match ev.kind with
  | .enter s e has => [d, if s == 0 then (if has then "enter-user0" else "enter-term") else "enter"] ++ x e
  | .exit .. => ["exit"]
  | .action _ (some _) _ has => [if has then "route-action" else "route-noaction"]
  | .action _ none _ _ => ["handler-go"]
  | .guard _ i _ r => [if r then "guard-true" else "guard-false", if i > 0 then "guard-later-route" else "guard-first-route"]
  | .handler _ k _ r => [if k.isSome then "hdl-specific" else "hdl-default", if r == -1 then "hdl-stay" else "hdl-target"]
  | .notify a b _ _ => [if a == b then "self-transition" else "chg"]
  | .obs t v => [if t.isSome then "obs-other" else if v.curr == -1 then "obs-in-action" else if v.next != -1 then "obs-in-exit" else "obs"]
  | .call t _ r v w =>
      [if t.isNone || t == some ev.mid then "call-self" else if depth (t.getD 0) < depth ev.mid then "call-up" else "call-down-or-side",
       if r || v != w then "call-accepted" else "call-no-effect"]
  | .unmodelled => ["UNMODELLED"]
  | .foreign _ => ["FOREIGN"]

def callTags (depth : Nat → Nat) (c : Call) (direct : Bool) (before : View) (res : Bool) (tr : ATrace) : List String :=
  let deepExit := tr.any (fun ev => depth ev.mid > 0 && match ev.kind with | .exit .. => true | _ => false)
  let c1 := match c with
    | .start => [if res then "start-ok" else if before.running then "start-again" else "start-fail"]
    | .stop => [if !before.running then "stop-idle" else if deepExit then "stop-active-sub" else "stop"]
    | .restart => [if before.running then "restart-running" else "restart-idle", if deepExit then "stop-active-sub" else "restart"]
    | .run _ => [if !before.running then "run-idle" else if res then "run-true" else "run-false",
                 if deepExit && before.running then "sub-terminated-or-left" else "run"]
  ((if direct then ["direct-sub-call"] else []) ++ c1 ++ tr.flatMap (evTag depth)).eraseDups

def newRec (k : Nat) : ARec := { mid := k, init := -1, states := [], cb := none, rt := {} }

/-- machine `dst` reachable from `src` through sub-machine attachments (or equal) -/
def reaches : Nat → Arena → Nat → Nat → Bool
  | 0, _, _, _ => true
  | f + 1, g, src, dst =>
    src == dst || ((g.get src).states.filterMap (·.sub)).any (fun j => reaches f g j dst)

/-- one definition call on machine `k`; answers "<kind> <ret>" -/
def defCall (s : DS) (k : Nat) (late : Bool) (ws : List String) : Option (DS × String) :=
  let okT (m : Option Nat) : Bool := !late || (match m with | some t => t < s.g.length | none => true)
  match ws with
  | ["st", sid, en, ex] => do
      let sid ← int? sid; let en ← probe? en; let ex ← probe? ex
      let mt := maxOpt (optScriptMax en) (optScriptMax ex)
      if !okT mt then none else
      let (g', ok) := Def.guarded s.g k (fun r => Build.newState r sid en ex)
      pure ({ s with g := g', maxT := maxOpt s.maxT mt }, "st " ++ b01 ok)
  | ["rt", src, ev, dst, g, a] => do
      let src ← int? src; let ev ← int? ev; let dst ← int? dst; let gd ← guard? g; let a ← probe? a
      let mt := maxOpt ((gd.map (·.script)).bind scriptMax) (optScriptMax a)
      if !okT mt then none else
      let (g', ok) := Def.guarded s.g k (fun r => Build.addRoute r src { ev := ev, to := dst, guard := gd, action := a })
      pure ({ s with g := g', maxT := maxOpt s.maxT mt }, "rt " ++ b01 ok)
  | ["ev", sid, ev, tbl, sc] => do
      let sid ← int? sid; let ev ← int? ev; let (tbl, d) ← table? tbl; let sc ← script? sc
      let mt := scriptMax sc
      if !okT mt then none else
      let (g', ok) := Def.guarded s.g k (fun r => Build.addEvent r sid ev { tbl := tbl, dflt := d, script := sc })
      pure ({ s with g := g', maxT := maxOpt s.maxT mt }, "ev " ++ b01 ok)
  | ["init", sid] => do
      let sid ← int? sid
      pure ({ s with g := Def.always s.g k (fun r => Build.setInitState r sid) }, "init")
  | ["cb", sc] => do
      let sc ← script? sc
      let mt := scriptMax sc
      if !okT mt then none else
      pure ({ s with g := Def.always s.g k (fun r => Build.setStateChangedCallback r sc), maxT := maxOpt s.maxT mt }, "cb")
  | ["sub", sid, j] => do
      let sid ← int? sid; let j ← nat? j
      if j ≥ s.g.length || s.cur == some j || reaches (s.g.length + 1) s.g j k then none else
      let (g', ok) := Def.guarded s.g k (fun r => Build.setSubStateMachine r sid j)
      pure ({ s with g := g' }, "sub " ++ b01 ok)
  | _ => none

def parseCall (ws : List String) : Option Call :=
  match ws with
  | ["start"] => some .start
  | ["stop"] => some .stop
  | ["restart"] => some .restart
  | ["run", e] => (event? e).map .run
  | _ => none

/-- trailing "@k" (the word has at least 2 characters and the line at least 2 words) -/
def splitTarget (ws : List String) : Option (List String × Option Nat) :=
  match ws.getLast? with
  | some w =>
    if ws.length ≥ 2 && w.length ≥ 2 && w.startsWith "@" then
      (nat? (w.drop 1).toString).map fun k => (ws.dropLast, some k)
    else some (ws, none)
  | none => some (ws, none)

def callLine (s : DS) (root : Nat) (k : Nat) (c : Call) : DS × List String :=
  let before := s.g.view k
  let r := aCall Fix.all (fuelFor s.g) s.g k c
  let res := match c with | .stop => "-" | _ => b01 r.2.1
  let lines := r.2.2.filterMap aevStr
  let depth := depthOf s.g root
  let tagLine := "B " ++ " ".intercalate (callTags depth c (k != root) before r.2.1 r.2.2)
  -- the tree model, when the case is still inside its fragment
  let (tree', extra) : Option (Mach maxDepth) × List String :=
    match s.tree with
    | some m =>
      if k != root then (none, ["B arena-only"]) else
      let t := applyCall maxDepth m c
      let tl := treeTrace t.1 t.2.2
      if tl == lines && t.2.1 == r.2.1 && treeSnapOk t.1 r.1 then (some t.1, ["B tree-model"])
      else (none, ["M MODEL-MISMATCH tree=" ++ " | ".intercalate tl])
    | none => (none, ["B arena-only"])
  ({ s with g := r.1, tree := tree' }, [tagLine] ++ extra ++ lines ++ ["P R " ++ res, snapLine r.1])

def stepLine (s : DS) (line : String) : DS × List String :=
  let ws := words line
  match ws with
  | [] => (s, [])
  | "case" :: _ => ({}, [line.trimAscii.toString])
  | _ =>
    match s.root with
    | some root =>
      match ws with
      | "def" :: k :: rest =>
        match nat? k with
        | none => (s, ["bad-op"])
        | some k =>
          if k ≥ s.g.length || rest.isEmpty then (s, ["bad-op"]) else
          match defCall s k true rest with
          | some (s', out) => ({ s' with tree := none }, ["P def " ++ out, snapLine s'.g])
          | none => (s, ["bad-op"])
      | _ =>
        match splitTarget ws with
        | none => (s, ["bad-op"])
        | some (ws', tgt) =>
          let k := tgt.getD root
          if k ≥ s.g.length then (s, ["bad-op"]) else
          match ws' with
          | ["json"] =>
            -- `toJson()` is const: same arena, and the snapshot line shows it
            (s, [s!"B json{if k != root then "-sub" else ""}", "P J " ++ aJson (s.g.length + 1) s.g k, snapLine s.g])
          | _ =>
          match parseCall ws' with
          | some c => callLine s root k c
          | none => (s, ["bad-op"])
    | none =>
      match s.cur with
      | some k =>
        match ws with
        | ["end"] => ({ s with cur := none }, [s!"P end {k}"])
        | _ =>
          match defCall s k false ws with
          | some (s', out) => (s', ["P " ++ out])
          | none => (s, ["bad-op"])
      | none =>
        match ws with
        | ["mach"] =>
            let k := s.g.length
            ({ s with g := s.g ++ [newRec k], cur := some k }, [s!"P mach {k}"])
        | ["go", k] =>
            match nat? k with
            | none => (s, ["bad-op"])
            | some k =>
              let tOk := match s.maxT with | some t => t < s.g.length | none => true
              if k ≥ s.g.length || !tOk then (s, ["bad-op"])
              else
                let tree := if inFragment s.g k then conv maxDepth s.g k else none
                ({ s with root := some k, tree := tree }, ["P go", snapLine s.g])
        | _ => (s, ["bad-op"])

def main : IO Unit := runDriver ({} : DS) stepLine
