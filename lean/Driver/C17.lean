/- C17 driver: op lines in, observable lines out (same format as props/C17/harness.cpp).

  tree <tokens>      build a tree (replaces the current one).  Tokens, prefix notation:
                       Fs Ff Fs:<tag> Ff:<tag>   FunctionAction returning true/false (reason "case:<tag>")
                       Z<k>                      SleepAction(100k + 2·id + 1 ms)
                       D                         DummyAction (completed by `emit`)
                       ( <head> child… )         composite; heads: seq:all|anyf|anys  par:all|anyf|anys
                                                 ife:tt|tf|ft  ift  sw:d|n  loop:fe|uf|us  lif:t|f
                                                 rep:<n>:nb|bf|bs  wr:n|i|s|f  cmp
                       any token may end in @<k>: setTimeout(100k + 2·id + 2 ms)      (id = preorder index)
  do <call>…         control calls made back to back: start pause resume stop reset emit:<id>:s|f|b
  defer <call>…      the same calls posted with runNext
  icb body|final <n> <target> <call>…   attach a one-shot script to the body of FunctionAction <n> / the final callback
                     of composite <n>, making the calls on node <target>.  From here on the case is in FREE mode: the
                     model does not predict it; both sides print `P free` per op, the harness evaluates the clauses
                     that need no prediction (see harness.cpp) and prints `P VIOLATION …`.   settle: check for stuck composites
  cb final|fin|blk <call>…   attach a one-shot script to the root's final / finish / block callback: the next
                     invocation of that callback makes these calls (start pause resume stop reset) on the root,
                     synchronously, from inside the callback; each result is reported as `P e ret <b>`
  adv <k>            clock += 100k ms        pass   nothing
  mark               `pass` + (8n+40) × `adv 60`; the harness records the end state if it is the control-free run of the freshly built tree
  cmpfresh           settle (as `mark`), then the harness compares the end state of a run that began with reset() + start()
                     on the root with the recorded one ("a reset tree behaves like a freshly built one"): when both runs
                     were passes and clock steps only, or when both were driven by the same op script (round 11)
  settmo <id> <k>|r<ms>   Action::setTimeout on node <id> at this pass (TmoCtl.lean)      clrtmo <id>   Action::resetTimeout
  advr <ms>          clock += ms (raw, ≤ 2^43)      passes <k>   k loop passes (≤ 200000), one snapshot at the end
  advdo <ms> <call>… a LATE pass: the clock moves by ms AFTER the timer phase, then the control calls (Late.lean `stepLate`)
                     leaves Zr<ms> (SleepAction of exactly ms), suffix @r<ms> (setTimeout(ms)), rep:<n> with n < 2^64
  cfg <abcd>         (debug) select the unrepaired code: a=fixPar b=fixReplay c=fixFin d=fixBlk, each 0/1

After every op the rest of the loop pass runs (queued tasks) and the timer phase of the next pass.
Output: `P e …` one line per event, then `P r=<call results> s=<state+result of every node>`.
Property monitors evaluated on the model run (the implementation agrees line by line or the differ
reports it) print `P MONITOR …` lines, which the harness never prints. -/
import TboxModel.Util
import TboxModel.C17.Model
import TboxModel.C17.Spec
import TboxModel.C17.Inv
import TboxModel.C17.Exec
import TboxModel.C17.Reent
import TboxModel.C17.Late
import TboxModel.C17.TmoCtl
open Tbox.Util Tbox.C17

def mode3? : String → Option Mode3
  | "all" => some .all | "anyf" => some .anyFail | "anys" => some .anySucc | _ => none

/-- raw durations / clock steps in ms are bounded by 2^43 (the code keeps time points as int64 nanoseconds) -/
def rawMax : Nat := 2 ^ 43

/-- `@<k>` (k ≤ 50): 100k + 2·id + 2 ms;  `@r<ms>` (ms ≤ 2^43): exactly ms.  Result: (base, (raw?, number)) -/
def splitTmo (tok : String) : Option (String × Option (Bool × Nat)) :=
  match tok.splitOn "@" with
  | [b] => some (b, none)
  | [b, k] =>
      if k.startsWith "r" then
        match (k.drop 1).toString.toNat? with
        | some ms => if ms ≤ rawMax then some (b, some (true, ms)) else none
        | none => none
      else match k.toNat? with
      | some k => if k ≤ 50 then some (b, some (false, k)) else none
      | none => none
  | _ => none

def tmoMs (id : Nat) (x : Bool × Nat) : Nat := if x.1 then x.2 else 100 * x.2 + 2 * id + 2

def leafKind (b : String) (id : Nat) : Option Kind :=
  match b.splitOn ":" with
  | ["Fs"] => some (.func true none)
  | ["Ff"] => some (.func false none)
  | ["Fs", t] => match t.toNat? with | some t => if t ≤ 20 then some (.func true (some t)) else none | none => none
  | ["Ff", t] => match t.toNat? with | some t => if t ≤ 20 then some (.func false (some t)) else none | none => none
  | ["D"] => some .dummy
  | [z] =>
      if z.startsWith "Zr" then
        match (z.drop 2).toString.toNat? with
        | some ms => if ms ≤ rawMax then some (.sleep ms) else none
        | none => none
      else if z.startsWith "Z" then
        match (z.drop 1).toString.toNat? with
        | some k => if k ≤ 50 then some (.sleep (100 * k + 2 * id + 1)) else none
        | none => none
      else none
  | _ => none

def headKind (b : String) : Option Kind :=
  match b.splitOn ":" with
  | ["seq", m] => (mode3? m).map .seq
  | ["par", m] => (mode3? m).map .par
  | ["ife", "tt"] => some (.ifElse true true)
  | ["ife", "tf"] => some (.ifElse true false)
  | ["ife", "ft"] => some (.ifElse false true)
  | ["ift"] => some .ifThen
  | ["sw", "d"] => some (.switch true)
  | ["sw", "n"] => some (.switch false)
  | ["loop", "fe"] => some (.loop .forever)
  | ["loop", "uf"] => some (.loop .untilFail)
  | ["loop", "us"] => some (.loop .untilSucc)
  | ["lif", "t"] => some (.loopIf true)
  | ["lif", "f"] => some (.loopIf false)
  | ["rep", n, m] =>
      match n.toNat? with
      | some n =>
        if n ≥ 2 ^ 64 then none else      -- RepeatAction(size_t times)
        match m with
        | "nb" => some (.repeat_ n .noBreak) | "bf" => some (.repeat_ n .breakFail) | "bs" => some (.repeat_ n .breakSucc)
        | _ => none
      | none => none
  | ["wr", "n"] => some (.wrapper .normal)
  | ["wr", "i"] => some (.wrapper .invert)
  | ["wr", "s"] => some (.wrapper .alwaysSucc)
  | ["wr", "f"] => some (.wrapper .alwaysFail)
  | ["cmp"] => some .composite
  | _ => none

def arityOk (k : Kind) (n : Nat) : Bool :=
  match k with
  | .seq _ | .par _ => true
  | .ifElse a b => n == 1 + (if a then 1 else 0) + (if b then 1 else 0)
  | .ifThen => n ≥ 2 && n % 2 == 0
  | .switch _ => n ≥ 2
  | .loopIf _ => n == 2
  | .loop _ | .repeat_ _ _ | .wrapper _ | .composite => n == 1
  | _ => n == 0

def listToTL : List T → TL
  | [] => .nil
  | t :: ts => .cons t (listToTL ts)

mutual
/-- (tree, remaining tokens, next free id) -/
partial def parseNode (toks : List String) (id : Nat) (depth : Nat) : Option (T × List String × Nat) :=
  if depth > 6 then none else
  match toks with
  | [] => none
  | "(" :: hd :: rest =>
      match splitTmo hd with
      | none => none
      | some (b, tmo) =>
        match headKind b with
        | none => none
        | some k =>
          match parseChildren rest (id + 1) (depth + 1) [] with
          | none => none
          | some (cs, rest', nid) =>
            if arityOk k cs.length then
              some (.node { id := id, kind := k, tmo := tmo.map (tmoMs id) } (listToTL cs), rest', nid)
            else none
  | ")" :: _ => none
  | tok :: rest =>
      match splitTmo tok with
      | none => none
      | some (b, tmo) =>
        match leafKind b id with
        | none => none
        | some k => some (.node { id := id, kind := k, tmo := tmo.map (tmoMs id) } .nil, rest, id + 1)
partial def parseChildren (toks : List String) (id : Nat) (depth : Nat) (acc : List T) : Option (List T × List String × Nat) :=
  match toks with
  | ")" :: rest => some (acc.reverse, rest, id)
  | [] => none
  | _ =>
    match parseNode toks id depth with
    | none => none
    | some (t, rest, nid) => parseChildren rest nid depth (t :: acc)
end

def parseTree (toks : List String) : Option (T × Nat) :=
  match parseNode toks 0 0 with
  | some (t, [], n) => if n ≤ 40 then some (t, n) else none
  | _ => none

def parseCall (n : Nat) (w : String) : Option Call :=
  match w.splitOn ":" with
  | ["start"] => some .start | ["pause"] => some .pause | ["resume"] => some .resume
  | ["stop"] => some .stop | ["reset"] => some .reset
  | ["emit", i, x] =>
      match i.toNat? with
      | some i =>
        if i ≥ n then none else
        match x with
        | "s" => some (.emitFin i true) | "f" => some (.emitFin i false) | "b" => some (.emitBlk i)
        | _ => none
      | none => none
  | _ => none

mutual
partial def snapshot : T → String
  | .node d cs =>
    (match d.st with | .idle => "I" | .running => "R" | .pause => "P" | .finished => "F" | .stoped => "S") ++
    (match d.res with | .unsure => "?" | .success => "+" | .fail => "-") ++ snapshotL cs
partial def snapshotL : TL → String
  | .nil => ""
  | .cons t ts => snapshot t ++ snapshotL ts
end

def showEv : Ev → String
  | .fn n => s!"fn {n}"
  | .final n => s!"final {n}"
  | .dcb n c => (match c with | 0 => "dstart " | 1 => "dstop " | 2 => "dpause " | 3 => "dresume " | _ => "dreset ") ++ toString n
  | .rootFin s w _ => s!"fin {if s then 1 else 0} {w}"
  | .rootBlk w _ => s!"blk {w}"
  | .ret b => s!"ret {if b then 1 else 0}"
  | .rst n => s!"rst {n}"

def isGhost : Ev → Bool
  | .rst _ => true
  | _ => false

/-! property monitors on the model state -/

mutual
/-- all nodes with their subtree -/
partial def nodesOf : T → List (Node × TL)
  | .node d cs => (d, cs) :: nodesOfL cs
partial def nodesOfL : TL → List (Node × TL)
  | .nil => []
  | .cons t ts => nodesOf t ++ nodesOfL ts
end

/-- after stop or finish no descendant is left running or paused -/
def quiescentViolations (t : T) : List Nat :=
  (nodesOf t).filterMap fun (d, cs) =>
    if (d.st == .finished || d.st == .stoped) && (nodesOfL cs).any (fun x => x.1.underway) then some d.id else none

/-- an idle (never started or reset) action has nothing queued, nothing armed, and idle descendants -/
def idleViolations (t : T) : List Nat :=
  (nodesOf t).filterMap fun (d, cs) =>
    if d.st == .idle && (!d.tasks.isEmpty || d.tmoAt.isSome || d.sleepAt.isSome || d.curr.isSome || d.held.isSome
        || !d.finished.isEmpty || !d.heldPar.isEmpty
        || (nodesOfL cs).any (fun x => x.1.st != .idle || !x.1.tasks.isEmpty)) then some d.id else none

/-- a Running composite must be waiting for something: a descendant under way, a queued notification /
replay in its subtree, or an armed timer in its subtree; otherwise it stays Running for ever -/
def stuckViolations (t : T) : List Nat :=
  (nodesOf t).filterMap fun (d, cs) =>
    if d.st == .running && !d.isLeaf &&
       !((nodesOfL cs).any (fun x => x.1.underway || !x.1.tasks.isEmpty || x.1.tmoAt.isSome || x.1.sleepAt.isSome)
         || !d.tasks.isEmpty || d.tmoAt.isSome) then some d.id else none

mutual
partial def hasPar : T → Bool
  | .node d cs => d.isPar || hasParL cs
partial def hasParL : TL → Bool
  | .nil => false
  | .cons t ts => hasPar t || hasParL ts
end

def kidsOf : TL → List Node
  | .nil => []
  | .cons t ts => t.data :: kidsOf ts

/-- a node that failed by its own timeout while the finish notification of one of its children is still queued: the
timeout expired in the same pass as the child finished (the notification will find its parent ended) -/
def tmoRace (t : T) : Bool :=
  (nodesOf t).any fun (d, cs) =>
    d.tmo.isSome && d.st == .finished && d.res == .fail &&
    (kidsOf cs).any (fun c => c.st == .finished && c.tasks.any (fun k => match k.2 with | .fin _ _ => true | _ => false))

/-- control calls that arrive while a ParallelAction of the tree is under way -/
def parCtlTags (t : T) (op : Op) : List String :=
  if (nodesOf t).any (fun x => x.1.isPar && x.1.underway) then
    match op with
    | .calls cs => cs.filterMap fun c => match c with
        | .pause => some "par+pause" | .resume => some "par+resume" | .stop => some "par+stop" | .reset => some "par+reset" | _ => none
    | .defer _ => ["par+defer"]
    | _ => []
  else []

def xShowSt (s : Exec.XS) : String :=
  if s.idc = 0 then "-" else
  String.join ((List.range s.idc).map fun i =>
    match (s.q0 ++ s.q1 ++ s.q2).find? (fun a => a.id == i + 1) with
    | some a => (match a.st with | .idle => "I" | .running => "R" | .pause => "P" | .finished => "F" | .stoped => "S")
    | none => "x")

def xShowEv : Exec.XEv → String
  | .started id => s!"xstarted {id}"
  | .finished id => s!"xfinished {id}"
  | .allFinished => "xall"

def parseXOp (xs : Option Exec.XS) (ws : List String) : Option Exec.XOp :=
  match ws with
  | ["xapp", k, p] =>
      match p.toNat? with
      | some p =>
        if p > 2 || (match xs with | some s => s.idc ≥ 30 | none => false) then none else
        match k with
        | "D" => some (.append .dummy p) | "Fs" => some (.append (.func true) p) | "Ff" => some (.append (.func false) p)
        | "X" => some (.append .dead p) | _ => none
      | none => none
  | ["xcancel", n] => if xs.isNone then none else match n.toNat? with | some n => if n ≥ 1 && n ≤ 1000 then some (.cancel n) else none | none => none
  | ["xcancelcur"] => if xs.isNone then none else some .cancelCurrent
  | ["xcancelall"] => if xs.isNone then none else some .cancelAll
  | ["xemit", n, r] =>
      if xs.isNone then none else
      match n.toNat? with
      | some n => if n ≥ 1 && n ≤ 1000 then (if r == "s" then some (.emit n true) else if r == "f" then some (.emit n false) else none) else none
      | none => none
  | ["xpass"] => if xs.isNone then none else some .pass
  | _ => none

structure DS where
  xs : Option Exec.XS := none
  xstarted : List Nat := []
  xfinished : List Nat := []
  tree : Option (T × Nat) := none
  g : G := {}
  cfg : Cfg := {}
  plain : Bool := true          -- only `do start` once, adv, pass so far: the evaluator applies
  started : Bool := false
  scripted : Bool := false      -- a callback script was attached in this case: the re-entrant layer runs
  free : Bool := false          -- an inner call-out script was attached (`icb`): the model does not predict the run,
                                -- the harness checks the prediction-free clauses itself (`P VIOLATION …`)
  rootFins : Nat := 0           -- finish callbacks of the root since its last reset
  finals : List Nat := []       -- nodes whose final callback ran since their last reset
  nops : Nat := 0

def stateLetter (t : T) : St := t.data.st

/-- process the events of one op in order, maintaining the once-per-run monitors -/
def monitorEvents (ds : DS) (evs : List Ev) (_t : T) : DS × List String :=
  evs.foldl (fun (p : DS × List String) e =>
    let (ds, out) := p
    match e with
    | .rootFin _ _ _ =>
        if ds.rootFins ≥ 1 then (ds, out ++ ["P MONITOR finish-notification-delivered-twice-in-one-run"])
        else ({ ds with rootFins := ds.rootFins + 1 }, out)
    | .final n =>
        if ds.finals.contains n then (ds, out ++ [s!"P MONITOR final-callback-twice-in-one-run node={n}"])
        else ({ ds with finals := n :: ds.finals }, out)
    | .rst n => ({ ds with finals := ds.finals.erase n, rootFins := if n == 0 then 0 else ds.rootFins }, out)
    | _ => (ds, out)) (ds, [])
  |> fun (ds, out) =>
    -- a delivered notification must belong to the current run: the root is finished / paused by block
    -- a delivered notification must belong to the current run
    let stale := evs.filterMap fun e =>
      match e with
      | .rootFin _ _ st => if st != .finished then some "P MONITOR stale-finish-notification (root was not finished)" else none
      | .rootBlk _ st => if st == .idle || st == .stoped then some "P MONITOR stale-block-notification (root was idle or stopped)" else none
      | _ => none
    (ds, out ++ stale)

def stepLine (ds : DS) (line : String) : DS × List String :=
  let ws := words line
  match ws with
  | [] => (ds, [])
  | "case" :: _ => ({}, [line.trimAscii.toString])
  | ["cfg", bits] =>
      match bits.toList with
      | [a, b, c, e] =>
          if [a, b, c, e].all (fun x => x == '0' || x == '1') && ds.tree.isNone then
            ({ ds with cfg := { fixPar := a == '1', fixReplay := b == '1', fixFin := c == '1', fixBlk := e == '1' } }, ["P cfg"])
          else (ds, ["bad-op"])
      | _ => (ds, ["bad-op"])
  | ["share", k] =>
      -- ONE leaf object attached to TWO parents of kind k: the second attach is refused by `Action::setParent` (the leaf has a parent);
      -- the second parent neither uses nor owns the leaf.  (`M`: what the refusing call returns; Sequence returns `false` = 0.)
      if ds.xs.isSome || ds.tree.isSome then (ds, ["bad-op"]) else
      match k with
      | "seq" => (ds, ["M share ret1=0 ret2=0", "P share seq st2=F+ calls2=0 st1=R calls1=1"])
      | "par" => (ds, ["M share ret1=0 ret2=-1", "P share par st2=F+ calls2=0 st1=R calls1=1"])
      | "ift" => (ds, ["M share ret1=0 ret2=-1", "P share ift st2=F- calls2=0"])
      | "ife" | "sw" | "loop" | "lif" | "rep" | "wr" | "cmp" => (ds, ["M share ret1=1 ret2=0", s!"P share {k} ready2=0"])
      | _ => (ds, ["bad-op"])
  | "tree" :: toks =>
      if ds.xs.isSome then (ds, ["bad-op"]) else
      match parseTree toks with
      | none => (ds, ["bad-op"])
      | some (t, n) =>
          ({ tree := some (t, n), g := { cfg := ds.cfg }, cfg := ds.cfg, nops := ds.nops },
           [s!"P tree n={n} s={snapshot t}"])
  | opw :: args =>
    if opw.startsWith "x" then
      -- ActionExecutor ops (only in a case without a tree)
      if ds.tree.isSome then (ds, ["bad-op"]) else
      match parseXOp ds.xs ws with
      | none => (ds, ["bad-op"])
      | some op =>
        let s0 : Exec.XS := { (ds.xs.getD {}) with log := [] }
        let (s1', r) := Exec.xstep s0 op
        -- the rest of the loop pass: queued finish notifications run (each calls schedule())
        let s1 := (Exec.xstep s1' .pass).1
        let evs := s1.log.reverse
        -- monitors: one action running at a time; callbacks once per action
        let running := ((s1.q0 ++ s1.q1 ++ s1.q2).filter fun a => a.st == .running).length
        let mon := (if running > 1 then ["P MONITOR executor-runs-two-actions"] else [])
          ++ (if Exec.xinv s1 then [] else ["P MONITOR executor-invariant-broken"])
          ++ (if (evs.filterMap fun e => match e with | .started i => some i | _ => none).any
                  (fun i => (ds.xstarted.contains i)) then ["P MONITOR executor-started-callback-twice"] else [])
          ++ (if (evs.filterMap fun e => match e with | .finished i => some i | _ => none).any
                  (fun i => (ds.xfinished.contains i)) then ["P MONITOR executor-finished-callback-twice"] else [])
        ({ ds with xs := some s1,
                   xstarted := ds.xstarted ++ (evs.filterMap fun e => match e with | .started i => some i | _ => none),
                   xfinished := ds.xfinished ++ (evs.filterMap fun e => match e with | .finished i => some i | _ => none) },
         ["B x-" ++ opw] ++ evs.map (fun e => "P e " ++ xShowEv e) ++ mon ++ [s!"P x r={r} cur={Exec.current s1} st={xShowSt s1}"])
    else
    if ds.xs.isSome then (ds, ["bad-op"]) else
    match ds.tree with
    | none => (ds, ["bad-op"])
    | some (t, n) =>
      let ctl (w : String) : Option Call :=
        match w with
        | "start" => some .start | "pause" => some .pause | "resume" => some .resume | "stop" => some .stop | "reset" => some .reset
        | _ => none
      let opr? : Option OpR :=
        match opw, args with
        | "do", _ :: _ => (args.mapM (parseCall n)).map (fun c => .op (.calls c))
        | "defer", _ :: _ => (args.mapM (parseCall n)).map (fun c => .op (.defer c))
        | "adv", [k] => match k.toNat? with | some k => if k ≤ 100 then some (.op (.adv (100 * k))) else none | none => none
        | "advr", [k] => match k.toNat? with | some k => if k ≤ rawMax then some (.op (.adv k)) else none | none => none
        | "pass", [] => some (.op .pass)
        | "cb", which :: (c1 :: cs) =>
            if (c1 :: cs).length > 6 then none else
            match which, (c1 :: cs).mapM ctl with
            | "final", some l => some (.cb .final l)
            | "fin", some l => some (.cb .fin l)
            | "blk", some l => some (.cb .blk l)
            | _, _ => none
        | _, _ => none
      -- free mode: syntax only
      let isFn (t : T) (i : Nat) : Bool := (nodesOf t).any (fun x => x.1.id == i && (match x.1.kind with | .func _ _ => true | _ => false))
      let isAsm (t : T) (i : Nat) : Bool := (nodesOf t).any (fun x => x.1.id == i && !x.1.isLeaf)
      let icb? : Option Bool :=
        match opw, args with
        | "icb", which :: ni :: tg :: (c1 :: cs) =>
            if (c1 :: cs).length > 6 then some false else
            match ni.toNat?, tg.toNat?, (c1 :: cs).mapM ctl with
            | some ni, some tg, some _ =>
                some (ni < n && tg < n && ((which == "body" && isFn t ni) || (which == "final" && isAsm t ni)))
            | _, _, _ => some false
        | "icb", _ => some false
        | "settle", [] => some ds.free
        | "settle", _ => some false
        | "cmpfresh", [] => if ds.free then some true else none
        | "cmpfresh", _ => some false
        | "settmo", [ni, sp] =>
            match ni.toNat?, splitTmo ("x@" ++ sp) with
            | some ni, some (_, some _) => if ni < n then (if ds.free then some true else none) else some false
            | _, _ => some false
        | "settmo", _ => some false
        | "clrtmo", [ni] =>
            match ni.toNat? with
            | some ni => if ni < n then (if ds.free then some true else none) else some false
            | none => some false
        | "clrtmo", _ => some false
        | _, _ => none
      -- a late pass: `advdo <ms> <call>…`
      let late? : Option (Option (Nat × List Call)) :=
        match opw, args with
        | "advdo", k :: (c1 :: cs) =>
            match k.toNat?, (c1 :: cs).mapM (parseCall n) with
            | some k, some l => if k ≤ rawMax then some (some (k, l)) else some none
            | _, _ => some none
        | "advdo", _ => some none
        | _, _ => none
      let opr? : Option OpR := match late? with
        | some (some (_, l)) => some (.op (.calls l))
        | some none => none
        | none => opr?
      let lateMs : Nat := match late? with | some (some (k, _)) => k | _ => 0
      -- a timeout change at this pass: the model applies it (TmoCtl.lean `stepT`), then the pass runs
      let tmoOp? : Option (Nat × Option Nat) :=
        match opw, args with
        | "settmo", [ni, sp] =>
            match ni.toNat?, splitTmo ("x@" ++ sp) with
            | some ni, some (_, some x) => some (ni, some (tmoMs ni x))
            | _, _ => none
        | "clrtmo", [ni] => ni.toNat?.map fun ni => (ni, none)
        | _, _ => none
      let opr? : Option OpR := if tmoOp?.isSome then some (.op .pass) else opr?
      match icb? with
      | some false => (ds, ["bad-op"])
      | some true => ({ ds with free := true, plain := false }, ["B free-mode", "P free"])
      | none =>
      match opr? with
      | none => (ds, ["bad-op"])
      | some opr =>
        if ds.free then (ds, ["B free-mode", "P free"]) else
        let ds := { ds with scripted := ds.scripted || (match opr with | .cb _ _ => true | _ => false) }
        let op : Op := match opr with | .op o => o | .cb _ _ => .pass
        let g0 := { ds.g with log := [], now := ds.g.now + lateMs }      -- (lateMs ≠ 0: `stepLate` / `stepLateR` of Late.lean)
        let (t, g0) := match tmoOp? with
          | some (ni, ms) => setTimeoutAt t g0 ni ms
          | none => (t, g0)
        -- without callback scripts the model of Model.lean runs (the one the theorems of layers 1–3 are about)
        let (t', g', rs) := if ds.scripted then stepR t g0 opr else step t g0 op
        let evs := g'.log.reverse
        -- resets clear the once-per-run monitors of the nodes that are idle again
        let isPlainOp := !ds.scripted && match op with
          | .calls [.start] => !ds.started
          | .adv _ | .pass => true
          | _ => false
        let isPlainOp := isPlainOp && late?.isNone && tmoOp?.isNone
        let ds := { ds with plain := ds.plain && isPlainOp,
                            started := ds.started || (match op with | .calls _ | .defer _ => true | _ => false) }
        let (ds, mon) := monitorEvents ds evs t'
        let q := quiescentViolations t'
        let iv := idleViolations t'
        let sv := stuckViolations t'
        let mon := mon ++ (if q.isEmpty then [] else [s!"P MONITOR descendant-left-underway-below-ended-node {q}"])
                       ++ (if sv.isEmpty || ds.cfg != {} then [] else [s!"P MONITOR running-composite-waits-for-nothing {sv}"])
                       ++ (if iv.isEmpty then [] else [s!"P MONITOR idle-node-not-fresh {iv}"])
                       ++ (if WF t' || ds.cfg != {} then [] else ["P MONITOR tree-invariant-WF-broken"])
        -- the documented meaning, for runs without control calls
        let spec :=
          if ds.plain && evalOk t then
            match evs.find? (fun e => match e with | .rootFin _ _ _ => true | _ => false), eval t with
            | some (.rootFin s w _), some (s', w') =>
                if s == s' && w == w' then ["B spec-agree"] else [s!"P MONITOR result-differs-from-documented-meaning doc={s'} {w'}"]
            | some _, none => ["P MONITOR finished-although-documented-meaning-diverges"]
            | _, _ => []
          else []
        let rstr := if rs.isEmpty then "-" else String.join (rs.map fun b => if b then "1" else "0")
        let tags := (match op with
            | .calls cs => cs.map fun c => match c with
                | .start => "c-start" | .pause => "c-pause" | .resume => "c-resume" | .stop => "c-stop" | .reset => "c-reset"
                | .emitFin _ _ => "c-emitfin" | .emitBlk _ => "c-emitblk"
            | .defer _ => ["defer"] | .adv _ => ["adv"] | .pass => (match opr with | .cb .final _ => ["cb-final"] | .cb .fin _ => ["cb-fin"] | .cb .blk _ => ["cb-blk"] | _ => ["pass"]))
          ++ (if ds.scripted && evs.any (fun e => match e with | .ret _ => true | _ => false) && !(match op with | .defer _ => true | _ => false) then ["script-ran"] else [])
          ++ (if (nodesOf t').any (fun x => x.1.held.isSome) then ["held-back"] else [])
          ++ (if (nodesOf t').any (fun x => !x.1.heldPar.isEmpty) then ["held-back-par"] else [])
          ++ (if (nodesOf t').any (fun x => x.1.tasks.any (fun k => match k.2 with | .replay _ | .replayPar => true | _ => false)) then ["replay-queued"] else [])
          ++ (if evs.any (fun e => match e with | .rootFin _ _ _ => true | _ => false) then ["root-fin"] else [])
          ++ (if evs.any (fun e => match e with | .rootBlk _ _ => true | _ => false) then ["root-blk"] else [])
          ++ (if (nodesOf t').any (fun x => x.1.tmoAt.isSome) then ["tmo-armed"] else [])
          ++ (if (nodesOf t').any (fun x => x.1.tmoAt.isSome && x.1.st == .pause) then ["tmo-blocked"] else [])
          ++ (if (nodesOf t).any (fun x => x.1.tmoAt.isSome && x.1.st == .pause) && (match op with | .calls cs => cs.contains .reset | .defer cs => cs.contains .reset | _ => false)
              then ["tmo-blocked-reset"] else [])
          ++ (if tmoOp?.isSome then ["settmo"] else [])
          ++ parCtlTags t op
          ++ (if tmoRace t' then ["tmo-race"] else [])
          ++ (if (nodesOf t').any (fun x => x.1.isPar && x.1.st == .pause) then ["par-paused"] else [])
          ++ (if (nodesOf t').any (fun x => x.1.res == .fail && x.1.tmo.isSome && x.1.st == .finished) then ["tmo-node-failed"] else [])
        ({ ds with tree := some (t', n), g := g', nops := ds.nops + 1 },
         ["B " ++ " ".intercalate tags] ++ spec.filter (·.startsWith "B ") ++ (evs.filter (fun e => !isGhost e)).map (fun e => "P e " ++ showEv e)
           ++ mon ++ spec.filter (·.startsWith "P ") ++ [s!"P r={rstr} s={snapshot t'}"])

/-- `passes <k>` (1 ≤ k ≤ 200000): k loop passes, events as they happen, one snapshot at the end -/
def stepLineX (ds : DS) (line : String) : DS × List String :=
  match words line with
  | ["passes", k] =>
      match k.toNat? with
      | some k =>
        if k < 1 || k > 200000 || ds.tree.isNone || ds.xs.isSome then (ds, ["bad-op"]) else
        if ds.free then (ds, ["B free-mode", "P free"]) else
        let r := (List.range k).foldl (fun (p : DS × Array String) i =>
          let (ds', out) := stepLine p.1 "pass"
          let keep := out.filter fun l => if i + 1 == k then true else !(l.startsWith "P r=") && !(l.startsWith "B ")
          (ds', p.2 ++ keep.toArray)) (ds, #[])
        (r.1, ["B passes"] ++ r.2.toList)
      | none => (ds, ["bad-op"])
  | [mk] =>
      if mk != "mark" && mk != "cmpfresh" then stepLine ds line else
      if mk == "cmpfresh" && ds.free then stepLine ds line else
      -- `mark` = `pass` followed by 8n+40 times `adv 60`, one snapshot at the end (the harness records the end state);
      -- `cmpfresh` outside free mode: the same steps (the harness compares the end state with the recorded one)
      match ds.tree with
      | none => (ds, ["bad-op"])
      | some (_, n) =>
        if ds.free || ds.xs.isSome then (ds, ["bad-op"]) else
        let k := 8 * n + 41
        let r := (List.range k).foldl (fun (p : DS × Array String) i =>
          let (ds', out) := stepLine p.1 (if i == 0 then "pass" else "adv 60")
          let keep := out.filter fun l => if i + 1 == k then true else !(l.startsWith "P r=") && !(l.startsWith "B ")
          (ds', p.2 ++ keep.toArray)) (ds, #[])
        (r.1, ["B " ++ mk] ++ r.2.toList)
  | _ => stepLine ds line

def main : IO Unit := runDriver ({} : DS) stepLineX
