/- C18 driver: op lines in, observable lines out (same format as props/C18/harness.cpp).
   `c18 orig` runs the model of the code as found (before patches/C18-*). -/
import TboxModel.Util
import TboxModel.C18.Model
import TboxModel.C18.Compact
import TboxModel.C18.SemWidth
open Tbox.Util Tbox.C18

def nPrims : Nat := 4

/-- canonical decimal, at most 6 digits, below `lim` -/
def num? (w : String) (lim : Nat) : Option Nat :=
  let cs := w.toList
  if cs.isEmpty ∨ cs.length > 6 then none
  else if !cs.all (fun c => '0' ≤ c ∧ c ≤ '9') then none
  else
    let v := cs.foldl (fun a c => a * 10 + (c.toNat - 48)) 0
    if v < lim then some v else none

def two? (w : String) : Option (Nat × Nat) :=
  match w.splitOn ":" with
  | [a, b] => do pure ((← num? a nPrims), (← num? b 1000))
  | _ => none

def parseSOp (w : String) (ndefs : Nat) : Option Op :=
  match w.toList with
  | ['y'] => some .yield
  | ['w'] => some .wait
  | ['e'] => some .exit
  | ['t'] => some .throw
  | ['K'] => some .rcleanup
  | 's' :: r => (two? (String.ofList r)).map fun p => .send p.1 p.2
  | 'r' :: r => (num? (String.ofList r) nPrims).map .recv
  | 'l' :: r => (num? (String.ofList r) nPrims).map .lock
  | 'u' :: r => (num? (String.ofList r) nPrims).map .unlock
  | 'a' :: r => (num? (String.ofList r) nPrims).map .acquire
  | 'v' :: r => (num? (String.ofList r) nPrims).map .release
  | 'p' :: r => (num? (String.ofList r) nPrims).map .post
  | 'b' :: r => (num? (String.ofList r) nPrims).map .bwait
  | 'c' :: 'w' :: r => (num? (String.ofList r) nPrims).map .cwait
  | 'c' :: 'a' :: r => (two? (String.ofList r)).map fun p => .cadd p.1 p.2
  | 'c' :: 'p' :: r => (two? (String.ofList r)).map fun p => .cpost p.1 p.2
  | 'j' :: r => (num? (String.ofList r) 64).map .join
  | 'x' :: r => (num? (String.ofList r) 64).map .cancel
  | 'R' :: r => (num? (String.ofList r) 64).map .resume
  | 'n' :: r => (num? (String.ofList r) ndefs).map fun d => .create d true
  | 'N' :: r => (num? (String.ofList r) ndefs).map fun d => .create d false
  | _ => none

def parseScript (w : String) (ndefs : Nat) : Option (List Op) :=
  if w == "-" then some []
  else if w.endsWith "," then none
  else (w.splitOn ",").mapM fun item => parseSOp item ndefs

def showOp : Op → String
  | .yield => "y" | .wait => "w" | .exit => "e"
  | .send c v => s!"s{c}:{v}" | .recv c => s!"r{c}"
  | .lock m => s!"l{m}" | .unlock m => s!"u{m}"
  | .acquire k => s!"a{k}" | .release k => s!"v{k}"
  | .post b => s!"p{b}" | .bwait b => s!"b{b}"
  | .cadd k v => s!"ca{k}:{v}" | .cwait k => s!"cw{k}" | .cpost k v => s!"cp{k}:{v}"
  | .join t => s!"j{t}" | .cancel t => s!"x{t}" | .resume t => s!"R{t}"
  | .create d true => s!"n{d}" | .create d false => s!"N{d}"
  | .throw => "t" | .rcleanup => "K"

def showRes : Res → String
  | .ok => "ok" | .fail => "fail" | .val v => s!"v{v}"

/-- `Mutex::Locker`'s constructor has no result: the `lock()` it makes is logged as `ok` on both sides -/
def hideRes (s : State) (e : Ev) : Res :=
  match e.op with
  | .lock _ => if e.r ≠ mainR ∧ (s.R e.r).raii then .ok else e.res
  | _ => e.res

def showEvS (s : State) (e : Ev) : String :=
  if e.r = mainR then s!"P e r=main {showOp e.op} {showRes e.res} c=0"
  else s!"P e r={e.r} {showOp e.op} {showRes (hideRes s e)} c={if e.canc then 1 else 0}"

/-- calls that may be made from the main context through a `main <op>` line (create / cancel are the
`new` / `cancel` lines; exit / throw are not calls) -/
def mainCallable : Op → Bool
  | .create _ _ | .cancel _ | .resume _ | .exit | .throw | .rcleanup => false
  | _ => true

def summary (s : State) : String :=
  let st := if s.n = 0 then "-" else
    ",".intercalate ((List.range s.n).map fun r =>
      let x := s.R r
      if !x.started then "u" else if x.state = .dead then "d" else toString x.done)
  let ch := String.join ((List.range nPrims).map fun c => if (s.ch c).queue.isEmpty then "1" else "0")
  let sm := String.join ((List.range nPrims).map fun k => if (s.sm k).count = 0 then "0" else "1")
  -- `Channel::size()` returns `bool` (queue_.size() narrowed): true iff non-empty
  let cz := String.join ((List.range nPrims).map fun c => if (s.ch c).queue.isEmpty then "0" else "1")
  s!"P st={st} ch={ch} cz={cz} sm={sm}" ++ (if s.stuck then " cleanup-did-not-terminate" else "") ++
    (if s.corrupt then " stack-smaller-than-first-frame" else "")

def parseMain (s : State) (ws : List String) : Option MainOp :=
  match ws with
  | ["def", xf, sc] => do
      let xf ← num? xf 2
      if s.defs.length ≥ 32 then none
      let ops ← parseScript sc s.defs.length
      pure (.define (xf == 1) ops)
  -- a script whose `l<m>` / `u<m>` are the constructor / scope end of a `Mutex::Locker` (RAII: scopes are left when it returns)
  | ["defr", sc] => do
      if s.defs.length ≥ 32 then none
      let ops ← parseScript sc s.defs.length
      pure (.defineR ops)
  | ["new", d, now] => do pure (.new (← num? d s.defs.length) ((← num? now 2) == 1))
  | ["resume", r] => do pure (.resume (← num? r s.n))
  | ["cancel", r] => do pure (.cancel (← num? r s.n))
  | ["cleanup"] => some .cleanup
  | ["pass"] => some .pass
  | ["main", w] => do
      let op ← parseSOp w s.defs.length
      if mainCallable op then pure (.call op) else none
  -- stack size (KiB) of the routines created from now on
  | ["stack", k] => do
      let v ← num? k 1025
      if v = 64 ∨ v = 128 ∨ v = 256 ∨ v = 1024 then pure (.stack (v * 1024)) else none
  -- the same in bytes, from 0 (round 5: `Routine::Routine` clamps to ROUTINE_STACK_MIN_SIZE, patches/C18-08)
  | ["stackb", b] => do pure (.stack (← num? b 1000000))
  | _ => none

/-- `semw <init> <a|v…>`: one private `Semaphore(sch, init)` used by one routine, at the C++ width
(`TboxModel/C18/SemWidth.lean`, repaired arithmetic): g = granted, r = released, B = the acquire blocked (end);
`nz` = `Semaphore::count()` (declared `bool`) after the run -/
def int? (w : String) : Option Int :=
  let cs := w.toList
  let (neg, ds) := match cs with | '-' :: r => (true, r) | r => (false, r)
  if ds.isEmpty ∨ ds.length > 10 ∨ !ds.all (fun c => '0' ≤ c ∧ c ≤ '9') ∨ (ds.length > 1 ∧ ds.head? = some '0') ∨ (neg ∧ ds = ['0']) then none
  else
    let v : Int := ds.foldl (fun a c => a * 10 + (c.toNat - 48)) (0 : Nat)
    let x := if neg then -v else v
    if SemW.INT_MIN ≤ x ∧ x ≤ SemW.INT_MAX then some x else none

def semwLine (orig : Bool) (init : Int) (ops : List Char) : String :=
  let rec go (s : SemW.St) (acc : String) : List Char → SemW.St × String
    | [] => (s, acc)
    | c :: cs =>
        let s' := SemW.stepW (!orig) s (if c = 'a' then .acq else .rel)
        if s'.blocked then (s', acc ++ "B") else go s' (acc ++ (if c = 'a' then "g" else "r")) cs
  let (s, r) := go { count := init } "" ops
  s!"P semw {r} nz={if s.count = 0 then 0 else 1}"

/-- coarse state tags for the distribution statistics -/
def stateTags (s : State) (op : MainOp) : List String :=
  let live := (List.range s.n).filter fun r => !(s.R r).freed
  let susp := live.filter fun r => (s.R r).state = .suspend ∧ (s.R r).inOp
  (if susp.length ≥ 2 then ["susp>=2"] else []) ++
  (if s.readyq.isEmpty then ["idle"] else ["busy"]) ++
  (match op with
   | .cleanup => if live.any (fun r => (s.R r).started) then ["cleanup-started"] else ["cleanup"]
   | .cancel r => if (s.R r).state = .suspend ∧ (s.R r).inOp then ["cancel-blocked-main"] else ["cancel"]
   | .resume r => if (s.R r).state = .suspend ∧ (s.R r).inOp then ["spurious-resume"] else ["resume"]
   | .call op => [if (mainCall s op).aborted then "main-abort" else
                  if (mainCall s op).readyq.length > s.readyq.length then "main-wake" else "main-call"]
   | _ => []) ++
  (if s.stuck then ["STUCK"] else [])

def stepLine (orig : Bool) (s : State) (line : String) : State × List String :=
  let ws := words line
  match ws with
  | [] => (s, [])
  | "case" :: _ => ((if orig then initOrig else init), [line.trimAscii.toString])
  | _ =>
    if s.aborted then (s, ["P aborted"]) else
    let sw : Option String := match ws with
      | ["semw", i, o] =>
          if o.length = 0 ∨ o.length > 64 ∨ !o.toList.all (fun c => c = 'a' ∨ c = 'v') then none
          else (int? i).map fun v => semwLine orig v o.toList
      | _ => none
    match sw with
    | some l =>
      let s0 := { s with tags := [] }
      let s' := stepC nPrims s0 .pass
      if s'.aborted then (s', ["B semw abort", l] ++ ((s'.log.take s'.abortAt).drop s.log.length).map (showEvS s') ++ ["P aborted"])
      else (s', ["B semw", l] ++ (s'.log.drop s.log.length).map (showEvS s') ++ [summary s'])
    | none =>
    match parseMain s ws with
    | none => (s, ["bad-op"])
    | some op =>
      let s0 := { s with tags := [] }
      let pre := stateTags s0 op
      -- `stepC` = `step` with the tables re-tabulated into arrays every 64 operations (`C18_stepC_eq`: equal to `step`)
      let s' := stepC nPrims s0 op
      if s'.aborted then
        -- the process is gone: the trace ends where abort() was called
        let evs := ((s'.log.take s'.abortAt).drop s.log.length).map (showEvS s')
        (s', ["B " ++ " ".intercalate (pre ++ ["abort"])] ++ evs ++ ["P aborted"])
      else
      let evs := (s'.log.drop s.log.length).map (showEvS s')
      (s', ["B " ++ " ".intercalate (pre ++ s'.tags ++ ["n" ++ toString (min s'.n 7)])] ++ evs ++ [summary s'])

def main (args : List String) : IO Unit :=
  let orig := args.contains "orig"
  runDriver (if orig then initOrig else init) (stepLine orig)
