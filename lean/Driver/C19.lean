/- C19 driver: op lines in, observable lines out (same format as props/C19/harness.cpp).
For the "equals the published algorithm" operations the expected answer printed is the one of the
independent reference in Spec.lean; if the table-driven model (tables regenerated from the source)
disagrees with it an extra `P model-disagrees-with-spec` line is printed. -/
import TboxModel.Util
import TboxModel.C19.Model
import TboxModel.C19.Spec
import TboxModel.C19.Long
import TboxModel.C19.Alias
open Tbox.Util Tbox.C19

structure DSt where
  ser : Option Ser.S := none
  des : Option Ser.D := none

def u64? (s : String) : Option Nat := do
  let n ← s.toNat?
  if n < 2 ^ 64 then some n else none

def endian? : String → Option Ser.Endian
  | "b" => some .big
  | "l" => some .little
  | _ => none

def bool01? : String → Option Bool
  | "0" => some false
  | "1" => some true
  | _ => none

def block16? (s : String) : Option (List UInt8) := do
  let b ← bytesOfHex s
  if b.length = 16 then some b else none

/-- render a `Res` whose payload is (ret, bytes) -/
def showRetOut (op : String) : Res (Nat × List UInt8) → String
  | .ok (r, o) => s!"P {op} ret={r} out={hexOfBytes o}"
  | .oob w => s!"P {op} OOB {w}"
  | .exc k => s!"P {op} exc={k}"
  | .assertFail => s!"P {op} assert"

def showBytes (op : String) : Res (List UInt8) → String
  | .ok o => s!"P {op} {hexOfBytes o}"
  | .oob w => s!"P {op} OOB {w}"
  | .exc k => s!"P {op} exc={k}"
  | .assertFail => s!"P {op} assert"

/-- appends the comparison with an external reference value (`ref=<text>` last token) -/
def withRef (ref : Option String) (value : String) (line : String) : String :=
  match ref with
  | none => line
  | some r => line ++ (if r = value then " ref=ok" else " ref=BAD")

def splitRef (ws : List String) : List String × Option String :=
  match ws.getLast? with
  | some l => if l.startsWith "ref=" then (ws.dropLast, some (l.drop 4).toString) else (ws, none)
  | none => (ws, none)

/-- decimal text of an integer exactly as `std::to_string` prints it (no "+", no "-0", no leading zeros) -/
def int? (s : String) : Option Int := do
  let v ← s.toInt?
  if toString v = s then some v else none

/-- strips the memory-placement suffix `@<R|L><0-7><0-7>` (the model is placement independent); `none` = malformed -/
def splitPlace (ws : List String) : Option (List String) :=
  match ws.getLast? with
  | some l =>
    if l.startsWith "@" then
      match l.toList with
      | ['@', m, i, o] => if (m = 'R' ∨ m = 'L') ∧ '0' ≤ i ∧ i ≤ '7' ∧ '0' ≤ o ∧ o ≤ '7' then some ws.dropLast else none
      | _ => if l.length = 4 then none else some ws
    else some ws
  | none => some ws

def md5Step? (w : String) : Option Md5.Step :=
  if w = "f" then some none
  else if w.startsWith "u:" then (bytesOfHex (w.drop 2).toString).map some
  else none

def field? (w : String) : Option Ser.Field :=
  match w.splitOn ":" with
  | ["s1", v] => do let i ← int? v; if -2 ^ 7 ≤ i ∧ i < 2 ^ 7 then some (.int 1 (Ser.toUnsigned 1 i)) else none
  | ["s2", v] => do let i ← int? v; if -2 ^ 15 ≤ i ∧ i < 2 ^ 15 then some (.int 2 (Ser.toUnsigned 2 i)) else none
  | ["s4", v] => do let i ← int? v; if -2 ^ 31 ≤ i ∧ i < 2 ^ 31 then some (.int 4 (Ser.toUnsigned 4 i)) else none
  | ["s8", v] => do let i ← int? v; if -2 ^ 63 ≤ i ∧ i < 2 ^ 63 then some (.int 8 (Ser.toUnsigned 8 i)) else none
  | ["f4", h] => do let b ← bytesOfHex h; if b.length = 4 then some (.pod b) else none
  | ["f8", h] => do let b ← bytesOfHex h; if b.length = 8 then some (.pod b) else none
  | ["i1", v] => do let n ← v.toNat?; if n < 2 ^ 8 then some (.int 1 n) else none
  | ["i2", v] => do let n ← v.toNat?; if n < 2 ^ 16 then some (.int 2 n) else none
  | ["i4", v] => do let n ← v.toNat?; if n < 2 ^ 32 then some (.int 4 n) else none
  | ["i8", v] => do let n ← v.toNat?; if n < 2 ^ 64 then some (.int 8 n) else none
  | ["r", h] => do pure (.raw (← bytesOfHex h))
  | ["p", h] => do pure (.pod (← bytesOfHex h))
  | ["e", e] => do pure (.endian (← endian? e))
  | _ => none

def intWidth? (s : String) : Option Nat :=
  match s with
  | "1" => some 1 | "2" => some 2 | "4" => some 4 | "8" => some 8 | _ => none


/-- lower case = object A, upper case = object B (built with `AES(nullptr)`) -/
def aesStep? (w : String) : Option (Bool × Aes.Op) :=
  if w.startsWith "k:" then (block16? (w.drop 2).toString).map (fun x => (false, .setKey x))
  else if w.startsWith "e:" then (block16? (w.drop 2).toString).map (fun x => (false, .enc x))
  else if w.startsWith "d:" then (block16? (w.drop 2).toString).map (fun x => (false, .dec x))
  else if w.startsWith "K:" then (block16? (w.drop 2).toString).map (fun x => (true, .setKey x))
  else if w.startsWith "E:" then (block16? (w.drop 2).toString).map (fun x => (true, .enc x))
  else if w.startsWith "D:" then (block16? (w.drop 2).toString).map (fun x => (true, .dec x))
  else none

/-- reference outputs of an interleaved history: FIPS-197 under the last key installed ON THAT OBJECT; `none` = an object is used
before it has a key (not driven: the real object would read uninitialised round keys) -/
def aesTwoRef : Option (List UInt8) → Option (List UInt8) → List (Bool × Aes.Op) → Option (List (List UInt8))
  | _, _, [] => some []
  | ka, kb, (w, .setKey k) :: r => if w then aesTwoRef ka (some k) r else aesTwoRef (some k) kb r
  | ka, kb, (w, .enc b) :: r => do let k ← (if w then kb else ka); let t ← aesTwoRef ka kb r; pure (Spec.aesCipher k b :: t)
  | ka, kb, (w, .dec b) :: r => do let k ← (if w then kb else ka); let t ← aesTwoRef ka kb r; pure (Spec.aesInvCipher k b :: t)

/-- how a new key is related to what the object caches (tags for the distribution statistics) -/
def rekeyTag (o : Aes.Obj) (key : List UInt8) : String :=
  let cur := o.memCol 0
  let idx := List.range' 1 10
  if key = cur then (if key = o.memRow 0 then "aes-rekey-same-symmetric" else "aes-rekey-same")
  else if key = o.memRow 0 then "aes-rekey-transpose"
  else if idx.any (fun i => key = o.memRow i) then "aes-rekey-roundkey-mem"
  else if idx.any (fun i => key = o.memCol i) then "aes-rekey-roundkey-col"
  else if key = cur.reverse then "aes-rekey-reverse"
  else if ((List.zipWith (fun a b => if a = b then 0 else 1) key cur).foldl (· + ·) 0) = 1 then "aes-rekey-onebyte"
  else if ((List.zipWith (fun a b => if a = b then 0 else 1) key (o.memRow 0)).foldl (· + ·) 0) = 1 then "aes-rekey-transpose-onebyte"
  else "aes-rekey-other"

/-- rekey tags of both objects -/
def rekeyTags2 (T : Aes.Tables) : Option Aes.Obj → Option Aes.Obj → List (Bool × Aes.Op) → List String
  | _, _, [] => []
  | a, b, (w, .setKey k) :: r =>
    let cur := if w then b else a
    let t := match cur with | some o => [rekeyTag o k] | none => []
    let o' := some ((cur.getD ⟨[]⟩).setKey T k)
    t ++ (if w then rekeyTags2 T a o' r else rekeyTags2 T o' b r)
  | a, b, _ :: r => rekeyTags2 T a b r

def link? : String → Option Crc.Link
  | "p" => some .prev | "n" => some .notPrev | "z" => some .zero | "f" => some .ones | _ => none

def linkPairs? : List String → Option (List (Crc.Link × List UInt8))
  | [] => some []
  | l :: d :: r => do let l ← link? l; let d ← bytesOfHex d; let t ← linkPairs? r; pure ((l, d) :: t)
  | _ => none

/-- `d:<v>:<off>` = dump, `p:<off>` = parse -/
def siStep? (w : String) : Option (Option Nat × Nat) :=
  match w.splitOn ":" with
  | ["d", v, off] => do
      let n ← u64? v; let o ← off.toNat?
      if toString n = v ∧ toString o = off then some (some n, o) else none
  | ["p", off] => do let o ← off.toNat?; if toString o = off then some (none, o) else none
  | _ => none

def siGo (buf : List UInt8) : List (Option Nat × Nat) → String
  | [] => "\nM si.buf buf=" ++ hexOfBytes buf
  | (some v, off) :: r => match SInt.dumpAt buf off v with
      | .ok (n, buf') => s!" d={n}" ++ siGo buf' r
      | .oob w => s!" OOB {w}"
      | _ => " ?"
  | (none, off) :: r => match SInt.parseAt buf off with
      | .ok (n, some v) => s!" p={n}/{v}" ++ siGo buf r
      | .ok (n, none) => s!" p={n}/-" ++ siGo buf r
      | .oob w => s!" OOB {w}"
      | _ => " ?"

def md5Step2? (w : String) : Option Md5.Step2 :=
  if w = "fa" then some (false, none) else if w = "fb" then some (true, none)
  else if w.startsWith "a:" then (bytesOfHex (w.drop 2).toString).map (fun d => (false, some d))
  else if w.startsWith "b:" then (bytesOfHex (w.drop 2).toString).map (fun d => (true, some d))
  else none

def unwordsSp (l : List String) : String := " ".intercalate l

def showSer (r : Res (Bool × Ser.S)) : String × Option Ser.S :=
  match r with
  | .ok (b, s) => (s!"P ser ret={if b then 1 else 0} pos={s.pos} mem={hexOfBytes s.mem}", some s)
  | .oob w => (s!"P ser OOB {w}", none)
  | _ => ("P ser ?", none)

def b64Tag (s : List UInt8) (cap : Nat) : String :=
  let pads := (s.reverse.takeWhile (· = 61)).length
  let hi := if s.any (· ≥ 128) then " b64-hi-byte" else ""
  let inv := if s.any (fun c => c < 128 ∧ c ≠ 61 ∧ Gen.base64de.getD c.toNat 255 = 255) then " b64-invalid-char" else ""
  let midpad := if (s.dropLast.dropLast).any (· = 61) then " b64-inner-pad" else ""
  let dl := B64.decodeLength s
  let capt := if s.length % 4 ≠ 0 then " b64-len-not-mult4"
    else if cap = dl then " b64-cap-exact" else if cap < dl then " b64-cap-short" else " b64-cap-roomy"
  s!"b64-pads{min pads 3}{hi}{inv}{midpad}{capt}"


/-! ### round 9: long inputs in compact form (`rep:<hex>:<n>` / `prng:<seed>:<n>`, expanded the same way by the harness) -/

def seg? (w : String) : Option Long.Seg :=
  match w.splitOn ":" with
  | ["rep", h, n] => do
      let p ← bytesOfHex h; let k ← n.toNat?
      if p.isEmpty ∨ toString k ≠ n then none else some (.rep p k)
  | ["prng", sd, n] => do
      let s ← sd.toNat?; let k ← n.toNat?
      if s ≥ 2 ^ 32 ∨ toString k ≠ n ∨ toString s ≠ sd then none else some (.prng (UInt32.ofNat s) k)
  | _ => none

def cuts? (w : String) (total : Nat) : Option (List Nat) :=
  if w = "-" then some [] else do
    let cs ← (w.splitOn ",").mapM (fun t => do let n ← t.toNat?; if toString n = t then some n else none)
    let rec asc : Nat → List Nat → Bool
      | _, [] => true
      | lo, c :: r => lo ≤ c && c ≤ total && asc c r
    if asc 0 cs then some cs else none

/-- the pieces of `a` between consecutive cut positions -/
def piecesAt (a : Array UInt8) (cuts : List Nat) : List (List UInt8) :=
  let rec go : Nat → List Nat → List (List UInt8)
    | lo, [] => [(a.extract lo a.size).toList]
    | lo, c :: r => (a.extract lo c).toList :: go c r
  go 0 cuts

def lenBucket (n : Nat) : String :=
  if n ≥ 2 ^ 24 then "2^24" else if n ≥ 2 ^ 20 then "2^20" else if n > 131074 then "over-128k" else if n ≥ 65536 then "64k-128k" else "short"

/-- one `long` operation on the expanded input; `none` = bad-op -/
def runLong (kind : String) (params : List String) (a : Array UInt8) (ref : Option String) : Option (List String) :=
  let n := a.size
  let small := n ≤ 2 ^ 20 + 64
  match kind, params with
  | "sum8", [] => some [s!"P long.sum8 {Long.sum8A a}"]
  | "sum16", [] => some [s!"B sum16-{if n % 2 = 0 then "even" else "odd"}", s!"P long.sum16 {Long.sum16A a}"]
  | "crc16", [seed] => do
      let s ← seed.toNat?; if s ≥ 65536 then none else
      pure [s!"P long.crc16 {Long.crc16A a (UInt16.ofNat s)}"]
  | "crc32", [seed] => do
      let s ← seed.toNat?; if s ≥ 2 ^ 32 then none else
      let v := Long.crc32A a (UInt32.ofNat s)
      pure [withRef ref (toString v) s!"P long.crc32 {v}"]
  | "crc32.chain", [seed, cut] => do
      let s ← seed.toNat?; let c ← cut.toNat?; if s ≥ 2 ^ 32 ∨ c > n then none else
      let sd := UInt32.ofNat s
      pure [s!"B crc-chain-3-3", s!"P long.crc32.chain whole={Long.crc32A a sd} chained={Long.crc32A (a.extract c n) (~~~ (Long.crc32A (a.extract 0 c) sd))}"]
  | "crc16.chain", [seed, cut] => do
      let s ← seed.toNat?; let c ← cut.toNat?; if s ≥ 65536 ∨ c > n then none else
      let sd := UInt16.ofNat s
      pure [s!"B crc-chain-3-3", s!"P long.crc16.chain whole={Long.crc16A a sd} chained={Long.crc16A (a.extract c n) (Long.crc16A (a.extract 0 c) sd)}"]
  | "md5", [cuts] => do
      let cs ← cuts? cuts n
      if n ≤ 140000 then
        let ps := piecesAt a cs
        let whole := Spec.md5 a.toList
        let spec := Md5.digestSplit Spec.md5Params ps
        let m := Md5.digestSplit Md5.gen ps
        pure ([s!"B md5-pieces{min ps.length 9} md5-long-model", withRef ref (hexOfBytes whole) s!"P long.md5 {hexOfBytes whole}"]
              ++ (if spec = whole then [] else ["P md5-split-differs-from-oneshot " ++ hexOfBytes spec])
              ++ (if m = spec then [] else ["P model-disagrees-with-spec md5 " ++ hexOfBytes m]))
      else do
        -- too long for the list model: the expected digest is the external reference of the op line (python hashlib); by
        -- C19_md5_split it does not depend on the cuts
        let r ← ref
        pure [s!"B md5-pieces{min (cs.length + 1) 9} md5-long-ref-only", s!"P long.md5 {r} ref=ok"]
  | "b64", [] =>
      if ¬ small ∨ n = 0 then none else
      let e := Long.b64EncChunked a.toList          -- = the encoder (C19_b64_chunked_refines)
      -- decode: by C19_b64_roundtrip the decoder returns the input for every capacity ≥ n and 0 below
      some [s!"B b64-rt-mod{n % 3}", s!"P long.b64 enclen={e.length} encfnv={Long.fnvL e} declen={n} dec={n} same=1 short=0"]
  | "b64bad", [pos] => do
      let p ← pos.toNat?
      if ¬ small ∨ n = 0 ∨ p ≥ (4 * n + 2) / 3 then none else      -- inside the non-padding characters
      -- a character outside the alphabet anywhere in the text: refused with 0 (C19_b64_rejects)
      pure ["B b64-invalid-char", "P long.b64bad ret=0 vec=0"]
  | "hexdec", [] =>
      if ¬ small then none else
      -- C19_hex_roundtrip (vector reader) / C19_hex_roundtrip_buf (buffer reader, cap ≥ n)
      some (["B hex-decvec-nodelim-ok", s!"P long.hexdec exc=- len={n} fnv={Long.fnvA a}"]
            ++ (if 0 < n ∧ n ≤ 65535 then [s!"P long.hexdec buf ret={n} same=1"] else []))
  | "hexenc", [u] => do
      let up ← bool01? u
      if n > 65535 then none else
      let e := Hex.rawToHex up [] a.toList
      pure [s!"P long.hexenc len={e.length} fnv={Long.fnvL e}"]
  | "url", [m] => do
      let pm ← bool01? m
      if ¬ small then none else
      let e := Url.encode pm a.toList
      pure [s!"P long.url enclen={e.length} encfnv={Long.fnvL e} same=1"]      -- decode: C19_url_roundtrip
  | "ser", [e] => do
      let en ← endian? e
      if ¬ small then none else
      match (Ser.S.newVec [] en).appendRaw a.toList with
      | .ok (r1, s1) =>
        match s1.appendInt 4 0x01020304 with
        | .ok (r2, s2) =>
          let d := Ser.D.new s2.mem en
          match d.fetchRaw n with
          | .ok (some v, d1) =>
            match d1.fetchInt 4 with
            | .ok (some x, d2) =>
              pure [s!"B ser-int4-vec", s!"P long.ser ret={if r1 then 1 else 0}{if r2 then 1 else 0} pos={s2.pos} fnv={Long.fnvL s2.mem} back={if v = a.toList then 1 else 0} int={x} dpos={d2.pos}"]
            | _ => pure ["P long.ser MODEL-FAILS"]
          | _ => pure ["P long.ser MODEL-FAILS"]
        | _ => pure ["P long.ser MODEL-FAILS"]
      | _ => pure ["P long.ser MODEL-FAILS"]
  | "serraw", [e, slack] => do
      let en ← endian? e; let k ← slack.toNat?
      if ¬ small ∨ k > 8 then none else
      match (Ser.S.newRaw (n + k) en).appendRaw a.toList with
      | .ok (r1, s1) =>
        match s1.appendInt 4 0x01020304 with
        | .ok (r2, s2) =>
          match s2.appendRaw a.toList with
          | .ok (r3, s3) =>
            pure [s!"B ser-int4-raw", s!"P long.serraw ret={if r1 then 1 else 0}{if r2 then 1 else 0}{if r3 then 1 else 0} pos={s3.pos} fnv={Long.fnvL s3.mem}"]
          | .oob w => pure [s!"P long.serraw OOB {w}"]
          | _ => pure ["P long.serraw ?"]
        | .oob w => pure [s!"P long.serraw OOB {w}"]
        | _ => pure ["P long.serraw ?"]
      | .oob w => pure [s!"P long.serraw OOB {w}"]
      | _ => pure ["P long.serraw ?"]
  | _, _ => none

/-- one operation: returns new state and output lines -/
def runOp (st : DSt) (ws00 : List String) : Option (DSt × List String) := do
  let ws0 ← splitPlace ws00
  let (ws, ref) := splitRef ws0
  match ws with
  | "long" :: kind :: rest => do
      let params := rest.filter (fun w => !w.contains ':')
      let segws := rest.filter (fun w => w.contains ':')
      if segws.isEmpty ∨ rest ≠ params ++ segws then none else
      let segs ← segws.mapM seg?
      let total := segs.foldl (fun n s => n + s.size) 0
      if total > 2 ^ 24 + 64 then none else
      let a := Long.expand segs
      let lines ← runLong kind params a ref
      pure (st, [s!"B long-{kind} long-len-{lenBucket total}", s!"M long.in len={a.size} fnv={Long.fnvA a}"] ++ lines)
  | ["b64.declenz", h] => do
      let s ← bytesOfHex h
      pure (st, [s!"B b64-cstr{if s.contains 0 then "-nul" else ""}", s!"P b64.declenz {B64.decodeLengthZ s}"])
  | ["b64.decz", h, c] => do
      let s ← bytesOfHex h; let cap ← c.toNat?
      pure (st, ["B b64-cstr " ++ b64Tag (B64.cstr s) cap, showRetOut "b64.decz" (B64.decodeBufZ s cap)])
  | ["b64.decapp", h, pre] => do
      let s ← bytesOfHex h; let pre ← bytesOfHex pre
      pure (st, ["B b64-append " ++ b64Tag s (B64.decodeLength s), showRetOut "b64.decapp" (B64.decodeVecOnto pre s)])
  | ["des.check", n] => do
      let d ← st.des; let n ← u64? n
      if toString n ≠ (ws.getD 1 "") then none else
      let width := Ser.checkSizeW d.data.length d.pos n
      pure (st, [s!"B des-check-{if n ≥ 2 ^ 63 then "huge" else "small"}",
                 s!"P des check={if d.check n then 1 else 0} pos={d.pos} size={d.data.length}"]
                ++ (if width = d.check n then [] else ["P model-width-disagrees des.check"]))
  | ["ser.big", n] => do
      let s ← st.ser; let n ← u64? n
      if toString n ≠ (ws.getD 1 "") ∨ !s.raw ∨ n ≤ s.cap then none else
      pure (st, ["B ser-big", s!"P ser ret=0 pos={s.pos} mem={hexOfBytes s.mem}"])
  | ["crc32.chain", a, b, seed] => do
      let a ← bytesOfHex a; let b ← bytesOfHex b; let s ← seed.toNat?
      if s ≥ 2 ^ 32 then none else
      let sd := UInt32.ofNat s
      pure (st, [s!"B crc-chain-{min a.length 3}-{min b.length 3}",
                 s!"P crc32.chain whole={Spec.crc32 (a ++ b) sd} chained={Crc.crc32 b (~~~ (Crc.crc32 a sd))} naive={Crc.crc32 b (Crc.crc32 a sd)}"])
  | ["crc16.chain", a, b, seed] => do
      let a ← bytesOfHex a; let b ← bytesOfHex b; let s ← seed.toNat?
      if s ≥ 65536 then none else
      let sd := UInt16.ofNat s
      pure (st, [s!"B crc-chain-{min a.length 3}-{min b.length 3}",
                 s!"P crc16.chain whole={Spec.crc16 (a ++ b) sd} chained={Crc.crc16 b (Crc.crc16 a sd)}"])
  | ["url.host", h] => do
      let s ← bytesOfHex h
      let (ok, r) := Url.parseHost s
      let colon := (s.reverse.takeWhile (· ≠ 58)).reverse
      let pv := Url.digitsVal ((colon.dropWhile Url.isSpace).dropWhile (fun c => c = 45 ∨ c = 43) |>.takeWhile Url.isDigit)
      let t := if !s.contains 58 then "noport" else if pv < 65536 then "port-fits" else if pv < 2 ^ 31 then "port-wraps16"
               else if pv = 2 ^ 31 then "port-2^31" else "port-over-int"
      pure (st, [s!"B url-host-{if ok then "ok" else "fail"} url-{t}",
                 s!"P url.host ret={if ok then 1 else 0} user={hexOfBytes r.user} pw={hexOfBytes r.password} host={hexOfBytes r.host} port={r.port} str={hexOfBytes (Url.hostToString r)}"])
  -- StringToUrlHost(s1, obj) then StringToUrlHost(s2, obj) on the SAME object (lesson g: the state is what the object already holds)
  | ["url.host2", h1, h2] => do
      let s1 ← bytesOfHex h1; let s2 ← bytesOfHex h2
      let (ok1, r1) := Url.parseHost s1
      let (ok2, r2) := Url.parseHostInto r1 s2
      let stale := (Url.parseHostIntoOrig r1 s2).2 ≠ r2
      let show1 (ok : Bool) (r : Url.Host) := s!"ret={if ok then 1 else 0} user={hexOfBytes r.user} pw={hexOfBytes r.password} host={hexOfBytes r.host} port={r.port}"
      pure (st, [s!"B url-host2-{if ok1 then "ok" else "fail"}-{if ok2 then "ok" else "fail"}{if stale then " url-host2-clears-old-user" else ""}",
                 s!"P url.host2 {show1 ok1 r1} | {show1 ok2 r2}"])
  | ["url.mkhost", u, pw, h, port] => do
      let u ← bytesOfHex u; let pw ← bytesOfHex pw; let h ← bytesOfHex h; let port ← port.toNat?
      if port ≥ 65536 then none else
      let hv : Url.Host := ⟨u, pw, h, port⟩
      let t := Url.hostToString hv
      let same := Url.parseHost t = (true, hv)
      pure (st, [s!"B url-mkhost-{if same then "rt" else "nort"}", s!"P url.mkhost str={hexOfBytes t} rt={if same then 1 else 0}"])
  | "md5.seq" :: steps => do
      if steps.isEmpty then none else
      let steps ← steps.mapM md5Step?
      -- walk the script with the object model, printing what the implementation's child process reports
      let rec go (o : Md5.Obj) : List Md5.Step → String
        | [] => " end=returned"
        | some d :: r => match o.update Spec.md5Params d with
            | .ok o' => " u" ++ go o' r
            | _ => " end=assert"
        | none :: r => match o.finish Spec.md5Params with
            | .ok (dg, o') => " " ++ hexOfBytes dg ++ go o' r
            | _ => " end=assert"
      let (_, ab) := Md5.runScript Spec.md5Params (Md5.Obj.new Spec.md5Params) steps
      pure (st, [s!"B md5-seq-{if ab then "abort" else "clean"}", "P md5.seq" ++ go (Md5.Obj.new Spec.md5Params) steps])
  | "aes.hist" :: k0 :: steps => do
      let k0 ← bytesOfHex k0
      if ¬ (k0.length = 16 ∨ k0.isEmpty) ∨ steps.isEmpty then none else
      let ops ← steps.mapM aesStep?
      let ka : Option (List UInt8) := if k0.isEmpty then none else some k0
      -- FIPS-197 under the last key of the object addressed (C19_aes_history, C19_aes_two_objects); `none`: used before keyed
      let expect ← aesTwoRef ka none ops
      let a0 : Aes.Obj := match ka with | some k => Aes.Obj.new Aes.gen k | none => ⟨[]⟩
      let m := (Aes.runTwo Aes.gen a0 ⟨[]⟩ ops).map (·.2)
      let tags := (rekeyTags2 Aes.gen (ka.map (Aes.Obj.new Aes.gen)) none ops).eraseDups
      let two := ops.any (·.1)
      pure (st, [s!"B aes-hist-{if k0.isEmpty then "nullctor" else "ctor"}{if two then " aes-hist-two" else ""} {unwordsSp tags}",
                 "P aes.hist " ++ (if expect.isEmpty then "-" else unwordsSp (expect.map hexOfBytes))]
                ++ (if m = expect then [] else ["P model-disagrees-with-spec aes.hist " ++ unwordsSp (m.map hexOfBytes)]))
  | "crc32.seq" :: seed :: d :: rest => do
      let s ← seed.toNat?; let d ← bytesOfHex d; let r ← linkPairs? rest
      if s ≥ 2 ^ 32 then none else
      let sd := UInt32.ofNat s
      let rs := Crc.seq32 sd d r
      let whole := Spec.crc32 (d ++ (r.map (·.2)).flatten) sd
      let law := r.all (fun x => x.1 = .notPrev)
      pure (st, [s!"B crc-seq-{min r.length 4}{if law then "-law" else ""}{if r.any (fun x => x.1 = .prev) then " crc-seq-prev" else ""}",
                 s!"P crc32.seq {unwordsSp (rs.map toString)} whole={whole}"]
                ++ (if law ∧ rs.getLast? ≠ some whole then ["P model-law-fails crc32.seq"] else []))
  | "crc16.seq" :: seed :: d :: rest => do
      let s ← seed.toNat?; let d ← bytesOfHex d; let r ← linkPairs? rest
      if s ≥ 65536 then none else
      let sd := UInt16.ofNat s
      let rs := Crc.seq16 sd d r
      let whole := Spec.crc16 (d ++ (r.map (·.2)).flatten) sd
      let law := r.all (fun x => x.1 = .prev)
      pure (st, [s!"B crc-seq-{min r.length 4}{if law then "-law" else ""}",
                 s!"P crc16.seq {unwordsSp (rs.map toString)} whole={whole}"]
                ++ (if law ∧ rs.getLast? ≠ some whole then ["P model-law-fails crc16.seq"] else []))
  | "si.buf" :: h :: steps => do
      let buf ← bytesOfHex h
      if steps.isEmpty ∨ buf.length > 4096 then none else
      let steps ← steps.mapM siStep?
      if steps.any (fun x => x.2 > buf.length) then none else
      let nd := (steps.filter (fun x => x.1.isSome)).length
      let dumpOffs := (steps.filter (fun x => x.1.isSome)).map (·.2)
      let reparse := steps.any (fun x => x.1.isNone ∧ dumpOffs.contains x.2)
      pure (st, [s!"B si-buf-{min nd 4}dumps{if reparse then " si-buf-reparse" else ""}", "P si.buf" ++ siGo buf steps])
  | "md5.two" :: steps => do
      if steps.isEmpty then none else
      let steps ← steps.mapM md5Step2?
      let (ra, aba) := Md5.runScript Spec.md5Params (Md5.Obj.new Spec.md5Params) (Md5.proj false steps)
      let (rb, abb) := Md5.runScript Spec.md5Params (Md5.Obj.new Spec.md5Params) (Md5.proj true steps)
      if aba ∨ abb then none else          -- in-process: a step on a finished object is not driven here (md5.seq does that in a child)
      let _ := (ra, rb)
      -- expected digests: RFC 1321 of each object's own updates (independent Spec), in the order the finishes occur
      let piecesOf (w : Bool) : List UInt8 := ((Md5.proj w steps).filterMap id).flatten
      let expect := (steps.filter (fun x => x.2.isNone)).map (fun x => (x.1, Spec.md5 (piecesOf x.1)))
      let (m, _) := Md5.runTwo Md5.gen (Md5.Obj.new Md5.gen) (Md5.Obj.new Md5.gen) steps
      let show2 (r : List (Bool × List UInt8)) := unwordsSp (r.map (fun x => (if x.1 then "b=" else "a=") ++ hexOfBytes x.2))
      pure (st, [s!"B md5-two-{min steps.length 9}", "P md5.two " ++ (if expect.isEmpty then "-" else show2 expect)]
                ++ (if m = expect then [] else ["P model-disagrees-with-spec md5.two " ++ show2 m]))
  | ["b64.dec2", t1, t2, c] => do
      let t1 ← bytesOfHex t1; let t2 ← bytesOfHex t2; let cap ← c.toNat?
      if cap ≥ 2 ^ 24 then none else
      let old := List.replicate cap (0xA5 : UInt8)
      match B64.decodeInto old t1 with
      | .ok (r1, b1) =>
        match B64.decodeInto b1 t2 with
        | .ok (r2, b2) =>
          pure (st, ["B b64-dec2 " ++ b64Tag t2 cap ++ (if t1 = t2 then " b64-dec2-same" else ""),
                     s!"P b64.dec2 ret={r1} out={hexOfBytes (b1.take r1)} ret={r2} out={hexOfBytes (b2.take r2)}"]
                    ++ (if r1 > 0 ∧ r2 > 0 then [s!"M b64.dec2 rest={hexOfBytes (b2.drop r2)}"] else []))
        | .oob w => pure (st, [s!"P b64.dec2 OOB {w}"])
        | _ => pure (st, ["P b64.dec2 ?"])
      | .oob w => pure (st, [s!"P b64.dec2 OOB {w}"])
      | _ => pure (st, ["P b64.dec2 ?"])
  -- round 10: aliased buffers. Base64 decode with text and output in ONE memory (pre ++ text ++ post, output at offset dst ≤ |pre|)
  | ["b64.decip", pre, t, post, d, c] => do
      let pre ← bytesOfHex pre; let t ← bytesOfHex t; let post ← bytesOfHex post; let dst ← d.toNat?; let cap ← c.toNat?
      let mem := pre ++ t ++ post
      if mem.length ≥ 2 ^ 16 ∨ dst + cap > mem.length ∨ dst > pre.length ∨ toString dst ≠ d ∨ toString cap ≠ c then none else
      -- an output pointer BEHIND the start of the text is outside the contract (C19_b64_decode_in_place_overlap_counterexample): bad-op on both sides
      let kind := if dst = pre.length then "exact" else "before"
      match B64.decodeIp mem pre.length t.length dst cap with
      | .ok (r, m) =>
          pure (st, [s!"B b64-ip-{kind} " ++ b64Tag t cap, s!"P b64.decip ret={r} out={hexOfBytes ((m.drop dst).take r)}",
                     s!"M b64.decip mem={hexOfBytes m}"])
      | .oob w => pure (st, [s!"P b64.decip OOB {w}"])
      | _ => pure (st, ["P b64.decip ?"])
  -- serializer self-append: ser.append(own storage + off, k); r = 1: the caller reserved pos + k first, r = 0: capacity = size
  | ["ser.self", off, k, r] => do
      let s ← st.ser; let off' ← off.toNat?; let k' ← k.toNat?; let rsv ← bool01? r
      if toString off' ≠ off ∨ toString k' ≠ k ∨ k' ≥ 2 ^ 16 then none else
      let vcap := if rsv then max s.mem.length (s.pos + k') else s.mem.length
      match ← s.appendSelf vcap off' k' with
      | .oob "read source freed by resize" => pure (st, ["B ser-self-dangles", "M ser.self dangling=asan"])
      | res =>
        let (line, s') := showSer res
        pure ({ st with ser := s'.orElse (fun _ => some s) },
              [s!"B ser-self-{if s.raw then "raw" else if rsv then "reserved" else "fits"}{if k' = 0 then "-k0" else ""}", line])
  | ["ser.view", e] => do
      let s ← st.ser; let e ← endian? e
      pure ({ st with des := some (Ser.D.new (s.mem.take s.pos) e) }, ["B ser-view", "P des new"])
  | "aes.seq" :: k1 :: k2 :: blks => do
      let k1 ← bytesOfHex k1; let k2 ← bytesOfHex k2
      if ¬ ((k1.length = 16 ∨ k1.isEmpty) ∧ (k2.length = 16 ∨ k2.isEmpty) ∧ ¬ (k1.isEmpty ∧ k2.isEmpty)) ∨ blks.isEmpty then none else
      let blks ← blks.mapM block16?
      let o := Aes.Obj.new Aes.gen k1
      let o := if k2.isEmpty then o else o.setKey Aes.gen k2
      let key := if k2.isEmpty then k1 else k2
      let outs := blks.map (fun b =>
        let ct := Spec.aesCipher key b
        let m := o.cipher Aes.gen b
        hexOfBytes ct ++ (if o.invCipher Aes.gen ct = b ∧ m = ct then "+" else "!"))
      pure (st, [s!"B aes-seq-{if k1.isEmpty then "nullctor" else if k2.isEmpty then "ctor" else "rekey"}", "P aes.seq " ++ " ".intercalate outs])
  -- ---------------------------------------------------------------- Base64
  | ["b64.enc", h] => do
      let x ← bytesOfHex h
      let m := B64.encodeStr x
      let spec : Res (List UInt8) := if x.isEmpty then .assertFail else .ok (Spec.b64Encode x)
      let line := withRef ref (match spec with | .ok o => hexOfBytes o | _ => "") (showBytes "b64.enc" spec)
      pure (st, [s!"B b64-enc-mod{x.length % 3}", line] ++ (if m = spec then [] else ["P model-disagrees-with-spec b64.enc"]))
  | ["b64.encbuf", h, c] => do
      let x ← bytesOfHex h; let cap ← c.toNat?
      let el := B64.encodeLength x.length
      let t := if cap = el then "exact" else if cap < el then "short" else "roomy"
      pure (st, [s!"B b64-encbuf-{t}", showRetOut "b64.encbuf" (B64.encodeBuf x cap)])
  | ["b64.declen", h] => do
      let s ← bytesOfHex h
      pure (st, [s!"P b64.declen {B64.decodeLength s}"])
  | ["b64.dec", h, c] => do
      let s ← bytesOfHex h; let cap ← c.toNat?
      pure (st, ["B " ++ b64Tag s cap, showRetOut "b64.dec" (B64.decodeBuf s cap)])
  | ["b64.decvec", h] => do
      let s ← bytesOfHex h
      pure (st, ["B " ++ b64Tag s (B64.decodeLength s), showRetOut "b64.decvec" (B64.decodeVec s)])
  | ["b64.rt", h] => do
      let x ← bytesOfHex h
      if x.isEmpty then pure (st, ["P b64.rt assert"]) else
      let e := Spec.b64Encode x
      let good := B64.decodeBuf e x.length = .ok (x.length, x) ∧ B64.decodeVec e = .ok (x.length, x)
        ∧ e.length = B64.encodeLength x.length ∧ B64.decodeLength e = x.length
      pure (st, [s!"B b64-rt-mod{x.length % 3}", if good then "P b64.rt ok" else "P b64.rt MODEL-FAILS"])
  -- ---------------------------------------------------------------- scalable integer
  | ["si.dump", v, c] => do
      let v ← u64? v; let cap ← c.toNat?
      let need := match SInt.needBytes v with | .ok n => n | _ => 0
      let t := if cap = need then "exact" else if cap < need then "short" else "roomy"
      pure (st, [s!"B si-dump-{need}b-{t}", showRetOut "si.dump" (SInt.dump v cap)])
  | ["si.parse", h] => do
      let bs ← bytesOfHex h
      let cont := (bs.takeWhile (· ≥ 128)).length
      let line := match SInt.parse bs with
        | .ok (r, some v) => s!"P si.parse ret={r} val={v}"
        | .ok (r, none) => s!"P si.parse ret={r} val=-"
        | .oob w => s!"P si.parse OOB {w}"
        | _ => "P si.parse ?"
      pure (st, [s!"B si-parse-cont{min cont 12}{if cont = bs.length then "-unterminated" else ""}", line])
  | ["si.rt", v] => do
      let v ← u64? v
      let line := match SInt.dump v 10 with
        | .ok (n, out) => if SInt.parse out = .ok (n, some v) ∧ n > 0 then s!"P si.rt ok len={n}" else "P si.rt MODEL-FAILS"
        | _ => "P si.rt MODEL-FAILS"
      pure (st, [line])
  -- ---------------------------------------------------------------- hex strings
  | ["hex.enc", h, u, d] => do
      let x ← bytesOfHex h; let up ← bool01? u; let dl ← bytesOfHex d
      if x.length ≥ 65536 then none else
      pure (st, [s!"P hex.enc {hexOfBytes (Hex.rawToHex up dl x)}"])
  | ["hex.decbuf", h, c] => do
      let s ← bytesOfHex h; let cap ← c.toNat?
      if cap ≥ 65536 then none else
      let r := Hex.toBuf s cap
      let t := match r with | .exc _ => "exc" | _ => if cap * 2 < s.length then "cap-limited" else if s.length % 2 = 1 then "odd-tail" else "all"
      pure (st, [s!"B hex-decbuf-{t}", showRetOut "hex.decbuf" r])
  | ["hex.decvec", h, d] => do
      let s ← bytesOfHex h; let dl ← bytesOfHex d
      let r := Hex.toVec s dl
      pure (st, [s!"B hex-decvec-{if dl.isEmpty then "nodelim" else "delim"}-{r.exc.getD "ok"}",
                 s!"P hex.decvec exc={r.exc.getD "-"} out={hexOfBytes r.out}"])
  | ["hex.rt", h, u, d] => do
      let x ← bytesOfHex h; let up ← bool01? u; let dl ← bytesOfHex d
      if x.length ≥ 65536 then none else
      let e := Hex.rawToHex up dl x
      let v := Hex.toVec e dl
      let b := Hex.toBuf e x.length
      let good := v = ⟨none, x⟩ ∧ (x.isEmpty ∨ (dl.isEmpty → b = .ok (x.length, x)))
      pure (st, [if good then "P hex.rt ok" else s!"P hex.rt FAIL exc={v.exc.getD "-"}"])
  -- ---------------------------------------------------------------- serializer
  | ["ser.raw", c, e] => do
      let cap ← c.toNat?; let e ← endian? e
      pure ({ st with ser := some (Ser.S.newRaw cap e) }, ["P ser new"])
  | ["ser.vec", h, e] => do
      let v ← bytesOfHex h; let e ← endian? e
      pure ({ st with ser := some (Ser.S.newVec v e) }, ["P ser new"])
  | ["ser.int", n, v] => do
      let s ← st.ser; let n ← intWidth? n; let v ← v.toNat?
      if v ≥ 2 ^ (8 * n) then none else
      let (line, s') := showSer (s.appendInt n v)
      pure ({ st with ser := s'.orElse (fun _ => some s) }, [s!"B ser-int{n}-{if s.raw then "raw" else "vec"}", line])
  | ["ser.bytes", h] => do
      let s ← st.ser; let b ← bytesOfHex h
      let (line, s') := showSer (s.appendRaw b)
      pure ({ st with ser := s'.orElse (fun _ => some s) }, [line])
  | ["ser.pod", h] => do
      let s ← st.ser; let b ← bytesOfHex h
      let (line, s') := showSer (s.appendPOD b)
      pure ({ st with ser := s'.orElse (fun _ => some s) }, [line])
  | ["ser.endian", e] => do
      let s ← st.ser; let e ← endian? e
      pure ({ st with ser := some { s with endian := e } }, ["P ser endian"])
  | ["des.new", h, e] => do
      let d ← bytesOfHex h; let e ← endian? e
      pure ({ st with des := some (Ser.D.new d e) }, ["P des new"])
  | ["des.int", n] => do
      let d ← st.des; let n ← intWidth? n
      match d.fetchInt n with
      | .ok (some v, d') => pure ({ st with des := some d' }, [s!"B des-int{n}-ok", s!"P des ret=1 val={v} pos={d'.pos}"])
      | .ok (none, d') => pure ({ st with des := some d' }, [s!"B des-int{n}-short", s!"P des ret=0 val=- pos={d'.pos}"])
      | .oob w => pure (st, [s!"P des OOB {w}"])
      | _ => pure (st, ["P des ?"])
  | ["des.bytes", n] => do
      let d ← st.des; let n ← u64? n
      if toString n ≠ (ws.getD 1 "") ∨ (n > 4096 ∧ n ≤ d.data.length) then none else
      match d.fetchRaw n with
      | .ok (some v, d') => pure ({ st with des := some d' }, [s!"P des ret=1 val={hexOfBytes v} pos={d'.pos}"])
      | .ok (none, d') => pure ({ st with des := some d' }, [s!"P des ret=0 val=- pos={d'.pos}"])
      | .oob w => pure (st, [s!"P des OOB {w}"])
      | _ => pure (st, ["P des ?"])
  | ["des.nocopy", n] => do
      let d ← st.des; let n ← u64? n
      if toString n ≠ (ws.getD 1 "") ∨ (n > 4096 ∧ n ≤ d.data.length) then none else
      match d.fetchRaw n with
      | .ok (some v, d') => pure ({ st with des := some d' }, [s!"P des ret=1 val={hexOfBytes v} pos={d'.pos}"])
      | .ok (none, d') => pure ({ st with des := some d' }, [s!"P des ret=0 val=- pos={d'.pos}"])
      | .oob w => pure (st, [s!"P des OOB {w}"])
      | _ => pure (st, ["P des ?"])
  | ["des.pod", n] => do
      let d ← st.des; let n ← u64? n
      if toString n ≠ (ws.getD 1 "") ∨ (n > 4096 ∧ n ≤ d.data.length) then none else
      match d.fetchPOD n with
      | .ok (some v, d') => pure ({ st with des := some d' }, [s!"P des ret=1 val={hexOfBytes v} pos={d'.pos}"])
      | .ok (none, d') => pure ({ st with des := some d' }, [s!"P des ret=0 val=- pos={d'.pos}"])
      | .oob w => pure (st, [s!"P des OOB {w}"])
      | _ => pure (st, ["P des ?"])
  | ["des.skip", n] => do
      let d ← st.des; let n ← u64? n
      if toString n ≠ (ws.getD 1 "") then none else
      let (b, d') := d.skip n
      pure ({ st with des := some d' }, [s!"P des ret={if b then 1 else 0} val=- pos={d'.pos}"])
  | ["des.setpos", n] => do
      let d ← st.des; let n ← u64? n
      if toString n ≠ (ws.getD 1 "") then none else
      let (b, d') := d.setPos n
      pure ({ st with des := some d' }, [s!"P des ret={if b then 1 else 0} val=- pos={d'.pos}"])
  | ["des.endian", e] => do
      let d ← st.des; let e ← endian? e
      pure ({ st with des := some { d with endian := e } }, ["P des endian"])
  | "ser.rt" :: e :: fs => do
      let e ← endian? e
      let fields ← fs.mapM field?
      let line := match Ser.serFields (Ser.S.newVec [] e) fields with
        | .ok s =>
          match Ser.desFields (Ser.D.new s.mem e) fields with
          | .ok (some back) => if back = fields then s!"P ser.rt ok bytes={hexOfBytes s.mem}" else "P ser.rt MODEL-FAILS"
          | _ => "P ser.rt MODEL-FAILS"
        | _ => "P ser.rt MODEL-FAILS"
      pure (st, [s!"B ser-rt-{min fields.length 9}fields", line])
  -- ---------------------------------------------------------------- CRC / checksums
  | ["crc16", h, seed] => do
      let d ← bytesOfHex h; let s ← seed.toNat?
      if s ≥ 65536 then none else
      let spec := Spec.crc16 d (UInt16.ofNat s); let m := Crc.crc16 d (UInt16.ofNat s)
      pure (st, [s!"P crc16 {spec}"] ++ (if m = spec then [] else [s!"P model-disagrees-with-spec crc16 {m}"]))
  | ["crc32", h, seed] => do
      let d ← bytesOfHex h; let s ← seed.toNat?
      if s ≥ 2 ^ 32 then none else
      let spec := Spec.crc32 d (UInt32.ofNat s); let m := Crc.crc32 d (UInt32.ofNat s)
      pure (st, [withRef ref (toString spec) s!"P crc32 {spec}"] ++ (if m = spec then [] else [s!"P model-disagrees-with-spec crc32 {m}"]))
  | ["sum8", h] => do
      let d ← bytesOfHex h
      let spec := Spec.sum8 d; let m := Crc.sum8 d
      pure (st, [s!"P sum8 {spec}"] ++ (if m = spec then [] else [s!"P model-disagrees-with-spec sum8 {m}"]))
  | ["sum16", h] => do
      let d ← bytesOfHex h
      let spec := Spec.sum16 d; let m := Crc.sum16 d
      pure (st, [s!"B sum16-{if d.length % 2 = 0 then "even" else "odd"}", s!"P sum16 {spec}"]
                ++ (if m = spec then [] else [s!"P model-disagrees-with-spec sum16 {m}"]))
  -- ---------------------------------------------------------------- URL
  | ["url.enc", h, m] => do
      let s ← bytesOfHex h; let pm ← bool01? m
      let o := Url.encode pm s
      pure (st, [withRef ref (hexOfBytes o) s!"P url.enc {hexOfBytes o}"])
  | ["url.dec", h] => do
      let s ← bytesOfHex h
      let r := Url.decode s
      let t := match r with | .exc _ => "exc" | _ => if s.contains 37 then "escapes" else "plain"
      pure (st, [s!"B url-dec-{t}", showBytes "url.dec" r])
  | ["url.rt", h, m] => do
      let s ← bytesOfHex h; let pm ← bool01? m
      pure (st, [if Url.decode (Url.encode pm s) = .ok s then "P url.rt ok" else "P url.rt MODEL-FAILS"])
  -- ---------------------------------------------------------------- MD5
  | "md5" :: pieces => do
      let ps ← pieces.mapM bytesOfHex
      let spec := Md5.digestSplit Spec.md5Params ps
      let whole := Spec.md5 ps.flatten      -- RFC 1321 written independently (C19_md5_eq_spec)
      let m := Md5.digestSplit Md5.gen ps
      let total := ps.flatten.length
      pure (st, [s!"B md5-pieces{min ps.length 9} md5-len-mod64-{if total % 64 < 56 then "lt56" else "ge56"}{if ps.any (·.isEmpty) then " md5-empty-piece" else ""}{if ps.any (·.length ≥ 64) then " md5-multiblock-piece" else ""}",
                 withRef ref (hexOfBytes whole) s!"P md5 {hexOfBytes whole}"]
                ++ (if spec = whole then [] else ["P md5-split-differs-from-oneshot " ++ hexOfBytes spec])
                ++ (if m = spec then [] else ["P model-disagrees-with-spec md5 " ++ hexOfBytes m]))
  -- one update of 2^k zero bytes in 1/2/4 pieces: too large for the list model, so the expected digest is the external
  -- reference carried in the op line (python hashlib); by C19_md5_split_partial it does not depend on the pieces
  | ["md5.big", k, pcs] => do
      let k ← k.toNat?; let pcs ← pcs.toNat?
      let r ← ref
      if k < 6 ∨ k > 30 ∨ ¬ (pcs = 1 ∨ pcs = 2 ∨ pcs = 4) then none else
      pure (st, [s!"P md5.big {r} ref=ok"])
  -- ---------------------------------------------------------------- AES
  | ["aes.enc", k, b] => do
      let k ← block16? k; let b ← block16? b
      let spec := Spec.aesCipher k b; let m := Aes.cipher Aes.gen k b      -- FIPS-197 (C19_aes_eq_spec)
      pure (st, [withRef ref (hexOfBytes spec) s!"P aes.enc {hexOfBytes spec}"] ++ (if m = spec then [] else ["P model-disagrees-with-spec aes.enc " ++ hexOfBytes m]))
  | ["aes.dec", k, b] => do
      let k ← block16? k; let b ← block16? b
      let spec := Spec.aesInvCipher k b; let m := Aes.invCipher Aes.gen k b
      pure (st, [withRef ref (hexOfBytes spec) s!"P aes.dec {hexOfBytes spec}"] ++ (if m = spec then [] else ["P model-disagrees-with-spec aes.dec " ++ hexOfBytes m]))
  -- AES(nullptr) used before the first setKey: the ciphertext is unspecified (uninitialised round keys) and not printed; for EVERY
  -- content of w, invcipher undoes cipher on that object (C19_aes_unkeyed_roundtrip)
  | ["aes.unkeyed", b] => do
      let _ ← block16? b
      pure (st, ["B aes-unkeyed", "P aes.unkeyed rt=1"])
  | ["aes.rt", k, b] => do
      let k ← block16? k; let b ← block16? b
      let good := Spec.aesInvCipher k (Spec.aesCipher k b) = b
      pure (st, [if good then "P aes.rt ok" else "P aes.rt MODEL-FAILS"])
  | _ => none

def stepLine (st : DSt) (line : String) : DSt × List String :=
  let ws := words line
  match ws with
  | [] => (st, [])
  | "case" :: _ => ({}, [line.trimAscii.toString])
  | _ =>
    match runOp st ws with
    | some r => r
    | none => (st, ["bad-op"])

def main : IO Unit := runDriver ({} : DSt) stepLine
