/- C20 driver: op lines in, observable lines out (same format as props/C20/harness.cpp). -/
import TboxModel.Util
import TboxModel.C20.Model
open Tbox.Util Tbox.C20

structure World where
  wallMs : Nat := 1700000000000
  monoMs : Nat := 0
  cal : Calendar := {}
  slots : List (Option Alarm) := [none, none, none, none]

def World.env (w : World) : Env := { wallMs := w.wallMs, monoMs := w.monoMs, cal := w.cal }

def maxWallMs : Nat := 4294967295999

def slot? (s : String) : Option Nat := do
  let i ← s.toNat?
  if i < 4 then some i else none

/-- mask token: characters 0/1/x, "-" = empty string -/
def mask? (s : String) : Option (List Bool) :=
  if s == "-" then some [] else
  if s.length ≤ 9 ∧ s.toList.all (fun c => c == '0' || c == '1' || c == 'x') then some (s.toList.map (· == '1')) else none

def bool? (s : String) : Option Bool :=
  if s == "1" then some true else if s == "0" then some false else none

def bounded? (s : String) (hi : Nat) : Option Nat := do
  let n ← s.toNat?
  if n ≤ hi then some n else none

/-- special days: "-" or "day:0|1,day:0|1…" (first entry of a day wins) -/
def specials? (s : String) : Option (List (Nat × Bool)) :=
  if s == "-" then some [] else
  (s.splitOn ",").mapM fun item =>
    match item.splitOn ":" with
    | [d, b] => do pure ((← bounded? d 100000), (← bool? b))
    | _ => none

def showNext : Option Nat → String
  | some r => "P next=" ++ toString r
  | none => "P next=none"

def showSlot (e : Env) : Option Alarm → String
  | none => "-"
  | some a => match a.st with
    | .none => "N"
    | .inited => "I"
    | .running => "R" ++ toString (remainSeconds a e)

def stateLine (w : World) (ret : Bool) : String :=
  "P ret=" ++ (if ret then "1" else "0") ++ " " ++ " ".intercalate (w.slots.map (showSlot w.env))

def getSlot (w : World) (i : Nat) : Option Alarm := (w.slots.getD i none)
def setSlot (w : World) (i : Nat) (a : Alarm) : World := { w with slots := w.slots.set i (some a) }

def far : Nat := 4294967

def armTags (before after : Alarm) (e : Env) : List String :=
  if after.st = .running ∧ (before.st ≠ .running ∨ before.target ≠ after.target) then
    let r := remainSeconds after e
    [if r > far then "arm-far" else if r > 86400 then "arm-days" else "arm-near"]
  else []

/-- the loop pass after a clock change: every slot's timer is looked at; callback lines sorted by slot -/
def pass (w : World) : World × List String × List String :=
  let e := w.env
  let rec go (i : Nat) (sl : List (Option Alarm)) : List (Option Alarm) × List String × List String :=
    match sl with
    | [] => ([], [], [])
    | none :: rest => let (r, l, t) := go (i + 1) rest; (none :: r, l, t)
    | some a :: rest =>
      let (a', evs) := tick a e tickFuel
      let lines := if a.hasCb then evs.map (fun p => "F " ++ toString i ++ " " ++ showSlot e (some p.2.2)) else []
      let tags := evs.map (fun p => if e.sec < p.1 then "fire-early" else if e.sec > p.1 then "fire-late" else "fire-on-time")
        ++ (if evs.length > 1 then ["fire-multi"] else [])
        ++ (evs.flatMap fun p => if p.2.2.st = .running then (if remainSeconds p.2.2 e > far then ["rearm-far"] else ["rearm"]) else ["no-rearm"])
      let (r, l, t) := go (i + 1) rest
      (some a' :: r, lines ++ l, tags ++ t)
  let (sl, lines, tags) := go 0 w.slots
  ({ w with slots := sl }, lines, tags)

def withTags (tags : List String) (lines : List String) : List String :=
  (if tags.isEmpty then [] else ["B " ++ " ".intercalate tags.eraseDups]) ++ lines

def clockOp (w : World) : World × List String :=
  let (w', lines, tags) := pass w
  (w', withTags tags (lines ++ [stateLine w' true]))

def calUpdate (w : World) (cal : Calendar) : World × List String :=
  let w1 := { w with cal := cal }
  let e := w1.env
  let sl := w1.slots.map (fun o => o.map (fun a => calendarChanged a e))
  let tags := (w1.slots.zip sl).flatMap fun p => match p with
    | (some a, some b) => (if a.subs > 0 then ["cal-refresh"] else []) ++ armTags { a with target := 0, st := .inited } b e
    | _ => []
  let w2 := { w1 with slots := sl }
  (w2, withTags tags [stateLine w2 true])

def scanTag (pfx : String) (t : Nat) : Option Nat → List String
  | none => [pfx ++ "-none"]
  | some r =>
    let k := (r - t) / D
    [pfx ++ (if r ≤ t then "-wrapped" else if k = 0 then "-within-24h" else if k < 8 then "-week" else if r - t > far then "-far" else "-weeks")]

def stepWords (w : World) (ws : List String) : Option (World × List String) :=
  match ws with
  | ["wk", sod, m, t] => do
      let sod ← bounded? sod 200000; let m ← mask? m; let t ← bounded? t (U32 - 1)
      let (a, ok) := initAlarm (fresh .weekly) sod m true
      if !ok then pure (w, ["B init-rejected", "P init=0"]) else
      let r := nextWeekly a.sod a.mask t
      pure (w, withTags (scanTag "wk" t r) [showNext r])
  | ["os", sod, t] => do
      let sod ← bounded? sod 200000; let t ← bounded? t (U32 - 1)
      let (a, ok) := initAlarm (fresh .oneshot) sod [] true
      if !ok then pure (w, ["B init-rejected", "P init=0"]) else
      let r := nextOneshot a.sod t
      pure (w, withTags (scanTag "os" t (some r)) [showNext (some r)])
  | ["wd", sod, wd, cm, sp, t] => do
      let sod ← bounded? sod 200000; let wd ← bool? wd; let cm ← bounded? cm 255
      let sp ← specials? sp; let t ← bounded? t (U32 - 1)
      let (a, ok) := initAlarm (fresh .workday) sod [] wd
      if !ok then pure (w, ["B init-rejected", "P init=0"]) else
      let r := nextWorkday a.sod { weekMask := cm, special := sp } a.wd t
      pure (w, withTags (scanTag "wd" t r ++ (if sp.isEmpty then [] else ["wd-specials"])) [showNext r])
  | ["new", i, k] => do
      let i ← slot? i
      let c ← (if k == "wk" then some Cls.weekly else if k == "os" then some Cls.oneshot else if k == "wd" then some Cls.workday else none)
      if (getSlot w i).isSome then none else
      let w' := setSlot w i (fresh c)
      pure (w', [stateLine w' true])
  | ["init", i, sod, m, wd] => do
      let i ← slot? i; let sod ← intOfString? sod; let m ← mask? m; let wd ← bool? wd
      if sod < -200000 ∨ sod > 200000 then none else
      let a ← getSlot w i
      let (a', ok) := initAlarm a sod m wd
      let w' := setSlot w i a'
      pure (w', withTags [if ok then "init-ok" else "init-rejected"] [stateLine w' ok])
  | ["tz", i, m] => do
      let i ← slot? i; let m ← intOfString? m
      if m < -1440 ∨ m > 1440 then none else
      let a ← getSlot w i
      let w' := setSlot w i (setTimezone a m)
      pure (w', [stateLine w' true])
  | ["en", i] => do
      let i ← slot? i; let a ← getSlot w i
      let (a', ok) := enable a w.env
      let w' := setSlot w i a'
      pure (w', withTags ((if ok then "enable-ok" else if a.st = .inited then "enable-nomatch" else "enable-rejected") :: armTags a a' w.env)
                 [stateLine w' ok])
  | ["dis", i] => do
      let i ← slot? i; let a ← getSlot w i
      let (a', ok) := disable a
      let w' := setSlot w i a'
      pure (w', withTags [if ok then "disable-ok" else "disable-rejected"] [stateLine w' ok])
  | ["rf", i] => do
      let i ← slot? i; let a ← getSlot w i
      let a' := refresh a w.env
      let w' := setSlot w i a'
      pure (w', withTags ((if a.st = .running then "refresh" else "refresh-noop") :: armTags { a with target := 0, st := .inited } a' w.env)
                 [stateLine w' true])
  | ["cl", i] => do
      let i ← slot? i; let a ← getSlot w i
      let w' := setSlot w i (cleanup a)
      pure (w', [stateLine w' true])
  | ["cb", i] => do
      let i ← slot? i; let a ← getSlot w i
      let w' := setSlot w i { a with hasCb := true }
      pure (w', [stateLine w' true])
  | ["calmask", m] => do
      let m ← bounded? m 255
      pure (calUpdate w { w.cal with weekMask := m })
  | ["calsp", sp] => do
      let sp ← specials? sp
      pure (calUpdate w { w.cal with special := sp })
  | ["adv", d] => do
      let d ← bounded? d 40000000000
      if w.wallMs + d > maxWallMs then none else
      pure (clockOp { w with wallMs := w.wallMs + d, monoMs := w.monoMs + d })
  | ["mono", d] => do
      let d ← bounded? d 40000000000
      pure (clockOp { w with monoMs := w.monoMs + d })
  | ["wall", v] => do
      let v ← bounded? v maxWallMs
      pure (clockOp { w with wallMs := v })
  | _ => none

def stepLine (w : World) (line : String) : World × List String :=
  let ws := words line
  match ws with
  | [] => (w, [])
  | "case" :: _ => ({}, [line.trimAscii.toString])
  | _ =>
    match stepWords w ws with
    | none => (w, ["bad-op"])
    | some r => r

def main : IO Unit := runDriver ({} : World) stepLine
