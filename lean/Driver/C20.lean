/- C20 driver: trace acceptor.  Input per case: op lines, then the implementation's output lines
prefixed "T ", then "end".  Every API result / isEnabled+remainSeconds vector / next-instant value
the implementation printed must be what the model computes; every callback line `F j <state>` must
be a `fire j` step the model allows (timer armed, due, no earlier deadline armed), the state the
callback sees must agree, callback scripts are then run on the model; a pass may only end when no
armed timer is due.  Prints `ok …` or `reject <reason>` (+ a `B` line of branch tags). -/
import TboxModel.Util
import TboxModel.C20.WModel
import TboxModel.C20.Cron
import TboxModel.C20.CCron
open Tbox.Util Tbox.C20

def maxWallMs : Nat := 8589934591999      -- 2^33 s − 1 ms: tv_sec beyond 2^32 is truncated into the uint32_t (alarm.cpp:38/50)
def far : Nat := 4294967
def cronHorizon : Nat := 4000
/-- setTimezone(int minutes) computes `minutes * 60` in int: 35791394 is the largest value without signed overflow -/
def tzMax : Int := 35791394
/-- initialize(int seconds_of_day, …): the whole int range -/
def sodMax : Int := 2147483647

/-- raw expression bytes of a `cx` / `initx` op: 1…300 bytes, each 1…127 -/
def exprChars? (hx : String) : Option (List Char) := do
  let bs ← bytesOfHex hx
  if bs.isEmpty ∨ bs.length > 300 ∨ bs.any (fun b => b.toNat = 0 ∨ b.toNat ≥ 128) then none
  else some (bs.map (fun b => Char.ofNat b.toNat))

def hasSub : List Char → List Char → Bool
  | [], p => p.isEmpty
  | c :: rest, p => CC.startsWith (c :: rest) p || hasSub rest p

def showBits (e : CC.CExpr) : String :=
  s!"M bits s={e.seconds} m={e.minutes} h={e.hours} dow={e.dow} dom={e.dom} mon={e.months}"

/-- the transcription of ccronexpr and the proved reference must agree (bit sets and next instant);
a disagreement is reported as a broken correspondence of the model itself -/
def crossCheck (ce : Option CC.CExpr) (re : Option Cron.Expr) (t : Nat) : Option String :=
  match ce, re with
  | none, none => none
  | some c, some r =>
    if c.toExpr != r then some s!"bit sets: transcription {repr c.toExpr} reference {repr r}"
    else
      let a := CC.cronNext c t CC.cronFuel
      let b := Cron.nextCron r t cronHorizon
      if a != b then some s!"cron_next({t}): transcription {a} reference {b}" else none
  | some _, none => some "transcription accepts, reference rejects"
  | none, some _ => some "transcription rejects, reference accepts"

def slot? (s : String) : Option Nat := do
  let i ← s.toNat?
  if i < 4 then some i else none

def mask? (s : String) : Option (List Bool) :=
  if s == "-" then some [] else
  if s.length ≤ 9 ∧ s.toList.all (fun c => c == '0' || c == '1' || c == 'x') then some (s.toList.map (· == '1')) else none

def bool? (s : String) : Option Bool :=
  if s == "1" then some true else if s == "0" then some false else none

/-- decimal without sign, underscores or leading zeros, at most 18 digits -/
def num? (s : String) : Option Nat :=
  if s.isEmpty ∨ s.length > 18 ∨ !s.toList.all Char.isDigit then none
  else if s.length > 1 ∧ s.startsWith "0" then none else s.toNat?

def bounded? (s : String) (hi : Nat) : Option Nat := do
  let n ← num? s
  if n ≤ hi then some n else none

def int? (s : String) : Option Int :=
  if s.startsWith "-" then (num? (s.drop 1).toString).map (fun n => - (Int.ofNat n)) else (num? s).map Int.ofNat

def specialsSep? (s : String) (sep : String) : Option (List (Nat × Bool)) :=
  if s == "-" then some [] else
  (s.splitOn sep).mapM fun item =>
    match item.splitOn ":" with
    | [d, b] => do pure ((← bounded? d 100000), (← bool? b))
    | _ => none

/-- callback script: "-" or items "rf<j>" "dis<j>" "en<j>" "del<j>" "cm<mask>" "cs<day:b+day:b|->" joined by ',' -/
def act? (self : Nat) (s : String) : Option Act :=
  if s.startsWith "rf" then (slot? (s.drop 2).toString).map .refresh
  else if s.startsWith "dis" then (slot? (s.drop 3).toString).map .disable
  else if s.startsWith "en" then (slot? (s.drop 2).toString).map .enable
  else if s.startsWith "del" then do
    let j ← slot? (s.drop 3).toString
    if j = self then none else some (.destroy j)
  else if s.startsWith "cm" then (bounded? (s.drop 2).toString 255).map .calMask
  else if s.startsWith "cs" then (specialsSep? (s.drop 2).toString "+").map .calSp
  else if s == "gt0" then some (.gtod false)     -- from here on gettimeofday() fails
  else if s == "gt1" then some (.gtod true)
  else if s.startsWith "cl" then (slot? (s.drop 2).toString).map .cleanup
  else if s.startsWith "tz" then
    match (s.drop 2).toString.splitOn ":" with
    | [j, m] => do
        let j ← slot? j; let m ← int? m
        if m < -tzMax ∨ m > tzMax then none else some (.tz j m)
    | _ => none
  else if s.startsWith "ic" then                -- ic<j>:<hex of the expression>: CronAlarm::initialize from inside the callback
    match (s.drop 2).toString.splitOn ":" with
    | [j, hx] => do
        let j ← slot? j; let cs ← exprChars? hx
        some (.initc j ((CC.parseExpr cs).map CC.CExpr.toExpr))
    | _ => none
  else if s.startsWith "in" then
    match (s.drop 2).toString.splitOn ":" with
    | [j, sod, m, wd] => do
        let j ← slot? j; let sod ← int? sod; let m ← mask? m; let wd ← bool? wd
        if sod < -sodMax - 1 ∨ sod > sodMax then none else some (.init j sod m wd)
    | _ => none
  else none

def script? (self : Nat) (s : String) : Option (List Act) :=
  if s == "-" then some [] else
  let items := s.splitOn ","
  if items.length > 6 then none else items.mapM (act? self)

/-! cron fields -/
def cronNum? (s : String) : Option Nat := bounded? s 999

def cronRange? (s : String) : Option Cron.Range :=
  if s == "*" then some .star else
  match s.splitOn "-" with
  | [n] => (cronNum? n).map .one
  | [a, b] => do pure (.span (← cronNum? a) (← cronNum? b))
  | _ => none

def cronItem? (s : String) : Option Cron.Item :=
  match s.splitOn "/" with
  | [r] => (cronRange? r).map fun r => { range := r }
  | [r, d] => do pure { range := (← cronRange? r), step := some (← cronNum? d) }
  | _ => none

def cronField? (s : String) : Option (List Cron.Item) :=
  let items := s.splitOn ","
  if items.length > 6 ∨ s.length > 40 then none else items.mapM cronItem?

def showNext : Option Nat → String
  | some r => "P next=" ++ toString r
  | none => "P next=none"

def showSlot (e : Env) : Option Alarm → String
  | none => "-"
  | some a => match a.st with
    | .none => "N"
    | .inited => "I"
    | .running => "R" ++ toString (remainSeconds a e)

def stateLine (w : World) (ret : Bool) : String :=
  "P ret=" ++ (if ret then "1" else "0") ++ " " ++ " ".intercalate (w.slots.map (showSlot w.env))

def scanTag (pfx : String) (t : Nat) : Option Nat → List String
  | none => [pfx ++ "-none"]
  | some r =>
    let k := (r - t) / D
    [pfx ++ (if r ≤ t then "-wrapped" else if k = 0 then "-within-24h" else if k < 8 then "-week" else if r - t > far then "-far" else "-weeks")]

/-- branch tags: how the alarms of w' differ from w (arms, distances) -/
def armTags (w w' : World) : List String :=
  ((w.slots.zip w'.slots).flatMap fun p => match p with
    | (some a, some b) =>
      if b.st = .running ∧ (a.st ≠ .running ∨ a.target ≠ b.target ∨ a.timer ≠ b.timer) then
        let r := remainSeconds b w'.env
        [if r > far then "arm-far" else if r > 86400 then "arm-days" else "arm-near"]
        ++ (if w'.env.sec < b.lastServed then ["arm-while-wall-behind-last-served"] else [])
      else if a.st = .running ∧ b.st ≠ .running then ["disarmed"] else []
    | (some _, none) => ["destroyed"]
    | _ => [])
  ++ (if w'.watch.length > w.watch.length then ["subscribed"] else [])
  ++ (if w'.watch.eraseDups.length < w'.watch.length then ["double-subscription"] else [])

inductive POp where
  | pure (lines : List String) (tags : List String)     -- next-instant probes
  | world (o : WOp) (tags : List String)
  | clock (o : WOp)
  | clx (i : Nat)                                        -- cleanup() without re-installing the callback
  | selfcheck (msg : String)                             -- transcription and reference of the model disagree
  | bad

def parseOp (w : World) (ws : List String) : POp :=
  let r : Option POp :=
    match ws with
    | ["wk", sod, m, t] => do
        let sod ← bounded? sod 2147483647; let m ← mask? m; let t ← bounded? t (U32 - 1)
        let (a, ok) := initAlarm (fresh .weekly) sod m true
        if !ok then pure (.pure ["P init=0"] ["init-rejected"]) else
        let r := nextWeekly a.sod a.mask t
        pure (.pure [showNext r] (scanTag "wk" t r))
    | ["os", sod, t] => do
        let sod ← bounded? sod 2147483647; let t ← bounded? t (U32 - 1)
        let (a, ok) := initAlarm (fresh .oneshot) sod [] true
        if !ok then pure (.pure ["P init=0"] ["init-rejected"]) else
        let r := nextOneshot a.sod t
        pure (.pure [showNext (some r)] (scanTag "os" t (some r)))
    | ["wd", sod, wd, cm, sp, t] => do
        let sod ← bounded? sod 2147483647; let wd ← bool? wd; let cm ← bounded? cm 255
        let sp ← specialsSep? sp ","; let t ← bounded? t (U32 - 1)
        let (a, ok) := initAlarm (fresh .workday) sod [] wd
        if !ok then pure (.pure ["P init=0"] ["init-rejected"]) else
        let r := nextWorkday a.sod { weekMask := cm, special := sp } a.wd t
        pure (.pure [showNext r] (scanTag "wd" t r ++ (if sp.isEmpty then [] else ["wd-specials"])))
    | ["cron", s0, m0, h0, dom0, mon0, dow0, t] => do
        let s ← cronField? s0; let m ← cronField? m0; let h ← cronField? h0
        let dom ← cronField? dom0; let mon ← cronField? mon0; let dow ← cronField? dow0
        let t ← bounded? t (U32 - 1)
        match crossCheck (CC.parseExpr (" ".intercalate [s0, m0, h0, dom0, mon0, dow0]).toList) (Cron.parse s m h dom mon dow) t with
        | some msg => pure (.selfcheck msg)
        | none =>
        match Cron.parse s m h dom mon dow with
        | none => pure (.pure ["P init=0"] ["cron-rejected"])
        | some e =>
          let r := (Cron.nextCron e t cronHorizon).map w32
          let tags := match r with
            | none => [match Cron.nextCronDay e t cronHorizon with
                       | .beyond _ => "cron-none-year-horizon"
                       | .exhausted => "cron-none-exhausted"
                       | .found _ => "cron-none"]
            | some r => [if r ≤ t then "cron-wrapped" else if r - t ≤ 60 then "cron-minute" else if r - t ≤ 86400 then "cron-day"
                         else if r - t ≤ 31 * 86400 then "cron-month" else if r - t ≤ 366 * 86400 then "cron-year"
                         else if r - t ≤ 3 * 366 * 86400 then "cron-years" else "cron-4-years-or-more"]
              ++ (if e.dom != 4294967294 ∧ e.dow != 127 then ["cron-dom-and-dow"] else [])
              ++ (if (Cron.civil (r / 86400)).2 == (2, 29) then ["cron-feb29"] else [])
          pure (.pure [showNext r] tags)
    | ["cronen", s, m, h, dom, mon, dow, t] => do
        let s ← cronField? s; let m ← cronField? m; let h ← cronField? h
        let dom ← cronField? dom; let mon ← cronField? mon; let dow ← cronField? dow
        let t ← bounded? t (U32 - 1)
        match Cron.parse s m h dom mon dow with
        | none => pure (.pure ["P init=0"] ["cron-rejected"])
        | some e =>
          -- CronAlarm::enable() at wall second t, zone 0: activeTimer fails when calculateNextLocalTimeSec reports no instant
          match Cron.nextCron e t cronHorizon with
          | none => pure (.pure ["P en=0 enabled=0 rem=0"] ["cron-enable-fails"])
          | some r => pure (.pure ["P en=1 enabled=1 rem=" ++ toString (w32 (w32 r + U32 - t))] ["cron-enable-ok"])
    | ["cx", k, hx, t] => do
        -- raw expression bytes through the TRANSCRIPTION of cron_parse_expr / cron_next (names, ?, hex/octal numbers, white space …)
        let _ ← bounded? k 7
        let cs ← exprChars? hx
        let t ← bounded? t (U32 - 1)
        match CC.parseExpr cs with
        | none => pure (.pure ["P init=0"] ["cx-rejected"])
        | some e =>
          let r := (CC.cronNext e t CC.cronFuel).map w32
          let ref := (Cron.nextCron e.toExpr t cronHorizon).map w32
          if r != ref then pure (.selfcheck s!"cron_next({t}) of {repr e}: transcription {r} reference {ref}") else
          let shape := (if cs.any Char.isAlpha then ["cx-names"] else []) ++ (if cs.contains '?' then ["cx-question"] else [])
            ++ (if cs.any (fun c => c != ' ' && CC.isSpace c) then ["cx-inner-space"] else [])
            ++ (if hasSub cs "0x".toList || hasSub cs "0X".toList then ["cx-hex"] else [])
          pure (.pure ["P init=1", showBits e, showNext r] (["cx-ok", match r with | none => "cx-none" | some _ => "cx-next"] ++ shape))
    | ["initx", i, hx] => do
        let i ← slot? i
        let cs ← exprChars? hx
        let a ← w.get i
        let e := (CC.parseExpr cs).map CC.CExpr.toExpr
        pure (.world (.initc i e) [if a.cls != .cron then "initc-wrong-class" else if a.st = .running then "initc-running"
                                   else if e.isNone then (if a.st = .inited then "initc-rejected-keeps-old" else "initc-rejected") else "initx-ok"])
    | "new" :: i :: k :: rest => do
        let i ← slot? i
        let c ← (if k == "wk" then some Cls.weekly else if k == "os" then some Cls.oneshot else if k == "wd" then some Cls.workday
                 else if k == "cr" then some Cls.cron else none)
        let sc ← match rest with
          | [] => some []
          | [s] => script? i s
          | _ => none
        if (w.get i).isSome then none else
        pure (.world (.new i c sc) (if sc.isEmpty then [] else ["script"]))
    | ["init", i, sod, m, wd] => do
        let i ← slot? i; let sod ← int? sod; let m ← mask? m; let wd ← bool? wd
        if sod < -sodMax - 1 ∨ sod > sodMax then none else
        let a ← w.get i
        let r := initAlarm a sod m wd
        pure (.world (.init i sod m wd) ((if a.st = .running then ["init-while-running"] else []) ++
          (if r.2 ∧ a.st = .inited ∧ r.1.sod = a.sod ∧ r.1.mask = a.mask ∧ r.1.wd = a.wd then ["init-same-again"] else [])))
    | ["initc", i, s, m, h, dom, mon, dow] => do
        let i ← slot? i
        let s ← cronField? s; let m ← cronField? m; let h ← cronField? h
        let dom ← cronField? dom; let mon ← cronField? mon; let dow ← cronField? dow
        let a ← w.get i
        let e := Cron.parse s m h dom mon dow
        pure (.world (.initc i e) [if a.cls != .cron then "initc-wrong-class" else if a.st = .running then "initc-running"
                                   else if e.isNone then (if a.st = .inited then "initc-rejected-keeps-old" else "initc-rejected") else "initc-ok"])
    | ["tz", i, m] => do
        let i ← slot? i; let m ← int? m
        if m < -tzMax ∨ m > tzMax then none else
        let a ← w.get i
        pure (.world (.tz i m) (if a.tzSet ∧ a.off = m * 60 then ["tz-same-again"] else []))
    | ["en", i] => do
        let i ← slot? i; let a ← w.get i
        if enableNeedsDeadCal w i then none else       -- the user's contract: no enable() through a destroyed calendar
        let ok := (enable a w.env).2
        pure (.world (.enable i) ([if ok then "enable-ok" else if a.st = .inited then (if w.gtod then "enable-nomatch" else "enable-clock-failure") else "enable-rejected"]
          ++ (if !ok ∧ a.st = .inited ∧ a.cls = .workday then ["enable-failed-unsubscribed"] else [])))
    | ["dis", i] => do
        let i ← slot? i; let a ← w.get i
        pure (.world (.disable i) [if a.st = .running then "disable-ok" else "disable-rejected"])
    | ["rf", i] => do
        let i ← slot? i; let a ← w.get i
        pure (.world (.refresh i) ([if a.st = .running then "refresh" else "refresh-noop"]
          ++ (if a.st = .running ∧ !w.gtod then ["refresh-clock-failure"] else [])
          ++ (if a.st = .running ∧ (refresh a w.env).target = a.target ∧ (refresh a w.env).st = .running then ["refresh-same-target"] else [])))
    | ["cl", i] => do let i ← slot? i; let _ ← w.get i; pure (.world (.cleanup i) [])
    | ["clx", i] => do let i ← slot? i; let _ ← w.get i; pure (.clx i)
    | ["cb", i] => do let i ← slot? i; let _ ← w.get i; pure (.world (.setCb i) [])
    | ["del", i] => do
        let i ← slot? i; let a ← w.get i
        pure (.world (.destroy i) ((if a.st = .running then ["destroy-enabled"] else ["destroy-idle"]) ++
                                   (if w.watch.contains i then ["destroy-subscribed"] else []) ++
                                   (if !w.calAlive ∧ a.cls = .workday ∧ a.calSet then ["destroy-workday-after-calendar"] else [])))
    | ["calmask", m] => do
        let m ← bounded? m 255
        if !w.calAlive then none else
        pure (.world (.calMask m) ((if w.watch.isEmpty then [] else ["cal-refresh"]) ++ (if m = w.cal.weekMask then ["cal-unchanged"] else [])))
    | ["calsp", sp] => do
        let sp ← specialsSep? sp ","
        if !w.calAlive then none else
        pure (.world (.calSp sp) ((if w.watch.isEmpty then [] else ["cal-refresh"]) ++ (if sp == w.cal.special then ["cal-unchanged"] else [])))
    | ["gtod", b] => do pure (.world (.gtod (← bool? b)) [])
    | ["gtlater", b] => do
        -- oracle: every gettimeofday() after the first one inside a library call fails (Clock k = none for k ≥ 1): no influence on the model
        let b ← bool? b
        pure (.pure [stateLine w true] [if b then "later-readings-fail" else "later-readings-ok"])
    | ["skew", sub, inc, step] => do
        -- the oracle of LATER gettimeofday() answers inside one library call (first + step ms + k·inc µs; `sub` µs below the
        -- millisecond on every answer): the model reads the clock once per arming (C20_arm_reads_clock_once) and only
        -- `usec / 1000` of that reading enters the delay, so the plan changes nothing the model computes
        let sub ← bounded? sub 999; let inc ← bounded? inc 10000000; let step ← int? step
        if step < -4000000 ∨ step > 4000000 then none else
        pure (.pure [stateLine w true] [if sub = 0 ∧ inc = 0 ∧ step = 0 then "skew-off" else
          if step < 0 then "skew-step-back" else if step > 0 then "skew-step-forward" else "skew-time-passes"])
    | ["caldel"] => do
        if !(w.calAlive && !anyWorkdayRunning w) then none else     -- the contract: only when no workday alarm is enabled
        pure (.world .caldel ["calendar-destroyed"])
    | ["adv", d] => do
        let d ← bounded? d 40000000000
        if w.wallMs + d > maxWallMs then none else pure (.clock (.adv d))
    | ["mono", d] => do pure (.clock (.mono (← bounded? d 40000000000)))
    | ["wall", v] => do pure (.clock (.wall (← bounded? v maxWallMs)))
    | _ => none
  r.getD .bad

structure TAcc where
  w : World := {}
  tl : List String := []
  tags : List String := []
  err : Option String := none
  nops : Nat := 0

def expectLine (a : TAcc) (want : String) (what : String) : TAcc :=
  match a.tl with
  | l :: rest => if l == want then { a with tl := rest }
                 else { a with err := some ((if want.startsWith "M " then "M: " else "") ++ s!"op#{a.nops} {what}: impl=[{l}] model=[{want}]") }
  | [] => { a with err := some s!"op#{a.nops} {what}: impl=<missing> model=[{want}]" }

/-- expiries the trace cannot show: an alarm whose callback was cleared by cleanup() (op `clx`) and never
set again expires silently (onTimeExpired re-arms, `if (cb_)` skips the call).  Serve every such alarm
that the loop may serve now. -/
def silentFires (w : World) : Nat → World × Nat
  | 0 => (w, 0)
  | fuel + 1 =>
    match (List.range w.slots.length).find? (fun j => canFire w j && (match w.get j with | some al => !al.hasCb | none => false)) with
    | none => (w, 0)
    | some j => let r := silentFires (wFire w j) fuel; (r.1, r.2 + 1)

/-- consume the `F j <state>` lines of one pass -/
partial def firePass (a0 : TAcc) (count : Nat) : TAcc :=
  let sf := silentFires a0.w 16
  let a := if sf.2 > 0 then { a0 with w := sf.1, tags := a0.tags ++ ["silent-expiry"] } else a0
  match a.tl with
  | l :: rest =>
    match words l with
    | "F" :: j :: more =>
      if count > 64 then { a with err := some s!"op#{a.nops} more than 64 callbacks in one pass" } else
      match j.toNat? with
      | none => { a with err := some s!"op#{a.nops} unparsable callback line [{l}]" }
      | some j =>
        match a.w.get j with
        | none => { a with err := some s!"op#{a.nops} callback of alarm {j} which does not exist (destroyed)" }
        | some al =>
          match al.timer with
          | none => { a with err := some s!"op#{a.nops} callback of alarm {j} which is not armed (disabled, one-shot already fired, never enabled): [{l}]" }
          | some d =>
            if d > a.w.monoMs then
              { a with err := some s!"op#{a.nops} alarm {j} fired EARLY: armed for monotonic {d} ms, now {a.w.monoMs} ms (wall distance to target not waited): [{l}]" }
            else if !canFire a.w j then
              { a with err := some s!"op#{a.nops} alarm {j} (deadline {d}) served before an earlier deadline" }
            else
              let r := expire al a.w.env
              let want := showSlot a.w.env (some r.1)
              let got := " ".intercalate more
              if got != want then
                { a with err := some s!"op#{a.nops} callback of alarm {j} sees state impl=[{got}] model=[{want}] (instant served {r.2.1})" }
              else
                let e := a.w.env
                let w' := wFire a.w j
                let tags := [if e.sec < r.2.1 then "fire-early" else if e.sec > r.2.1 then "fire-late" else "fire-on-time"]
                  ++ (if r.1.st = .running then (if remainSeconds r.1 e > far then ["rearm-far"] else ["rearm"]) else ["no-rearm"])
                  ++ (if !e.gtod then ["expiry-clock-failure"] else [])
                  ++ (if al.lastServed != 0 ∧ r.2.1 ≤ al.lastServed then ["served-again"] else [])
                  ++ (if (a.w.script j).isEmpty then [] else ["script-run"] ++ armTags { a.w.put j (some r.1) with } w')
                  ++ (if count > 0 then ["pass-multi"] else [])
                firePass { a with w := w', tl := rest, tags := a.tags ++ tags } (count + 1)
    | _ => a
  | [] => a

def stepOp (a : TAcc) (line : String) : TAcc :=
  if a.err.isSome then a else
  let a := { a with nops := a.nops + 1 }
  match parseOp a.w (words line) with
  | .bad => expectLine a "bad-op" "malformed op"
  | .selfcheck msg => { a with err := some s!"M: op#{a.nops} the model's transcription of ccronexpr and its proved reference disagree: {msg}" }
  | .pure lines tags => lines.foldl (fun acc l => if acc.err.isSome then acc else expectLine acc l "next instant") { a with tags := a.tags ++ tags }
  | .world o tags =>
      let (w', ret) := wOp a.w o
      -- `cl` in the harness re-installs the callback right away (a silent expiry could not be traced)
      let w' := match o with
        | .cleanup j => (wOp w' (.setCb j)).1
        | _ => w'
      expectLine { a with w := w', tags := a.tags ++ tags ++ armTags a.w w' } (stateLine w' ret) "api result"
  | .clx i =>
      let w' := (wOp a.w (.cleanup i)).1
      expectLine { a with w := w', tags := a.tags ++ ["cleanup-clears-callback"] ++ armTags a.w w' } (stateLine w' true) "api result"
  | .clock o =>
      let w1 := (wOp a.w o).1
      let a1 := firePass { a with w := w1 } 0
      if a1.err.isSome then a1 else
      if anyDue a1.w then
        let due := (a1.w.slots.zipIdx.filter fun p => match p.1 with
          | some al => match al.timer with
            | some d => d ≤ a1.w.monoMs
            | none => false
          | none => false).map (·.2)
        { a1 with err := some s!"op#{a1.nops} pass ended although alarm(s) {due} are due (monotonic now {a1.w.monoMs}): SKIPPED / not fired; next impl line [{a1.tl.headD "<none>"}]" }
      else
        let fired := a1.w.log.length - a.w.log.length
        expectLine { a1 with tags := a1.tags ++ [if fired = 0 then "pass0" else if fired = 1 then "pass1" else "passN"] }
          (stateLine a1.w true) "after pass"

structure DS where
  ops : Array String := #[]
  tl : Array String := #[]

def finish (d : DS) : List String :=
  let a : TAcc := d.ops.foldl stepOp ({ tl := d.tl.toList } : TAcc)
  let tagsLine := if a.tags.isEmpty then [] else ["B " ++ " ".intercalate a.tags.eraseDups]
  match a.err with
  | some e => tagsLine ++ ["reject " ++ e]
  | none =>
    if a.w.uaf then tagsLine ++ ["reject M: the model executed a step through the destroyed calendar (driver legality check out of step with wValid)"] else
    match a.tl with
    | [] => tagsLine ++ [s!"ok ops={a.nops} callbacks={a.w.log.length}"]
    | l :: _ => tagsLine ++ ["reject unexpected extra implementation output: [" ++ l ++ "]"]

def stepLine (d : DS) (line : String) : DS × List String :=
  let t := line.trimAscii.toString
  if t.isEmpty then (d, [])
  else if t.startsWith "case " then ({}, [t])
  else if t == "end" then ({}, finish d)
  else if t.startsWith "T " then ({ d with tl := d.tl.push (t.drop 2).toString }, [])
  else ({ d with ops := d.ops.push t }, [])

def main : IO Unit := runDriver ({} : DS) stepLine
