/- C01 — the inductive invariants of the loop-queue model (statements + list lemmas). -/
import TboxModel.C01.Spec
namespace Tbox.C01

/-- invariant that holds for the code as found and as repaired -/
structure Inv (s : State) : Prop where
  count : ∀ id, (line s).count id + s.cancelled.count id = if accepted s id then 1 else 0
  allocPar : s.inAlloc % 2 = 0 ∧ s.nextAlloc % 2 = 1
  parIn : ∀ t ∈ s.inLoopQ, t.id % 2 = 0
  parNext : ∀ t ∈ s.nextQ, t.id % 2 = 1
  order : ∀ p, (par p (line s)).Pairwise (· < ·)
  shapeQuiet : (s.phase = .idle ∨ s.phase = .poll ∨ s.phase = .pre ∨ s.phase = .dead) →
      s.tmpQ = [] ∧ s.cur = [] ∧ s.dQ = []
  shapeBatch : (s.phase = .wake ∨ s.phase = .next) → s.dQ = []
  shapeDrain : s.phase = .drain → s.tmpQ = [] ∧ (s.remain = 100 → s.cur = [] ∧ s.dQ = []) ∧ s.remain ≤ 100
  fdRun : s.efd.isSome = true ↔ (s.phase = .poll ∨ s.phase = .pre ∨ s.phase = .wake ∨ s.phase = .next ∨
      (s.phase = .drain ∧ s.destroying = false))
  driver : s.phase ≠ .idle → lastDriver s.log = some s.loopTid
  execs : execsOk s.log = true
  logExec : execIds s.log = s.executed
  logCanc : cancelIds s.log = s.cancelled
  exitPend : ∀ id ∈ s.exitPending, id ∈ s.executed ∨
      (s.phase = .drain ∧ (id ∈ idsOf s.dQ ∨ (s.remain = 100 ∧ id ∈ idsOf (s.nextQ ++ s.inLoopQ))))

/-- the wake-up invariant; needs the flag to be cleared when the eventfd is closed.  `counter`: a pending
wake-up flag means a positive counter unless one of the writes since the last read failed (a failed read
leaves the counter positive with the flag cleared: one extra pass, harmless). -/
structure WakeInv (s : State) : Prop where
  counter : ∀ n, s.efd = some n → s.hasCommit = true → s.wrLost = false → 0 < n
  closed : s.efd = none → s.hasCommit = false
  armed : s.efd.isSome = true → s.inLoopQ ≠ [] → s.hasCommit = true

/-- the exit timer is only ever found due when it is armed and its deadline has passed -/
structure TimeInv (s : State) : Prop where
  due : s.timerDue = true → s.exitTimer = true ∧ s.exitAt ≤ s.clock ∧ s.phase = .pre

/-! ### list lemmas -/

@[simp] theorem idsOf_nil : idsOf [] = [] := rfl
@[simp] theorem idsOf_cons (t : Task) (q : List Task) : idsOf (t :: q) = t.id :: idsOf q := rfl
@[simp] theorem idsOf_append (a b : List Task) : idsOf (a ++ b) = idsOf a ++ idsOf b := by simp [idsOf]

@[simp] theorem par_nil (p : Nat) : par p [] = [] := rfl
@[simp] theorem par_append (p : Nat) (a b : List Nat) : par p (a ++ b) = par p a ++ par p b := by simp [par]
theorem par_cons (p x : Nat) (l : List Nat) : par p (x :: l) = if x % 2 = p then x :: par p l else par p l := by
  simp only [par, List.filter_cons, beq_iff_eq]

theorem par_eq_nil_of_ne (p q : Nat) (l : List Nat) (h : ∀ x ∈ l, x % 2 = q) (hpq : q ≠ p) : par p l = [] := by
  simp only [par, List.filter_eq_nil_iff, beq_iff_eq]
  intro x hx he; exact hpq ((h x hx).symm.trans he)

theorem par_eq_self (p : Nat) (l : List Nat) (h : ∀ x ∈ l, x % 2 = p) : par p l = l := by
  simp only [par, List.filter_eq_self, beq_iff_eq]; exact h

theorem mem_par {p x : Nat} {l : List Nat} : x ∈ par p l ↔ x ∈ l ∧ x % 2 = p := by
  simp [par]

theorem idsOf_par_in (q : List Task) (h : ∀ t ∈ q, t.id % 2 = 0) : ∀ x ∈ idsOf q, x % 2 = 0 := by
  intro x hx; simp only [idsOf, List.mem_map] at hx; obtain ⟨t, ht, rfl⟩ := hx; exact h t ht
theorem idsOf_par_next (q : List Task) (h : ∀ t ∈ q, t.id % 2 = 1) : ∀ x ∈ idsOf q, x % 2 = 1 := by
  intro x hx; simp only [idsOf, List.mem_map] at hx; obtain ⟨t, ht, rfl⟩ := hx; exact h t ht

theorem idsOf_removeId (q : List Task) (id : Nat) : idsOf (removeId q id) = (idsOf q).filter (· != id) := by
  induction q with
  | nil => rfl
  | cons t q ih =>
    simp only [removeId, List.filter_cons, idsOf_cons] at *
    by_cases h : t.id = id <;> simp [h, ih]

theorem hasId_iff (q : List Task) (id : Nat) : hasId q id = true ↔ id ∈ idsOf q := by
  simp only [hasId, List.any_eq_true, beq_iff_eq, idsOf, List.mem_map]

theorem count_filter_ne (l : List Nat) (id x : Nat) :
    (l.filter (· != id)).count x = if x = id then 0 else l.count x := by
  induction l with
  | nil => simp
  | cons y l ih =>
    by_cases hy : y = id
    · subst hy
      by_cases hx : x = y
      · subst hx; simp [ih]
      · have : ¬ y = x := fun h => hx h.symm
        simp [ih, hx, this]
    · by_cases hx : x = id
      · subst hx; simp [hy, ih]
      · simp [hy, ih, hx, List.count_cons]

theorem filter_ne_sublist (l : List Nat) (id : Nat) : (l.filter (· != id)).Sublist l := List.filter_sublist

theorem par_sublist {p : Nat} {a b : List Nat} (h : a.Sublist b) : (par p a).Sublist (par p b) :=
  List.Sublist.filter _ h

end Tbox.C01
