/-
C01 — model of the deferred-task machinery of the event loop:
  modules/event/common_loop_run.cpp  (runInLoop / runNext / cancel / handleRunInLoopFunc /
                                      handleNextFunc / cleanupDeferredTasks / commit+finishRunRequest)
  modules/event/common_loop.cpp      (runThisBeforeLoop / runThisAfterLoop / cleanup)
  modules/event/engines/{epoll,select}/loop.cpp (runLoop: poll, fd callbacks, handleNextFunc, exit)

One model step = one critical section (lock_ held) or one lock-free loop-thread region of the
code, so an execution (`exec`) is an arbitrary interleaving of the submitter threads with the
loop thread.  Task bodies are scripts (`List Act`) taken from a program table `cfg.prog`, so
calls made from inside callables are ordinary steps (`Step.act`).  `cfg.clearOnClose` selects
the code as repaired (patches/C01-01: has_commit_run_req_ cleared when the eventfd is closed,
`true`) or as found (`false`; only used by the counterexample theorem).

The local deques of cleanupDeferredTasks (run_next_tasks, then run_in_loop_tasks) are one list
`dQ = nextQ ++ inLoopQ` (they are executed back to back).  `executed`, `cancelled`, `log`,
`exitPending`, `Task.owner` are ghost (history) fields: no step reads them.
`cfg.clearOnClose` / the `throw` act follow the repaired code (patches/C01-01, C01-02); `stepFound`
gives the behaviour of the code as found for the counterexamples.
Not modelled: RunId wrap-around at 2^64 (theorems carry `NoWrap`), eventfd creation failure, nested runLoop,
exitLoop() from a thread other than the loop thread (unsynchronised in the code: see plugin ASSUMPTIONS).
-/
namespace Tbox.C01

inductive Act where
  | inLoop (k : Nat)      -- loop->runInLoop(task k)
  | next (k : Nat)        -- loop->runNext(task k)
  | cancel (id : Nat)     -- loop->cancel(id)
  | exit                  -- loop->exitLoop()
  | exitLater             -- loop->exitLoop(wait_time > 0): arms the exit timer
  | throw                 -- the callable throws: the rest of its script is not executed
deriving Repr, DecidableEq

structure Task where
  id : Nat
  owner : Nat
  body : List Act
deriving Repr, DecidableEq

/-- where the loop thread is -/
inductive Phase where
  | idle     -- not inside runLoop
  | poll     -- blocked in epoll_wait/select
  | pre      -- poll returned: timers and fd callbacks before the eventfd callback
  | wake     -- handleRunInLoopFunc batch (and fd callbacks after it)
  | next     -- handleNextFunc batch
  | drain    -- cleanupDeferredTasks (from runThisAfterLoop with lock_ held, or from a destructor)
  | dead     -- destroyed
deriving Repr, DecidableEq

inductive Ev where
  | sub (id owner : Nat) (viaNext : Bool)
  | exec (id tid : Nat)
  | cancel (id : Nat) (ok : Bool)
  | start (tid : Nat)
  | destroy (tid : Nat)
deriving Repr, DecidableEq

structure Cfg where
  clearOnClose : Bool
  prog : Nat → List Act

structure State where
  inLoopQ : List Task := []        -- run_in_loop_func_queue_   (lock_)
  nextQ : List Task := []          -- run_next_func_queue_      (loop thread only)
  tmpQ : List Task := []           -- tmp_func_queue_           (loop thread only)
  dQ : List Task := []             -- locals of cleanupDeferredTasks
  hasCommit : Bool := false        -- has_commit_run_req_       (lock_)
  efd : Option Nat := none         -- run_event_fd_ / sp_run_read_event_: counter, none = no fd (lock_)
  keepRunning : Bool := true       -- keep_running_
  exitTimer : Bool := false        -- sp_exit_timer_ exists and is enabled (armed, not fired yet)
  wakeSeen : Bool := false         -- the poll reported the eventfd readable
  inAlloc : Nat := 0               -- run_in_loop_id_alloc_     (lock_)
  nextAlloc : Nat := 1             -- run_next_id_alloc_
  phase : Phase := .idle
  cur : List Act := []             -- rest of the callable being executed
  remain : Nat := 0                -- remain_loop_count
  destroying : Bool := false
  loopTid : Nat := 0               -- thread inside runLoop / the destructor
  executed : List Nat := []        -- ghost, newest first
  cancelled : List Nat := []       -- ghost
  exitPending : List Nat := []     -- ghost: ids pending when the last drain began
  log : List Ev := []              -- ghost, newest first
deriving Repr

def idsOf (q : List Task) : List Nat := q.map (·.id)

/-- `commitRunRequest` -/
def commit (s : State) : State :=
  if s.hasCommit then s else { s with efd := s.efd.map (· + 1), hasCommit := true }

/-- `runInLoop` (whole body under lock_) -/
def submitInLoop (s : State) (tid : Nat) (body : List Act) : State :=
  let id := s.inAlloc + 2
  let s1 := { s with inAlloc := id, inLoopQ := s.inLoopQ ++ [{ id := id, owner := tid, body := body }],
                     log := .sub id tid false :: s.log }
  if s1.efd.isSome then commit s1 else s1

/-- `runNext` (no lock) -/
def submitNext (s : State) (tid : Nat) (body : List Act) : State :=
  let id := s.nextAlloc + 2
  { s with nextAlloc := id, nextQ := s.nextQ ++ [{ id := id, owner := tid, body := body }],
           log := .sub id tid true :: s.log }

def hasId (q : List Task) (id : Nat) : Bool := q.any (·.id == id)
/-- `RemoveRunFuncItemById` -/
def removeId (q : List Task) (id : Nat) : List Task := q.filter (fun t => t.id != id)

/-- result of `cancel(id)` -/
def cancelRet (s : State) (id : Nat) : Bool :=
  if id = 0 then false
  else if hasId s.tmpQ id then true
  else if id % 2 = 1 then hasId s.nextQ id else hasId s.inLoopQ id

/-- `cancel(id)`: the batch being executed first, then the queue chosen by the parity of the id -/
def cancel (s : State) (id : Nat) : State :=
  let ok := cancelRet s id
  let s1 :=
    if id = 0 then s
    else if hasId s.tmpQ id then { s with tmpQ := removeId s.tmpQ id }
    else if id % 2 = 1 then { s with nextQ := removeId s.nextQ id }
    else { s with inLoopQ := removeId s.inLoopQ id }
  { s1 with cancelled := if ok then id :: s.cancelled else s.cancelled, log := .cancel id ok :: s.log }

/-- head of `exitLoop`: `sp_exit_timer_->disable()` + delete.  Disabling an armed timer goes through
`deleteTimer`, which frees the timer record later through the loop's own `run()` — on the loop thread /
with the loop idle that is `runNext`: the loop itself submits a deferred task (empty script here), taking
an odd run id. -/
def dropExitTimer (s : State) (tid : Nat) : State :=
  if s.exitTimer then { submitNext s tid [] with exitTimer := false } else s

/-- one API call made by thread `tid` (the loop thread, or the owner while the loop is idle) -/
def doAct (cfg : Cfg) (s : State) (tid : Nat) : Act → State
  | .inLoop k => submitInLoop s tid (cfg.prog k)
  | .next k => submitNext s tid (cfg.prog k)
  | .cancel id => cancel s id
  | .exit => { dropExitTimer s tid with keepRunning := false }          -- wait_time == 0: stopLoop()
  | .exitLater => { dropExitTimer s tid with exitTimer := true }        -- new one-shot timer whose callback is stopLoop()
  -- the exception is caught around the call (`CatchThrow(item.func, true)`, patches/C01-02): the rest of
  -- the callable is skipped, the batch goes on (outside a callable `cur` is already empty)
  | .throw => { s with cur := [] }

inductive Step where
  | submit (tid k : Nat)            -- runInLoop from any thread that is not inside a loop-thread step
  | idleAct (tid : Nat) (a : Act)   -- API call by the owning thread while the loop is not running
  | loopStart (tid : Nat) (forever : Bool)   -- runLoop: runThisBeforeLoop
  | passBegin                       -- epoll_wait/select returns (any reason)
  | cbAct (a : Act)                 -- API call from a timer/fd callback of the pass
  | timerExit                       -- the exit timer fires (handleExpiredTimers): stopLoop()
  | passWake                        -- eventfd callback: swap, read eventfd, clear the flag (lock_)
  | passSkip                        -- eventfd not reported in this pass
  | execFront                       -- pop the batch front, call it
  | act                             -- next API call of the running callable
  | passNext                        -- handleNextFunc: swap
  | passEnd                         -- `while (keep_running_)`; on exit enter runThisAfterLoop (takes lock_)
  | drainGen                        -- one generation of cleanupDeferredTasks: move both queues out
  | drainExec                       -- call the front of the local deques
  | drainEnd                        -- cleanupDeferredTasks returns; close the eventfd / finish destruction
  | destroy (tid : Nat)             -- destructor: cleanup()
deriving Repr, DecidableEq

def drainMore (s : State) : Bool := (!s.inLoopQ.isEmpty || !s.nextQ.isEmpty) && decide (0 < s.remain)

def valid (s : State) : Step → Bool
  | .submit _ _ => s.phase != .drain && s.phase != .dead     -- lock_ free, object alive
  | .idleAct _ _ => s.phase == .idle
  | .loopStart _ _ => s.phase == .idle
  | .passBegin => s.phase == .poll
  | .cbAct _ => (s.phase == .pre || s.phase == .wake) && s.cur.isEmpty && s.tmpQ.isEmpty
  | .timerExit => s.phase == .pre && s.exitTimer
  | .passWake => s.phase == .pre && s.wakeSeen
  | .passSkip => s.phase == .pre && !s.wakeSeen
  | .execFront => (s.phase == .wake || s.phase == .next) && s.cur.isEmpty && !s.tmpQ.isEmpty
  | .act => !s.cur.isEmpty
  | .passNext => s.phase == .wake && s.cur.isEmpty && s.tmpQ.isEmpty
  | .passEnd => s.phase == .next && s.cur.isEmpty && s.tmpQ.isEmpty
  | .drainGen => s.phase == .drain && s.cur.isEmpty && s.dQ.isEmpty && drainMore s
  | .drainExec => s.phase == .drain && s.cur.isEmpty && !s.dQ.isEmpty
  | .drainEnd => s.phase == .drain && s.cur.isEmpty && s.dQ.isEmpty && !drainMore s
  | .destroy _ => s.phase == .idle

def step (cfg : Cfg) (s : State) : Step → State
  | .submit tid k => submitInLoop s tid (cfg.prog k)
  | .idleAct tid a => doAct cfg s tid a
  | .loopStart tid forever =>
      -- eventfd(0), then under lock_: loop_thread_id_, run_event_fd_, sp_run_read_event_; commit if work is queued
      let s1 := { s with efd := some 0, loopTid := tid, log := .start tid :: s.log }
      let s2 := if s1.inLoopQ.isEmpty then s1 else commit s1
      { s2 with keepRunning := forever, phase := .poll }
  | .passBegin => { s with phase := .pre, wakeSeen := match s.efd with | some n => decide (0 < n) | none => false }
  | .cbAct a => doAct cfg s s.loopTid a
  | .timerExit => { s with exitTimer := false, keepRunning := false }   -- one-shot: record freed, callback stopLoop()
  | .passWake =>
      -- swap(run_in_loop_func_queue_, tmp_func_queue_); finishRunRequest(): read() zeroes the counter
      { s with inLoopQ := s.tmpQ, tmpQ := s.inLoopQ, efd := s.efd.map (fun _ => 0), hasCommit := false, phase := .wake }
  | .passSkip => { s with phase := .wake }
  | .execFront =>
      match s.tmpQ with
      | t :: rest => { s with tmpQ := rest, cur := t.body, executed := t.id :: s.executed,
                              log := .exec t.id s.loopTid :: s.log }
      | [] => s
  | .act =>
      match s.cur with
      | a :: rest => doAct cfg { s with cur := rest } s.loopTid a
      | [] => s
  | .passNext => { s with nextQ := s.tmpQ, tmpQ := s.nextQ, phase := .next }
  | .passEnd =>
      if s.keepRunning then { s with phase := .poll }
      else { s with phase := .drain, remain := 100, destroying := false,
                    exitPending := idsOf s.nextQ ++ idsOf s.inLoopQ }
  | .drainGen => { s with remain := s.remain - 1, dQ := s.nextQ ++ s.inLoopQ, nextQ := [], inLoopQ := [] }
  | .drainExec =>
      match s.dQ with
      | t :: rest => { s with dQ := rest, cur := t.body, executed := t.id :: s.executed,
                              log := .exec t.id s.loopTid :: s.log }
      | [] => s
  | .drainEnd =>
      if s.destroying then { s with phase := .dead }
      else
        -- runThisAfterLoop: loop_thread_id_ cleared, read event deleted, eventfd closed
        { s with phase := .idle, efd := none,
                 hasCommit := if cfg.clearOnClose then false else s.hasCommit }
  | .destroy tid =>
      { s with phase := .drain, remain := 100, destroying := true, loopTid := tid,
               exitPending := idsOf s.nextQ ++ idsOf s.inLoopQ, log := .destroy tid :: s.log }

/-- run a step list; `none` as soon as a step is not enabled in the current state -/
def exec (cfg : Cfg) (s : State) : List Step → Option State
  | [] => some s
  | st :: sts => if valid s st then exec cfg (step cfg s st) sts else none

def init : State := {}

/-- the code before patches/C01-02: nothing catches around `item.func()`.  An exception thrown by a
callable of the shutdown drain unwinds `cleanupDeferredTasks`: its local deques — the rest of the
generation — are destroyed without being called, and the exception leaves runLoop()/the destructor. -/
def stepFound (cfg : Cfg) (s : State) : Step → State
  | .act =>
      match s.cur with
      | .throw :: _ => if s.phase == .drain then { s with cur := [], dQ := [], phase := if s.destroying then .dead else .idle }
                       else { s with cur := [] }
      | _ => step cfg s .act
  | st => step cfg s st

def execFound (cfg : Cfg) (s : State) : List Step → Option State
  | [] => some s
  | st :: sts => if valid s st then execFound cfg (stepFound cfg s st) sts else none

/-- the code as repaired (the tree the check passes on) -/
def fixedCfg (prog : Nat → List Act) : Cfg := { clearOnClose := true, prog := prog }
/-- the code as found -/
def foundCfg (prog : Nat → List Act) : Cfg := { clearOnClose := false, prog := prog }

end Tbox.C01
