/-
C01 — model of the deferred-task machinery of the event loop:
  modules/event/common_loop_run.cpp  (runInLoop / runNext / cancel / handleRunInLoopFunc /
                                      handleNextFunc / cleanupDeferredTasks / commit+finishRunRequest)
  modules/event/common_loop.cpp      (runThisBeforeLoop / runThisAfterLoop / cleanup)
  modules/event/engines/{epoll,select}/loop.cpp (runLoop: poll, fd callbacks, handleNextFunc, exit)

One model step = one critical section (lock_ held) or one lock-free loop-thread region of the
code, so an execution (`exec`) is an arbitrary interleaving of the submitter threads with the
loop thread.  Task bodies are scripts (`List Act`) taken from a program table `cfg.prog`, so
calls made from inside callables are ordinary steps (`Step.act`).  `cfg.clearOnClose` selects
the code as repaired (patches/C01-01: has_commit_run_req_ cleared when the eventfd is closed,
`true`) or as found (`false`; only used by the counterexample theorem).

The local deques of cleanupDeferredTasks (run_next_tasks, then run_in_loop_tasks) are one list
`dQ = nextQ ++ inLoopQ` (they are executed back to back).  `executed`, `cancelled`, `log`,
`exitPending`, `Task.owner` are ghost (history) fields: no step reads them.
`cfg.clearOnClose` / the `throw` act follow the repaired code (patches/C01-01, C01-02); `stepFound`
gives the behaviour of the code as found for the counterexamples.
Round 7 additions: kernel answers as oracle inputs (`Step.fault`: the next poll is interrupted / fails hard /
reports the eventfd spuriously, the next eventfd write / read fails, the next eventfd() fails), the select
engine's `break` on a hard poll error (`cfg.selectEngine`, `passBreak`), a virtual steady clock (`tick`) with the
exit timer's deadline (`exitAt`, `timerDue`) and the timeout handed to the poll (`pollTimeout`, with the
`static_cast<int>` of the epoll engine), `run()` (`Act.run`, `Step.submitRun`), the public `cleanup()`
(`Step.cleanup`, under lock_: patches/C01-03), `runLoop()` from inside a callable (`Act.nestedRun`, refused while
the loop is running: patches/C01-04), and the water line / statistics (`wlIn`, `wlNext`, `notices`, `inPeak`,
`nextPeak`: written, never read by anything else).
Round 8: the queries `isRunning()` / `isInLoopThread()` as observation functions of the state (`isRunning`, `inLoopThread`),
asked by any thread at any point (ops `query`, script act `q`).
Not modelled: RunId wrap-around at 2^64 (theorems carry `NoWrap`), exitLoop() from a thread other than the loop
thread (unsynchronised in the code and outside the statement: see the round-8 (3) section of Props.lean), `runLoop()` from a callable of a destructor /
`cleanup()` drain (the loop is not running there: `valid` refuses the act).
-/
namespace Tbox.C01

inductive Act where
  | inLoop (k : Nat)      -- loop->runInLoop(task k)
  | next (k : Nat)        -- loop->runNext(task k)
  | cancel (id : Nat)     -- loop->cancel(id)
  | exit                  -- loop->exitLoop()
  | exitLater (w : Nat)   -- loop->exitLoop(wait_time = w ms, w ≠ 0): arms the exit timer for now + w
  | throw                 -- the callable throws: the rest of its script is not executed
  | run (k : Nat)         -- loop->run(task k): runNext or runInLoop, chosen by thread and running state
  | nestedRun             -- loop->runLoop() from inside a callable / callback of the running loop
deriving Repr, DecidableEq

structure Task where
  id : Nat
  owner : Nat
  body : List Act
deriving Repr, DecidableEq

/-- where the loop thread is -/
inductive Phase where
  | idle     -- not inside runLoop
  | poll     -- blocked in epoll_wait/select
  | pre      -- poll returned: timers and fd callbacks before the eventfd callback
  | wake     -- handleRunInLoopFunc batch (and fd callbacks after it)
  | next     -- handleNextFunc batch
  | drain    -- cleanupDeferredTasks (from runThisAfterLoop with lock_ held, or from a destructor)
  | dead     -- destroyed
deriving Repr, DecidableEq

/-- what the next epoll_wait/select answers (oracle, set by `Step.fault`) -/
inductive PollRes where
  | ok         -- returns normally: reports the eventfd iff its counter is positive (level triggered)
  | intr       -- -1/EINTR (a signal): nothing is reported
  | err        -- -1 with another errno: epoll engine = like EINTR; select engine = `break`, the loop is left
  | spurious   -- reports the eventfd although the counter is 0 (the read then fails with EAGAIN)
deriving Repr, DecidableEq

/-- kernel answers the environment may choose at any moment -/
inductive Fault where
  | poll (r : PollRes)    -- answer of the next poll
  | wrFail                -- the next write() to the eventfd fails (nothing is added to the counter)
  | rdFail                -- the next read() of the eventfd fails (EINTR/EAGAIN: the counter is not zeroed)
  | efdFail               -- the next eventfd() fails (EMFILE): the loop runs without a wake-up descriptor
deriving Repr, DecidableEq

inductive Ev where
  | sub (id owner : Nat) (viaNext : Bool)
  | exec (id tid : Nat)
  | cancel (id : Nat) (ok : Bool)
  | start (tid : Nat)
  | destroy (tid : Nat)
  | cleanup (tid : Nat)
deriving Repr, DecidableEq

structure Cfg where
  clearOnClose : Bool
  prog : Nat → List Act
  selectEngine : Bool := false     -- engines/select/loop.cpp (a hard poll error leaves the loop) vs engines/epoll/loop.cpp

structure State where
  inLoopQ : List Task := []        -- run_in_loop_func_queue_   (lock_)
  nextQ : List Task := []          -- run_next_func_queue_      (loop thread only)
  tmpQ : List Task := []           -- tmp_func_queue_           (loop thread only)
  dQ : List Task := []             -- locals of cleanupDeferredTasks
  hasCommit : Bool := false        -- has_commit_run_req_       (lock_)
  efd : Option Nat := none         -- run_event_fd_ / sp_run_read_event_: counter, none = no fd (lock_)
  keepRunning : Bool := true       -- keep_running_
  exitTimer : Bool := false        -- sp_exit_timer_ exists and is enabled (armed, not fired yet)
  wakeSeen : Bool := false         -- the poll reported the eventfd readable
  inAlloc : Nat := 0               -- run_in_loop_id_alloc_     (lock_)
  nextAlloc : Nat := 1             -- run_next_id_alloc_
  phase : Phase := .idle
  cur : List Act := []             -- rest of the callable being executed
  remain : Nat := 0                -- remain_loop_count
  destroying : Bool := false
  loopTid : Nat := 0               -- thread inside runLoop / the destructor
  executed : List Nat := []        -- ghost, newest first
  cancelled : List Nat := []       -- ghost
  exitPending : List Nat := []     -- ghost: ids pending when the last drain began
  log : List Ev := []              -- ghost, newest first
  clock : Nat := 0                 -- steady clock, ms
  exitAt : Nat := 0                -- Timer::expired of the exit timer
  timerDue : Bool := false         -- handleExpiredTimers of this pass finds the exit timer expired
  poll : PollRes := .ok            -- oracle: answer of the next poll
  wrFail : Bool := false           -- oracle: the next eventfd write fails
  rdFail : Bool := false           -- oracle: the next eventfd read fails
  efdFail : Bool := false          -- oracle: the next eventfd() fails
  fdBad : Bool := false            -- run_event_fd_ == -1 although the loop runs (its read event could not be armed)
  wrLost : Bool := false           -- ghost: a wake-up write failed since the eventfd was last read
  broke : Bool := false            -- select engine: this pass ends with `break`
  userCleanup : Bool := false      -- the drain was started by the public cleanup()
  finalDrain : Bool := false       -- destructor: the drain of ~CommonLoop (after the exit timer was deleted) is under way
  wlIn : Nat := 2 ^ 64 - 1         -- water_line_.run_in_loop_queue_size
  wlNext : Nat := 2 ^ 64 - 1       -- water_line_.run_next_queue_size
  notices : Nat := 0               -- ghost: number of water-line notices logged
  inPeak : Nat := 0                -- run_in_loop_peak_num_ (statistics)
  nextPeak : Nat := 0              -- run_next_peak_num_   (statistics)
deriving Repr

def idsOf (q : List Task) : List Nat := q.map (·.id)

/-- `commitRunRequest`: the flag is set whether or not the write succeeded (it fails when the kernel says so, and
always when eventfd() had failed: run_event_fd_ is -1) -/
def commit (s : State) : State :=
  if s.hasCommit then s
  else if s.wrFail || s.fdBad then { s with hasCommit := true, wrFail := s.wrFail && s.fdBad, wrLost := true }   -- (fd -1: the oracle is not consumed)
  else { s with efd := s.efd.map (· + 1), hasCommit := true }

/-- tail of `runInLoop`: water-line notice and peak statistics -/
def noteIn (s : State) : State :=
  { s with notices := if s.wlIn < s.inLoopQ.length then s.notices + 1 else s.notices,
           inPeak := if s.inPeak < s.inLoopQ.length then s.inLoopQ.length else s.inPeak }

/-- tail of `runNext` -/
def noteNext (s : State) : State :=
  { s with notices := if s.wlNext < s.nextQ.length then s.notices + 1 else s.notices,
           nextPeak := if s.nextPeak < s.nextQ.length then s.nextQ.length else s.nextPeak }

/-- `runInLoop` (whole body under lock_) -/
def submitInLoop (s : State) (tid : Nat) (body : List Act) : State :=
  let id := s.inAlloc + 2
  let s1 := { s with inAlloc := id, inLoopQ := s.inLoopQ ++ [{ id := id, owner := tid, body := body }],
                     log := .sub id tid false :: s.log }
  noteIn (if s1.efd.isSome then commit s1 else s1)

/-- `runNext` (no lock) -/
def submitNext (s : State) (tid : Nat) (body : List Act) : State :=
  let id := s.nextAlloc + 2
  noteNext { s with nextAlloc := id, nextQ := s.nextQ ++ [{ id := id, owner := tid, body := body }],
                    log := .sub id tid true :: s.log }

def hasId (q : List Task) (id : Nat) : Bool := q.any (·.id == id)
/-- `RemoveRunFuncItemById` -/
def removeId (q : List Task) (id : Nat) : List Task := q.filter (fun t => t.id != id)

/-- result of `cancel(id)` -/
def cancelRet (s : State) (id : Nat) : Bool :=
  if id = 0 then false
  else if hasId s.tmpQ id then true
  else if id % 2 = 1 then hasId s.nextQ id else hasId s.inLoopQ id

/-- `cancel(id)`: the batch being executed first, then the queue chosen by the parity of the id -/
def cancel (s : State) (id : Nat) : State :=
  let ok := cancelRet s id
  let s1 :=
    if id = 0 then s
    else if hasId s.tmpQ id then { s with tmpQ := removeId s.tmpQ id }
    else if id % 2 = 1 then { s with nextQ := removeId s.nextQ id }
    else { s with inLoopQ := removeId s.inLoopQ id }
  { s1 with cancelled := if ok then id :: s.cancelled else s.cancelled, log := .cancel id ok :: s.log }

/-- head of `exitLoop`: `sp_exit_timer_->disable()` + delete.  Disabling an armed timer goes through
`deleteTimer`, which frees the timer record later through the loop's own `run()` — on the loop thread /
with the loop idle that is `runNext`: the loop itself submits a deferred task (empty script here), taking
an odd run id. -/
def dropExitTimer (s : State) (tid : Nat) : State :=
  if s.exitTimer then { submitNext s tid [] with exitTimer := false, timerDue := false } else s

/-- `isRunning()` (under lock_): `sp_run_read_event_ != nullptr` — set by runThisBeforeLoop, reset by runThisAfterLoop
in the same critical sections that open / close the eventfd -/
def isRunning (s : State) : Bool := s.efd.isSome

/-- `isInLoopThread()` (under lock_) asked by thread `tid`: `this_thread::get_id() == loop_thread_id_`.  loop_thread_id_ is
written together with sp_run_read_event_ and cleared by runThisAfterLoop; a destructor / cleanup() drain does not set it
(the model's `loopTid` is then only the ghost "thread doing the drain") -/
def inLoopThread (s : State) (tid : Nat) : Bool := s.efd.isSome && tid == s.loopTid

/-- one API call made by thread `tid` (the loop thread, or the owner while the loop is idle) -/
def doAct (cfg : Cfg) (s : State) (tid : Nat) : Act → State
  | .inLoop k => submitInLoop s tid (cfg.prog k)
  | .next k => submitNext s tid (cfg.prog k)
  | .cancel id => cancel s id
  | .exit => { dropExitTimer s tid with keepRunning := false }          -- wait_time == 0: stopLoop()
  -- new one-shot timer whose callback is stopLoop(): expired = now + interval (addTimer)
  | .exitLater w => { dropExitTimer s tid with exitTimer := true, exitAt := s.clock + w }
  -- the exception is caught around the call (`CatchThrow(item.func, true)`, patches/C01-02): the rest of
  -- the callable is skipped, the batch goes on (outside a callable `cur` is already empty)
  | .throw => { s with cur := [] }
  -- run(): `isRunningLockless() && !isInLoopThreadLockless()` (looked at under lock_) picks runInLoop, else runNext
  | .run k => if s.efd.isSome && tid != s.loopTid then submitInLoop s tid (cfg.prog k) else submitNext s tid (cfg.prog k)
  -- runLoop() while the loop is running returns at once (patches/C01-04); `valid` admits the act only then
  | .nestedRun => s

inductive Step where
  | submit (tid k : Nat)            -- runInLoop from any thread that is not inside a loop-thread step
  | idleAct (tid : Nat) (a : Act)   -- API call by the owning thread while the loop is not running
  | loopStart (tid : Nat) (forever : Bool)   -- runLoop: runThisBeforeLoop
  | passBegin                       -- epoll_wait/select returns (any reason)
  | cbAct (a : Act)                 -- API call from a timer/fd callback of the pass
  | timerExit                       -- the exit timer fires (handleExpiredTimers): stopLoop()
  | passWake                        -- eventfd callback: swap, read eventfd, clear the flag (lock_)
  | passSkip                        -- eventfd not reported in this pass
  | execFront                       -- pop the batch front, call it
  | act                             -- next API call of the running callable
  | passNext                        -- handleNextFunc: swap
  | passEnd                         -- `while (keep_running_)`; on exit enter runThisAfterLoop (takes lock_)
  | drainGen                        -- one generation of cleanupDeferredTasks: move both queues out
  | drainExec                       -- call the front of the local deques
  | drainEnd                        -- cleanupDeferredTasks returns; close the eventfd / finish destruction
  | destroy (tid : Nat)             -- destructor: cleanup()
  | fault (f : Fault)               -- the environment fixes a kernel answer
  | tick (d : Nat)                  -- the steady clock advances by d ms
  | submitRun (tid k : Nat)         -- run() from a thread other than the loop thread while the loop runs
  | passBreak                       -- select engine: hard poll error, `break` out of the loop after the timers
  | cleanup (tid : Nat)             -- the public cleanup() while the loop is not running (takes lock_: patches/C01-03)
  | setWL (a b : Nat)               -- water_line().run_in_loop_queue_size = a, .run_next_queue_size = b
deriving Repr, DecidableEq

def drainMore (s : State) : Bool := (!s.inLoopQ.isEmpty || !s.nextQ.isEmpty) && decide (0 < s.remain)

def valid (s : State) : Step → Bool
  | .submit _ _ => s.phase != .drain && s.phase != .dead     -- lock_ free, object alive
  | .idleAct _ _ => s.phase == .idle
  | .loopStart _ _ => s.phase == .idle
  | .passBegin => s.phase == .poll
  | .cbAct _ => (s.phase == .pre || s.phase == .wake) && s.cur.isEmpty && s.tmpQ.isEmpty
  | .timerExit => s.phase == .pre && s.timerDue
  | .passWake => s.phase == .pre && s.wakeSeen && !s.timerDue
  | .passSkip => s.phase == .pre && !s.wakeSeen && !s.timerDue && !s.broke
  | .execFront => (s.phase == .wake || s.phase == .next) && s.cur.isEmpty && !s.tmpQ.isEmpty
  | .act => (match s.cur with | [] => false | .nestedRun :: _ => s.efd.isSome | _ => true)
  | .passNext => s.phase == .wake && s.cur.isEmpty && s.tmpQ.isEmpty
  | .passEnd => s.phase == .next && s.cur.isEmpty && s.tmpQ.isEmpty
  | .drainGen => s.phase == .drain && s.cur.isEmpty && s.dQ.isEmpty && drainMore s
  | .drainExec => s.phase == .drain && s.cur.isEmpty && !s.dQ.isEmpty
  | .drainEnd => s.phase == .drain && s.cur.isEmpty && s.dQ.isEmpty && !drainMore s
  | .destroy _ => s.phase == .idle
  | .fault _ => s.phase != .dead
  | .tick _ => s.phase != .dead
  | .submitRun tid _ => s.phase != .drain && s.phase != .dead && s.phase != .idle && tid != s.loopTid
  | .passBreak => s.phase == .pre && s.broke && !s.timerDue
  | .cleanup _ => s.phase == .idle
  | .setWL _ _ => s.phase != .dead

def setFault (s : State) : Fault → State
  | .poll r => { s with poll := r }
  | .wrFail => { s with wrFail := true }
  | .rdFail => { s with rdFail := true }
  | .efdFail => { s with efdFail := true }

/-- what the poll reports about the eventfd -/
def pollSees (s : State) : Bool :=
  match s.poll with
  | .ok => (match s.efd with | some n => decide (0 < n) | none => false)
  | .spurious => s.efd.isSome && !s.fdBad
  | _ => false

/-- `getWaitTime()`: 0 with run-next work queued, else the time to the (only) timer, else -1 = for ever -/
def waitTime (s : State) : Int :=
  if !s.nextQ.isEmpty then 0
  else if s.exitTimer then (if s.exitAt ≤ s.clock then 0 else ((s.exitAt - s.clock : Nat) : Int))
  else -1

/-- `static_cast<int>` of a 64-bit value (two's complement) -/
def toInt32 (x : Int) : Int := (x + 2147483648) % 4294967296 - 2147483648

/-- the timeout (ms) handed to the poll.  epoll: `if (wait_ms > INT_MAX) wait_ms = INT_MAX;` then the cast to
`int`; select: tv_sec/tv_usec from the 64-bit value, `nullptr` (-1 here) for "for ever". -/
def pollTimeout (cfg : Cfg) (s : State) : Int :=
  if cfg.selectEngine then waitTime s
  else toInt32 (if waitTime s > 2147483647 then 2147483647 else waitTime s)

def step (cfg : Cfg) (s : State) : Step → State
  | .submit tid k => submitInLoop s tid (cfg.prog k)
  | .idleAct tid a => doAct cfg s tid a
  | .loopStart tid forever =>
      -- eventfd(0), then under lock_: loop_thread_id_, run_event_fd_, sp_run_read_event_; commit if work is queued
      -- (eventfd() may fail: then run_event_fd_ = -1, the read event exists but cannot be armed); resetStat()
      let s1 := { s with efd := some 0, loopTid := tid, log := .start tid :: s.log,
                         fdBad := s.efdFail, efdFail := false, wrLost := false, inPeak := 0, nextPeak := 0 }
      let s2 := if s1.inLoopQ.isEmpty then s1 else commit s1
      { s2 with keepRunning := forever, phase := .poll }
  | .passBegin =>
      -- the poll returns; handleExpiredTimers() reads the clock once
      { s with phase := .pre, wakeSeen := pollSees s, poll := .ok,
               broke := cfg.selectEngine && s.poll == .err,
               timerDue := s.exitTimer && decide (s.exitAt ≤ s.clock) }
  | .cbAct a => doAct cfg s s.loopTid a
  | .timerExit => { s with exitTimer := false, timerDue := false, keepRunning := false }   -- one-shot: record freed, callback stopLoop()
  | .passWake =>
      -- swap(run_in_loop_func_queue_, tmp_func_queue_); finishRunRequest(): read() zeroes the counter (unless it
      -- fails); the flag is cleared either way
      { s with inLoopQ := s.tmpQ, tmpQ := s.inLoopQ, efd := if s.rdFail then s.efd else s.efd.map (fun _ => 0),
               rdFail := false, hasCommit := false, wrLost := false, phase := .wake }
  | .passSkip => { s with phase := .wake }
  | .execFront =>
      match s.tmpQ with
      | t :: rest => { s with tmpQ := rest, cur := t.body, executed := t.id :: s.executed,
                              log := .exec t.id s.loopTid :: s.log }
      | [] => s
  | .act =>
      match s.cur with
      | a :: rest => doAct cfg { s with cur := rest } s.loopTid a
      | [] => s
  | .passNext => { s with nextQ := s.tmpQ, tmpQ := s.nextQ, phase := .next }
  | .passEnd =>
      if s.keepRunning then { s with phase := .poll }
      else { s with phase := .drain, remain := 100, destroying := false,
                    exitPending := idsOf s.nextQ ++ idsOf s.inLoopQ }
  | .drainGen => { s with remain := s.remain - 1, dQ := s.nextQ ++ s.inLoopQ, nextQ := [], inLoopQ := [] }
  | .drainExec =>
      match s.dQ with
      | t :: rest => { s with dQ := rest, cur := t.body, executed := t.id :: s.executed,
                              log := .exec t.id s.loopTid :: s.log }
      | [] => s
  | .drainEnd =>
      if s.destroying then
        (if s.userCleanup then { s with phase := .idle, userCleanup := false }
         -- the engine's destructor has drained; ~CommonLoop deletes the exit timer (an armed one posts the release of its
         -- record as a deferred task) and drains once more (patches/C01-05), again for at most 100 generations
         else if !s.finalDrain then { dropExitTimer s s.loopTid with remain := 100, finalDrain := true }
         else { s with phase := .dead })
      else
        -- runThisAfterLoop: loop_thread_id_ cleared, read event deleted, eventfd closed
        { s with phase := .idle, efd := none,
                 hasCommit := if cfg.clearOnClose then false else s.hasCommit, fdBad := false, wrLost := false }
  | .destroy tid =>
      { s with phase := .drain, remain := 100, destroying := true, userCleanup := false, finalDrain := false, loopTid := tid,
               exitPending := idsOf s.nextQ ++ idsOf s.inLoopQ, log := .destroy tid :: s.log }
  | .fault f => setFault s f
  | .tick d => { s with clock := s.clock + d }
  | .submitRun tid k => doAct cfg s tid (.run k)
  | .passBreak =>
      { s with phase := .drain, remain := 100, destroying := false, broke := false,
               exitPending := idsOf s.nextQ ++ idsOf s.inLoopQ }
  | .cleanup tid =>
      -- cleanupDeferredTasks() with no eventfd and the loop staying alive (`destroying` = "no eventfd to close")
      { s with phase := .drain, remain := 100, destroying := true, userCleanup := true, loopTid := tid,
               exitPending := idsOf s.nextQ ++ idsOf s.inLoopQ, log := .cleanup tid :: s.log }
  | .setWL a b => { s with wlIn := a, wlNext := b }

/-- run a step list; `none` as soon as a step is not enabled in the current state -/
def exec (cfg : Cfg) (s : State) : List Step → Option State
  | [] => some s
  | st :: sts => if valid s st then exec cfg (step cfg s st) sts else none

def init : State := {}

/-- the code before patches/C01-02: nothing catches around `item.func()`.  An exception thrown by a
callable of the shutdown drain unwinds `cleanupDeferredTasks`: its local deques — the rest of the
generation — are destroyed without being called, and the exception leaves runLoop()/the destructor. -/
def stepFound (cfg : Cfg) (s : State) : Step → State
  | .act =>
      match s.cur with
      | .throw :: _ => if s.phase == .drain then { s with cur := [], dQ := [], phase := if s.destroying then .dead else .idle }
                       else { s with cur := [] }
      | _ => step cfg s .act
  -- the code before patches/C01-05: ~CommonLoop deletes the exit timer after the only drain; the release of an armed
  -- timer's record is posted to a loop that will never run it
  | .drainEnd =>
      if s.destroying && !s.userCleanup then { dropExitTimer s s.loopTid with phase := .dead } else step cfg s .drainEnd
  | st => step cfg s st

def execFound (cfg : Cfg) (s : State) : List Step → Option State
  | [] => some s
  | st :: sts => if valid s st then execFound cfg (stepFound cfg s st) sts else none

/-- the code as repaired (the tree the check passes on) -/
def fixedCfg (prog : Nat → List Act) : Cfg := { clearOnClose := true, prog := prog }
/-- … on the select engine -/
def fixedCfgSel (prog : Nat → List Act) : Cfg := { clearOnClose := true, prog := prog, selectEngine := true }
/-- the code as found -/
def foundCfg (prog : Nat → List Act) : Cfg := { clearOnClose := false, prog := prog }

end Tbox.C01
