/- C01 — proofs, part 3: every step preserves `Inv` (and `WakeInv` for the repaired code); executions. -/
import TboxModel.C01.Proofs2
namespace Tbox.C01

theorem init_inv : Inv init := by
  refine { count := ?_, allocPar := ?_, parIn := ?_, parNext := ?_, order := ?_, shapeQuiet := ?_, shapeBatch := ?_,
           shapeDrain := ?_, fdRun := ?_, driver := ?_, execs := ?_, logExec := ?_, logCanc := ?_, exitPend := ?_ }
  · intro id
    have : ¬ accepted init id := by unfold accepted; simp only [init]; omega
    rw [if_neg this]
    simp [line, pend, init]
  · simp [init]
  · simp [init]
  · simp [init]
  · intro p; simp [line, pend, init]
  · simp [init]
  · simp [init]
  · simp [init]
  · simp [init]
  · simp [init]
  · rfl
  · rfl
  · rfl
  · simp [init]

theorem init_wake : WakeInv init := by
  refine ⟨?_, ?_, ?_⟩ <;> simp [init]

theorem Inv.exitDone {s : State} (h : Inv s) (hp : s.phase ≠ .drain) : ∀ id ∈ s.exitPending, id ∈ s.executed := by
  intro id hid
  rcases h.exitPend id hid with h1 | ⟨h2, _⟩
  · exact h1
  · exact absurd h2 hp

theorem ite_commit_frame (b : Bool) (s : State) :
    let s2 := if b then s else commit s
    s2.inLoopQ = s.inLoopQ ∧ s2.nextQ = s.nextQ ∧ s2.tmpQ = s.tmpQ ∧ s2.dQ = s.dQ ∧
    s2.keepRunning = s.keepRunning ∧ s2.inAlloc = s.inAlloc ∧ s2.nextAlloc = s.nextAlloc ∧
    s2.phase = s.phase ∧ s2.cur = s.cur ∧ s2.remain = s.remain ∧ s2.destroying = s.destroying ∧
    s2.loopTid = s.loopTid ∧ s2.executed = s.executed ∧ s2.cancelled = s.cancelled ∧
    s2.exitPending = s.exitPending ∧ s2.log = s.log ∧ s2.efd.isSome = s.efd.isSome := by
  cases b
  · exact commit_frame s
  · simp

/-- dropping the head of the running script -/
theorem popCur_inv {s : State} {a : Act} {rest : List Act} (h : Inv s) (hc : s.cur = a :: rest) :
    Inv { s with cur := rest } ∧ ¬(s.phase = .drain ∧ s.remain = 100) := by
  have hnq : ¬(s.phase = .idle ∨ s.phase = .poll ∨ s.phase = .pre ∨ s.phase = .dead) := by
    intro hp; have := (h.shapeQuiet hp).2.1; rw [hc] at this; cases this
  have hnd : ¬(s.phase = .drain ∧ s.remain = 100) := by
    rintro ⟨hp, hr⟩; have := ((h.shapeDrain hp).2.1 hr).1; rw [hc] at this; cases this
  refine ⟨?_, hnd⟩
  have hcore := core_same (s' := { s with cur := rest }) h rfl rfl rfl rfl
  exact { count := hcore.1, allocPar := h.allocPar, parIn := h.parIn, parNext := h.parNext, order := hcore.2,
          shapeQuiet := fun hp => absurd hp hnq, shapeBatch := h.shapeBatch,
          shapeDrain := fun hp => ⟨(h.shapeDrain hp).1, fun hr => absurd ⟨hp, hr⟩ hnd, (h.shapeDrain hp).2.2⟩,
          fdRun := h.fdRun, driver := h.driver, execs := h.execs, logExec := h.logExec, logCanc := h.logCanc,
          exitPend := h.exitPend }

theorem loopStart_inv (cfg : Cfg) (s : State) (tid : Nat) (forever : Bool) (h : Inv s) (hp : s.phase = .idle) :
    Inv (step cfg s (.loopStart tid forever)) := by
  simp only [step]
  obtain ⟨fq, fn, ft, fd, -, fa, fna, -, fcur, -, -, flt, fex, fca, fep, flog, fefd⟩ :=
    ite_commit_frame s.inLoopQ.isEmpty { s with efd := some 0, loopTid := tid, log := .start tid :: s.log, fdBad := s.efdFail, efdFail := false, wrLost := false, inPeak := 0, nextPeak := 0 }
  simp only at fq fn ft fd fa fna fcur flt fex fca fep flog fefd
  generalize (if s.inLoopQ.isEmpty then ({ s with efd := some 0, loopTid := tid, log := .start tid :: s.log, fdBad := s.efdFail, efdFail := false, wrLost := false, inPeak := 0, nextPeak := 0 } : State)
    else commit { s with efd := some 0, loopTid := tid, log := .start tid :: s.log, fdBad := s.efdFail, efdFail := false, wrLost := false, inPeak := 0, nextPeak := 0 }) = s2 at *
  have hq := h.shapeQuiet (Or.inl hp)
  have hcore : Core { s2 with keepRunning := forever, phase := .poll } := by
    refine core_same h ?_ fca fa fna
    rw [line_def, line_def]; simp only [fex, ft, fd, fn, fq]
  exact { count := hcore.1, allocPar := by simp only [fa, fna]; exact h.allocPar,
          parIn := by simp only [fq]; exact h.parIn, parNext := by simp only [fn]; exact h.parNext,
          order := hcore.2,
          shapeQuiet := by simp only [ft, fcur, fd]; exact fun _ => hq,
          shapeBatch := by simp,
          shapeDrain := by simp,
          fdRun := by simp [fefd],
          driver := by simp [flog, flt],
          execs := by simp only [flog, execsOk_start]; exact h.execs,
          logExec := by simp only [flog, execIds_start, fex]; exact h.logExec,
          logCanc := by simp only [flog, cancelIds_start, fca]; exact h.logCanc,
          exitPend := by
            simp only [fep, fex]
            exact fun id hid => Or.inl (h.exitDone (by simp [hp]) id hid) }

theorem passWake_inv (s : State) (h : Inv s) (hp : s.phase = .pre) :
    Inv { s with inLoopQ := s.tmpQ, tmpQ := s.inLoopQ, efd := if s.rdFail then s.efd else s.efd.map (fun _ => 0),
                 rdFail := false, hasCommit := false, wrLost := false, phase := .wake } := by
  obtain ⟨ht, hcur, hd⟩ := h.shapeQuiet (Or.inr (Or.inr (Or.inl hp)))
  have hcore : Core { s with inLoopQ := s.tmpQ, tmpQ := s.inLoopQ, efd := if s.rdFail then s.efd else s.efd.map (fun _ => 0),
                             rdFail := false, hasCommit := false, wrLost := false, phase := .wake } := by
    refine core_swap h s.executed.reverse (idsOf s.nextQ) (idsOf s.inLoopQ) ?_ ?_
      (idsOf_par_next _ h.parNext) (idsOf_par_in _ h.parIn) rfl rfl rfl
    · rw [line_def]; simp [ht, hd]
    · rw [line_def]; simp [ht, hd]
  have hfd := h.fdRun
  exact { count := hcore.1, allocPar := h.allocPar, parIn := by simp [ht], parNext := h.parNext, order := hcore.2,
          shapeQuiet := by simp, shapeBatch := fun _ => hd, shapeDrain := by simp,
          fdRun := by simp [hp] at hfd; cases s.rdFail <;> simp [hfd],
          driver := fun _ => h.driver (by simp [hp]), execs := h.execs, logExec := h.logExec, logCanc := h.logCanc,
          exitPend := fun id hid => Or.inl (h.exitDone (by simp [hp]) id hid) }

/-- entering the shutdown drain from a pass (end of the pass, or the select engine's `break`) -/
theorem enterDrain_inv (s : State) (h : Inv s) (hp : s.phase = .next ∨ s.phase = .pre) (hc : s.cur = []) (ht : s.tmpQ = [])
    (hd : s.dQ = []) (b : Bool) :
    Inv { s with phase := .drain, remain := 100, destroying := false, broke := b,
                 exitPending := idsOf s.nextQ ++ idsOf s.inLoopQ } := by
  have hfd := h.fdRun
  have hsome : s.efd.isSome = true := by rcases hp with hp | hp <;> simp [hp] at hfd <;> exact hfd
  have hdr := h.driver (by rcases hp with hp | hp <;> simp [hp])
  have hcore := core_same (s' := { s with phase := .drain, remain := 100, destroying := false, broke := b,
                                          exitPending := idsOf s.nextQ ++ idsOf s.inLoopQ }) h rfl rfl rfl rfl
  exact { count := hcore.1, allocPar := h.allocPar, parIn := h.parIn, parNext := h.parNext, order := hcore.2,
          shapeQuiet := by simp, shapeBatch := by simp,
          shapeDrain := fun _ => ⟨ht, fun _ => ⟨hc, hd⟩, Nat.le_refl _⟩,
          fdRun := by simp [hsome],
          driver := fun _ => hdr, execs := h.execs, logExec := h.logExec, logCanc := h.logCanc,
          exitPend := fun id hid => Or.inr ⟨rfl, Or.inr ⟨rfl, by simpa using hid⟩⟩ }

theorem execFront_inv (s : State) (h : Inv s) (hp : s.phase = .wake ∨ s.phase = .next) (t : Task) (rest : List Task)
    (hq : s.tmpQ = t :: rest) :
    Inv { s with tmpQ := rest, cur := t.body, executed := t.id :: s.executed, log := .exec t.id s.loopTid :: s.log } := by
  have hd := h.shapeBatch hp
  have hni : s.phase ≠ .idle := by rcases hp with hp | hp <;> simp [hp]
  have hnd : s.phase ≠ .drain := by rcases hp with hp | hp <;> simp [hp]
  have hnq : ¬(s.phase = .idle ∨ s.phase = .poll ∨ s.phase = .pre ∨ s.phase = .dead) := by
    rcases hp with hp | hp <;> simp [hp]
  have hcore : Core { s with tmpQ := rest, cur := t.body, executed := t.id :: s.executed,
                             log := .exec t.id s.loopTid :: s.log } := by
    refine core_same h ?_ rfl rfl rfl
    rw [line_def, line_def, hq]; simp
  exact { count := hcore.1, allocPar := h.allocPar, parIn := h.parIn, parNext := h.parNext, order := hcore.2,
          shapeQuiet := fun hp' => absurd hp' hnq, shapeBatch := h.shapeBatch,
          shapeDrain := fun hp' => absurd hp' hnd,
          fdRun := h.fdRun, driver := h.driver,
          execs := by simp [h.driver hni, h.execs],
          logExec := by simp [h.logExec], logCanc := h.logCanc,
          exitPend := fun id hid => Or.inl (List.mem_cons_of_mem _ (h.exitDone hnd id hid)) }

theorem passNext_inv (s : State) (h : Inv s) (hp : s.phase = .wake) (ht : s.tmpQ = []) :
    Inv { s with nextQ := s.tmpQ, tmpQ := s.nextQ, phase := .next } := by
  have hd := h.shapeBatch (Or.inl hp)
  have hcore : Core { s with nextQ := s.tmpQ, tmpQ := s.nextQ, phase := .next } := by
    refine core_same h ?_ rfl rfl rfl
    rw [line_def, line_def]; simp [ht, hd]
  have hfd := h.fdRun
  exact { count := hcore.1, allocPar := h.allocPar, parIn := h.parIn, parNext := by simp [ht], order := hcore.2,
          shapeQuiet := by simp, shapeBatch := fun _ => hd, shapeDrain := by simp,
          fdRun := by simp [hp] at hfd; simp [hfd],
          driver := fun _ => h.driver (by simp [hp]), execs := h.execs, logExec := h.logExec, logCanc := h.logCanc,
          exitPend := fun id hid => Or.inl (h.exitDone (by simp [hp]) id hid) }

theorem passEnd_inv (cfg : Cfg) (s : State) (h : Inv s) (hp : s.phase = .next) (hc : s.cur = []) (ht : s.tmpQ = []) :
    Inv (step cfg s .passEnd) := by
  have hd := h.shapeBatch (Or.inr hp)
  have hfd := h.fdRun
  simp [hp] at hfd
  have hdr := h.driver (by simp [hp])
  simp only [step]
  split
  · have hcore := core_same (s' := { s with phase := .poll }) h rfl rfl rfl rfl
    exact { count := hcore.1, allocPar := h.allocPar, parIn := h.parIn, parNext := h.parNext, order := hcore.2,
            shapeQuiet := fun _ => ⟨ht, hc, hd⟩, shapeBatch := by simp, shapeDrain := by simp,
            fdRun := by simp [hfd],
            driver := fun _ => hdr, execs := h.execs, logExec := h.logExec, logCanc := h.logCanc,
            exitPend := fun id hid => Or.inl (h.exitDone (by simp [hp]) id hid) }
  · have hcore := core_same (s' := { s with phase := .drain, remain := 100, destroying := false,
                                            exitPending := idsOf s.nextQ ++ idsOf s.inLoopQ }) h rfl rfl rfl rfl
    exact { count := hcore.1, allocPar := h.allocPar, parIn := h.parIn, parNext := h.parNext, order := hcore.2,
            shapeQuiet := by simp, shapeBatch := by simp,
            shapeDrain := fun _ => ⟨ht, fun _ => ⟨hc, hd⟩, Nat.le_refl _⟩,
            fdRun := by simp [hfd],
            driver := fun _ => hdr, execs := h.execs, logExec := h.logExec, logCanc := h.logCanc,
            exitPend := fun id hid => Or.inr ⟨rfl, Or.inr ⟨rfl, by simpa using hid⟩⟩ }

theorem drainGen_inv (s : State) (h : Inv s) (hp : s.phase = .drain) (hd : s.dQ = []) (hr : 0 < s.remain) :
    Inv { s with remain := s.remain - 1, dQ := s.nextQ ++ s.inLoopQ, nextQ := [], inLoopQ := [] } := by
  obtain ⟨ht, _, hle⟩ := h.shapeDrain hp
  have hcore : Core { s with remain := s.remain - 1, dQ := s.nextQ ++ s.inLoopQ, nextQ := [], inLoopQ := [] } := by
    refine core_same h ?_ rfl rfl rfl
    rw [line_def, line_def]; simp [ht, hd]
  exact { count := hcore.1, allocPar := h.allocPar, parIn := by simp, parNext := by simp, order := hcore.2,
          shapeQuiet := by simp [hp], shapeBatch := by simp [hp],
          shapeDrain := fun _ => ⟨ht, fun e => by simp only at e; omega, by simp only; omega⟩,
          fdRun := h.fdRun, driver := h.driver, execs := h.execs, logExec := h.logExec, logCanc := h.logCanc,
          exitPend := by
            intro id hid
            rcases h.exitPend id hid with h1 | ⟨_, h2 | ⟨_, h3⟩⟩
            · exact Or.inl h1
            · rw [hd] at h2; simp at h2
            · exact Or.inr ⟨hp, Or.inl h3⟩ }

theorem drainExec_inv (s : State) (h : Inv s) (hp : s.phase = .drain) (t : Task) (rest : List Task)
    (hq : s.dQ = t :: rest) :
    Inv { s with dQ := rest, cur := t.body, executed := t.id :: s.executed, log := .exec t.id s.loopTid :: s.log } := by
  obtain ⟨ht, h100, hle⟩ := h.shapeDrain hp
  have hni : s.phase ≠ .idle := by simp [hp]
  have hr : s.remain ≠ 100 := by
    intro e; have := (h100 e).2; rw [hq] at this; cases this
  have hcore : Core { s with dQ := rest, cur := t.body, executed := t.id :: s.executed,
                             log := .exec t.id s.loopTid :: s.log } := by
    refine core_same h ?_ rfl rfl rfl
    rw [line_def, line_def, hq, ht]; simp
  exact { count := hcore.1, allocPar := h.allocPar, parIn := h.parIn, parNext := h.parNext, order := hcore.2,
          shapeQuiet := by simp [hp], shapeBatch := by simp [hp],
          shapeDrain := fun _ => ⟨ht, fun e => absurd e hr, hle⟩,
          fdRun := h.fdRun, driver := h.driver,
          execs := by simp [h.driver hni, h.execs],
          logExec := by simp [h.logExec], logCanc := h.logCanc,
          exitPend := by
            intro id hid
            rcases h.exitPend id hid with h1 | ⟨_, h2 | ⟨h3, _⟩⟩
            · exact Or.inl (List.mem_cons_of_mem _ h1)
            · rw [hq, idsOf_cons, List.mem_cons] at h2
              rcases h2 with h2 | h2
              · exact Or.inl (h2 ▸ List.mem_cons_self)
              · exact Or.inr ⟨hp, Or.inl h2⟩
            · exact absurd h3 hr }

theorem drainEnd_inv (cfg : Cfg) (s : State) (h : Inv s) (hp : s.phase = .drain) (hc : s.cur = []) (hd : s.dQ = [])
    (hm : drainMore s = false) : Inv (step cfg s .drainEnd) := by
  obtain ⟨ht, h100, hle⟩ := h.shapeDrain hp
  have hdone : ∀ id ∈ s.exitPending, id ∈ s.executed := by
    intro id hid
    rcases h.exitPend id hid with h1 | ⟨_, h2 | ⟨h3, h4⟩⟩
    · exact h1
    · rw [hd] at h2; simp at h2
    · exfalso
      simp only [drainMore, h3] at hm
      cases hn : s.nextQ <;> cases hi : s.inLoopQ <;> simp [hn, hi] at hm h4
  have hfd := h.fdRun
  simp [hp] at hfd
  have hdr := h.driver (by simp [hp])
  simp only [step]
  by_cases hdes : s.destroying = true
  · rw [if_pos hdes]
    by_cases huc : s.userCleanup = true
    · rw [if_pos huc]
      have hcore := core_same (s' := { s with phase := .idle, userCleanup := false }) h rfl rfl rfl rfl
      exact { count := hcore.1, allocPar := h.allocPar, parIn := h.parIn, parNext := h.parNext, order := hcore.2,
              shapeQuiet := fun _ => ⟨ht, hc, hd⟩, shapeBatch := by simp, shapeDrain := by simp,
              fdRun := by simp [hfd, hdes],
              driver := by simp, execs := h.execs, logExec := h.logExec, logCanc := h.logCanc,
              exitPend := fun id hid => Or.inl (hdone id hid) }
    rw [if_neg huc]
    by_cases hfin : s.finalDrain = false
    · -- ~CommonLoop: the exit timer is deleted, a second drain begins
      simp only [hfin, Bool.not_false, ↓reduceIte]
      have h1 := dropExitTimer_inv s s.loopTid h
      obtain ⟨f1, f2, f3, f4, f5, f6, f7, f8, -, -, -, f12, -⟩ := dropExitTimer_frame s s.loopTid
      have hcore := core_same (s' := { dropExitTimer s s.loopTid with remain := 100, finalDrain := true }) h1 rfl rfl rfl rfl
      exact { count := hcore.1, allocPar := h1.allocPar, parIn := h1.parIn, parNext := h1.parNext, order := hcore.2,
              shapeQuiet := by simp [f1, hp], shapeBatch := by simp [f1, hp],
              shapeDrain := fun _ => ⟨by simp [f2, ht], fun _ => ⟨by simp [f3, hc], by simp [f4, hd]⟩, Nat.le_refl _⟩,
              fdRun := by simp [f1, hp, f7, hdes, f8, hfd],
              driver := fun _ => by simpa [f12] using h1.driver (by simp [f1, hp]),
              execs := h1.execs, logExec := h1.logExec, logCanc := h1.logCanc,
              exitPend := fun id hid => Or.inl (by simp only [f5]; exact hdone id (by simpa [f6] using hid)) }
    simp only [Bool.not_eq_false] at hfin
    simp only [hfin, Bool.not_true, Bool.false_eq_true, ↓reduceIte]
    have hcore := core_same (s' := { s with phase := .dead }) h rfl rfl rfl rfl
    exact { count := hcore.1, allocPar := h.allocPar, parIn := h.parIn, parNext := h.parNext, order := hcore.2,
            shapeQuiet := fun _ => ⟨ht, hc, hd⟩, shapeBatch := by simp, shapeDrain := by simp,
            fdRun := by simp [hfd, hdes],
            driver := fun _ => hdr, execs := h.execs, logExec := h.logExec, logCanc := h.logCanc,
            exitPend := fun id hid => Or.inl (hdone id hid) }
  · rw [if_neg hdes]
    have hcore := core_same (s' := { s with phase := .idle, efd := none,
                                            hasCommit := if cfg.clearOnClose then false else s.hasCommit, fdBad := false, wrLost := false })
      h rfl rfl rfl rfl
    exact { count := hcore.1, allocPar := h.allocPar, parIn := h.parIn, parNext := h.parNext, order := hcore.2,
            shapeQuiet := fun _ => ⟨ht, hc, hd⟩, shapeBatch := by simp, shapeDrain := by simp,
            fdRun := by simp,
            driver := by simp, execs := h.execs, logExec := h.logExec, logCanc := h.logCanc,
            exitPend := fun id hid => Or.inl (hdone id hid) }

theorem destroy_inv (s : State) (tid : Nat) (h : Inv s) (hp : s.phase = .idle) (uc : Bool) (ev : Ev)
    (hev : ev = .destroy tid ∨ ev = .cleanup tid) :
    Inv { s with phase := .drain, remain := 100, destroying := true, userCleanup := uc, loopTid := tid,
                 exitPending := idsOf s.nextQ ++ idsOf s.inLoopQ, log := ev :: s.log } := by
  obtain ⟨ht, hc, hd⟩ := h.shapeQuiet (Or.inl hp)
  have hfd := h.fdRun
  simp [hp] at hfd
  have hcore := core_same (s' := { s with phase := .drain, remain := 100, destroying := true, userCleanup := uc, loopTid := tid,
                                          exitPending := idsOf s.nextQ ++ idsOf s.inLoopQ,
                                          log := ev :: s.log }) h rfl rfl rfl rfl
  exact { count := hcore.1, allocPar := h.allocPar, parIn := h.parIn, parNext := h.parNext, order := hcore.2,
          shapeQuiet := by simp, shapeBatch := by simp,
          shapeDrain := fun _ => ⟨ht, fun _ => ⟨hc, hd⟩, Nat.le_refl _⟩,
          fdRun := by simp [hfd],
          driver := by rcases hev with e | e <;> simp [e],
          execs := by rcases hev with e | e <;> simp [e, h.execs],
          logExec := by rcases hev with e | e <;> simp [e, h.logExec],
          logCanc := by rcases hev with e | e <;> simp [e, h.logCanc],
          exitPend := fun id hid => Or.inr ⟨rfl, Or.inr ⟨rfl, by simpa using hid⟩⟩ }

theorem step_inv (cfg : Cfg) (s : State) (st : Step) (h : Inv s) (hv : valid s st = true) : Inv (step cfg s st) := by
  cases st with
  | submit tid k => exact submitInLoop_inv s tid _ h
  | idleAct tid a =>
    simp only [valid, beq_iff_eq] at hv
    exact doAct_inv cfg s tid a h (by simp [hv])
  | loopStart tid forever =>
    simp only [valid, beq_iff_eq] at hv
    exact loopStart_inv cfg s tid forever h hv
  | passBegin =>
    simp only [valid, beq_iff_eq] at hv
    have hq := h.shapeQuiet (by simp [hv])
    have hfd := h.fdRun
    simp [hv] at hfd
    have hcore := core_same (s' := step cfg s .passBegin) h rfl rfl rfl rfl
    exact { count := hcore.1, allocPar := h.allocPar, parIn := h.parIn, parNext := h.parNext, order := hcore.2,
            shapeQuiet := fun _ => hq, shapeBatch := by simp [step], shapeDrain := by simp [step],
            fdRun := by simp [step, hfd],
            driver := fun _ => h.driver (by simp [hv]), execs := h.execs, logExec := h.logExec, logCanc := h.logCanc,
            exitPend := fun id hid => Or.inl (h.exitDone (by simp [hv]) id hid) }
  | cbAct a =>
    simp only [valid, Bool.and_eq_true, Bool.or_eq_true, beq_iff_eq] at hv
    refine doAct_inv cfg s _ a h ?_
    rintro ⟨hp, _⟩
    rcases hv.1.1 with e | e <;> rw [hp] at e <;> cases e
  | passWake =>
    simp only [valid, Bool.and_eq_true, beq_iff_eq] at hv
    exact passWake_inv s h hv.1.1
  | passSkip =>
    simp only [valid, Bool.and_eq_true, beq_iff_eq] at hv
    obtain ⟨⟨⟨hp, -⟩, -⟩, -⟩ := hv
    have hq := h.shapeQuiet (by simp [hp])
    have hfd := h.fdRun
    simp [hp] at hfd
    have hcore := core_same (s' := step cfg s .passSkip) h rfl rfl rfl rfl
    exact { count := hcore.1, allocPar := h.allocPar, parIn := h.parIn, parNext := h.parNext, order := hcore.2,
            shapeQuiet := by simp [step], shapeBatch := fun _ => hq.2.2, shapeDrain := by simp [step],
            fdRun := by simp [step, hfd],
            driver := fun _ => h.driver (by simp [hp]), execs := h.execs, logExec := h.logExec, logCanc := h.logCanc,
            exitPend := fun id hid => Or.inl (h.exitDone (by simp [hp]) id hid) }
  | timerExit => exact inv_congr h rfl rfl rfl rfl rfl rfl rfl rfl rfl rfl rfl rfl rfl rfl rfl rfl
  | fault f => cases f <;> exact inv_congr h rfl rfl rfl rfl rfl rfl rfl rfl rfl rfl rfl rfl rfl rfl rfl rfl
  | tick d => exact inv_congr h rfl rfl rfl rfl rfl rfl rfl rfl rfl rfl rfl rfl rfl rfl rfl rfl
  | setWL a b => exact inv_congr h rfl rfl rfl rfl rfl rfl rfl rfl rfl rfl rfl rfl rfl rfl rfl rfl
  | submitRun tid k =>
    simp only [valid, Bool.and_eq_true, bne_iff_ne, ne_eq] at hv
    exact doAct_inv cfg s tid (.run k) h (fun hh => hv.1.1.1 hh.1)
  | passBreak =>
    simp only [valid, Bool.and_eq_true, beq_iff_eq] at hv
    obtain ⟨ht, hc, hd⟩ := h.shapeQuiet (by simp [hv.1.1])
    exact enterDrain_inv s h (Or.inr hv.1.1) hc ht hd false
  | cleanup tid =>
    simp only [valid, beq_iff_eq] at hv
    exact destroy_inv s tid h hv true _ (Or.inr rfl)
  | execFront =>
    simp only [valid, Bool.and_eq_true, Bool.or_eq_true, beq_iff_eq] at hv
    cases hq : s.tmpQ with
    | nil => simp only [step, hq]; exact h
    | cons t rest =>
      simp only [step, hq]
      exact execFront_inv s h hv.1.1 t rest hq
  | act =>
    cases hc : s.cur with
    | nil => simp only [step, hc]; exact h
    | cons a rest =>
      simp only [step, hc]
      obtain ⟨h1, h2⟩ := popCur_inv h hc
      exact doAct_inv cfg _ _ a h1 h2
  | passNext =>
    simp only [valid, Bool.and_eq_true, beq_iff_eq, List.isEmpty_iff] at hv
    exact passNext_inv s h hv.1.1 hv.2
  | passEnd =>
    simp only [valid, Bool.and_eq_true, beq_iff_eq, List.isEmpty_iff] at hv
    exact passEnd_inv cfg s h hv.1.1 hv.1.2 hv.2
  | drainGen =>
    simp only [valid, Bool.and_eq_true, beq_iff_eq, List.isEmpty_iff, drainMore, decide_eq_true_eq] at hv
    exact drainGen_inv s h hv.1.1.1 hv.1.2 hv.2.2
  | drainExec =>
    simp only [valid, Bool.and_eq_true, beq_iff_eq] at hv
    cases hq : s.dQ with
    | nil => simp only [step, hq]; exact h
    | cons t rest =>
      simp only [step, hq]
      exact drainExec_inv s h hv.1.1 t rest hq
  | drainEnd =>
    simp only [valid, Bool.and_eq_true, beq_iff_eq, List.isEmpty_iff, Bool.not_eq_true'] at hv
    exact drainEnd_inv cfg s h hv.1.1.1 hv.1.1.2 hv.1.2 hv.2
  | destroy tid =>
    simp only [valid, beq_iff_eq] at hv
    exact inv_congr (destroy_inv s tid h hv false _ (Or.inl rfl)) rfl rfl rfl rfl rfl rfl rfl rfl rfl rfl rfl rfl rfl rfl rfl rfl

theorem step_wake (cfg : Cfg) (hfix : cfg.clearOnClose = true) (s : State) (st : Step)
    (h : Inv s) (hw : WakeInv s) (hv : valid s st = true) : WakeInv (step cfg s st) := by
  cases st with
  | submit tid k => exact submitInLoop_wake s tid _ hw
  | idleAct tid a => exact doAct_wake cfg s tid a hw
  | loopStart tid forever =>
    simp only [valid, beq_iff_eq] at hv
    have hfd := h.fdRun
    simp [hv] at hfd
    simp only [step]
    by_cases hq : s.inLoopQ.isEmpty = true
    · simp only [hq, ↓reduceIte]
      refine ⟨?_, ?_, ?_⟩
      · intro n hn hcm; simp [hw.closed hfd] at hcm
      · simp
      · intro _ hne; simp only [List.isEmpty_iff] at hq; exact absurd hq hne
    · simp only [hq, ↓reduceIte]
      have key := commit_wake { s with efd := some 0, loopTid := tid, log := .start tid :: s.log, fdBad := s.efdFail, efdFail := false, wrLost := false, inPeak := 0, nextPeak := 0 }
        (by intro n _ hcm; simp [hw.closed hfd] at hcm) rfl
      exact wake_congr key.1 rfl rfl rfl (fun e => e)
  | passBegin => exact wake_congr hw rfl rfl rfl (fun e => e)
  | cbAct a => exact doAct_wake cfg s _ a hw
  | passWake =>
    simp only [valid, Bool.and_eq_true, beq_iff_eq] at hv
    obtain ⟨ht, -, -⟩ := h.shapeQuiet (by simp [hv.1.1])
    simp only [step]
    refine ⟨?_, ?_, ?_⟩
    · intro n _ hcm; simp at hcm
    · simp
    · simp [ht]
  | timerExit => exact wake_congr hw rfl rfl rfl (fun e => e)
  | passSkip => exact wake_congr hw rfl rfl rfl (fun e => e)
  | execFront =>
    cases hq : s.tmpQ with
    | nil => simp only [step, hq]; exact hw
    | cons t rest => simp only [step, hq]; exact wake_congr hw rfl rfl rfl (fun e => e)
  | act =>
    cases hc : s.cur with
    | nil => simp only [step, hc]; exact hw
    | cons a rest =>
      simp only [step, hc]
      exact doAct_wake cfg _ _ a (wake_congr hw rfl rfl rfl (fun e => e))
  | passNext => exact wake_congr hw rfl rfl rfl (fun e => e)
  | passEnd =>
    simp only [step]
    split
    · exact wake_congr hw rfl rfl rfl (fun e => e)
    · exact wake_congr hw rfl rfl rfl (fun e => e)
  | drainGen => exact ⟨hw.counter, hw.closed, by simp [step]⟩
  | drainExec =>
    cases hq : s.dQ with
    | nil => simp only [step, hq]; exact hw
    | cons t rest => simp only [step, hq]; exact wake_congr hw rfl rfl rfl (fun e => e)
  | drainEnd =>
    -- the only place where the repair (flag cleared when the eventfd is closed) is needed
    simp only [step, hfix, ↓reduceIte]
    by_cases hdes : s.destroying = true
    · rw [if_pos hdes]
      by_cases huc : s.userCleanup = true
      · rw [if_pos huc]; exact wake_congr hw rfl rfl rfl (fun e => e)
      · rw [if_neg huc]
        split
        · obtain ⟨-, -, -, -, -, -, -, f8, f9, f10, f11, -, -⟩ := dropExitTimer_frame s s.loopTid
          exact wake_congr hw f8 f9 f10 (by simp only [f11]; exact fun e => e)
        · exact wake_congr hw rfl rfl rfl (fun e => e)
    · rw [if_neg hdes]; refine ⟨?_, ?_, ?_⟩ <;> simp
  | destroy tid => exact wake_congr hw rfl rfl rfl (fun e => e)
  | fault f => cases f <;> exact wake_congr hw rfl rfl rfl (fun e => e)
  | tick d => exact wake_congr hw rfl rfl rfl (fun e => e)
  | setWL a b => exact wake_congr hw rfl rfl rfl (fun e => e)
  | submitRun tid k => exact doAct_wake cfg s tid (.run k) hw
  | passBreak => exact wake_congr hw rfl rfl rfl (fun e => e)
  | cleanup tid => exact wake_congr hw rfl rfl rfl (fun e => e)

/-- the exit timer is found due only when armed and expired -/
theorem doAct_time (cfg : Cfg) (s : State) (tid : Nat) (a : Act) (ht : TimeInv s) : TimeInv (doAct cfg s tid a) := by
  have hin : ∀ body, (submitInLoop s tid body).timerDue = s.timerDue ∧ (submitInLoop s tid body).exitTimer = s.exitTimer ∧
      (submitInLoop s tid body).exitAt = s.exitAt ∧ (submitInLoop s tid body).clock = s.clock ∧ (submitInLoop s tid body).phase = s.phase := by
    intro body
    simp only [submitInLoop, noteIn]
    split
    · unfold commit; split
      · simp
      · split <;> simp
    · simp
  cases a with
  | inLoop k => obtain ⟨a, b, c, d, e⟩ := hin (cfg.prog k); exact ⟨by simp only [doAct]; rw [a, b, c, d, e]; exact ht.due⟩
  | next k => exact ⟨ht.due⟩
  | cancel id =>
    refine ⟨?_⟩
    simp only [doAct, cancel]
    split
    · exact ht.due
    · split
      · exact ht.due
      · split <;> exact ht.due
  | exit =>
    refine ⟨?_⟩
    simp only [doAct, dropExitTimer]
    split
    · simp
    · exact ht.due
  | exitLater w =>
    refine ⟨?_⟩
    simp only [doAct, dropExitTimer]
    split
    · simp
    · rename_i hne
      intro hd
      exact absurd (ht.due hd).1 hne
  | throw => exact ⟨ht.due⟩
  | run k =>
    simp only [doAct]
    split
    · obtain ⟨a, b, c, d, e⟩ := hin (cfg.prog k); exact ⟨by rw [a, b, c, d, e]; exact ht.due⟩
    · exact ⟨ht.due⟩
  | nestedRun => exact ht

theorem init_time : TimeInv init := ⟨by simp [init]⟩

theorem step_time (cfg : Cfg) (s : State) (st : Step) (ht : TimeInv s) (hv : valid s st = true) : TimeInv (step cfg s st) := by
  have leave : ∀ s' : State, s'.timerDue = s.timerDue → s'.exitTimer = s.exitTimer → s'.exitAt = s.exitAt → s.clock ≤ s'.clock →
      (s.timerDue = true → s'.phase = .pre) → TimeInv s' := by
    intro s' e1 e2 e3 e4 e5
    refine ⟨?_⟩
    rw [e1, e2, e3]; intro hd
    obtain ⟨a, b, _⟩ := ht.due hd
    exact ⟨a, Nat.le_trans b e4, e5 hd⟩
  have off : ∀ s' : State, s'.timerDue = false → TimeInv s' := fun s' e => ⟨by rw [e]; intro hh; cases hh⟩
  have notDue : ∀ p : Phase, s.phase = p → p ≠ .pre → s.timerDue = false := by
    intro p hp hne
    cases hd : s.timerDue with
    | false => rfl
    | true => exact absurd (hp ▸ (ht.due hd).2.2) hne
  cases st with
  | submit tid k =>
    have := doAct_time cfg s tid (.inLoop k) ht
    exact this
  | idleAct tid a => exact doAct_time cfg s tid a ht
  | cbAct a => exact doAct_time cfg s _ a ht
  | submitRun tid k => exact doAct_time cfg s tid (.run k) ht
  | loopStart tid forever =>
    simp only [valid, beq_iff_eq] at hv
    refine off _ ?_
    have := notDue _ hv (by simp)
    simp only [step]
    split
    · simpa using this
    · unfold commit; split
      · simpa using this
      · split <;> simpa using this
  | passBegin =>
    refine ⟨?_⟩
    simp only [step, Bool.and_eq_true, decide_eq_true_eq]
    intro hd; exact ⟨hd.1, hd.2, trivial⟩
  | timerExit => exact off _ rfl
  | passWake =>
    simp only [valid, Bool.and_eq_true, beq_iff_eq, Bool.not_eq_true'] at hv
    exact off _ hv.2
  | passSkip =>
    simp only [valid, Bool.and_eq_true, beq_iff_eq, Bool.not_eq_true'] at hv
    exact off _ hv.1.2
  | passBreak =>
    simp only [valid, Bool.and_eq_true, beq_iff_eq, Bool.not_eq_true'] at hv
    exact off _ hv.2
  | execFront =>
    simp only [valid, Bool.and_eq_true, Bool.or_eq_true, beq_iff_eq] at hv
    have hnd : s.timerDue = false := by
      rcases hv.1.1 with e | e
      · exact notDue _ e (by simp)
      · exact notDue _ e (by simp)
    refine off _ ?_
    simp only [step]; split <;> simpa using hnd
  | act =>
    cases hc : s.cur with
    | nil => simp only [step, hc]; exact ht
    | cons a rest =>
      simp only [step, hc]
      exact doAct_time cfg _ _ a ⟨ht.due⟩
  | passNext =>
    simp only [valid, Bool.and_eq_true, beq_iff_eq] at hv
    exact off _ (notDue _ hv.1.1 (by simp))
  | passEnd =>
    simp only [valid, Bool.and_eq_true, beq_iff_eq] at hv
    refine off _ ?_
    have := notDue _ hv.1.1 (by simp)
    simp only [step]; split <;> simpa using this
  | drainGen =>
    simp only [valid, Bool.and_eq_true, beq_iff_eq] at hv
    exact off _ (notDue _ hv.1.1.1 (by simp))
  | drainExec =>
    simp only [valid, Bool.and_eq_true, beq_iff_eq] at hv
    refine off _ ?_
    have := notDue _ hv.1.1 (by simp)
    simp only [step]; split <;> simpa using this
  | drainEnd =>
    simp only [valid, Bool.and_eq_true, beq_iff_eq] at hv
    refine off _ ?_
    have := notDue _ hv.1.1.1 (by simp)
    simp only [step]; split
    · split
      · simpa using this
      · split
        · have f := (dropExitTimer_frame s s.loopTid).2.2.2.2.2.2.2.2.2.2.2.2
          cases hdd : (dropExitTimer s s.loopTid).timerDue with
          | false => simpa using hdd
          | true => rw [f hdd] at this; cases this
        · simpa using this
    · simpa using this
  | destroy tid =>
    simp only [valid, beq_iff_eq] at hv
    exact off _ (notDue _ hv (by simp))
  | cleanup tid =>
    simp only [valid, beq_iff_eq] at hv
    exact off _ (notDue _ hv (by simp))
  | fault f => cases f <;> exact leave _ rfl rfl rfl (Nat.le_refl _) (fun hd => (ht.due hd).2.2)
  | tick d => exact leave _ rfl rfl rfl (Nat.le_add_right _ _) (fun hd => (ht.due hd).2.2)
  | setWL a b => exact leave _ rfl rfl rfl (Nat.le_refl _) (fun hd => (ht.due hd).2.2)

theorem exec_inv (cfg : Cfg) (s : State) (sts : List Step) (h : Inv s) (s' : State)
    (he : exec cfg s sts = some s') : Inv s' := by
  induction sts generalizing s with
  | nil => simp only [exec, Option.some.injEq] at he; exact he ▸ h
  | cons st sts ih =>
    simp only [exec] at he
    split at he
    · rename_i hv; exact ih _ (step_inv cfg s st h hv) he
    · cases he

theorem exec_time (cfg : Cfg) (s : State) (sts : List Step) (ht : TimeInv s) (s' : State)
    (he : exec cfg s sts = some s') : TimeInv s' := by
  induction sts generalizing s with
  | nil => simp only [exec, Option.some.injEq] at he; exact he ▸ ht
  | cons st sts ih =>
    simp only [exec] at he
    split at he
    · rename_i hv; exact ih _ (step_time cfg s st ht hv) he
    · cases he

theorem exec_wake (cfg : Cfg) (hfix : cfg.clearOnClose = true) (s : State) (sts : List Step)
    (h : Inv s) (hw : WakeInv s) (s' : State) (he : exec cfg s sts = some s') : Inv s' ∧ WakeInv s' := by
  induction sts generalizing s with
  | nil => simp only [exec, Option.some.injEq] at he; exact he ▸ ⟨h, hw⟩
  | cons st sts ih =>
    simp only [exec] at he
    split at he
    · rename_i hv; exact ih _ (step_inv cfg s st h hv) (step_wake cfg hfix s st h hw hv) he
    · cases he

end Tbox.C01
