/- C01 — proofs, part 1: frame lemmas, id bookkeeping (`count`/`order`), log bookkeeping, API calls. -/
import TboxModel.C01.Inv
namespace Tbox.C01

theorem line_def (s : State) : line s = s.executed.reverse ++ (idsOf s.tmpQ ++ idsOf s.dQ ++ idsOf s.nextQ ++ idsOf s.inLoopQ) := by
  simp [line, pend]

theorem commit_frame (s : State) :
    (commit s).inLoopQ = s.inLoopQ ∧ (commit s).nextQ = s.nextQ ∧ (commit s).tmpQ = s.tmpQ ∧ (commit s).dQ = s.dQ ∧
    (commit s).keepRunning = s.keepRunning ∧ (commit s).inAlloc = s.inAlloc ∧ (commit s).nextAlloc = s.nextAlloc ∧
    (commit s).phase = s.phase ∧ (commit s).cur = s.cur ∧ (commit s).remain = s.remain ∧ (commit s).destroying = s.destroying ∧
    (commit s).loopTid = s.loopTid ∧ (commit s).executed = s.executed ∧ (commit s).cancelled = s.cancelled ∧
    (commit s).exitPending = s.exitPending ∧ (commit s).log = s.log ∧ (commit s).efd.isSome = s.efd.isSome := by
  unfold commit; split
  · simp
  · split <;> simp

theorem noteIn_frame (s : State) :
    (noteIn s).inLoopQ = s.inLoopQ ∧ (noteIn s).nextQ = s.nextQ ∧ (noteIn s).tmpQ = s.tmpQ ∧ (noteIn s).dQ = s.dQ ∧
    (noteIn s).keepRunning = s.keepRunning ∧ (noteIn s).inAlloc = s.inAlloc ∧ (noteIn s).nextAlloc = s.nextAlloc ∧
    (noteIn s).phase = s.phase ∧ (noteIn s).cur = s.cur ∧ (noteIn s).remain = s.remain ∧ (noteIn s).destroying = s.destroying ∧
    (noteIn s).loopTid = s.loopTid ∧ (noteIn s).executed = s.executed ∧ (noteIn s).cancelled = s.cancelled ∧
    (noteIn s).exitPending = s.exitPending ∧ (noteIn s).log = s.log ∧ (noteIn s).efd = s.efd ∧
    (noteIn s).hasCommit = s.hasCommit ∧ (noteIn s).wrLost = s.wrLost := by
  simp [noteIn]

/-- the non-wake part of the state after runInLoop -/
theorem submitInLoop_frame (s : State) (tid : Nat) (body : List Act) :
    let s' := submitInLoop s tid body
    s'.inLoopQ = s.inLoopQ ++ [{ id := s.inAlloc + 2, owner := tid, body := body }] ∧ s'.nextQ = s.nextQ ∧ s'.tmpQ = s.tmpQ ∧
    s'.dQ = s.dQ ∧ s'.keepRunning = s.keepRunning ∧ s'.inAlloc = s.inAlloc + 2 ∧ s'.nextAlloc = s.nextAlloc ∧
    s'.phase = s.phase ∧ s'.cur = s.cur ∧ s'.remain = s.remain ∧ s'.destroying = s.destroying ∧
    s'.loopTid = s.loopTid ∧ s'.executed = s.executed ∧ s'.cancelled = s.cancelled ∧
    s'.exitPending = s.exitPending ∧ s'.log = .sub (s.inAlloc + 2) tid false :: s.log ∧ s'.efd.isSome = s.efd.isSome := by
  simp only [submitInLoop]
  split
  · have := commit_frame { s with inAlloc := s.inAlloc + 2, inLoopQ := s.inLoopQ ++ [{ id := s.inAlloc + 2, owner := tid, body := body }], log := .sub (s.inAlloc + 2) tid false :: s.log }
    simpa [noteIn] using this
  · simp [noteIn]

/-! ### id bookkeeping -/

theorem accepted_of_mem_line {s : State} (h : Inv s) {x : Nat} (hx : x ∈ line s) : accepted s x := by
  have hc := h.count x
  have : 0 < (line s).count x := List.count_pos_iff.2 hx
  by_cases ha : accepted s x
  · exact ha
  · simp [ha] at hc; omega

/-- the `count` and `order` clauses, which only look at `line`, `cancelled` and the allocators -/
def Core (s : State) : Prop :=
  (∀ id, (line s).count id + s.cancelled.count id = if accepted s id then 1 else 0) ∧
  (∀ p, (par p (line s)).Pairwise (· < ·))

theorem Inv.core {s : State} (h : Inv s) : Core s := ⟨h.count, h.order⟩

theorem accepted_congr {s s' : State} (ha : s'.inAlloc = s.inAlloc) (hn : s'.nextAlloc = s.nextAlloc) (id : Nat) :
    accepted s' id ↔ accepted s id := by
  unfold accepted; rw [ha, hn]

/-- nothing about ids changes -/
theorem core_same {s s' : State} (h : Inv s)
    (hl : line s' = line s) (hc : s'.cancelled = s.cancelled)
    (ha : s'.inAlloc = s.inAlloc) (hn : s'.nextAlloc = s.nextAlloc) : Core s' := by
  constructor
  · intro id
    rw [hl, hc]
    simp only [accepted_congr ha hn id]
    exact h.count id
  · intro p; rw [hl]; exact h.order p

/-- appending a fresh runInLoop id -/
theorem core_submitIn {s s' : State} (h : Inv s) (newid : Nat)
    (hnew : newid = s.inAlloc + 2)
    (hl : line s' = line s ++ [newid]) (hc : s'.cancelled = s.cancelled)
    (ha : s'.inAlloc = s.inAlloc + 2) (hn : s'.nextAlloc = s.nextAlloc) : Core s' := by
  have hpar := h.allocPar
  constructor
  · intro id
    have h0 := h.count id
    rw [hl, hc, List.count_append]
    by_cases hid : id = newid
    · subst hid
      have hna : ¬ accepted s id := by
        unfold accepted; omega
      have hacc : accepted s' id := by
        unfold accepted; left; omega
      simp [hna] at h0
      simp [hacc]; omega
    · have hiff : accepted s' id ↔ accepted s id := by
        unfold accepted; rw [ha, hn]
        constructor
        · rintro (⟨a, b, c⟩ | h2)
          · left; omega
          · right; exact h2
        · rintro (⟨a, b, c⟩ | h2)
          · left; omega
          · right; exact h2
      have : ¬ newid = id := fun e => hid e.symm
      simp only [hiff, List.count_cons, List.count_nil, beq_iff_eq, this, if_false]
      simpa using h0
  · intro p
    rw [hl, par_append, List.pairwise_append]
    refine ⟨h.order p, ?_, ?_⟩
    · rw [par_cons]; split <;> simp
    · intro x hx y hy
      rw [par_cons] at hy
      split at hy
      · rename_i hp
        simp at hy; subst hy
        obtain ⟨hxl, hxp⟩ := mem_par.1 hx
        have := accepted_of_mem_line h hxl
        unfold accepted at this
        omega
      · simp at hy

/-- inserting a fresh runNext id in front of the (even) runInLoop queue -/
theorem core_submitNext {s s' : State} (h : Inv s) (newid : Nat) (pre post : List Nat)
    (hnew : newid = s.nextAlloc + 2)
    (hs : line s = pre ++ post) (hpost : ∀ x ∈ post, x % 2 = 0)
    (hl : line s' = pre ++ newid :: post) (hc : s'.cancelled = s.cancelled)
    (ha : s'.inAlloc = s.inAlloc) (hn : s'.nextAlloc = s.nextAlloc + 2) : Core s' := by
  have hpar := h.allocPar
  constructor
  · intro id
    have h0 := h.count id
    rw [hs, List.count_append] at h0
    rw [hl, hc, List.count_append, List.count_cons]
    by_cases hid : id = newid
    · subst hid
      have hna : ¬ accepted s id := by
        unfold accepted; omega
      have hacc : accepted s' id := by
        unfold accepted; right; omega
      simp [hna] at h0
      simp [hacc]; omega
    · have hiff : accepted s' id ↔ accepted s id := by
        unfold accepted; rw [ha, hn]
        constructor
        · rintro (h2 | ⟨a, b, c⟩)
          · left; exact h2
          · right; omega
        · rintro (h2 | ⟨a, b, c⟩)
          · left; exact h2
          · right; omega
      have : ¬ newid = id := fun e => hid e.symm
      simp only [hiff, beq_iff_eq, this, if_false]
      simpa using h0
  · intro p
    have ho := h.order p
    rw [hs, par_append] at ho
    rw [hl, par_append, par_cons]
    split
    · rename_i hp
      have hpn : par p post = [] := par_eq_nil_of_ne p 0 post hpost (by omega)
      rw [hpn] at ho ⊢
      rw [List.append_nil] at ho
      rw [List.pairwise_append]
      refine ⟨ho, by simp, ?_⟩
      intro x hx y hy
      simp at hy; subst hy
      obtain ⟨hxl, hxp⟩ := mem_par.1 hx
      have : x ∈ line s := by rw [hs]; exact List.mem_append_left _ hxl
      have := accepted_of_mem_line h this
      unfold accepted at this
      omega
    · exact ho

/-- removing an id from one segment of the line, remembering it in `cancelled` iff it was there -/
theorem core_cancel {s s' : State} (h : Inv s) (id : Nat) (a q b : List Nat)
    (hs : line s = a ++ q ++ b)
    (hl : line s' = a ++ q.filter (· != id) ++ b)
    (hc : s'.cancelled = if id ∈ q then id :: s.cancelled else s.cancelled)
    (ha : s'.inAlloc = s.inAlloc) (hn : s'.nextAlloc = s.nextAlloc) : Core s' := by
  constructor
  · intro x
    have h0 := h.count x
    rw [hs] at h0
    rw [hl, hc]
    simp only [accepted_congr ha hn x]
    simp only [List.count_append, count_filter_ne] at h0 ⊢
    by_cases hx : x = id
    · subst hx
      by_cases hm : x ∈ q
      · have : 0 < q.count x := List.count_pos_iff.2 hm
        simp only [hm, if_true, List.count_cons_self]
        by_cases hacc : accepted s x <;> simp only [hacc, if_true, if_false] at h0 ⊢ <;> omega
      · have : q.count x = 0 := List.count_eq_zero.2 hm
        simp only [hm, if_false, if_true]
        omega
    · have hne : ¬ id = x := fun e => hx e.symm
      simp only [hx, if_false]
      split
      · rw [List.count_cons_of_ne hne]; exact h0
      · exact h0
  · intro p
    rw [hl]
    have ho := h.order p
    rw [hs] at ho
    refine List.Pairwise.sublist (par_sublist ?_) ho
    exact List.Sublist.append (List.Sublist.append (List.Sublist.refl _) (filter_ne_sublist q id)) (List.Sublist.refl _)

/-- swapping an all-odd segment with an all-even one -/
theorem core_swap {s s' : State} (h : Inv s) (a o e : List Nat)
    (hs : line s = a ++ o ++ e) (hl : line s' = a ++ e ++ o)
    (ho : ∀ x ∈ o, x % 2 = 1) (he : ∀ x ∈ e, x % 2 = 0)
    (hc : s'.cancelled = s.cancelled)
    (ha : s'.inAlloc = s.inAlloc) (hn : s'.nextAlloc = s.nextAlloc) : Core s' := by
  constructor
  · intro x
    have h0 := h.count x
    rw [hs] at h0
    rw [hl, hc]
    simp only [accepted_congr ha hn x]
    simp only [List.count_append] at h0 ⊢
    omega
  · intro p
    have hp := h.order p
    rw [hs] at hp
    rw [hl]
    simp only [par_append] at hp ⊢
    by_cases h0 : p = 0
    · have : par p o = [] := par_eq_nil_of_ne p 1 o ho (by omega)
      rw [this] at hp ⊢; simpa using hp
    · have : par p e = [] := par_eq_nil_of_ne p 0 e he (by omega)
      rw [this] at hp ⊢; simpa using hp

/-! ### log bookkeeping -/

@[simp] theorem lastDriver_sub (a b : Nat) (c : Bool) (r : List Ev) : lastDriver (.sub a b c :: r) = lastDriver r := rfl
@[simp] theorem lastDriver_exec (a b : Nat) (r : List Ev) : lastDriver (.exec a b :: r) = lastDriver r := rfl
@[simp] theorem lastDriver_cancel (a : Nat) (c : Bool) (r : List Ev) : lastDriver (.cancel a c :: r) = lastDriver r := rfl
@[simp] theorem lastDriver_start (a : Nat) (r : List Ev) : lastDriver (.start a :: r) = some a := rfl
@[simp] theorem lastDriver_destroy (a : Nat) (r : List Ev) : lastDriver (.destroy a :: r) = some a := rfl
@[simp] theorem lastDriver_cleanup (a : Nat) (r : List Ev) : lastDriver (.cleanup a :: r) = some a := rfl
@[simp] theorem execsOk_cleanup (a : Nat) (r : List Ev) : execsOk (.cleanup a :: r) = execsOk r := rfl
@[simp] theorem execIds_cleanup (a : Nat) (r : List Ev) : execIds (.cleanup a :: r) = execIds r := rfl
@[simp] theorem cancelIds_cleanup (a : Nat) (r : List Ev) : cancelIds (.cleanup a :: r) = cancelIds r := rfl

@[simp] theorem execsOk_sub (a b : Nat) (c : Bool) (r : List Ev) : execsOk (.sub a b c :: r) = execsOk r := rfl
@[simp] theorem execsOk_exec (a b : Nat) (r : List Ev) :
    execsOk (.exec a b :: r) = ((lastDriver r == some b) && execsOk r) := rfl
@[simp] theorem execsOk_cancel (a : Nat) (c : Bool) (r : List Ev) : execsOk (.cancel a c :: r) = execsOk r := rfl
@[simp] theorem execsOk_start (a : Nat) (r : List Ev) : execsOk (.start a :: r) = execsOk r := rfl
@[simp] theorem execsOk_destroy (a : Nat) (r : List Ev) : execsOk (.destroy a :: r) = execsOk r := rfl

@[simp] theorem execIds_sub (a b : Nat) (c : Bool) (r : List Ev) : execIds (.sub a b c :: r) = execIds r := rfl
@[simp] theorem execIds_exec (a b : Nat) (r : List Ev) : execIds (.exec a b :: r) = a :: execIds r := rfl
@[simp] theorem execIds_cancel (a : Nat) (c : Bool) (r : List Ev) : execIds (.cancel a c :: r) = execIds r := rfl
@[simp] theorem execIds_start (a : Nat) (r : List Ev) : execIds (.start a :: r) = execIds r := rfl
@[simp] theorem execIds_destroy (a : Nat) (r : List Ev) : execIds (.destroy a :: r) = execIds r := rfl

@[simp] theorem cancelIds_sub (a b : Nat) (c : Bool) (r : List Ev) : cancelIds (.sub a b c :: r) = cancelIds r := rfl
@[simp] theorem cancelIds_exec (a b : Nat) (r : List Ev) : cancelIds (.exec a b :: r) = cancelIds r := rfl
theorem cancelIds_cancel (a : Nat) (c : Bool) (r : List Ev) :
    cancelIds (.cancel a c :: r) = if c then a :: cancelIds r else cancelIds r := by
  cases c <;> rfl
@[simp] theorem cancelIds_start (a : Nat) (r : List Ev) : cancelIds (.start a :: r) = cancelIds r := rfl
@[simp] theorem cancelIds_destroy (a : Nat) (r : List Ev) : cancelIds (.destroy a :: r) = cancelIds r := rfl

end Tbox.C01
