/- C01 — proofs, part 2: the API calls (runInLoop / runNext / cancel / exitLoop) preserve `Inv`. -/
import TboxModel.C01.Proofs1
namespace Tbox.C01

/-- transfer of `Inv` across a state change that leaves the loop-thread control state alone -/
theorem inv_api {s s' : State} (h : Inv s) (hcore : Core s')
    (hap : s'.inAlloc % 2 = 0 ∧ s'.nextAlloc % 2 = 1)
    (hpi : ∀ t ∈ s'.inLoopQ, t.id % 2 = 0) (hpn : ∀ t ∈ s'.nextQ, t.id % 2 = 1)
    (hph : s'.phase = s.phase) (ht : s.tmpQ = [] → s'.tmpQ = []) (hcur : s'.cur = s.cur) (hd : s'.dQ = s.dQ)
    (hrem : s'.remain = s.remain) (hdes : s'.destroying = s.destroying) (hefd : s'.efd.isSome = s.efd.isSome)
    (hlt : s'.loopTid = s.loopTid) (hex : s'.executed = s.executed) (hep : s'.exitPending = s.exitPending)
    (hld : lastDriver s'.log = lastDriver s.log) (heo : execsOk s'.log = execsOk s.log)
    (hei : execIds s'.log = execIds s.log) (hci : cancelIds s'.log = s'.cancelled)
    (hxp : ¬(s.phase = .drain ∧ s.remain = 100) ∨
      ∀ id, id ∈ idsOf (s.nextQ ++ s.inLoopQ) → id ∈ idsOf (s'.nextQ ++ s'.inLoopQ)) : Inv s' where
  count := hcore.1
  allocPar := hap
  parIn := hpi
  parNext := hpn
  order := hcore.2
  shapeQuiet := by
    rw [hph, hcur, hd]; intro hp
    obtain ⟨a, b, c⟩ := h.shapeQuiet hp
    exact ⟨ht a, b, c⟩
  shapeBatch := by rw [hph, hd]; exact h.shapeBatch
  shapeDrain := by
    rw [hph, hcur, hd, hrem]; intro hp
    obtain ⟨a, b, c⟩ := h.shapeDrain hp
    exact ⟨ht a, b, c⟩
  fdRun := by rw [hph, hefd, hdes]; exact h.fdRun
  driver := by rw [hph, hld, hlt]; exact h.driver
  execs := by rw [heo]; exact h.execs
  logExec := by rw [hei, hex]; exact h.logExec
  logCanc := hci
  exitPend := by
    rw [hep, hex, hph, hd, hrem]
    intro id hid
    rcases h.exitPend id hid with h1 | ⟨hp, h2 | ⟨hr, h3⟩⟩
    · exact Or.inl h1
    · exact Or.inr ⟨hp, Or.inl h2⟩
    · rcases hxp with hx | hx
      · exact absurd ⟨hp, hr⟩ hx
      · exact Or.inr ⟨hp, Or.inr ⟨hr, hx id h3⟩⟩

/-- `runInLoop` from anywhere -/
theorem submitInLoop_inv (s : State) (tid : Nat) (body : List Act) (h : Inv s) :
    Inv (submitInLoop s tid body) := by
  obtain ⟨fq, fn, ft, fd, -, fa, fna, fph, fcur, frem, fdes, flt, fex, fca, fep, flog, fefd⟩ :=
    submitInLoop_frame s tid body
  generalize submitInLoop s tid body = s' at *
  have hl : line s' = line s ++ [s.inAlloc + 2] := by
    rw [line_def, line_def, fex, ft, fd, fn, fq]; simp
  refine inv_api h (core_submitIn h _ rfl hl fca fa fna) ?_ ?_ ?_ fph (fun e => ft ▸ e) fcur fd frem fdes fefd
    flt fex fep ?_ ?_ ?_ ?_ (Or.inr ?_)
  · have := h.allocPar; rw [fa, fna]; omega
  · rw [fq]; intro t ht
    rcases List.mem_append.1 ht with ht | ht
    · exact h.parIn t ht
    · have := h.allocPar; simp at ht; subst ht; simp; omega
  · rw [fn]; exact h.parNext
  · rw [flog]; rfl
  · rw [flog]; rfl
  · rw [flog]; rfl
  · rw [flog, fca]; exact h.logCanc
  · intro id hid; rw [fn, fq]
    simp only [idsOf_append, List.mem_append] at hid ⊢
    rcases hid with hid | hid
    · exact Or.inl hid
    · exact Or.inr (Or.inl hid)

/-- `runNext` -/
theorem submitNext_inv (s : State) (tid : Nat) (body : List Act) (h : Inv s) :
    Inv (submitNext s tid body) := by
  have hl : line (submitNext s tid body) =
      (s.executed.reverse ++ (idsOf s.tmpQ ++ idsOf s.dQ ++ idsOf s.nextQ)) ++ (s.nextAlloc + 2) :: idsOf s.inLoopQ := by
    rw [line_def]; simp [submitNext]
  have hs : line s = (s.executed.reverse ++ (idsOf s.tmpQ ++ idsOf s.dQ ++ idsOf s.nextQ)) ++ idsOf s.inLoopQ := by
    rw [line_def]; simp
  refine inv_api h (core_submitNext h _ _ _ rfl hs (idsOf_par_in _ h.parIn) hl rfl rfl rfl) ?_ h.parIn ?_ rfl (fun e => e) rfl rfl
    rfl rfl rfl rfl rfl rfl rfl rfl rfl h.logCanc (Or.inr ?_)
  · have := h.allocPar; simp only [submitNext]; omega
  · simp only [submitNext]; intro t ht
    rcases List.mem_append.1 ht with ht | ht
    · exact h.parNext t ht
    · have := h.allocPar; simp at ht; subst ht; simp; omega
  · intro id hid
    simp only [submitNext, idsOf_append, List.mem_append] at hid ⊢
    rcases hid with hid | hid
    · exact Or.inl (Or.inl hid)
    · exact Or.inr hid

theorem removeId_nil (id : Nat) : removeId [] id = [] := rfl

theorem mem_removeId {q : List Task} {id : Nat} {t : Task} (h : t ∈ removeId q id) : t ∈ q := by
  simp only [removeId, List.mem_filter] at h; exact h.1

theorem removeId_eq_nil_of_nil {q : List Task} (id : Nat) (h : removeId q id ≠ []) : q ≠ [] := by
  intro e; subst e; exact h rfl

/-- `cancel` (not at the very start of a drain, where the ghost `exitPending` was just taken) -/
theorem cancel_inv (s : State) (id : Nat) (h : Inv s) (hnd : ¬(s.phase = .drain ∧ s.remain = 100)) :
    Inv (cancel s id) := by
  have hlc : ∀ ok, cancelIds (Ev.cancel id ok :: s.log) = if ok then id :: s.cancelled else s.cancelled := by
    intro ok; rw [cancelIds_cancel, h.logCanc]
  by_cases h0 : id = 0
  · -- nothing happens
    have e : cancel s id = { s with log := .cancel id false :: s.log } := by
      simp [cancel, cancelRet, h0]
    rw [e]
    refine inv_api h (core_same h rfl rfl rfl rfl) h.allocPar h.parIn h.parNext rfl (fun e => e) rfl rfl rfl rfl rfl
      rfl rfl rfl rfl rfl rfl ?_ (Or.inl hnd)
    simpa using hlc false
  by_cases h1 : hasId s.tmpQ id = true
  · have e : cancel s id = { s with tmpQ := removeId s.tmpQ id, cancelled := id :: s.cancelled,
                                     log := .cancel id true :: s.log } := by
      simp [cancel, cancelRet, h0, h1]
    rw [e]
    have hm : id ∈ idsOf s.tmpQ := (hasId_iff _ _).1 h1
    have hs : line s = s.executed.reverse ++ idsOf s.tmpQ ++ (idsOf s.dQ ++ idsOf s.nextQ ++ idsOf s.inLoopQ) := by
      rw [line_def]; simp
    refine inv_api h (core_cancel h id _ _ _ hs
      (by rw [line_def]; simp [idsOf_removeId]) (by simp [hm]) rfl rfl) h.allocPar h.parIn h.parNext rfl (fun e => by simp [e, removeId_nil]) rfl rfl rfl rfl rfl
      rfl rfl rfl rfl rfl rfl ?_ (Or.inl hnd)
    simpa using hlc true
  by_cases h2 : id % 2 = 1
  · have e : cancel s id = { s with nextQ := removeId s.nextQ id,
                                     cancelled := if hasId s.nextQ id then id :: s.cancelled else s.cancelled,
                                     log := .cancel id (hasId s.nextQ id) :: s.log } := by
      simp [cancel, cancelRet, h0, h1, h2]
    rw [e]
    have hs : line s = (s.executed.reverse ++ (idsOf s.tmpQ ++ idsOf s.dQ)) ++ idsOf s.nextQ ++ idsOf s.inLoopQ := by
      rw [line_def]; simp
    refine inv_api h (core_cancel h id _ _ _ hs
      (by rw [line_def]; simp [idsOf_removeId]) (by simp only [← hasId_iff]) rfl rfl) h.allocPar h.parIn (fun t ht => h.parNext t (mem_removeId ht)) rfl (fun e => e) rfl rfl rfl rfl rfl
      rfl rfl rfl rfl rfl rfl ?_ (Or.inl hnd)
    exact hlc _
  · have e : cancel s id = { s with inLoopQ := removeId s.inLoopQ id,
                                     cancelled := if hasId s.inLoopQ id then id :: s.cancelled else s.cancelled,
                                     log := .cancel id (hasId s.inLoopQ id) :: s.log } := by
      simp [cancel, cancelRet, h0, h1, h2]
    rw [e]
    have hs : line s = (s.executed.reverse ++ (idsOf s.tmpQ ++ idsOf s.dQ ++ idsOf s.nextQ)) ++ idsOf s.inLoopQ ++ [] := by
      rw [line_def]; simp
    refine inv_api h (core_cancel h id _ _ _ hs
      (by rw [line_def]; simp [idsOf_removeId]) (by simp only [← hasId_iff]) rfl rfl) h.allocPar (fun t ht => h.parIn t (mem_removeId ht)) h.parNext rfl (fun e => e) rfl rfl rfl rfl rfl
      rfl rfl rfl rfl rfl rfl ?_ (Or.inl hnd)
    exact hlc _

/-- `exitLoop` -/
theorem exit_inv (s : State) (h : Inv s) : Inv { s with keepRunning := false } :=
  inv_api h (core_same h rfl rfl rfl rfl) h.allocPar h.parIn h.parNext rfl (fun e => e) rfl rfl rfl rfl rfl
    rfl rfl rfl rfl rfl rfl h.logCanc (Or.inr fun _ hid => hid)

theorem flags_inv (s : State) (k e : Bool) (h : Inv s) : Inv { s with keepRunning := k, exitTimer := e } :=
  { count := h.count, allocPar := h.allocPar, parIn := h.parIn, parNext := h.parNext, order := h.order,
    shapeQuiet := h.shapeQuiet, shapeBatch := h.shapeBatch, shapeDrain := h.shapeDrain, fdRun := h.fdRun,
    driver := h.driver, execs := h.execs, logExec := h.logExec, logCanc := h.logCanc, exitPend := h.exitPend }

theorem dropExitTimer_inv (s : State) (tid : Nat) (h : Inv s) : Inv (dropExitTimer s tid) := by
  unfold dropExitTimer
  split
  · have := flags_inv _ (submitNext s tid []).keepRunning false (submitNext_inv s tid [] h)
    exact this
  · exact h

theorem doAct_inv (cfg : Cfg) (s : State) (tid : Nat) (a : Act) (h : Inv s)
    (hnd : ¬(s.phase = .drain ∧ s.remain = 100)) : Inv (doAct cfg s tid a) := by
  cases a with
  | inLoop k => exact submitInLoop_inv s tid _ h
  | next k => exact submitNext_inv s tid _ h
  | cancel id => exact cancel_inv s id h hnd
  | exit => exact flags_inv _ false (dropExitTimer s tid).exitTimer (dropExitTimer_inv s tid h)
  | exitLater => exact flags_inv _ (dropExitTimer s tid).keepRunning true (dropExitTimer_inv s tid h)
  | throw =>
    exact { count := h.count, allocPar := h.allocPar, parIn := h.parIn, parNext := h.parNext, order := h.order,
            shapeQuiet := fun hp => ⟨(h.shapeQuiet hp).1, rfl, (h.shapeQuiet hp).2.2⟩,
            shapeBatch := h.shapeBatch,
            shapeDrain := fun hp => ⟨(h.shapeDrain hp).1, fun hr => ⟨rfl, ((h.shapeDrain hp).2.1 hr).2⟩, (h.shapeDrain hp).2.2⟩,
            fdRun := h.fdRun, driver := h.driver, execs := h.execs, logExec := h.logExec, logCanc := h.logCanc,
            exitPend := h.exitPend }

/-! ### the wake-up invariant across API calls -/

theorem submitInLoop_wake (s : State) (tid : Nat) (body : List Act) (hw : WakeInv s) :
    WakeInv (submitInLoop s tid body) := by
  simp only [submitInLoop]
  split
  · rename_i hsome
    unfold commit
    split
    · rename_i hc
      simp only at hc
      exact ⟨hw.counter, hw.closed, fun _ _ => hc⟩
    · rename_i hc
      simp only [Bool.not_eq_true] at hc
      refine ⟨?_, ?_, ?_⟩
      · intro n hn
        cases he : s.efd with
        | none => simp [he] at hsome
        | some m =>
          have := hw.counter m he
          simp [hc] at this
          simp [he, this] at hn ⊢
          omega
      · intro hn
        cases he : s.efd with
        | none => simp [he] at hsome
        | some m => simp [he] at hn
      · intro _ _; rfl
  · rename_i hsome
    simp only [Bool.not_eq_true, Option.isSome_eq_false_iff, Option.isNone_iff_eq_none] at hsome
    refine ⟨?_, hw.closed, ?_⟩
    · intro n hn; simp [hsome] at hn
    · intro hn; simp [hsome] at hn

theorem submitNext_wake (s : State) (tid : Nat) (body : List Act) (hw : WakeInv s) :
    WakeInv (submitNext s tid body) := ⟨hw.counter, hw.closed, hw.armed⟩

theorem cancel_wake (s : State) (id : Nat) (hw : WakeInv s) : WakeInv (cancel s id) := by
  have key : (cancel s id).efd = s.efd ∧ (cancel s id).hasCommit = s.hasCommit ∧
      ((cancel s id).inLoopQ ≠ [] → s.inLoopQ ≠ []) := by
    simp only [cancel]
    split
    · exact ⟨rfl, rfl, fun e => e⟩
    · split
      · exact ⟨rfl, rfl, fun e => e⟩
      · split
        · exact ⟨rfl, rfl, fun e => e⟩
        · exact ⟨rfl, rfl, removeId_eq_nil_of_nil id⟩
  obtain ⟨k1, k2, k3⟩ := key
  refine ⟨?_, ?_, ?_⟩
  · rw [k1, k2]; exact hw.counter
  · rw [k1, k2]; exact hw.closed
  · rw [k1, k2]; exact fun a b => hw.armed a (k3 b)

theorem dropExitTimer_wake (s : State) (tid : Nat) (hw : WakeInv s) : WakeInv (dropExitTimer s tid) := by
  unfold dropExitTimer
  split
  · have := submitNext_wake s tid [] hw
    exact ⟨this.counter, this.closed, this.armed⟩
  · exact hw

theorem doAct_wake (cfg : Cfg) (s : State) (tid : Nat) (a : Act) (hw : WakeInv s) : WakeInv (doAct cfg s tid a) := by
  cases a with
  | inLoop k => exact submitInLoop_wake s tid _ hw
  | next k => exact submitNext_wake s tid _ hw
  | cancel id => exact cancel_wake s id hw
  | exit => have := dropExitTimer_wake s tid hw; exact ⟨this.counter, this.closed, this.armed⟩
  | exitLater => have := dropExitTimer_wake s tid hw; exact ⟨this.counter, this.closed, this.armed⟩
  | throw => exact ⟨hw.counter, hw.closed, hw.armed⟩

end Tbox.C01
