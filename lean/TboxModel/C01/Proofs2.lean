/- C01 — proofs, part 2: the API calls (runInLoop / runNext / cancel / exitLoop) preserve `Inv`. -/
import TboxModel.C01.Proofs1
namespace Tbox.C01

/-- transfer of `Inv` across a state change that leaves the loop-thread control state alone -/
theorem inv_api {s s' : State} (h : Inv s) (hcore : Core s')
    (hap : s'.inAlloc % 2 = 0 ∧ s'.nextAlloc % 2 = 1)
    (hpi : ∀ t ∈ s'.inLoopQ, t.id % 2 = 0) (hpn : ∀ t ∈ s'.nextQ, t.id % 2 = 1)
    (hph : s'.phase = s.phase) (ht : s.tmpQ = [] → s'.tmpQ = []) (hcur : s'.cur = s.cur) (hd : s'.dQ = s.dQ)
    (hrem : s'.remain = s.remain) (hdes : s'.destroying = s.destroying) (hefd : s'.efd.isSome = s.efd.isSome)
    (hlt : s'.loopTid = s.loopTid) (hex : s'.executed = s.executed) (hep : s'.exitPending = s.exitPending)
    (hld : lastDriver s'.log = lastDriver s.log) (heo : execsOk s'.log = execsOk s.log)
    (hei : execIds s'.log = execIds s.log) (hci : cancelIds s'.log = s'.cancelled)
    (hxp : ¬(s.phase = .drain ∧ s.remain = 100) ∨
      ∀ id, id ∈ idsOf (s.nextQ ++ s.inLoopQ) → id ∈ idsOf (s'.nextQ ++ s'.inLoopQ)) : Inv s' where
  count := hcore.1
  allocPar := hap
  parIn := hpi
  parNext := hpn
  order := hcore.2
  shapeQuiet := by
    rw [hph, hcur, hd]; intro hp
    obtain ⟨a, b, c⟩ := h.shapeQuiet hp
    exact ⟨ht a, b, c⟩
  shapeBatch := by rw [hph, hd]; exact h.shapeBatch
  shapeDrain := by
    rw [hph, hcur, hd, hrem]; intro hp
    obtain ⟨a, b, c⟩ := h.shapeDrain hp
    exact ⟨ht a, b, c⟩
  fdRun := by rw [hph, hefd, hdes]; exact h.fdRun
  driver := by rw [hph, hld, hlt]; exact h.driver
  execs := by rw [heo]; exact h.execs
  logExec := by rw [hei, hex]; exact h.logExec
  logCanc := hci
  exitPend := by
    rw [hep, hex, hph, hd, hrem]
    intro id hid
    rcases h.exitPend id hid with h1 | ⟨hp, h2 | ⟨hr, h3⟩⟩
    · exact Or.inl h1
    · exact Or.inr ⟨hp, Or.inl h2⟩
    · rcases hxp with hx | hx
      · exact absurd ⟨hp, hr⟩ hx
      · exact Or.inr ⟨hp, Or.inr ⟨hr, hx id h3⟩⟩

/-- a change of fields the invariant does not look at -/
theorem inv_congr {s s' : State} (h : Inv s)
    (e1 : s'.inLoopQ = s.inLoopQ) (e2 : s'.nextQ = s.nextQ) (e3 : s'.tmpQ = s.tmpQ) (e4 : s'.dQ = s.dQ)
    (e5 : s'.efd.isSome = s.efd.isSome) (e6 : s'.inAlloc = s.inAlloc) (e7 : s'.nextAlloc = s.nextAlloc)
    (e8 : s'.phase = s.phase) (e9 : s'.cur = s.cur) (e10 : s'.remain = s.remain) (e11 : s'.destroying = s.destroying)
    (e12 : s'.loopTid = s.loopTid) (e13 : s'.executed = s.executed) (e14 : s'.cancelled = s.cancelled)
    (e15 : s'.exitPending = s.exitPending) (e16 : s'.log = s.log) : Inv s' := by
  have hl : line s' = line s := by rw [line_def, line_def, e13, e3, e4, e2, e1]
  refine inv_api h (core_same h hl e14 e6 e7) (by rw [e6, e7]; exact h.allocPar) (by rw [e1]; exact h.parIn)
    (by rw [e2]; exact h.parNext) e8 (fun e => by rw [e3]; exact e) e9 e4 e10 e11 e5 e12 e13 e15 (by rw [e16]) (by rw [e16])
    (by rw [e16]) (by rw [e16, e14]; exact h.logCanc) (Or.inr ?_)
  intro id hid; rw [e2, e1]; exact hid

/-- `runInLoop` from anywhere -/
theorem submitInLoop_inv (s : State) (tid : Nat) (body : List Act) (h : Inv s) :
    Inv (submitInLoop s tid body) := by
  obtain ⟨fq, fn, ft, fd, -, fa, fna, fph, fcur, frem, fdes, flt, fex, fca, fep, flog, fefd⟩ :=
    submitInLoop_frame s tid body
  generalize submitInLoop s tid body = s' at *
  have hl : line s' = line s ++ [s.inAlloc + 2] := by
    rw [line_def, line_def, fex, ft, fd, fn, fq]; simp
  refine inv_api h (core_submitIn h _ rfl hl fca fa fna) ?_ ?_ ?_ fph (fun e => ft ▸ e) fcur fd frem fdes fefd
    flt fex fep ?_ ?_ ?_ ?_ (Or.inr ?_)
  · have := h.allocPar; rw [fa, fna]; omega
  · rw [fq]; intro t ht
    rcases List.mem_append.1 ht with ht | ht
    · exact h.parIn t ht
    · have := h.allocPar; simp at ht; subst ht; simp; omega
  · rw [fn]; exact h.parNext
  · rw [flog]; rfl
  · rw [flog]; rfl
  · rw [flog]; rfl
  · rw [flog, fca]; exact h.logCanc
  · intro id hid; rw [fn, fq]
    simp only [idsOf_append, List.mem_append] at hid ⊢
    rcases hid with hid | hid
    · exact Or.inl hid
    · exact Or.inr (Or.inl hid)

/-- `runNext` -/
theorem submitNext_inv (s : State) (tid : Nat) (body : List Act) (h : Inv s) :
    Inv (submitNext s tid body) := by
  have hl : line (submitNext s tid body) =
      (s.executed.reverse ++ (idsOf s.tmpQ ++ idsOf s.dQ ++ idsOf s.nextQ)) ++ (s.nextAlloc + 2) :: idsOf s.inLoopQ := by
    rw [line_def]; simp [submitNext, noteNext]
  have hs : line s = (s.executed.reverse ++ (idsOf s.tmpQ ++ idsOf s.dQ ++ idsOf s.nextQ)) ++ idsOf s.inLoopQ := by
    rw [line_def]; simp
  refine inv_api h (core_submitNext h _ _ _ rfl hs (idsOf_par_in _ h.parIn) hl rfl rfl rfl) ?_ h.parIn ?_ rfl (fun e => e) rfl rfl
    rfl rfl rfl rfl rfl rfl rfl rfl rfl h.logCanc (Or.inr ?_)
  · have := h.allocPar; simp only [submitNext, noteNext]; omega
  · simp only [submitNext, noteNext]; intro t ht
    rcases List.mem_append.1 ht with ht | ht
    · exact h.parNext t ht
    · have := h.allocPar; simp at ht; subst ht; simp; omega
  · intro id hid
    simp only [submitNext, noteNext, idsOf_append, List.mem_append] at hid ⊢
    rcases hid with hid | hid
    · exact Or.inl (Or.inl hid)
    · exact Or.inr hid

theorem removeId_nil (id : Nat) : removeId [] id = [] := rfl

theorem mem_removeId {q : List Task} {id : Nat} {t : Task} (h : t ∈ removeId q id) : t ∈ q := by
  simp only [removeId, List.mem_filter] at h; exact h.1

theorem removeId_eq_nil_of_nil {q : List Task} (id : Nat) (h : removeId q id ≠ []) : q ≠ [] := by
  intro e; subst e; exact h rfl

/-- `cancel` (not at the very start of a drain, where the ghost `exitPending` was just taken) -/
theorem cancel_inv (s : State) (id : Nat) (h : Inv s) (hnd : ¬(s.phase = .drain ∧ s.remain = 100)) :
    Inv (cancel s id) := by
  have hlc : ∀ ok, cancelIds (Ev.cancel id ok :: s.log) = if ok then id :: s.cancelled else s.cancelled := by
    intro ok; rw [cancelIds_cancel, h.logCanc]
  by_cases h0 : id = 0
  · -- nothing happens
    have e : cancel s id = { s with log := .cancel id false :: s.log } := by
      simp [cancel, cancelRet, h0]
    rw [e]
    refine inv_api h (core_same h rfl rfl rfl rfl) h.allocPar h.parIn h.parNext rfl (fun e => e) rfl rfl rfl rfl rfl
      rfl rfl rfl rfl rfl rfl ?_ (Or.inl hnd)
    simpa using hlc false
  by_cases h1 : hasId s.tmpQ id = true
  · have e : cancel s id = { s with tmpQ := removeId s.tmpQ id, cancelled := id :: s.cancelled,
                                     log := .cancel id true :: s.log } := by
      simp [cancel, cancelRet, h0, h1]
    rw [e]
    have hm : id ∈ idsOf s.tmpQ := (hasId_iff _ _).1 h1
    have hs : line s = s.executed.reverse ++ idsOf s.tmpQ ++ (idsOf s.dQ ++ idsOf s.nextQ ++ idsOf s.inLoopQ) := by
      rw [line_def]; simp
    refine inv_api h (core_cancel h id _ _ _ hs
      (by rw [line_def]; simp [idsOf_removeId]) (by simp [hm]) rfl rfl) h.allocPar h.parIn h.parNext rfl (fun e => by simp [e, removeId_nil]) rfl rfl rfl rfl rfl
      rfl rfl rfl rfl rfl rfl ?_ (Or.inl hnd)
    simpa using hlc true
  by_cases h2 : id % 2 = 1
  · have e : cancel s id = { s with nextQ := removeId s.nextQ id,
                                     cancelled := if hasId s.nextQ id then id :: s.cancelled else s.cancelled,
                                     log := .cancel id (hasId s.nextQ id) :: s.log } := by
      simp [cancel, cancelRet, h0, h1, h2]
    rw [e]
    have hs : line s = (s.executed.reverse ++ (idsOf s.tmpQ ++ idsOf s.dQ)) ++ idsOf s.nextQ ++ idsOf s.inLoopQ := by
      rw [line_def]; simp
    refine inv_api h (core_cancel h id _ _ _ hs
      (by rw [line_def]; simp [idsOf_removeId]) (by simp only [← hasId_iff]) rfl rfl) h.allocPar h.parIn (fun t ht => h.parNext t (mem_removeId ht)) rfl (fun e => e) rfl rfl rfl rfl rfl
      rfl rfl rfl rfl rfl rfl ?_ (Or.inl hnd)
    exact hlc _
  · have e : cancel s id = { s with inLoopQ := removeId s.inLoopQ id,
                                     cancelled := if hasId s.inLoopQ id then id :: s.cancelled else s.cancelled,
                                     log := .cancel id (hasId s.inLoopQ id) :: s.log } := by
      simp [cancel, cancelRet, h0, h1, h2]
    rw [e]
    have hs : line s = (s.executed.reverse ++ (idsOf s.tmpQ ++ idsOf s.dQ ++ idsOf s.nextQ)) ++ idsOf s.inLoopQ ++ [] := by
      rw [line_def]; simp
    refine inv_api h (core_cancel h id _ _ _ hs
      (by rw [line_def]; simp [idsOf_removeId]) (by simp only [← hasId_iff]) rfl rfl) h.allocPar (fun t ht => h.parIn t (mem_removeId ht)) h.parNext rfl (fun e => e) rfl rfl rfl rfl rfl
      rfl rfl rfl rfl rfl rfl ?_ (Or.inl hnd)
    exact hlc _

/-- `exitLoop` -/
theorem exit_inv (s : State) (h : Inv s) : Inv { s with keepRunning := false } :=
  inv_api h (core_same h rfl rfl rfl rfl) h.allocPar h.parIn h.parNext rfl (fun e => e) rfl rfl rfl rfl rfl
    rfl rfl rfl rfl rfl rfl h.logCanc (Or.inr fun _ hid => hid)

theorem flags_inv (s : State) (k e : Bool) (h : Inv s) : Inv { s with keepRunning := k, exitTimer := e } :=
  inv_congr h rfl rfl rfl rfl rfl rfl rfl rfl rfl rfl rfl rfl rfl rfl rfl rfl

theorem dropExitTimer_inv (s : State) (tid : Nat) (h : Inv s) : Inv (dropExitTimer s tid) := by
  unfold dropExitTimer
  split
  · exact inv_congr (submitNext_inv s tid [] h) rfl rfl rfl rfl rfl rfl rfl rfl rfl rfl rfl rfl rfl rfl rfl rfl
  · exact h

theorem dropExitTimer_frame (s : State) (tid : Nat) :
    (dropExitTimer s tid).phase = s.phase ∧ (dropExitTimer s tid).tmpQ = s.tmpQ ∧ (dropExitTimer s tid).cur = s.cur ∧
    (dropExitTimer s tid).dQ = s.dQ ∧ (dropExitTimer s tid).executed = s.executed ∧
    (dropExitTimer s tid).exitPending = s.exitPending ∧ (dropExitTimer s tid).destroying = s.destroying ∧
    (dropExitTimer s tid).efd = s.efd ∧ (dropExitTimer s tid).hasCommit = s.hasCommit ∧ (dropExitTimer s tid).wrLost = s.wrLost ∧
    (dropExitTimer s tid).inLoopQ = s.inLoopQ ∧ (dropExitTimer s tid).loopTid = s.loopTid ∧
    ((dropExitTimer s tid).timerDue = true → s.timerDue = true) := by
  unfold dropExitTimer
  split <;> simp [submitNext, noteNext]

theorem doAct_inv (cfg : Cfg) (s : State) (tid : Nat) (a : Act) (h : Inv s)
    (hnd : ¬(s.phase = .drain ∧ s.remain = 100)) : Inv (doAct cfg s tid a) := by
  cases a with
  | inLoop k => exact submitInLoop_inv s tid _ h
  | next k => exact submitNext_inv s tid _ h
  | cancel id => exact cancel_inv s id h hnd
  | exit => exact flags_inv _ false (dropExitTimer s tid).exitTimer (dropExitTimer_inv s tid h)
  | exitLater w => exact inv_congr (dropExitTimer_inv s tid h) rfl rfl rfl rfl rfl rfl rfl rfl rfl rfl rfl rfl rfl rfl rfl rfl
  | run k =>
    simp only [doAct]
    split
    · exact submitInLoop_inv s tid _ h
    · exact submitNext_inv s tid _ h
  | nestedRun => exact h
  | throw =>
    exact { count := h.count, allocPar := h.allocPar, parIn := h.parIn, parNext := h.parNext, order := h.order,
            shapeQuiet := fun hp => ⟨(h.shapeQuiet hp).1, rfl, (h.shapeQuiet hp).2.2⟩,
            shapeBatch := h.shapeBatch,
            shapeDrain := fun hp => ⟨(h.shapeDrain hp).1, fun hr => ⟨rfl, ((h.shapeDrain hp).2.1 hr).2⟩, (h.shapeDrain hp).2.2⟩,
            fdRun := h.fdRun, driver := h.driver, execs := h.execs, logExec := h.logExec, logCanc := h.logCanc,
            exitPend := h.exitPend }

/-! ### the wake-up invariant across API calls -/

/-- transfer across a change that leaves the wake-up variables alone -/
theorem wake_congr {s s' : State} (hw : WakeInv s) (e1 : s'.efd = s.efd) (e2 : s'.hasCommit = s.hasCommit)
    (e3 : s'.wrLost = s.wrLost) (e4 : s'.inLoopQ ≠ [] → s.inLoopQ ≠ []) : WakeInv s' :=
  ⟨by rw [e1, e2, e3]; exact hw.counter, by rw [e1, e2]; exact hw.closed, by rw [e1, e2]; exact fun a b => hw.armed a (e4 b)⟩

/-- `commitRunRequest` with an eventfd in place establishes the whole invariant -/
theorem commit_wake (s : State)
    (hc : ∀ n, s.efd = some n → s.hasCommit = true → s.wrLost = false → 0 < n)
    (hsome : s.efd.isSome = true) : WakeInv (commit s) ∧ (commit s).hasCommit = true := by
  obtain ⟨m, hm⟩ := Option.isSome_iff_exists.1 hsome
  unfold commit
  split
  · rename_i hcm
    exact ⟨⟨hc, fun hn => (by rw [hm] at hn; cases hn), fun _ _ => hcm⟩, hcm⟩
  · split
    · refine ⟨⟨?_, ?_, ?_⟩, rfl⟩
      · intro n _ _ hl; simp at hl
      · intro hn; simp [hm] at hn
      · intro _ _; rfl
    · refine ⟨⟨?_, ?_, ?_⟩, rfl⟩
      · intro n hn _ _; simp [hm] at hn; omega
      · intro hn; simp [hm] at hn
      · intro _ _; rfl

theorem commitIf_wake (s0 s : State) (hw : WakeInv s0) (e1 : s.efd = s0.efd) (e2 : s.hasCommit = s0.hasCommit)
    (e3 : s.wrLost = s0.wrLost) : WakeInv (if s.efd.isSome then commit s else s) := by
  have hc : ∀ n, s.efd = some n → s.hasCommit = true → s.wrLost = false → 0 < n := by rw [e1, e2, e3]; exact hw.counter
  have hcl : s.efd = none → s.hasCommit = false := by rw [e1, e2]; exact hw.closed
  split
  · rename_i hsome
    exact (commit_wake _ hc hsome).1
  · rename_i hsome
    simp only [Bool.not_eq_true, Option.isSome_eq_false_iff, Option.isNone_iff_eq_none] at hsome
    refine ⟨hc, hcl, ?_⟩
    intro hn; simp [hsome] at hn

theorem submitInLoop_wake (s : State) (tid : Nat) (body : List Act) (hw : WakeInv s) :
    WakeInv (submitInLoop s tid body) := by
  simp only [submitInLoop]
  have key := commitIf_wake s { s with inAlloc := s.inAlloc + 2, inLoopQ := s.inLoopQ ++ [{ id := s.inAlloc + 2, owner := tid, body := body }], log := .sub (s.inAlloc + 2) tid false :: s.log } hw rfl rfl rfl
  exact wake_congr key rfl rfl rfl (fun e => e)

theorem submitNext_wake (s : State) (tid : Nat) (body : List Act) (hw : WakeInv s) :
    WakeInv (submitNext s tid body) := wake_congr hw rfl rfl rfl (fun e => e)

theorem cancel_wake (s : State) (id : Nat) (hw : WakeInv s) : WakeInv (cancel s id) := by
  have key : (cancel s id).efd = s.efd ∧ (cancel s id).hasCommit = s.hasCommit ∧ (cancel s id).wrLost = s.wrLost ∧
      ((cancel s id).inLoopQ ≠ [] → s.inLoopQ ≠ []) := by
    simp only [cancel]
    split
    · exact ⟨rfl, rfl, rfl, fun e => e⟩
    · split
      · exact ⟨rfl, rfl, rfl, fun e => e⟩
      · split
        · exact ⟨rfl, rfl, rfl, fun e => e⟩
        · exact ⟨rfl, rfl, rfl, removeId_eq_nil_of_nil id⟩
  obtain ⟨k1, k2, k3, k4⟩ := key
  exact wake_congr hw k1 k2 k3 k4

theorem dropExitTimer_wake (s : State) (tid : Nat) (hw : WakeInv s) : WakeInv (dropExitTimer s tid) := by
  unfold dropExitTimer
  split
  · exact wake_congr (submitNext_wake s tid [] hw) rfl rfl rfl (fun e => e)
  · exact hw

theorem doAct_wake (cfg : Cfg) (s : State) (tid : Nat) (a : Act) (hw : WakeInv s) : WakeInv (doAct cfg s tid a) := by
  cases a with
  | inLoop k => exact submitInLoop_wake s tid _ hw
  | next k => exact submitNext_wake s tid _ hw
  | cancel id => exact cancel_wake s id hw
  | exit => exact wake_congr (dropExitTimer_wake s tid hw) rfl rfl rfl (fun e => e)
  | exitLater w => exact wake_congr (dropExitTimer_wake s tid hw) rfl rfl rfl (fun e => e)
  | throw => exact wake_congr hw rfl rfl rfl (fun e => e)
  | run k =>
    simp only [doAct]
    split
    · exact submitInLoop_wake s tid _ hw
    · exact submitNext_wake s tid _ hw
  | nestedRun => exact hw

end Tbox.C01
